/-
  Proofs/TokTie_Run2.lean — the TEXT `_format_segment` produces for a run: un-escaping, then the sequential
  `str.replace` of the used part names by their values (longest name first) yields the concatenation of the literal
  characters and the part values (`formatSegment_run_result`).
-/
import BumpverVerif.Proofs.TokTie_Run1
namespace BV

structure RunHyp2 (v : VInfo) (run : List Atom) : Prop extends RunHyp v run where
  lits : ∀ c, Atom.lit c ∈ run → litOk c = true
  safeU : safeItemsK (run.map Atom.uitem) []
  valok : ∀ n, Atom.tok n ∈ run → ValOk v n
  finj : ∀ n n', Atom.tok n ∈ run → Atom.tok n' ∈ run → fieldOf n = fieldOf n' → n = n'

/-! ### un-escaping -/

def Atom.mid : Atom → Str
  | .lit c => if c == '[' then ['['] else if c == ']' then ['\\', ']'] else [c]
  | .tok n => n

theorem nameChar_ne_bs {n : Str} (hn : n ∈ partNames) : '\\' ∉ n := by
  intro h
  have := name_chars hn _ h
  exact absurd this (by decide)

theorem unescape1 (run : List Atom) (hl : ∀ c, Atom.lit c ∈ run → litOk c = true)
    (hn : ∀ n, Atom.tok n ∈ run → n ∈ partNames) :
    replaceAll ['\\', '['] ['['] (runText run) = run.flatMap Atom.mid := by
  induction run with
  | nil => simp [runText, replaceAll_nil]
  | cons a r ih =>
    have ihr := ih (fun c hc => hl c (List.mem_cons_of_mem _ hc)) (fun n h => hn n (List.mem_cons_of_mem _ h))
    simp only [runText, List.flatMap_cons] at ihr ⊢
    cases a with
    | tok n =>
      have hbs := nameChar_ne_bs (hn n List.mem_cons_self)
      rw [show Atom.text (.tok n) = n from rfl,
        replaceAll_skip _ _ (by simp) n _ (no_occ_of_head '\\' ['['] n _ hbs), ihr]
      rfl
    | lit c =>
      have hc := litOk_ne_bs (hl c List.mem_cons_self)
      by_cases h1 : c = '['
      · subst h1
        rw [show Atom.text (.lit '[') = ['\\', '['] from rfl, replaceAll_hit _ _ (by simp), ihr]
        rfl
      · by_cases h2 : c = ']'
        · subst h2
          rw [show Atom.text (.lit ']') = ['\\', ']'] from rfl, replaceAll_skip _ _ (by simp) ['\\', ']'] _ ?_, ihr]
          · rfl
          · intro o ho
            have : o = 0 ∨ o = 1 := by simp at ho; omega
            rcases this with rfl | rfl <;> simp [List.isPrefixOf]
        · have e : Atom.text (.lit c) = [c] := by simp [Atom.text, litText, h1, h2]
          have e' : Atom.mid (.lit c) = [c] := by simp [Atom.mid, h1, h2]
          rw [e, e', replaceAll_skip _ _ (by simp) [c] _
            (no_occ_of_head '\\' ['['] [c] _ (by simpa using fun e => hc e.symm)), ihr]

theorem unescape2 (run : List Atom) (hl : ∀ c, Atom.lit c ∈ run → litOk c = true)
    (hn : ∀ n, Atom.tok n ∈ run → n ∈ partNames) :
    replaceAll ['\\', ']'] [']'] (run.flatMap Atom.mid) = srcAll (run.map Atom.uitem) := by
  induction run with
  | nil => simp [srcAll, replaceAll_nil]
  | cons a r ih =>
    have ihr := ih (fun c hc => hl c (List.mem_cons_of_mem _ hc)) (fun n h => hn n (List.mem_cons_of_mem _ h))
    simp only [List.flatMap_cons, List.map_cons, srcAll_cons]
    cases a with
    | tok n =>
      have hbs := nameChar_ne_bs (hn n List.mem_cons_self)
      rw [show Atom.mid (.tok n) = n from rfl,
        replaceAll_skip _ _ (by simp) n _ (no_occ_of_head '\\' [']'] n _ hbs), ihr]
      rfl
    | lit c =>
      have hc := litOk_ne_bs (hl c List.mem_cons_self)
      by_cases h1 : c = '['
      · subst h1
        rw [show Atom.mid (.lit '[') = ['['] from rfl, replaceAll_skip _ _ (by simp) ['['] _
          (no_occ_of_head '\\' [']'] ['['] _ (by decide)), ihr]
        rfl
      · by_cases h2 : c = ']'
        · subst h2
          rw [show Atom.mid (.lit ']') = ['\\', ']'] from rfl, replaceAll_hit _ _ (by simp), ihr]
          rfl
        · have e' : Atom.mid (.lit c) = [c] := by simp [Atom.mid, h1, h2]
          rw [e', replaceAll_skip _ _ (by simp) [c] _
            (no_occ_of_head '\\' [']'] [c] _ (by simpa using fun e => hc e.symm)), ihr]
          rfl

theorem not_mem_runText (x : Char) (run : List Atom) (hx : x ≠ '\\') (hnx : nameChar x = false)
    (hl : ∀ c, Atom.lit c ∈ run → c ≠ x) (hn : ∀ n, Atom.tok n ∈ run → n ∈ partNames) : x ∉ runText run := by
  intro h
  simp only [runText, List.mem_flatMap] at h
  obtain ⟨a, ha, hxa⟩ := h
  cases a with
  | tok n =>
    have := name_chars (hn n ha) x hxa
    rw [hnx] at this; cases this
  | lit c =>
    simp only [Atom.text, litText] at hxa
    split at hxa
    · simp only [List.mem_cons, List.not_mem_nil, or_false] at hxa
      rcases hxa with e | e
      · exact hx e
      · exact hl c ha e.symm
    · simp only [List.mem_cons, List.not_mem_nil, or_false] at hxa
      exact hl c ha hxa.symm

/-! ### the replacement loop -/

def mapL (L : List (Str × Str)) : List Item → List Item
  | [] => []
  | .raw s :: r => .raw s :: mapL L r
  | .tok n :: r => (match lookup n L with | some w => Item.raw w | none => Item.tok n) :: mapL L r

theorem substTok_mapL (m w : Str) (L : List (Str × Str)) (items : List Item) :
    substTok m w (mapL L items) = mapL (L ++ [(m, w)]) items := by
  induction items with
  | nil => rfl
  | cons x r ih =>
    cases x with
    | raw s => simp [mapL, substTok, ih]
    | tok n =>
      simp only [mapL, lookup_append_cl]
      cases hl : lookup n L with
      | some w' => simp [substTok, ih]
      | none =>
        simp only [substTok, ih, lookup]
        by_cases hn : n = m
        · subst hn; simp
        · simp [hn]

theorem mapL_no_tok (m w : Str) (L : List (Str × Str)) (items : List Item)
    (h : ∀ n, Item.tok n ∈ items → n ≠ m) : mapL (L ++ [(m, w)]) items = mapL L items := by
  induction items with
  | nil => rfl
  | cons x r ih =>
    have ihr := ih (fun n hn => h n (List.mem_cons_of_mem _ hn))
    cases x with
    | raw s => simp [mapL, ihr]
    | tok n =>
      have hn := h n List.mem_cons_self
      simp only [mapL, lookup_append_cl, ihr]
      cases hl : lookup n L with
      | some w' => rfl
      | none => simp [lookup, hn]

theorem lookup_pvs (v : VInfo) (n : Str) : lookup n (formatPartValues v) = partText v n := by
  cases hp : partText v n with
  | some w =>
    have hm := (mem_pvs_iff v n w).mpr hp
    cases hl : lookup n (formatPartValues v) with
    | none =>
      exfalso
      have : ∀ (l : List (Str × Str)), (n, w) ∈ l → lookup n l ≠ none := by
        intro l
        induction l with
        | nil => intro h; cases h
        | cons e l ih =>
          intro h
          obtain ⟨k, x⟩ := e
          simp only [lookup]
          split
          · simp
          · rename_i hne
            rcases List.mem_cons.mp h with e | e
            · cases e; exact absurd rfl hne
            · exact ih e
      exact this _ hm hl
    | some w' =>
      have := (mem_pvs_iff v n w').mp (lookup_mem_cl n _ w' hl)
      rw [hp] at this
      exact this.symm
  | none =>
    cases hl : lookup n (formatPartValues v) with
    | none => rfl
    | some w' =>
      have := (mem_pvs_iff v n w').mp (lookup_mem_cl n _ w' hl)
      rw [hp] at this; cases this

theorem srcAll_mapL_pvs (v : VInfo) (run : List Atom) :
    srcAll (mapL (formatPartValues v) (run.map Atom.uitem)) = runRender v run := by
  induction run with
  | nil => rfl
  | cons a r ih =>
    simp only [runRender, List.flatMap_cons] at ih ⊢
    cases a with
    | lit c => simp [mapL, Atom.uitem, srcAll_cons, Item.src, Atom.render, ih]
    | tok n =>
      simp only [List.map_cons, Atom.uitem, mapL, lookup_pvs, srcAll_cons, Atom.render, ih]
      cases partText v n <;> rfl

theorem tok_mem_mapL {L : List (Str × Str)} {items : List Item} {n : Str} (h : Item.tok n ∈ mapL L items) :
    Item.tok n ∈ items ∧ lookup n L = none := by
  induction items with
  | nil => cases h
  | cons x r ih =>
    cases x with
    | raw s =>
      simp only [mapL, List.mem_cons] at h
      rcases h with e | e
      · cases e
      · exact ⟨List.mem_cons_of_mem _ (ih e).1, (ih e).2⟩
    | tok n' =>
      simp only [mapL, List.mem_cons] at h
      rcases h with e | e
      · cases hl : lookup n' L with
        | some w => rw [hl] at e; cases e
        | none =>
          rw [hl] at e
          injection e with e'
          subst e'
          exact ⟨List.mem_cons_self, hl⟩
      · exact ⟨List.mem_cons_of_mem _ (ih e).1, (ih e).2⟩

/-- facts about the name that is replaced next -/
structure NextHyp (v : VInfo) (run : List Atom) (pre post : List (Str × Str)) (m w : Str) : Prop where
  split : formatPartValues v = pre ++ (m, w) :: post
  used : isInfix m (runText run) = true

theorem unreplaced_le {v : VInfo} {run : List Atom} (h : RunHyp2 v run) {pre post : List (Str × Str)} {m w : Str}
    (hx : NextHyp v run pre post m w) {n : Str} (hn : Atom.tok n ∈ run) (hl : lookup n pre = none) :
    n.length ≤ m.length := by
  obtain ⟨wn, hwn⟩ := h.vals n hn
  have hmem := (mem_pvs_iff v n wn).mpr hwn
  have hs := pvs_sorted v
  rw [hx.split] at hmem hs
  have hnotpre : (n, wn) ∉ pre := by
    intro hin
    have : ∀ (l : List (Str × Str)), (n, wn) ∈ l → lookup n l ≠ none := by
      intro l
      induction l with
      | nil => intro h; cases h
      | cons e l ih =>
        intro h
        obtain ⟨k, x⟩ := e
        simp only [lookup]
        split
        · simp
        · rename_i hne
          rcases List.mem_cons.mp h with e | e
          · cases e; exact absurd rfl hne
          · exact ih e
    exact this _ hin hl
  rcases List.mem_append.mp hmem with e | e
  · exact absurd e hnotpre
  · rcases List.mem_cons.mp e with e | e
    · cases e; exact Nat.le_refl _
    · have := (List.pairwise_append.mp hs).2.1
      exact (List.pairwise_cons.mp this).1 _ e

theorem mapped_pre {v : VInfo} {run : List Atom} (h : RunHyp2 v run) {pre post : List (Str × Str)} {m w : Str}
    (hx : NextHyp v run pre post m w) :
    ∀ sub : List Atom, (∀ a ∈ sub, a ∈ run) → Mapped m (sub.map Atom.uitem) (mapL pre (sub.map Atom.uitem)) := by
  intro sub
  induction sub with
  | nil => intro _; exact Mapped.nil
  | cons a r ih =>
    intro hsub
    have ihr := ih (fun x hx' => hsub x (List.mem_cons_of_mem _ hx'))
    have ha := hsub a List.mem_cons_self
    cases a with
    | lit c =>
      have hc := h.lits c ha
      refine Mapped.raw [c] _ _ ⟨by simp, ?_⟩ ihr
      intro x hxm
      have : x = c := by simpa using hxm
      subst this
      simp only [litOk, Bool.and_eq_true, Bool.not_eq_true'] at hc
      exact hc.1.1.1
    | tok n =>
      simp only [List.map_cons, Atom.uitem, mapL]
      cases hl : lookup n pre with
      | none => exact Mapped.keep n _ _ ⟨h.names n ha, unreplaced_le h hx ha hl⟩ ihr
      | some w' =>
        obtain ⟨w'', h1, h2, h3⟩ := h.valok n ha
        have hmem : (n, w') ∈ formatPartValues v := by
          rw [hx.split]; exact List.mem_append_left _ (lookup_mem_cl n _ w' hl)
        have := (mem_pvs_iff v n w').mp hmem
        rw [h1] at this
        have e : w'' = w' := Option.some.inj this
        subst e
        exact Mapped.repl n w'' _ _ ⟨h2, h3⟩ ihr

theorem clean_next {v : VInfo} {run : List Atom} (h : RunHyp2 v run) {pre post : List (Str × Str)} {m w : Str}
    (hx : NextHyp v run pre post m w) : cleanFor m (mapL pre (run.map Atom.uitem)) := by
  have hmem : (m, w) ∈ formatPartValues v := by rw [hx.split]; simp
  have hm := pvs_name_mem v m w hmem
  apply cleanFor_of_mapped m hm (mapped_pre h hx run (fun a ha => ha)) h.safeU
  intro hled n hn hhd
  obtain ⟨hn1, hn2⟩ := tok_mem_mapL hn
  have hnr := tok_mem_uitems.mp hn1
  have hle := unreplaced_le h hx hnr hn2
  have hnn := h.names n hnr
  -- TF1: same field
  have hf : fieldOf n = fieldOf m := by
    have := List.all_eq_true.mp (List.all_eq_true.mp tbl_tf1 m hm) n hnn
    simpa [hled, hhd, hle] using this
  -- m is a token of the run
  have hmtok : Atom.tok m ∈ run := by
    have hu : (m, w) ∈ usedOf v (runText run) := List.mem_filter.mpr ⟨hmem, hx.used⟩
    obtain ⟨-, -, n0, hn0, hi⟩ := used_tok h.toRunHyp hu
    have := List.all_eq_true.mp (List.all_eq_true.mp tbl_dli m hm) n0 (h.names n0 hn0)
    have e : m = n0 := by simpa [hled, hi] using this
    rw [e]; exact hn0
  have e := h.finj n m hnr hmtok hf
  subst e
  obtain ⟨k, X, hk, hX, hmk⟩ := digitLed_form hled
  obtain ⟨k', rfl⟩ : ∃ k', k = k' + 1 := ⟨k - 1, by omega⟩
  have h1 : n.head? = some '0' := by rw [hmk]; rfl
  have h2 : n.getLast? = some X := by
    rw [hmk, getLast?_append_ne_nil _ [X] (by simp)]; rfl
  rw [h1, h2] at hhd
  exact upper_ne_zero hX (Option.some.inj hhd).symm

theorem fold_used {v : VInfo} {run : List Atom} (h : RunHyp2 v run) :
    ∀ (post pre : List (Str × Str)), formatPartValues v = pre ++ post →
      (post.filter (fun pv => isInfix pv.1 (runText run))).foldl (fun acc pv => replaceAll pv.1 pv.2 acc)
          (srcAll (mapL pre (run.map Atom.uitem))) =
        srcAll (mapL (formatPartValues v) (run.map Atom.uitem)) := by
  intro post
  induction post with
  | nil => intro pre hs; rw [List.append_nil] at hs; rw [hs]; rfl
  | cons x post ih =>
    intro pre hs
    obtain ⟨m, w⟩ := x
    have hs' : formatPartValues v = (pre ++ [(m, w)]) ++ post := by rw [hs]; simp
    by_cases hP : isInfix m (runText run) = true
    · have hmem : (m, w) ∈ formatPartValues v := by rw [hs]; simp
      have hm := name_ne_nil (pvs_name_mem v m w hmem)
      rw [List.filter_cons_of_pos (by simpa using hP), List.foldl_cons]
      simp only
      rw [replaceAll_items m w hm _ (clean_next h ⟨hs, hP⟩), substTok_mapL]
      exact ih _ hs'
    · rw [List.filter_cons_of_neg (by simpa using hP)]
      have := ih _ hs'
      rw [mapL_no_tok] at this
      · exact this
      · intro n hn e
        subst e
        apply hP
        rw [← srcAll_titems]
        exact isInfix_srcAll_of_mem _ n (tok_mem_titems.mpr (tok_mem_uitems.mp hn))

/-- the flags of `_format_segment` on a run -/
theorem formatSegment_run_flags {v : VInfo} {run : List Atom} (h : RunHyp v run) (htc : tagCoh v = true) :
    (formatSegment (runText run) (formatPartValues v)).isLiteral = !run.any Atom.isTok ∧
    (formatSegment (runText run) (formatPartValues v)).isZero = (run.any Atom.isTok && run.all (Atom.zero v)) := by
  have he := used_isEmpty h
  have hz := used_all_zero h htc
  have hf := filter_count_flag (usedOf v (runText run)) (fun pv => isZeroVal pv.1 pv.2)
  unfold usedOf at he hz hf
  unfold formatSegment
  simp only
  cases hany : run.any Atom.isTok with
  | false =>
    rw [hany] at he
    simp only [Bool.not_false] at he
    simp [he]
  | true =>
    rw [hany] at he
    simp only [Bool.not_true] at he
    simp only [he, Bool.false_eq_true, if_false, Bool.true_and]
    rw [hf, he, hz]
    cases run.all (Atom.zero v) <;> simp

/-- THE TEXT of `_format_segment` on a run: literal characters and part values -/
theorem formatSegment_run_result {v : VInfo} {run : List Atom} (h : RunHyp2 v run) :
    (formatSegment (runText run) (formatPartValues v)).result = runRender v run := by
  have hres : (formatSegment (runText run) (formatPartValues v)).result =
      ((formatPartValues v).filter (fun pv => isInfix pv.1 (runText run))).foldl
        (fun acc pv => replaceAll pv.1 pv.2 acc)
        (replaceAll "\\]".toList "]".toList (replaceAll "\\[".toList "[".toList
          (replaceAll "$".toList [] (replaceAll "^".toList [] (runText run))))) := by
    unfold formatSegment
    simp only
    split
    · rfl
    · split <;> rfl
  rw [hres]
  have hl' : ∀ c, Atom.lit c ∈ run → litOk c = true := h.lits
  have e1 : replaceAll "^".toList [] (runText run) = runText run :=
    replaceAll_no_head '^' [] [] _ (not_mem_runText '^' run (by decide) (by decide)
      (fun c hc e => by have := hl' c hc; rw [e] at this; exact absurd this (by decide)) h.names)
  have e2 : replaceAll "$".toList [] (runText run) = runText run :=
    replaceAll_no_head '$' [] [] _ (not_mem_runText '$' run (by decide) (by decide)
      (fun c hc e => by have := hl' c hc; rw [e] at this; exact absurd this (by decide)) h.names)
  rw [e1, e2]
  have e3 := unescape1 run hl' h.names
  have e4 := unescape2 run hl' h.names
  rw [show "\\[".toList = ['\\', '['] from rfl, show "[".toList = ['['] from rfl, e3,
    show "\\]".toList = ['\\', ']'] from rfl, show "]".toList = [']'] from rfl, e4]
  have := fold_used h (formatPartValues v) [] rfl
  have hm0 : ∀ items : List Item, mapL [] items = items := by
    intro items
    induction items with
    | nil => rfl
    | cons x r ih => cases x <;> simp [mapL, lookup, ih]
  rw [hm0] at this
  rw [this, srcAll_mapL_pvs]

end BV
