/-
  Proofs/Tie_validateReleaseTag.lean — the definition GENERATED from the Python source of
  `cli._validate_release_tag` (Gen/F_validateReleaseTag.lean, harness/translate_cli.py) equals the hand
  model on all inputs: the function returns normally exactly when `BV.validReleaseTag` holds and is
  `sys.exit(1)` otherwise.  `VALID_RELEASE_TAG_VALUES` is the generated table
  `Gen.validReleaseTagValues` on both sides.
-/
import BumpverVerif.Gen.F_validateReleaseTag
import BumpverVerif.Model.Cli
namespace BV

theorem tie_validateReleaseTag (tag : Option Str) :
    GenC.validateReleaseTag tag = if validReleaseTag tag then .ok () else .error (.sysExit 1) := by
  cases tag <;> simp [GenC.validateReleaseTag, validReleaseTag]

end BV
