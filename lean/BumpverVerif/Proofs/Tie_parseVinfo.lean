/-
  Proofs/Tie_parseVinfo.lean — the definition GENERATED from the Python source of
  `v2version.parse_field_values_to_vinfo` (harness/translate_parse.py → Gen/F_parseVinfo.lean) against the hand
  model `BV.parseVinfo` (Model/V2Version.lean).  The callee `parse_field_values_to_cinfo` is the GENERATED
  `GenF.parseCinfo` (rewritten with `tie_parseCinfo`), the tables `version.PEP440_TAG_BY_TAG` /
  `TAG_BY_PEP440_TAG` are the generated `Gen.pep440TagByTag` / `Gen.tagByPep440Tag`.

  `tie_parseVinfo`: for ALL dicts whose keys pass the function's own `assert` (hypothesis `validKeys`), and every
  `today` whose month is not 0 (see Tie_parseCinfo.lean),

      GenF.parseVinfo fv today = if yearOutOfRange fv then .error .valueError else parseVinfo (absFV fv) today

  Hypotheses:
  * `validKeys fv`: the Python function starts with
        for key in field_values: assert any(key.startswith(fkey) for fkey in VALID_FIELD_KEYS), key
    which the model does not have.  Witness: `parse_field_values_to_vinfo({'foo': "1"})` raises AssertionError
    (`parseVinfo_invalidKey`: the generated function answers `.error .unsupported`), the model returns a VInfo.
    `parse_version_info` only passes the group names of a compiled pattern, which are field names.
    VALID_FIELD_KEYS is read from the AST (`set(version.V2VersionInfo._fields) | {'version'}`) and must be exactly
    the list `validFieldKeys` below.
  * `yearOutOfRange`, `today.2.1 ≠ 0`: inherited from `tie_parseCinfo`.
-/
import BumpverVerif.Gen.F_parseVinfo
import BumpverVerif.Proofs.Tie_parseCinfo
namespace BV

/-- `v2version.VALID_FIELD_KEYS` = `set(version.V2VersionInfo._fields) | {'version'}` -/
def validFieldKeys : List Str :=
  ["year_y".toList, "year_g".toList, "quarter".toList, "month".toList, "dom".toList, "doy".toList,
   "week_w".toList, "week_u".toList, "week_v".toList, "major".toList, "minor".toList, "patch".toList,
   "bid".toList, "tag".toList, "pytag".toList, "githash".toList, "hexhash".toList, "num".toList,
   "inc0".toList, "inc1".toList] ++ ["version".toList]

/-- the `assert` loop at the head of `parse_field_values_to_vinfo` -/
def validKeys (fv : PyDict Str) : Bool :=
  List.all (pyKeys fv) (fun key => List.any validFieldKeys (fun fkey => startsWith key fkey))

/-- the idiom `int(d.get(k) or n)` as emitted by the translator, in the model's words -/
theorem orInt_idiom (fv : PyDict Str) (k : String) (d : Nat) :
    (lookup k.toList fv).elim d (fun s => if (!s.isEmpty) = true then strToNat s else d) =
      intFieldOr (absFV fv) k d := by
  simp only [intFieldOr, strField_absFV]
  cases lookup k.toList fv with
  | none => simp
  | some s => cases s <;> simp

/-- the idiom `d.get(k) or ""` as emitted -/
theorem orStr_idiom (o : Option Str) :
    o.elim "".toList (fun s => if (!s.isEmpty) = true then s else "".toList) = o.getD [] := by
  cases o with
  | none => rfl
  | some s => cases s <;> simp

set_option maxRecDepth 2000

/-- after the calendar part: tags, numbers, build id -/
theorem parseVinfo_rest (fv : PyDict Str) (today : PDate) (hK : validKeys fv = true)
    (hC : GenF.parseCinfo fv today = parseCinfo (absFV fv) today) :
    GenF.parseVinfo fv today = parseVinfo (absFV fv) today := by
  unfold validKeys validFieldKeys at hK
  unfold GenF.parseVinfo parseVinfo
  rw [if_pos hK, hC]
  cases hc : parseCinfo (absFV fv) today with
  | error e => rfl
  | ok c =>
    simp only [exBind_ok, bind, pure, Except.pure, throw, throwThe, MonadExceptOf.throw, pyGet, pyGetItem,
      strField_absFV, orInt_idiom, orStr_idiom, lookup_absFV]
    rcases hb : lookup "bid".toList fv with _ | b <;>
      simp only [Option.map_none, Option.map_some, Option.elim_none, Option.elim_some]
    all_goals (
      generalize (lookup "tag".toList fv).getD [] = tag0
      generalize (lookup "pytag".toList fv).getD [] = pytag0
      clear hK hb hc hC
      parse_crunch
      -- what is left (if anything) is propositional reasoning about which of the two tags is empty
      all_goals grind)

theorem tie_parseVinfo_cases (fv : PyDict Str) (today : PDate) (hT : today.2.1 ≠ 0) (hK : validKeys fv = true) :
    (yearOutOfRange fv = false ∧ GenF.parseVinfo fv today = parseVinfo (absFV fv) today) ∨
    (yearOutOfRange fv = true ∧ GenF.parseVinfo fv today = .error .valueError ∧
      parseVinfo (absFV fv) today = .error .overflow) := by
  rcases tie_parseCinfo_cases fv today hT with ⟨h, e⟩ | ⟨h, e1, e2⟩
  · exact .inl ⟨h, parseVinfo_rest fv today hK e⟩
  · refine .inr ⟨h, ?_, ?_⟩
    · unfold validKeys validFieldKeys at hK
      unfold GenF.parseVinfo
      rw [if_pos hK, e1]; rfl
    · unfold parseVinfo
      rw [e2]; rfl

/-- THE TIE -/
theorem tie_parseVinfo (fv : PyDict Str) (today : PDate) (hT : today.2.1 ≠ 0) (hK : validKeys fv = true) :
    GenF.parseVinfo fv today =
      if yearOutOfRange fv then .error .valueError else parseVinfo (absFV fv) today := by
  rcases tie_parseVinfo_cases fv today hT hK with ⟨h, e⟩ | ⟨h, e, _⟩ <;> simp [h, e]

theorem parseVinfo_yearOutOfRange_model (fv : PyDict Str) (today : PDate) (hT : today.2.1 ≠ 0)
    (h : yearOutOfRange fv = true) : parseVinfo (absFV fv) today = .error .overflow := by
  unfold parseVinfo
  rw [parseCinfo_yearOutOfRange_model fv today hT h]; rfl

theorem tie_parseVinfo_model (fv : PyDict Str) (today : PDate) (hT : today.2.1 ≠ 0) (hK : validKeys fv = true)
    (hY : yearOutOfRange fv = false) : GenF.parseVinfo fv today = parseVinfo (absFV fv) today := by
  rw [tie_parseVinfo fv today hT hK, hY]; rfl

/-- ValueError and OverflowError identified: no hypothesis on the year -/
theorem tie_parseVinfo_collapse (fv : PyDict Str) (today : PDate) (hT : today.2.1 ≠ 0) (hK : validKeys fv = true) :
    collapseVO (GenF.parseVinfo fv today) = collapseVO (parseVinfo (absFV fv) today) := by
  rcases tie_parseVinfo_cases fv today hT hK with ⟨_, e⟩ | ⟨_, e1, e2⟩
  · rw [e]
  · rw [e1, e2]; rfl

/-- a key that is no field name: Python's AssertionError (the model has no such check) -/
theorem parseVinfo_invalidKey (fv : PyDict Str) (today : PDate) (hK : validKeys fv = false) :
    GenF.parseVinfo fv today = .error .unsupported := by
  unfold validKeys validFieldKeys at hK
  unfold GenF.parseVinfo
  rw [hK]; rfl

/-! ### non-vacuity and the witness of `validKeys` -/

example : validKeys [("year_y".toList, "2018".toList), ("month".toList, "11".toList), ("bid".toList, "0099".toList)]
    = true := by decide
example : (GenF.parseVinfo [("year_y".toList, "2018".toList), ("month".toList, "11".toList),
      ("bid".toList, "0099".toList)] (2024, 5, 17)).map (fun v => (v.cal.yearY, v.cal.month, v.cal.quarter, v.bid, v.tag))
    = .ok (some 2018, some 11, some 4, "0099".toList, "final".toList) := by decide
example : (GenF.parseVinfo [("major".toList, "1".toList), ("tag".toList, "beta".toList)] (2024, 5, 17)).map
      (fun v => (v.major, v.tag, v.pytag, v.inc1)) = .ok (1, "beta".toList, "b".toList, 1) := by decide
example : GenF.parseVinfo [("foo".toList, "1".toList)] (2024, 5, 17) = .error .unsupported
    ∧ (parseVinfo (absFV [("foo".toList, "1".toList)]) (2024, 5, 17)).toBool = true := by decide

end BV
