/-
  Proofs/Tie_parseCfg.lean — the definition GENERATED from the Python source of `config._parse_cfg`
  (Gen/F_parseCfg.lean) equals the hand model `BV.parseCfgPost` (the part of `_parse_cfg` after
  `cfg_parser.read_file`) on every parser state `IniDoc`.

  The parser itself stays a parameter: `cfg_parser` is the `_ConfigParser` after `read_file`, seen
  through `has_section` / `items` = the hand model's `IniDoc`.

  Hypotheses (both hold for every `IniDoc` configparser can produce — it is strict, a duplicate
  option is a parse error — and are what the hand model's comment on `IniDoc` assumes):
  * `hmain`  : the option names of the main section are distinct, so `dict(cfg_parser.items(...))`
               is the item list itself;
  * `hfiles` : the file names of the file_patterns section are distinct, so
               `dict(_parse_cfg_file_patterns(cfg_parser))` is the list of yielded pairs.
  Without them Python's `dict(...)` keeps the LAST value of a repeated key at the FIRST position,
  the hand model keeps both entries and `lookup` finds the first.

  Result abstraction: `embedRaw` (the Python dict has the key 'file_patterns').
-/
import BumpverVerif.Gen.F_parseCfg
import BumpverVerif.Proofs.Tie_setRawConfigDefaults
import BumpverVerif.Proofs.Tie_parseCfgFilePatterns
set_option linter.unusedSimpArgs false
namespace BV
open TieH

/-- one round of the BOOL_OPTIONS loop: the generated loop body is the hand model's `iniBoolStep`
    (`val.lower() in ("yes", "true", "1", "on")` against the generated table `Gen.trueSpellings`) -/
macro "ini_bool_step" : tactic => `(tactic|
  (intro st od
   unfold iniBoolStep
   generalize (lookup od.fst st.opts).getD (boolDefault od.snd) = v
   cases v <;> simp only [iniBoolConv] <;> rw [elem_list_eq _ _ Gen.trueSpellings (by decide)]))

/-- after the main section is known -/
macro "parse_cfg_tail" : tactic => `(tactic|
  (rw [foldl_congr_step (g := fun st od => { st with opts := iniBoolStep st.opts od })]
   · rw [foldl_list_eq _ _ _ Gen.boolOptions (by decide), foldl_opts]
     simp only [iniBoolLoop]
     generalize setRawConfigDefaults _ = r
     rcases r with e | ⟨⟩ <;> rfl
   · ini_bool_step))

theorem tie_parseCfg (d : IniDoc)
    (hmain : ∀ items, iniMainSection d = some items → (items.map Prod.fst).Nodup)
    (hfiles : ((iniFilePatterns d).map Prod.fst).Nodup) :
    GenF.parseCfg d = ((parseCfgPost d).mapError CfgErr.pyClass).map embedRaw := by
  unfold GenF.parseCfg parseCfgPost
  simp only [tie_parseCfgFilePatterns, tie_setRawConfigDefaults, pyDict_nodup _ hfiles]
  -- the main section: [pycalver] first, then [bumpver]
  have hm : ∀ items, iniMainSection d = some items → Py.pyDict items = items :=
    fun items h => pyDict_nodup items (hmain items h)
  unfold iniMainSection at hm ⊢
  rcases h1 : lookup "pycalver".toList d.sections with _ | items <;>
    simp only [h1, Option.isSome_none, Option.isSome_some, Bool.false_eq_true, if_true, if_false, Except.map,
        Except.mapError] at hm ⊢
  · rcases h2 : lookup "bumpver".toList d.sections with _ | items <;>
      simp only [h2, Option.isSome_none, Option.isSome_some, Bool.false_eq_true, if_true, if_false, Except.map,
        Except.mapError, pyClass_missingSection] at hm ⊢
    rw [hm items rfl]
    parse_cfg_tail
  · rw [hm items rfl]
    parse_cfg_tail

end BV
