/-
  Proofs/Tie_argvEndToEnd.lean — the source-level ties of this group COMPOSED, on the standard objects
  `VCSAPI("git")` / `VCSAPI("hg")` of the generated table: what process runs, with which ARGUMENT VECTOR.

      generated VCSAPI.commit / tag / push_tag / add          (Proofs/Tie_argvCommit|Tag|PushTag|Add.lean)
        → generated VCSAPI.__call__ = callRef = `argv`         (Proofs/Tie_argvCall.lean, `tie_argvCall_std`)
        → `argv` on the template of the working tree           (Props/C12.lean, `C12_*_argv`)

  Every theorem is an EQUATION for all strings (messages, tag names, paths, remotes — any Unicode, quotes,
  backslashes, newlines, leading dashes), all worlds and traces: the value is exactly ONE element of the
  argument vector, verbatim; nothing is added, removed or altered.
-/
import BumpverVerif.Proofs.Tie_argvCommit
import BumpverVerif.Proofs.Tie_argvTag
import BumpverVerif.Proofs.Tie_argvPushTag
import BumpverVerif.Proofs.Tie_argvAdd
import BumpverVerif.Props.C12
namespace BV.TieK
open BV.TieK.Gen

theorem callRef_std (vcs cmd : String)
    (h : ((lookup vcs.toList BV.Gen.vcsTemplates).bind (lookup cmd.toList)).isSome = true)
    (env : Option EnvMap) (kw : List (Str × Str)) (w : World) (s : List KEv) :
    callRef (VcsApi.std vcs.toList) cmd.toList env kw w s =
      match argv (tmplOf vcs cmd) kw with
      | .error e => (s, .error (stopOfArgv e))
      | .ok parts => Eff.checkOutput parts env true w s := by
  cases h1 : lookup vcs.toList BV.Gen.vcsTemplates with
  | none => rw [h1] at h; cases h
  | some tbl =>
    rw [h1] at h
    cases h2 : lookup cmd.toList tbl with
    | none => simp only [Option.bind_some] at h; rw [h2] at h; cases h
    | some tmpl =>
      have ht : tmplOf vcs cmd = tmpl := by simp only [tmplOf, h1, Option.bind_some, h2, Option.getD_some]
      rw [← tie_argvCall, tie_argvCall_std h1 h2]
      subst ht
      rfl

theorem callRef_std_ok (vcs cmd : String)
    (h : ((lookup vcs.toList BV.Gen.vcsTemplates).bind (lookup cmd.toList)).isSome = true)
    (env : Option EnvMap) (kw : List (Str × Str)) (w : World) (s : List KEv) (parts : List Str)
    (ha : argv (tmplOf vcs cmd) kw = .ok parts) :
    callRef (VcsApi.std vcs.toList) cmd.toList env kw w s = Eff.checkOutput parts env true w s := by
  rw [callRef_std vcs cmd h, ha]

/-- a successful or failing process, output forgotten -/
def runProc (argv : List Str) (env : Option EnvMap) (w : World) (s : List KEv) : List KEv × Except Stop Unit :=
  unitOf (Eff.checkOutput argv env true w s)

/-! ### commit -/

theorem src_git_commit (m : Str) (w : World) (s : List KEv) :
    argvCommit (VcsApi.std "git".toList) m w s
      = runProc ["git".toList, "commit".toList, "--message".toList, m] (some w.environ) w s := by
  rw [tie_argvCommit]
  have hn : (VcsApi.std "git".toList).name = ['g', 'i', 't'] := rfl
  simp only [commitRef, hn, if_true]
  have h := callRef_std_ok "git" "commit" (by decide +kernel) (some w.environ) [("message".toList, m)] w s _ (C12_git_commit_argv m)
  exact congrArg unitOf h

theorem src_hg_commit (m : Str) (w : World) (s : List KEv) :
    argvCommit (VcsApi.std "hg".toList) m w s =
      (KEv.unlink (w.tmpName s) ::
        (Eff.checkOutput ["hg".toList, "commit".toList, "--logfile".toList, w.tmpName s]
          (some (dictSet "HGENCODING".toList "utf-8".toList w.environ)) true w
          (KEv.tmpClose (w.tmpName s) :: KEv.tmpWrite (w.tmpName s) m :: KEv.tmpCreate (w.tmpName s) :: s)).1,
       (Eff.checkOutput ["hg".toList, "commit".toList, "--logfile".toList, w.tmpName s]
          (some (dictSet "HGENCODING".toList "utf-8".toList w.environ)) true w
          (KEv.tmpClose (w.tmpName s) :: KEv.tmpWrite (w.tmpName s) m :: KEv.tmpCreate (w.tmpName s) :: s)).2.map
            (fun _ => ())) := by
  rw [tie_argvCommit]
  have hn : ¬ (VcsApi.std "hg".toList).name = ['g', 'i', 't'] := by decide
  simp only [commitRef, hn, if_false, utf8Encode]
  have h := fun s1 => callRef_std_ok "hg" "commit" (by decide +kernel)
    (some (dictSet ['H', 'G', 'E', 'N', 'C', 'O', 'D', 'I', 'N', 'G'] ['u', 't', 'f', '-', '8'] w.environ))
    [("path".toList, w.tmpName s)] w s1 _ (C12_hg_commit_argv (w.tmpName s))
  rw [show ([(['p', 'a', 't', 'h'], w.tmpName s)] : List (Str × Str)) = [("path".toList, w.tmpName s)] from rfl,
    show (['c', 'o', 'm', 'm', 'i', 't'] : Str) = "commit".toList from rfl, h]
  rfl

/-! ### tag -/

theorem src_git_tag (t m : Str) (hm : m ≠ []) (w : World) (s : List KEv) :
    argvTag (VcsApi.std "git".toList) t m w s
      = runProc ["git".toList, "tag".toList, "--annotate".toList, t, "--message".toList, m] none w s := by
  rw [tie_argvTag]
  simp only [tagRef, hm, ne_eq, not_false_eq_true, if_true]
  have h := callRef_std_ok "git" "tag" (by decide +kernel) none [("tag".toList, t), ("message".toList, m)] w s _ (C12_git_tag_argv t m)
  exact congrArg unitOf h

/-- an empty tag message: a lightweight tag — no message argument at all -/
theorem src_git_tag_light (t : Str) (w : World) (s : List KEv) :
    argvTag (VcsApi.std "git".toList) t [] w s = runProc ["git".toList, "tag".toList, t] none w s := by
  rw [tie_argvTag]
  simp only [tagRef, ne_eq, not_true_eq_false, if_false]
  have h := callRef_std_ok "git" "tag_light" (by decide +kernel) none [("tag".toList, t)] w s _ (C12_git_tag_light_argv t)
  exact congrArg unitOf h

theorem src_hg_tag (t m : Str) (hm : m ≠ []) (w : World) (s : List KEv) :
    argvTag (VcsApi.std "hg".toList) t m w s
      = runProc ["hg".toList, "tag".toList, t, "--message".toList, m] none w s := by
  rw [tie_argvTag]
  simp only [tagRef, hm, ne_eq, not_false_eq_true, if_true]
  have h := callRef_std_ok "hg" "tag" (by decide +kernel) none [("tag".toList, t), ("message".toList, m)] w s _ (C12_hg_tag_argv t m)
  exact congrArg unitOf h

theorem src_hg_tag_light (t : Str) (w : World) (s : List KEv) :
    argvTag (VcsApi.std "hg".toList) t [] w s = runProc ["hg".toList, "tag".toList, t] none w s := by
  rw [tie_argvTag]
  simp only [tagRef, ne_eq, not_true_eq_false, if_false]
  have h := callRef_std_ok "hg" "tag_light" (by decide +kernel) none [("tag".toList, t)] w s _ (C12_hg_tag_light_argv t)
  exact congrArg unitOf h

/-! ### push_tag -/

theorem src_git_push_tag (t r : Str) (w : World) (s : List KEv) (hr : w.remote s = some r) (hne : r ≠ []) :
    argvPushTag (VcsApi.std "git".toList) t w s
      = runProc ["git".toList, "push".toList, r, "--follow-tags".toList, t, "HEAD".toList] none w s := by
  rw [tie_argvPushTag]
  simp only [pushTagRef, hr, hne, ne_eq, not_false_eq_true, if_true]
  have h := callRef_std_ok "git" "push_tag" (by decide +kernel) none [("tag".toList, t), ("remote".toList, r)] w s _ (C12_git_push_tag_argv r t)
  exact congrArg unitOf h

theorem hg_push_tag_argv (t r : Str) :
    argv (tmplOf "hg" "push_tag") [("tag".toList, t), ("remote".toList, r)]
      = .ok ["hg".toList, "push".toList, t] := by
  have h : shlexSplit (tmplOf "hg" "push_tag") = some ["hg".toList, "push".toList, "{tag}".toList] := by
    decide +kernel
  simp only [argv, h, mapFormat]
  simp [pyFormat, fmtGo, lookup, simpleName, isAlnum, isAlpha, isLower, isUpper, isDigit, Except.map]

theorem src_hg_push_tag (t r : Str) (w : World) (s : List KEv) (hr : w.remote s = some r) (hne : r ≠ []) :
    argvPushTag (VcsApi.std "hg".toList) t w s = runProc ["hg".toList, "push".toList, t] none w s := by
  rw [tie_argvPushTag]
  simp only [pushTagRef, hr, hne, ne_eq, not_false_eq_true, if_true]
  have h := callRef_std_ok "hg" "push_tag" (by decide +kernel) none [("tag".toList, t), ("remote".toList, r)] w s _ (hg_push_tag_argv t r)
  exact congrArg unitOf h

/-- without a remote nothing runs -/
theorem src_push_tag_no_remote (self : VcsApi) (t : Str) (w : World) (s : List KEv)
    (hr : w.remote s = none ∨ w.remote s = some []) :
    argvPushTag self t w s = (s, .ok ()) := by
  rw [tie_argvPushTag]
  rcases hr with hr | hr <;> simp [pushTagRef, hr]

/-! ### add -/

/-- git: the path is the last argument; any failure is passed on -/
theorem src_git_add (p : Str) (w : World) (s : List KEv) :
    argvAdd (VcsApi.std "git".toList) p w s
      = runProc ["git".toList, "add".toList, "--update".toList, p] none w s := by
  rw [tie_argvAdd]
  have hn : ¬ (VcsApi.std "git".toList).name = ['h', 'g'] := by decide
  have h : callRef (VcsApi.std "git".toList) ['a', 'd', 'd', '_', 'p', 'a', 't', 'h'] none [(['p', 'a', 't', 'h'], p)] w s
      = Eff.checkOutput ["git".toList, "add".toList, "--update".toList, p] none true w s :=
    callRef_std_ok "git" "add_path" (by decide +kernel) none [("path".toList, p)] w s _ (C12_git_add_argv p)
  simp only [addRef, hn, false_and, if_false]
  rw [h]
  simp only [runProc, unitOf]
  rcases Eff.checkOutput _ none true w s with ⟨s', r⟩
  rcases r with x | a
  · cases x <;> rfl
  · rfl

/-- hg: the path is the last argument; a failure is passed on unless Mercurial says "already tracked!" -/
theorem src_hg_add (p : Str) (w : World) (s : List KEv) :
    argvAdd (VcsApi.std "hg".toList) p w s =
      match Eff.checkOutput ["hg".toList, "add".toList, p] none true w s with
      | (s', .ok _) => (s', .ok ())
      | (s', .error (.called se)) =>
        if isInfix "already tracked!".toList (se.getD []) = true then (s', .ok ()) else (s', .error (.called se))
      | (s', .error x) => (s', .error x) := by
  rw [tie_argvAdd]
  have hn : (VcsApi.std "hg".toList).name = ['h', 'g'] := rfl
  have h : callRef (VcsApi.std "hg".toList) ['a', 'd', 'd', '_', 'p', 'a', 't', 'h'] none [(['p', 'a', 't', 'h'], p)] w s
      = Eff.checkOutput ["hg".toList, "add".toList, p] none true w s :=
    callRef_std_ok "hg" "add_path" (by decide +kernel) none [("path".toList, p)] w s _ (C12_hg_add_argv p)
  simp only [addRef, hn, true_and]
  rw [h]
  rfl

end BV.TieK
