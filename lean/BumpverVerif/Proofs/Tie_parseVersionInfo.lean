/-
  Proofs/Tie_parseVersionInfo.lean — the definition GENERATED from the Python source of
  `v2version.parse_version_info` (harness/translate_parse.py → Gen/F_parseVersionInfo.lean) equals the hand model
  `BV.parseVersionInfo` (= `compileRe` + `parseWithRe`, Model/V2Version.lean).

  From the AST: the `match is None` test, the "Incomplete match" test `len(match.group()) < len(version_str)`,
  the dict comprehension that drops the groups that are `None`, the call of (the GENERATED)
  `parse_field_values_to_vinfo`, and the `try/except (ValueError, OverflowError)` → PatternError mapping.
  Trusted primitives (Model/PyPrims.lean): `v2patterns.compile_pattern` = `compileRe ∘ normalizePattern`,
  `regexp.match` = `reMatch`, `match.group()`, `match.groupdict()` = `groupdict`.

  `tie_parseVersionInfo`: for ALL version strings and raw patterns,
      GenF.parseVersionInfo version_str raw_pattern today = parseVersionInfo version_str raw_pattern today
  under
  * `today.2.1 ≠ 0` (Tie_parseCinfo.lean), and
  * `validGroupNames`: the named groups of the compiled regex are field names — so that the `assert` at the head of
    `parse_field_values_to_vinfo` (which the model does not have, Tie_parseVinfo.lean) holds.  `compile_pattern`
    only produces groups named after `PATTERN_PART_FIELDS`; the hypothesis is decidable for a given regex.
  No hypothesis on the year is left: ValueError and OverflowError both become PatternError here.
-/
import BumpverVerif.Gen.F_parseVersionInfo
import BumpverVerif.Proofs.Tie_parseVinfo
namespace BV

/-! ### the model reads a `None` group like a missing key -/

theorem intField_join (fv : FVals) (k : String) :
    intField fv k = .ok ((lookup k.toList fv).join.map strToNat) := by
  unfold intField
  rcases lookup k.toList fv with _ | _ | s <;> rfl

theorem strField_join (fv : FVals) (k : String) : strField fv k = (lookup k.toList fv).join.getD [] := by
  unfold strField
  rcases lookup k.toList fv with _ | _ | s <;> rfl

theorem parseCinfo_congr (fv fv' : FVals) (today : PDate)
    (h : ∀ k, (lookup k fv).join = (lookup k fv').join) : parseCinfo fv today = parseCinfo fv' today := by
  unfold parseCinfo
  simp only [intField_join, h]

theorem parseVinfo_congr (fv fv' : FVals) (today : PDate)
    (h : ∀ k, (lookup k fv).join = (lookup k fv').join) : parseVinfo fv today = parseVinfo fv' today := by
  unfold parseVinfo
  simp only [intFieldOr, strField_join, h, parseCinfo_congr fv fv' today h]
  have hbid := h "bid".toList
  revert hbid
  generalize lookup "bid".toList fv = a
  generalize lookup "bid".toList fv' = b
  intro hbid
  rcases a with _ | _ | s <;> rcases b with _ | _ | s' <;> simp only [Option.join] at hbid <;>
    first
    | rfl
    | (cases hbid; try rfl)

/-- `{key: val for key, val in d.items() if val is not None}` as emitted -/
def dropNone (d : PyDict (Option Str)) : PyDict Str :=
  List.filterMap (fun kv => Option.elim kv.2 none (fun val => some (kv.1, val))) d

/-- on a dict whose values are a FUNCTION of the key (every `groupdict`): dropping the `None` entries changes no
    lookup, up to `None` = missing -/
theorem lookup_dropNone (g : Str → Option Str) (names : List Str) (k : Str) :
    (lookup k (absFV (dropNone (names.map (fun n => (n, g n)))))).join
      = (lookup k (names.map (fun n => (n, g n)))).join := by
  induction names with
  | nil => rfl
  | cons n rest ih =>
    simp only [List.map_cons, dropNone, List.filterMap_cons] at ih ⊢
    by_cases hk : k = n
    · subst hk
      cases hg : g k with
      | none =>
        -- the entry is dropped; later entries of the same key have the same value `g k = none`
        simp only [Option.elim_none, lookup, if_true, Option.join]
        have : ∀ l : List Str, (lookup k (absFV (dropNone (l.map (fun n => (n, g n)))))).join = none := by
          intro l
          induction l with
          | nil => rfl
          | cons a l ih2 =>
            simp only [List.map_cons, dropNone, List.filterMap_cons] at ih2 ⊢
            cases ha : g a with
            | none => simpa [ha] using ih2
            | some v =>
              simp only [Option.elim_some, absFV, List.map_cons, lookup]
              by_cases hka : k = a
              · subst hka; rw [hg] at ha; cases ha
              · simpa [hka, absFV] using ih2
        exact this rest
      | some v => simp [absFV, lookup]
    · cases hg : g n with
      | none => simpa [hg, lookup, hk] using ih
      | some v => simpa [hg, absFV, lookup, hk] using ih

theorem keys_dropNone (g : Str → Option Str) (names : List Str) (p : Str → Bool) (h : names.all p = true) :
    (pyKeys (dropNone (names.map (fun n => (n, g n))))).all p = true := by
  induction names with
  | nil => rfl
  | cons n rest ih =>
    simp only [List.all_cons, Bool.and_eq_true] at h
    simp only [List.map_cons, dropNone, List.filterMap_cons, pyKeys] at ih ⊢
    cases hg : g n with
    | none => simpa [hg] using ih h.2
    | some v => simpa [hg, h.1] using ih h.2

/-! ### `regexp.match`: the span starts at 0 and ends inside the string -/

theorem reMatch_span {r : Re} {s : Str} {m : Match} (h : reMatch r s = some m) :
    m.start = 0 ∧ m.stop ≤ s.length := by
  unfold reMatch at h
  split at h
  · cases h; exact ⟨rfl, Nat.sub_le _ _⟩
  · cases h

/-! ### the tie -/

/-- every named group of the regex is (an extension of) a field name: what `assert any(key.startswith(fkey) …)`
    in `parse_field_values_to_vinfo` checks -/
def validGroupNames (r : Re) : Bool :=
  (reGroupNames r).eraseDups.all (fun key => List.any validFieldKeys (fun fkey => startsWith key fkey))

/-- the dict handed to `parse_field_values_to_vinfo`, as emitted: the `None` groups dropped -/
theorem dropNone_eq (d : PyDict (Option Str)) :
    List.filterMap (fun kv => Option.elim kv.2 none (fun val => some (kv.1, val))) d = dropNone d := rfl

/-- the `try: return parse_field_values_to_vinfo(...) except (ValueError, OverflowError)` part, whatever the
    handler looks like: it is determined by what it does on the six error classes -/
theorem vinfo_of_groupdict (r : Re) (m : Match) (today : PDate) (hT : today.2.1 ≠ 0) (hG : validGroupNames r = true) :
    (GenF.parseVinfo (dropNone (groupdict r m)) today = parseVinfo (groupdict r m) today) ∨
    (GenF.parseVinfo (dropNone (groupdict r m)) today = .error .valueError ∧
      parseVinfo (groupdict r m) today = .error .overflow) := by
  have hK : validKeys (dropNone (groupdict r m)) = true := by
    unfold validGroupNames at hG
    exact keys_dropNone (fun n => m.group n) _ _ hG
  have hcongr : parseVinfo (absFV (dropNone (groupdict r m))) today = parseVinfo (groupdict r m) today :=
    parseVinfo_congr _ _ today (fun k => lookup_dropNone (fun n => m.group n) _ k)
  rcases tie_parseVinfo_cases (dropNone (groupdict r m)) today hT hK with ⟨_, e⟩ | ⟨_, e1, e2⟩
  · exact .inl (by rw [e, hcongr])
  · exact .inr ⟨e1, by rw [← hcongr, e2]⟩

/-- THE TIE -/
theorem tie_parseVersionInfo (vs rp : Str) (today : PDate) (hT : today.2.1 ≠ 0)
    (hG : ∀ r, compileRe (normalizePattern rp rp) = some r → validGroupNames r = true) :
    GenF.parseVersionInfo vs rp today = parseVersionInfo vs rp today := by
  unfold GenF.parseVersionInfo parseVersionInfo pyCompilePattern
  cases hc : compileRe (normalizePattern rp rp) with
  | none => rfl
  | some r =>
    simp only [exBind_ok, parseWithRe, pyReMatch]
    cases hm : reMatch r vs with
    | none => rfl
    | some m =>
      obtain ⟨h0, hle⟩ := reMatch_span hm
      have hlen : (PyMatch.group0 { re := r, subject := vs, m := m }).length = m.stop := by
        simp only [PyMatch.group0, h0, List.drop_zero, Nat.sub_zero, List.length_take]
        omega
      simp only [Option.elim_some, hlen, PyMatch.groupdict, dropNone_eq, exBind_ok_right]
      by_cases hlt : m.stop < vs.length
      · simp [hlt]
      · rcases vinfo_of_groupdict r m today hT (hG r hc) with e | ⟨e1, e2⟩
        · rw [e]
          cases parseVinfo (groupdict r m) today with
          | ok v => simp [hlt]
          | error e => cases e <;> simp [hlt]
        · rw [e1, e2]
          simp [hlt]

/-! ### non-vacuity: `validGroupNames` is decidable, here for the regex of `MAJOR.MINOR[.PATCH]` -/

example : validGroupNames (.seq (.grp "major".toList (.rep (.cls false [.digit]) 1 none))
    (.seq (.chr '.') (.grp "minor".toList (.rep (.cls false [.digit]) 1 none)))) = true := by decide

end BV
