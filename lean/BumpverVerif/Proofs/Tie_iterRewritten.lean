/-
  Proofs/Tie_iterRewritten.lean — the definition GENERATED from the Python source of
  `v2rewrite.iter_rewritten` (Gen/F_iterRewritten.lean: the generator run to exhaustion, with the lazily
  consumed generator `rewrite.iter_path_patterns_items` inlined) against the hand model `planWrites`:
  it leaves the file system as it is, and the list of records it yields is, file by file, what the model
  plans to write — or it fails with the model's error at the model's file.

  The proof asks of ONE iteration only that it does not touch the file system and appends one planned
  write (path, the model's `rewriteContent` of the file's text) or fails as the model does.
-/
import BumpverVerif.Gen.F_iterRewritten
import BumpverVerif.Proofs.Tie_rfdFromContent
namespace BV

open GenF (PatternMatch Pattern RewrittenFileData)

/-- `config.PatternsByFile` ↦ the model's list of (path, compiled patterns) -/
def GenF.absFilePatterns (fp : List (Str × List Pattern)) : List (Str × List CPat) :=
  fp.map (fun it => (it.1, it.2.map Pattern.abs))

/-- every configured pattern is well-formed -/
def GenF.WfFilePatterns (fp : List (Str × List Pattern)) : Prop := ∀ it ∈ fp, ∀ p ∈ it.2, p.Wf

/-- the planned write of a record -/
def GenF.RewrittenFileData.toWrite (rfd : RewrittenFileData) : Str × Str := (rfd.path, rfd.newContent)

/-- what one configured file contributes in the model -/
def planStep (fs : FS) (v : VInfo) (path : Str) (pats : List CPat) : Except RwErr (Str × Str) :=
  match lookup path fs with
  | none => .error .missingFile
  | some content =>
    match rewriteContent pats v content with
    | .error e => .error e
    | .ok newContent => .ok (path, newContent)

theorem planWrites_cons (fs : FS) (v : VInfo) (path : Str) (pats : List CPat) (rest : List (Str × List CPat)) :
    planWrites fs v ((path, pats) :: rest) =
      match planStep fs v path pats with
      | .error e => .error e
      | .ok w =>
        match planWrites fs v rest with
        | .error e => .error e
        | .ok ws => .ok (w :: ws) := by
  simp only [planWrites, planStep]
  cases lookup path fs with
  | none => rfl
  | some content => simp only []; cases rewriteContent pats v content <;> rfl

/-- the record `rfd_from_content` builds for a file with text `c` whose lines rewrite to `nl` -/
def rfdOf (path c : Str) (nl : List Str) : RewrittenFileData :=
  { path := path, line_sep := detectLineSep c, old_lines := splitOn (detectLineSep c) c, new_lines := nl }

/-- one iteration of `iter_rewritten`, run to exhaustion: the record of one configured file is appended -/
def stepRfds (v : VInfo) (fs : FS) (it : Str × List Pattern) (acc : List RewrittenFileData) :
    Except RwErr (List RewrittenFileData) :=
  match lookup it.1 fs with
  | none => .error .missingFile
  | some c =>
    (rewriteLines (it.2.map Pattern.abs) v (splitOn (detectLineSep c) c)).map
      (fun nl => acc ++ [rfdOf it.1 c nl])

/-- all iterations -/
def planRfds (v : VInfo) (fs : FS) : List (Str × List Pattern) → List RewrittenFileData →
    Except RwErr (List RewrittenFileData)
  | [], acc => .ok acc
  | it :: rest, acc =>
    match stepRfds v fs it acc with
    | .error e => .error e
    | .ok acc' => planRfds v fs rest acc'

/-- a loop whose body does not touch the file system and appends the record of the file -/
theorem pyForFS_eq_planRfds (v : VInfo)
    (body : Str × List Pattern → List RewrittenFileData → FS → FS × Except RwErr (List RewrittenFileData))
    (hb : ∀ it acc fs, (∀ p ∈ it.2, p.Wf) → body it acc fs = (fs, stepRfds v fs it acc))
    (l : List (Str × List Pattern)) (hwf : GenF.WfFilePatterns l) (acc : List RewrittenFileData) (fs : FS) :
    GenF.pyForFS l body acc fs = (fs, planRfds v fs l acc) := by
  induction l generalizing acc with
  | nil => rfl
  | cons it l ih =>
    rw [GenF.pyForFS_cons, hb it acc fs (hwf it List.mem_cons_self)]
    simp only [planRfds]
    cases stepRfds v fs it acc with
    | error e => rfl
    | ok acc' => exact ih (fun x hx => hwf x (List.mem_cons_of_mem _ hx)) acc'

/-- the records are, file by file, what the model plans to write -/
theorem planRfds_planWrites (v : VInfo) (fs : FS) (l : List (Str × List Pattern)) (acc : List RewrittenFileData) :
    (planRfds v fs l acc).map (List.map RewrittenFileData.toWrite) =
      (planWrites fs v (GenF.absFilePatterns l)).map (fun ws => acc.map RewrittenFileData.toWrite ++ ws) := by
  induction l generalizing acc with
  | nil => simp [planRfds, GenF.absFilePatterns, planWrites, Except.map]
  | cons it l ih =>
    have hcons : GenF.absFilePatterns (it :: l) = (it.1, it.2.map Pattern.abs) :: GenF.absFilePatterns l := rfl
    rw [hcons, planWrites_cons]
    simp only [planRfds, stepRfds, planStep, rewriteContent]
    cases lookup it.1 fs with
    | none => rfl
    | some c =>
      simp only []
      cases rewriteLines (it.2.map Pattern.abs) v (splitOn (detectLineSep c) c) with
      | error e => rfl
      | ok nl =>
        have := ih (acc ++ [rfdOf it.1 c nl])
        simp only [Except.map] at this ⊢
        rw [this]
        cases planWrites fs v (GenF.absFilePatterns l) <;>
          simp [RewrittenFileData.toWrite, RewrittenFileData.newContent, rfdOf]

/-- `iter_rewritten` run to exhaustion: the file system is untouched, the result is `planRfds` -/
theorem tie_iterRewritten (file_patterns : List (Str × List Pattern)) (new_vinfo : VInfo) (fs : FS)
    (hwf : GenF.WfFilePatterns file_patterns) :
    GenF.iterRewritten file_patterns new_vinfo fs = (fs, planRfds new_vinfo fs file_patterns []) := by
  unfold GenF.iterRewritten
  simp only []
  rw [pyForFS_eq_planRfds new_vinfo _ ?hb file_patterns hwf]
  case hb =>
    intro it acc fs' hit
    simp only [GenF.pyExists, GenF.pyRead, stepRfds]
    have hl : lookup it.1 fs' = none ∨ ∃ c, lookup it.1 fs' = some c := by
      cases lookup it.1 fs' <;> simp
    rcases hl with hl | ⟨content, hl⟩
    · simp [hl]
    · simp only [hl, Option.isSome_some, if_true, tie_rfdFromContent it.2 new_vinfo content _ hit]
      cases rewriteLines (it.2.map Pattern.abs) new_vinfo (splitOn (detectLineSep content) content) <;> rfl
  cases planRfds new_vinfo fs file_patterns [] <;> rfl

/-- … and that is the model's `planWrites` -/
theorem tie_iterRewritten_planWrites (file_patterns : List (Str × List Pattern)) (new_vinfo : VInfo) (fs : FS)
    (hwf : GenF.WfFilePatterns file_patterns) :
    (GenF.iterRewritten file_patterns new_vinfo fs).1 = fs ∧
    ((GenF.iterRewritten file_patterns new_vinfo fs).2).map (List.map RewrittenFileData.toWrite)
      = planWrites fs new_vinfo (GenF.absFilePatterns file_patterns) := by
  rw [tie_iterRewritten _ _ _ hwf]
  refine ⟨rfl, ?_⟩
  simp only []
  rw [planRfds_planWrites]
  cases planWrites fs new_vinfo (GenF.absFilePatterns file_patterns) <;> simp [Except.map]

end BV
