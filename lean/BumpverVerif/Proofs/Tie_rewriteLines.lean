/-
  Proofs/Tie_rewriteLines.lean — the definition GENERATED from the Python source of
  `v2rewrite.rewrite_lines` (Gen/F_rewriteLines.lean) equals the hand model `BV.rewriteLines` on the
  abstracted patterns, for every list of well-formed patterns, every version record and every list of lines.
-/
import BumpverVerif.Gen.F_rewriteLines
import BumpverVerif.Proofs.Tie_iterMatches
set_option linter.unusedSimpArgs false
namespace BV

open GenF (PatternMatch Pattern)

/-- the loop of `rewrite_lines`: a body that, INSIDE the list, splices the rendered version into the
    current line and records the pattern, is the model's `applyMatches` (plus the set of found patterns) -/
theorem pyForE_applyMatches (v : VInfo)
    (body : PatternMatch → List Pattern × List Str → Except RwErr (List Pattern × List Str))
    (hb : ∀ m found ls, m.lineno < ls.length → body m (found, ls) =
      match formatVersion v (normalizePattern m.abs.pat.vp m.abs.pat.raw) with
      | .error e => .error (.crash e)
      | .ok repl => .ok (GenF.pySetAdd found m.pattern,
          setLine ls m.lineno ((ls.getD m.lineno []).take m.abs.start ++ repl ++ (ls.getD m.lineno []).drop m.abs.stop)))
    (l : List PatternMatch) (found : List Pattern) (ls : List Str) (hl : ∀ m ∈ l, m.lineno < ls.length) :
    GenF.pyForE l body (found, ls) =
      match applyMatches v (l.map PatternMatch.abs) ls with
      | .error e => .error e
      | .ok new => .ok (l.foldl (fun s m => GenF.pySetAdd s m.pattern) found, new) := by
  induction l generalizing found ls with
  | nil => rfl
  | cons m l ih =>
    rw [GenF.pyForE_cons, hb m found ls (hl m List.mem_cons_self)]
    simp only [List.map_cons, applyMatches, List.foldl_cons]
    have e1 : m.abs.lineno = m.lineno := rfl
    rw [e1]
    cases formatVersion v (normalizePattern m.abs.pat.vp m.abs.pat.raw) with
    | error e => rfl
    | ok repl =>
      simp only
      apply ih
      intro m' hm'
      rw [setLine_eq_set, List.length_set]
      exact hl m' (List.mem_cons_of_mem _ hm')

/-- matches that neither overlap nor touch and are non-empty have different sort keys, so Python's
    `not (key y < key x)` (stable sort) and the model's strict test agree -/
theorem sortKey_agree (x y : PatternMatch) (hd : Disj x.abs y.abs) (hx : x.abs.start < x.abs.stop)
    (hy : y.abs.start < y.abs.stop) :
    (!(decide (y.lineno < x.lineno) || (y.lineno == x.lineno && decide (-Int.ofNat y.span.1 < -Int.ofNat x.span.1))))
      = mltB x.abs y.abs := by
  simp only [Disj, PatternMatch.abs] at hd hx hy
  show _ = (decide (x.lineno < y.lineno) || (x.lineno == y.lineno && decide (x.span.1 > y.span.1)))
  rw [Bool.eq_iff_iff]
  simp
  omega

/-- `set(patterns) == found_patterns` is the model's "every pattern has a match" -/
theorem foundCheck_agree (patterns : List Pattern) (hwf : ∀ p ∈ patterns, p.Wf) (gen sorted : List PatternMatch)
    (hmem : ∀ m, m ∈ sorted ↔ m ∈ gen) (hpat : ∀ m ∈ gen, m.pattern ∈ patterns) :
    GenF.pySetEq (GenF.pySetOfList patterns)
        (List.foldl (fun s m => GenF.pySetAdd s m.pattern) GenF.pySetEmpty sorted)
      = (patterns.map Pattern.abs).all (fun p => (gen.map PatternMatch.abs).any (fun m => m.pat == p)) := by
  rw [Bool.eq_iff_iff, GenF.pySetEq_iff]
  simp only [GenF.mem_pySetOfList, GenF.mem_foldl_pySetAdd, GenF.pySetEmpty, List.not_mem_nil, false_or,
    List.all_eq_true, List.mem_map, List.any_eq_true, beq_iff_eq]
  constructor
  · rintro h _ ⟨p, hp, rfl⟩
    obtain ⟨b, hb, e⟩ := (h p).1 hp
    exact ⟨b.abs, ⟨b, (hmem b).1 hb, rfl⟩, by rw [← e]; rfl⟩
  · intro h x
    constructor
    · intro hx
      obtain ⟨_, ⟨m, hm, rfl⟩, e⟩ := h x.abs ⟨x, hx, rfl⟩
      refine ⟨m, (hmem m).2 hm, ?_⟩
      exact GenF.Pattern.abs_inj (hwf _ (hpat m hm)) (hwf _ hx) e
    · rintro ⟨b, hb, rfl⟩
      exact hpat b ((hmem b).1 hb)

theorem tie_rewriteLines (patterns : List Pattern) (new_vinfo : VInfo) (old_lines : List Str)
    (hwf : ∀ p ∈ patterns, p.Wf) :
    GenF.rewriteLines patterns new_vinfo old_lines = rewriteLines (patterns.map Pattern.abs) new_vinfo old_lines := by
  have hms := tie_iterMatches old_lines patterns hwf
  obtain ⟨hdisj, hfacts⟩ := iterMatches_facts old_lines _ _ hms
  unfold GenF.rewriteLines rewriteLines
  rw [hms]
  simp only []
  -- the loop: inside the list `xs[i]` / `xs[i] = v` cannot raise
  rw [pyForE_applyMatches new_vinfo _ ?hb _ _ _ ?hl]
  case hb =>
    intro m found ls hlt
    simp only [GenF.pyGetItem_lt ls m.lineno [] hlt, GenF.pySetItem_lt _ _ _ hlt, setLine_eq_set,
      PatternMatch.abs, Pattern.abs]
    cases formatVersion new_vinfo (normalizePattern m.pattern.version_pattern m.pattern.raw_pattern) <;> rfl
  case hl =>
    intro m hm
    unfold GenF.pySortedBy at hm
    rw [GenF.mem_foldr_pyInsertBy] at hm
    obtain ⟨-, -, line, h, -⟩ := hfacts m.abs (List.mem_map_of_mem hm)
    exact (List.getElem?_eq_some_iff.1 h).1
  -- the sort
  unfold GenF.pySortedBy
  rw [GenF.map_pySorted _ _ ?hp]
  case hp =>
    rw [List.pairwise_map] at hdisj
    refine hdisj.imp_of_mem ?_
    intro a b ha hb hd
    exact sortKey_agree a b hd (hfacts a.abs (List.mem_map_of_mem ha)).2.1 (hfacts b.abs (List.mem_map_of_mem hb)).2.1
  -- the final check
  cases applyMatches new_vinfo (sortMatches (List.map PatternMatch.abs (GenF.iterMatches old_lines patterns))) old_lines with
  | error e => rfl
  | ok new =>
    simp only
    have h1 := fun le => foundCheck_agree patterns hwf (GenF.iterMatches old_lines patterns)
      ((GenF.iterMatches old_lines patterns).foldr (GenF.pyInsertBy le) [])
      (fun m => GenF.mem_foldr_pyInsertBy le m _) (iterMatches_pattern_mem old_lines patterns)
    have h2 := fun le => (GenF.pySetEq_comm _ _).trans (h1 le)
    simp only [h1, h2]
    try (cases ((patterns.map Pattern.abs).all fun p =>
      (List.map PatternMatch.abs (GenF.iterMatches old_lines patterns)).any fun m => m.pat == p) <;> simp)

end BV
