/-
  Proofs/Tie_cmdUpdateExtra.lean — companions of `tie_cmdUpdate_updateFull` (Proofs/Tie_cmdUpdate.lean):

    tie_cmdUpdate_plan        the same run against `BV.plan` for the derived environment `u.env` (Model/Plan.lean)
    cmdUpdate_no_config       no configuration could be read (`config.init` gives None): exit 1, nothing happens
    cmdUpdate_unparsable_date an unparsable `--date`: exit 1, nothing happens (the model takes the date parsed)
    updateRealises_exists     NON-VACUITY: the hypotheses of the main tie are jointly satisfiable for EVERY command line,
                              configuration, failure position, tag / status output and hook behaviour
    decide_cliUpdateVersion   the version decision of the composed model (`UpdIn.decide`, what the main tie reaches) in
                              terms of `BV.cliUpdateVersion` (Model/Cli.lean; C01 / C09)
-/
import BumpverVerif.Proofs.Tie_cmdUpdate
set_option linter.unusedSimpArgs false
namespace BV
open TieL

/-- the translated `cli.update` against `plan` for the derived environment -/
theorem tie_cmdUpdate_plan {α DateTime Ctx : Type} (strptime : Str → Str → Option DateTime)
    (dateOf : DateTime → Date) (subT : Str → Str) (vg : Int) (ctx : Ctx) (cfg0 : GenE.Config α) (ce : CmdEnv)
    (A : UpdArgs) (today date : Date) (dateGiven tme : Bool) (fs : FS) (fps : List (Str × List CPat)) (u : UpdIn)
    (h : UpdateRealises strptime dateOf subT vg cfg0 ce A today date dateGiven tme fs fps u) :
    cmdView (runUpdate today strptime dateOf subT vg (ctx, some cfg0) ce.eff.plan.files A ce ⟨⟨[], 0⟩, []⟩)
      = if !validReleaseTag A.fl.tag || (dateGiven && A.fl.pinDate) then ([], 1) else plan u.c0 u.a ce.eff.plan := by
  rw [tie_cmdUpdate_updateFull strptime dateOf subT vg ctx cfg0 ce A today date dateGiven tme fs fps u h]
  have hufl : u.fl = A.fl := by rw [h.input]; rfl
  have hudg : u.dateGiven = dateGiven := by rw [h.input]; rfl
  rw [← hufl, ← hudg, h.env]
  cases hv : (!validReleaseTag u.fl.tag || (u.dateGiven && u.fl.pinDate))
  · rw [updateFull_valid u hv]; rfl
  · rw [updateFull_invalid u hv]; rfl

theorem TieL.validateDateRef_error {DateTime : Type} (strptime : Str → Str → Option DateTime) (dateOf : DateTime → Date)
    (date : Option Str) (pin : Bool) (x : Exc) (h : validateDateRef strptime dateOf date pin = .error x) :
    x = .sysExit 1 := by
  unfold validateDateRef at h
  cases date with
  | none => cases h
  | some s =>
    simp only at h
    split at h
    · cases h; rfl
    · split at h
      · cases h; rfl
      · cases h

/-- `config.init` found no (valid) configuration: `sys.exit(1)` before anything is asked of the VCS -/
theorem cmdUpdate_no_config {α DateTime Ctx : Type} (today : Date) (strptime : Str → Str → Option DateTime)
    (dateOf : DateTime → Date) (subT : Str → Str) (vg : Int) (ctx : Ctx) (files : List Str) (A : UpdArgs)
    (ce : CmdEnv) (s0 : CState) :
    cmdView (runUpdate (α := α) today strptime dateOf subT vg (ctx, none) files A ce s0) = (s0.p.evs.reverse, 1) := by
  unfold runUpdate GenL.update
  simp only [Cmd.bind_liftExc, tie_validateReleaseTag, tie_validateDate]
  cases hrt : validReleaseTag A.fl.tag
  · simp [cmdView, Cmd.exitCode, CStop.code]
  · simp only [if_true]
    cases hvd : validateDateRef strptime dateOf A.date A.fl.pinDate with
    | error x =>
      have := validateDateRef_error _ _ _ _ _ hvd
      subst this
      simp [cmdView, Cmd.exitCode, CStop.code]
    | ok md => simp [cmdView, Cmd.exitCode, CStop.code, Cmd.exit, Cmd.throw]

/-- an unparsable `--date`: `sys.exit(1)` before the configuration is even read -/
theorem cmdUpdate_unparsable_date {α DateTime Ctx : Type} (today : Date) (strptime : Str → Str → Option DateTime)
    (dateOf : DateTime → Date) (subT : Str → Str) (vg : Int) (ci : Ctx × Option (GenE.Config α)) (files : List Str)
    (A : UpdArgs) (d : Str) (hd : A.date = some d) (hsp : strptime d "%Y-%m-%d".toList = none)
    (ce : CmdEnv) (s0 : CState) :
    cmdView (runUpdate today strptime dateOf subT vg ci files A ce s0) = (s0.p.evs.reverse, 1) := by
  unfold runUpdate GenL.update
  simp only [Cmd.bind_liftExc, tie_validateReleaseTag, tie_validateDate]
  have hvd : validateDateRef strptime dateOf A.date A.fl.pinDate = .error (.sysExit 1) := by
    unfold validateDateRef
    rw [hd]
    simp only [hsp]
    split <;> rfl
  cases hrt : validReleaseTag A.fl.tag
  · simp [cmdView, Cmd.exitCode, CStop.code]
  · simp [hvd, cmdView, Cmd.exitCode, CStop.code]

/-- NON-VACUITY of `UpdateRealises`: for every command line, configuration (new-style), base environment (which
    invocation fails, which VCS, what the subcommands print, what the hooks answer), project files and file patterns
    there is a command environment that realises the corresponding model input — provided only the facts about the
    PRIMITIVES hold (the remote probes are read coherently, hg's "already tracked!" case, click's guarantees, the
    `--date` text is readable, `-v` compiles the pattern).  The decision Booleans of the plan environment are then
    DEFINED by the model (`u.env`), the diff oracle by `u.rewriteOk`, and every template renders to the empty text. -/
theorem updateRealises_exists {α DateTime : Type} (strptime : Str → Str → Option DateTime) (dateOf : DateTime → Date)
    (subT : Str → Str) (vg : Int) (cfg0 : GenE.Config α) (e0 : EffEnv) (A : UpdArgs) (today date : Date)
    (dateGiven : Bool) (fs : FS) (fps : List (Str × List CPat))
    (hrem : RemoteCoherent e0)
    (hnt : e0.plan.kind = .hg → isInfix alreadyTracked e0.excStderr = false)
    (hnew : cfg0.is_new_pattern = true ∧ isNewPattern cfg0.version_pattern = true)
    (hdate : DateReading strptime dateOf A.date today dateGiven date)
    (hempty : strptime [] "%Y-%m-%d".toList = none)
    (hts : ∀ s, A.tag_scope = some s → (GenF.TagScope.ofValue s).isSome = true)
    (hpre : A.pre_commit_hook ≠ some []) (hpost : A.post_commit_hook ≠ some [])
    (hverb : pyMaxInt vg A.verbose ≠ 0 → ∃ r, pyV2CompilePattern cfg0.version_pattern = .ok r) :
    ∃ (ce : CmdEnv) (u : UpdIn),
      UpdateRealises strptime dateOf subT vg cfg0 ce A today date dateGiven true fs fps u ∧
      ce.eff.output = e0.output ∧ ce.eff.plan.failAt = e0.plan.failAt ∧ ce.eff.plan.kind = e0.plan.kind ∧
      ce.eff.plan.vcsPresent = e0.plan.vcsPresent ∧ ce.eff.plan.preOk = e0.plan.preOk ∧
      ce.eff.plan.postOk = e0.plan.postOk := by
  let u := updInOf A cfg0 e0 today date dateGiven true fs fps
  let ce : CmdEnv :=
    { eff := { e0 with plan := u.env }
      diffOk := fun _ _ _ => if A.dry then u.rewriteOk u.decide else true
      fmt := fun _ _ => some [] }
  refine ⟨ce, u, ?_, rfl, rfl, rfl, rfl, rfl, rfl⟩
  exact
    { input := rfl
      env := rfl
      remote := ⟨hrem.branch, hrem.remoteGroup, hrem.url⟩
      notTracked := hnt
      newStyle := hnew
      date := hdate
      emptyDate := hempty
      scopeChoice := hts
      preHook := hpre
      postHook := hpost
      verbose1 := hverb
      diffDry := by intro hd _; simp only [ce, hd, if_true]
      diffVerbose := by intro hd _ _; simp only [ce, hd, Bool.false_eq_true, if_false]
      fmtCommit := fun _ => ⟨[], rfl⟩
      fmtTag := fun _ => ⟨[], rfl, rfl⟩ }

/-! ### the version decision of the composed model and `cliUpdateVersion` -/

attribute [local irreducible] isValid parseVersionInfo incr formatVersion normalizeSetVersion latestVersionTag
  parseVersionTags startVersion in
/-- THE VERSION PART.  `tie_cmdUpdate_updateFull` ties the translated command to `updateFull u`, whose version decision
    is `u.decide` (start version, candidate, first half of the gate, uniqueness).  This lemma states that decision in
    terms of `BV.cliUpdateVersion` (the hand model of "the version part of `bumpver update`", the subject of C01 / C09
    and of the driver op `cli_update_version`), for the tag listing `G` that the uniqueness check is served:
    * it ANNOUNCES `new` from `old`  ⇒ the composed model's gate is open, it starts from `old`, its candidate is `new`,
      and (when the uniqueness check applies) `new` is not among the valid tags of `G`;
    * it answers EXIT 1 / CRASH  ⇒ either the composed model's gate is closed, or it is open and the uniqueness check
      over `G` rejects / crashes in the same way. -/
theorem decide_cliUpdateVersion (u : UpdIn) (G : List Str)
    (hv : (!validReleaseTag u.fl.tag || (u.dateGiven && u.fl.pinDate)) = false) :
    match cliUpdateVersion u.scope u.a.ignoreVcsTag u.pat u.cfgVersion u.fl u.dateGiven u.date u.today u.setVersion
        u.tagsSeen G with
    | (.announce new pep, old) =>
        u.decide.gateOk = true ∧ u.decide.start = old ∧ u.decide.new = some new ∧ pep = verStr (parseVersion new) ∧
        ((u.scope == .branch || u.setVersion.isSome) = true →
          ∃ vts, parseVersionTags u.pat u.today G = .ok vts ∧ vts.contains new = false)
    | (.exit1, _) =>
        u.decide.gateOk = false ∨
        (u.decide.gateOk = true ∧ (u.scope == .branch || u.setVersion.isSome) = true ∧
          ∃ vts new, u.decide.new = some new ∧ parseVersionTags u.pat u.today G = .ok vts ∧ vts.contains new = true)
    | (.crash e, _) =>
        u.decide.gateOk = false ∨
        (u.decide.gateOk = true ∧ (u.scope == .branch || u.setVersion.isSome) = true ∧
          parseVersionTags u.pat u.today G = .error e) := by
  have hrt : validReleaseTag u.fl.tag = true := by
    cases h : validReleaseTag u.fl.tag
    · rw [h] at hv; cases hv
    · rfl
  have hdp : (u.dateGiven && u.fl.pinDate) = false := by
    rw [hrt] at hv; simpa using hv
  unfold cliUpdateVersion
  simp only [hrt, hdp, Bool.not_true, Bool.false_eq_true, if_false]
  -- the start version
  have hstart : ∀ (r : Except PErr Str),
      (if u.a.ignoreVcsTag = true then Except.ok u.cfgVersion
        else startVersion u.scope u.pat u.cfgVersion u.today u.tagsSeen) = r →
      u.startE = (match r with | .ok v => some v | .error _ => none) := by
    intro r hr
    unfold UpdIn.startE
    cases hign : u.a.ignoreVcsTag
    · rw [hign] at hr; simp only [Bool.false_eq_true, if_false] at hr ⊢; rw [hr]; cases r <;> rfl
    · rw [hign] at hr; simp only [if_true] at hr ⊢; rw [← hr]
  generalize hr : (if u.a.ignoreVcsTag = true then Except.ok u.cfgVersion
        else startVersion u.scope u.pat u.cfgVersion u.today u.tagsSeen) = r
  have hsE := hstart r hr
  cases r with
  | error e =>
    left
    exact decide_gateOk_of_cand_none u (cand_none_of_startE_none u hsE)
  | ok old =>
    have hsE' : u.startE = some old := hsE
    have hustart : u.start = old := by unfold UpdIn.start; rw [hsE']; rfl
    simp only
    -- the candidate
    have hcand : u.cand = (match candidateE old u.pat u.fl u.date u.today u.setVersion with
        | .ok r => r
        | .error _ => none) := by
      unfold UpdIn.cand candidateE
      rw [hsE']
      cases u.setVersion with
      | none => rfl
      | some v => cases hn : normalizeSetVersion u.pat v u.today <;> simp [hn, Except.map]
    cases hc : candidateE old u.pat u.fl u.date u.today u.setVersion with
    | error e =>
      rw [hc] at hcand
      left; exact decide_gateOk_of_cand_none u hcand
    | ok o =>
      rw [hc] at hcand
      cases o with
      | none => left; exact decide_gateOk_of_cand_none u hcand
      | some new =>
        have hcand' : u.cand = some new := hcand
        have hdec : u.decide = decideCand u old (some new) := by unfold UpdIn.decide; rw [hustart, hcand']
        simp only
        rw [gate_split]
        cases hg : gate u.pat old new false [] u.today with
        | error e =>
          left; rw [hdec]; simp only [decideCand, hg]
        | ok v =>
          cases v with
          | accept =>
            have hgo : u.decide.gateOk = true := by rw [hdec]; simp only [decideCand, hg]
            have hst : u.decide.start = old := by rw [hdec]; rfl
            have hnw : u.decide.new = some new := by rw [hdec]; rfl
            by_cases huq : (u.scope == TagScope.branch || u.setVersion.isSome) = true
            · simp only [huq, if_true]
              cases hp : parseVersionTags u.pat u.today G with
              | error e => right; exact ⟨hgo, trivial, rfl⟩
              | ok vts =>
                by_cases hcn : vts.contains new = true
                · simp only [hcn, if_true]
                  right; exact ⟨hgo, trivial, vts, new, hnw, rfl, hcn⟩
                · simp only [hcn, Bool.false_eq_true, if_false]
                  exact ⟨hgo, hst, hnw, trivial, fun _ => ⟨vts, rfl, by simpa using hcn⟩⟩
            · simp only [huq, Bool.false_eq_true, if_false]
              exact ⟨hgo, hst, hnw, trivial, fun h => h.elim⟩
          | rejectPattern => left; rw [hdec]; simp only [decideCand, hg]
          | rejectNotGreater => left; rw [hdec]; simp only [decideCand, hg]
          | rejectNotUnique => left; rw [hdec]; simp only [decideCand, hg]

/-- the two ties together, at the level of the SOURCE: whenever a run of the translated `cli.update` writes the project
    files, `cliUpdateVersion` (start version from the tags the run saw, candidate, gate) ANNOUNCES the version that is
    written, from the version the hooks and messages see as the old one.  (With the theorems of Props/C01 and Props/C09
    about an announcing `cliUpdateVersion`: that version matches the pattern in full and is strictly greater.) -/
theorem cmdUpdate_writes_only_announced {α DateTime Ctx : Type} (strptime : Str → Str → Option DateTime)
    (dateOf : DateTime → Date) (subT : Str → Str) (vg : Int) (ctx : Ctx) (cfg0 : GenE.Config α) (ce : CmdEnv)
    (A : UpdArgs) (today date : Date) (dateGiven tme : Bool) (fs : FS) (fps : List (Str × List CPat)) (u : UpdIn)
    (h : UpdateRealises strptime dateOf subT vg cfg0 ce A today date dateGiven tme fs fps u)
    (hw : Ev.rewrite ∈ (cmdView (runUpdate today strptime dateOf subT vg (ctx, some cfg0) ce.eff.plan.files A ce
      ⟨⟨[], 0⟩, []⟩)).1) :
    A.dry = false ∧
    ∃ new pep, cliUpdateVersion u.scope A.ignore_vcs_tag cfg0.version_pattern cfg0.current_version A.fl dateGiven date
        today A.set_version u.tagsSeen [] = (.announce new pep, u.decide.start) ∧
      ce.eff.plan.announced = new ∧ ce.eff.plan.startVersion = u.decide.start := by
  rw [tie_cmdUpdate_updateFull strptime dateOf subT vg ctx cfg0 ce A today date dateGiven tme fs fps u h] at hw
  obtain ⟨hdry, hgo, -, hv⟩ := Update_rewrite_needs u hw
  have hu := h.input
  have e1 : u.a.ignoreVcsTag = A.ignore_vcs_tag := by rw [hu]; rfl
  have e2 : u.pat = cfg0.version_pattern := by rw [hu]; rfl
  have e3 : u.cfgVersion = cfg0.current_version := by rw [hu]; rfl
  have e4 : u.fl = A.fl := by rw [hu]; rfl
  have e5 : u.dateGiven = dateGiven := by rw [hu]; rfl
  have e6 : u.date = date := by rw [hu]; rfl
  have e7 : u.today = today := by rw [hu]; rfl
  have e8 : u.setVersion = A.set_version := by rw [hu]; rfl
  have e9 : u.a.dry = A.dry := by rw [hu]; rfl
  refine ⟨by rw [← e9]; exact hdry, ?_⟩
  have hd := decide_cliUpdateVersion u [] hv
  rw [e1, e2, e3, e4, e5, e6, e7, e8] at hd
  have han : ce.eff.plan.announced = u.decide.new.getD [] := by rw [h.env]; rfl
  have hsv : ce.eff.plan.startVersion = u.decide.start := by rw [h.env]; rfl
  rcases hc : cliUpdateVersion u.scope A.ignore_vcs_tag cfg0.version_pattern cfg0.current_version A.fl dateGiven date
      today A.set_version u.tagsSeen [] with ⟨o, old⟩
  rw [hc] at hd
  cases o with
  | announce new pep =>
    obtain ⟨-, hst, hnw, -, -⟩ := hd
    refine ⟨new, pep, ?_, by rw [han, hnw]; rfl, hsv⟩
    rw [hst]
  | exit1 =>
    rcases hd with hd | ⟨-, -, vts, new, -, hp, hcn⟩
    · rw [hgo] at hd; cases hd
    · rw [parseVersionTags_nil] at hp
      cases hp
      cases hcn
  | crash e =>
    rcases hd with hd | ⟨-, -, hp⟩
    · rw [hgo] at hd; cases hd
    · rw [parseVersionTags_nil] at hp
      cases hp

/-- C13 at the level of the SOURCE: a run of the translated `cli.update` with `--dry` writes nothing, runs no hook and
    issues no mutating VCS command (`Update_dry_pure` through the tie) -/
theorem cmdUpdate_dry_pure {α DateTime Ctx : Type} (strptime : Str → Str → Option DateTime)
    (dateOf : DateTime → Date) (subT : Str → Str) (vg : Int) (ctx : Ctx) (cfg0 : GenE.Config α) (ce : CmdEnv)
    (A : UpdArgs) (today date : Date) (dateGiven tme : Bool) (fs : FS) (fps : List (Str × List CPat)) (u : UpdIn)
    (h : UpdateRealises strptime dateOf subT vg cfg0 ce A today date dateGiven tme fs fps u) (hd : A.dry = true) :
    ∀ ev ∈ (cmdView (runUpdate today strptime dateOf subT vg (ctx, some cfg0) ce.eff.plan.files A ce ⟨⟨[], 0⟩, []⟩)).1,
      ev ≠ .rewrite ∧ ev.mutating = false ∧ ev.isHook = false := by
  rw [tie_cmdUpdate_updateFull strptime dateOf subT vg ctx cfg0 ce A today date dateGiven tme fs fps u h]
  have e9 : u.a.dry = true := by rw [h.input]; exact hd
  exact (Update_dry_pure u e9).2

/-- C01 (last clause) / C06 at the level of the SOURCE: when the model's gate is closed (no acceptable new version) or
    the rewrite phase cannot complete, the translated command exits 1, writes nothing, runs no hook and issues no
    mutating VCS command -/
theorem cmdUpdate_failed_leaves_untouched {α DateTime Ctx : Type} (strptime : Str → Str → Option DateTime)
    (dateOf : DateTime → Date) (subT : Str → Str) (vg : Int) (ctx : Ctx) (cfg0 : GenE.Config α) (ce : CmdEnv)
    (A : UpdArgs) (today date : Date) (dateGiven tme : Bool) (fs : FS) (fps : List (Str × List CPat)) (u : UpdIn)
    (h : UpdateRealises strptime dateOf subT vg cfg0 ce A today date dateGiven tme fs fps u)
    (hf : u.decide.gateOk = false ∨ u.rewriteOk u.decide = false) :
    let v := cmdView (runUpdate today strptime dateOf subT vg (ctx, some cfg0) ce.eff.plan.files A ce ⟨⟨[], 0⟩, []⟩)
    v.2 = 1 ∧ ∀ ev ∈ v.1, ev ≠ .rewrite ∧ ev.mutating = false ∧ ev.isHook = false := by
  intro v
  simp only [v]
  rw [tie_cmdUpdate_updateFull strptime dateOf subT vg ctx cfg0 ce A today date dateGiven tme fs fps u h]
  obtain ⟨h1, -, h3⟩ := Update_failed_leaves_untouched u hf
  exact ⟨h1, h3⟩

end BV
