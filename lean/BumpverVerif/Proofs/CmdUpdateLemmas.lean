/-
  Proofs/CmdUpdateLemmas.lean — definitions and lemmas for the tie of the command `cli.update`
  (Proofs/Tie_cmdUpdate.lean): the command line as a record (`UpdArgs`), the input of the composed model that a run
  corresponds to (`updInOf`), `get_tags` in one equation (`getTags_full`), and the bridge between the copies of
  `config.Config` that the translator modules generate.
-/
import BumpverVerif.Gen.F_cmdUpdate
import BumpverVerif.Proofs.Tie_cmdNormalizeSetVersion
import BumpverVerif.Proofs.Tie_cmdIsValidVersion
import BumpverVerif.Proofs.Tie_cmdUpdateCfgFromVcs
import BumpverVerif.Proofs.Tie_cmdTest
import BumpverVerif.Proofs.Tie_parseVcsOptions
import BumpverVerif.Proofs.Tie_cliUpdate
import BumpverVerif.Props.Update
set_option linter.unusedSimpArgs false
namespace BV
namespace TieL

/-- the command line of `bumpver update` -/
structure UpdArgs where
  dry : Bool
  allow_dirty : Bool
  ignore_vcs_tag : Bool
  fetch : Bool
  verbose : Int
  fl : IncrFlags
  date : Option Str
  set_version : Option Str
  commit_message : Option Str
  tag_message : Option Str
  commit : Option Bool
  tag_commit : Option Bool
  push : Option Bool
  tag_scope : Option Str
  pre_commit_hook : Option Str
  post_commit_hook : Option Str

/-- the GENERATED `cli.update` applied to a command line -/
def runUpdate {α DateTime Ctx : Type} (today : Date) (strptime : Str → Str → Option DateTime)
    (dateOf : DateTime → Date) (subT : Str → Str) (vg : Int) (ci : Ctx × Option (GenE.Config α))
    (files : List Str) (A : UpdArgs) : Cmd Unit :=
  GenL.update today strptime dateOf subT vg ci files A.dry A.allow_dirty A.ignore_vcs_tag A.fetch A.verbose
    A.fl.major A.fl.minor A.fl.patch A.fl.tag A.fl.tagNum A.fl.pinIncrements A.fl.pinDate A.date A.set_version
    A.commit_message A.tag_message A.commit A.tag_commit A.push A.tag_scope A.pre_commit_hook A.post_commit_hook

/-- what the plan model keeps of the command line -/
def planCliOf (A : UpdArgs) : PlanCli :=
  absCli A.commit A.tag_commit A.push A.tag_scope A.pre_commit_hook A.post_commit_hook
    { commit := none, tagCommit := none, push := none, preHook := false, postHook := false, scopeBranch := none,
      dry := A.dry, fetch := A.fetch, ignoreVcsTag := A.ignore_vcs_tag, setVersion := A.set_version.isSome }

/-- the tag scope in force: `--tag-scope` when given (click guarantees a member value), else the configured one -/
def scopeE {α : Type} (A : UpdArgs) (cfg0 : GenE.Config α) : GenE.TagScope :=
  match A.tag_scope with
  | none => cfg0.tag_scope
  | some s => (GenE.TagScope.ofValue s).getD cfg0.tag_scope

/-- the tag listing a `get_tags(…, scope)` call returns in state `p`: `[]` without a usable VCS -/
def tagsServed (e : EffEnv) (scope : GenE.TagScope) (p : PState) : List Str :=
  if (isUsable e.plan p).2 then tagsOf (e.output (if scope == .BRANCH then "ls_tags_branch" else "ls_tags")) else []

/-- the input of the composed model `updateFull` that a run of the translated command corresponds to.
    `tme`, `fs`, `fps` are what the translation abstracts: is the rendered tag message empty, the project files, the
    compiled file patterns. -/
def updInOf {α : Type} (A : UpdArgs) (cfg0 : GenE.Config α) (e : EffEnv) (today date : Date) (dateGiven : Bool)
    (tme : Bool) (fs : FS) (fps : List (Str × List CPat)) : UpdIn :=
  { c0 := absCfg tme (GenL.cfgToF cfg0)
    a := planCliOf A
    scope0 := absScopeE cfg0.tag_scope
    cliScope := A.tag_scope.bind (fun s => (GenE.TagScope.ofValue s).map absScopeE)
    kind := e.plan.kind
    vcsPresent := e.plan.vcsPresent
    failAt := e.plan.failAt
    branchRemote := e.plan.branchRemote
    urlRemote := e.plan.urlRemote
    preOk := e.plan.preOk
    postOk := e.plan.postOk
    pat := cfg0.version_pattern
    cfgVersion := cfg0.current_version
    fl := A.fl
    dateGiven := dateGiven
    date := date
    today := today
    setVersion := A.set_version
    scopeTags := tagsOf (e.output (if scopeE A cfg0 == .BRANCH then "ls_tags_branch" else "ls_tags"))
    globalTags := tagsOf (e.output "ls_tags")
    statusLines := pySplitlines (e.output "status")
    allowDirty := A.allow_dirty
    fs := fs
    filePatterns := fps }

/-- how the `--date` text was read (`_validate_date`): absent = today; otherwise what `strptime` parsed -/
def DateReading {DateTime : Type} (strptime : Str → Str → Option DateTime) (dateOf : DateTime → Date)
    (text : Option Str) (today : Date) (dateGiven : Bool) (date : Date) : Prop :=
  (text = none ∧ dateGiven = false ∧ date = today) ∨
  (∃ d dt, text = some d ∧ strptime d "%Y-%m-%d".toList = some dt ∧ dateGiven = true ∧ date = dateOf dt)

/-- the keyword arguments of the two message templates (`new_version`, `old_version`, `NEW_VERSION`, `OLD_VERSION`,
    `new_version_pep440`, `old_version_pep440`; see `msgKwargs_keys`) -/
def msgKwargs (old new : Str) : List (Str × Str) :=
  [(['n', 'e', 'w', '_', 'v', 'e', 'r', 's', 'i', 'o', 'n'], new),
   (['o', 'l', 'd', '_', 'v', 'e', 'r', 's', 'i', 'o', 'n'], old),
   (['N', 'E', 'W', '_', 'V', 'E', 'R', 'S', 'I', 'O', 'N'], new),
   (['O', 'L', 'D', '_', 'V', 'E', 'R', 'S', 'I', 'O', 'N'], old),
   (['n', 'e', 'w', '_', 'v', 'e', 'r', 's', 'i', 'o', 'n', '_', 'p', 'e', 'p', '4', '4', '0'], pyToPep440 new),
   (['o', 'l', 'd', '_', 'v', 'e', 'r', 's', 'i', 'o', 'n', '_', 'p', 'e', 'p', '4', '4', '0'], pyToPep440 old)]

theorem msgKwargs_keys (old new : Str) :
    (msgKwargs old new).map (·.1) =
      ["new_version".toList, "old_version".toList, "NEW_VERSION".toList, "OLD_VERSION".toList,
       "new_version_pep440".toList, "old_version_pep440".toList] := by
  simp only [msgKwargs, List.map]
  decide

end TieL
open TieL

/-! ### `get_tags` in one equation: the model's events and outcome, and the list it returns -/

theorem TieL.getTags_full (e : EffEnv) (p : PState) (fetch : Bool) (scope : GenE.TagScope) (hc : RemoteCoherent e) :
    GenE.getTags fetch scope e p =
      (match BV.getTags e.plan fetch (scope == .BRANCH) p with
       | (p', .ok) => (p', .ok (tagsServed e scope p))
       | (p', .failed) => (p', .error .called)) := by
  have hv := tie_getTags e p fetch scope hc
  have hl := getTags_value e p fetch scope hc
  have hk := getTags_stop_kinds e p fetch scope hc
  rcases hr : GenE.getTags fetch scope e p with ⟨p', r⟩
  rw [hr] at hv hl hk
  rw [← hv]
  cases r with
  | error x =>
    simp only at hk
    subst hk
    rfl
  | ok tags =>
    simp only at hl
    subst hl
    rfl

theorem TieL.tagsThen_run {β : Type} (fetch : Bool) (scope : GenE.TagScope) (k : List Str → Except CStop β)
    (ce : CmdEnv) (s : CState) (hc : RemoteCoherent ce.eff) :
    tagsThen fetch scope k ce s =
      (match BV.getTags ce.eff.plan fetch (scope == .BRANCH) s.p with
       | (p', .ok) => ({ s with p := p' }, k (tagsServed ce.eff scope s.p))
       | (p', .failed) => ({ s with p := p' }, .error (.eff .called))) := by
  unfold tagsThen
  rw [getTags_full _ _ _ _ hc]
  rcases BV.getTags ce.eff.plan fetch (scope == .BRANCH) s.p with ⟨p', o⟩
  cases o <;> rfl

theorem TieL.uniqueCmd_run (check : List Str → Except CStop Bool) (ce : CmdEnv) (s : CState) (hc : RemoteCoherent ce.eff) :
    uniqueCmd check ce s =
      (match BV.getTags ce.eff.plan false false s.p with
       | (p', .ok) => ({ s with p := p' }, check (tagsServed ce.eff .GLOBAL s.p))
       | (p', .failed) => ({ s with p := p' }, .error (.eff .called))) := by
  unfold uniqueCmd
  rw [getTags_full _ _ _ _ hc]
  have hgb : (GenE.TagScope.GLOBAL == GenE.TagScope.BRANCH) = false := rfl
  rw [hgb]
  rcases BV.getTags ce.eff.plan false false s.p with ⟨p', o⟩
  cases o <;> rfl

/-! ### `_parse_vcs_options` on the GenE copy of the record -/

theorem TieL.scopeOfF_branch (x : GenF.TagScope) : (GenL.scopeOfF x == GenE.TagScope.BRANCH) = (x == GenF.TagScope.BRANCH) := by
  cases x <;> rfl

theorem TieL.scopeOfF_toF (x : GenE.TagScope) : GenL.scopeOfF (GenL.scopeToF x) = x := by cases x <;> rfl

theorem TieL.ofValue_EF (s : Str) : (GenF.TagScope.ofValue s).map GenL.scopeOfF = GenE.TagScope.ofValue s := by
  unfold GenF.TagScope.ofValue GenE.TagScope.ofValue
  have h1 : "default".toList = ['d', 'e', 'f', 'a', 'u', 'l', 't'] := by decide
  have h2 : "global".toList = ['g', 'l', 'o', 'b', 'a', 'l'] := by decide
  have h3 : "branch".toList = ['b', 'r', 'a', 'n', 'c', 'h'] := by decide
  rw [h1, h2, h3]
  repeat' split
  all_goals rfl

theorem TieL.scopeOfF_choice (ts : Option Str) (sc : GenE.TagScope)
    (hts : ∀ s, ts = some s → (GenF.TagScope.ofValue s).isSome = true) :
    GenL.scopeOfF (match (generalizing := false) ts with
      | none => GenL.scopeToF sc
      | some s => (GenF.TagScope.ofValue s).getD (GenL.scopeToF sc))
      = (match (generalizing := false) ts with
         | none => sc
         | some s => (GenE.TagScope.ofValue s).getD sc) := by
  cases ts with
  | none => exact scopeOfF_toF _
  | some s =>
    have h2 := ofValue_EF s
    cases hvs : GenF.TagScope.ofValue s with
    | none => have := hts s rfl; rw [hvs] at this; cases this
    | some v => rw [hvs] at h2; simp only [Option.map] at h2; simp [← h2, hvs]

/-- what the plan model keeps of a record is the same for the two generated copies -/
theorem TieL.absCfgE_ofF {α : Type} (tm : Str) (c : GenF.Config α) :
    absCfgE tm (GenL.cfgOfF c) = absCfg tm.isEmpty c := by
  simp [absCfgE, absCfg, GenL.cfgOfF, scopeOfF_branch]

/-- `_parse_vcs_options` only touches the VCS switches, the hooks and the tag scope -/
theorem TieL.parseVcsOptions_fields {α : Type} (cfg c1 : GenF.Config α) (commit tag_commit push : Option Bool)
    (tag_scope pre post : Option Str)
    (h : GenF.parseVcsOptions cfg commit tag_commit push tag_scope pre post = some c1) :
    c1.current_version = cfg.current_version ∧ c1.version_pattern = cfg.version_pattern ∧
    c1.pep440_version = cfg.pep440_version ∧ c1.commit_message = cfg.commit_message ∧
    c1.tag_message = cfg.tag_message ∧ c1.is_new_pattern = cfg.is_new_pattern ∧
    c1.tag_scope = (match (generalizing := false) tag_scope with
      | none => cfg.tag_scope
      | some s => (GenF.TagScope.ofValue s).getD cfg.tag_scope) := by
  unfold GenF.parseVcsOptions at h
  rcases commit with _ | _ | _ <;> rcases tag_commit with _ | _ | _ <;> rcases push with _ | _ | _ <;>
    cases hc : cfg.commit <;> simp [hc] at h <;>
    (rcases tag_scope with _ | s <;> simp at h ⊢ <;>
      first
        | (subst h; rcases pre with _ | p <;> rcases post with _ | q <;> simp)
        | (cases hv : GenF.TagScope.ofValue s <;> simp [hv] at h ⊢ <;>
            (subst h; rcases pre with _ | p <;> rcases post with _ | q <;> simp)))


/-! ### the plan model, staged the way the command runs -/

/-- what is observed of a run: the VCS events in order and the exit code -/
def TieL.cmdView {α : Type} (r : CState × Except CStop α) : List Ev × Nat := (r.1.p.evs.reverse, Cmd.exitCode r.2)

/-- the part of `plan` after the start-version listing, started in state `s1` -/
def TieL.planGate (c : PlanCfg) (a : PlanCli) (e : PlanEnv) (s1 : PState) : List Ev × Nat :=
  if !e.gateOk then (s1.evs.reverse, 1)
  else
    let (s2, o2) :=
      if c.scopeBranch || a.setVersion then getTags e false false s1 else (s1, Outcome.ok)
    if o2 == .failed then (s2.evs.reverse, 1)
    else if (c.scopeBranch || a.setVersion) && tagsListed e s1 && !e.uniqueOk then (s2.evs.reverse, 1)
    else if a.dry then (s2.evs.reverse, if e.rewriteOk then 0 else 1)
    else planTail e c s2

/-- `plan` with its two later stages folded -/
def TieL.planStaged (c0 : PlanCfg) (a : PlanCli) (e : PlanEnv) : List Ev × Nat :=
  match parseVcsOptions c0 a with
  | none => ([], 1)
  | some c =>
    let s0 : PState := { evs := [], n := 0 }
    let (s1, o1) := if a.ignoreVcsTag then (s0, Outcome.ok) else getTags e a.fetch c.scopeBranch s0
    if o1 == .failed then (s1.evs.reverse, 1)
    else planGate c a e s1

theorem TieL.plan_eq_staged (c0 : PlanCfg) (a : PlanCli) (e : PlanEnv) : plan c0 a e = planStaged c0 a e := by
  rw [plan_eq_viaTail]; rfl

/-! ### the model input of a run: its fields -/

theorem TieL.isUsable_congr (e1 e2 : PlanEnv) (hv : e1.vcsPresent = e2.vcsPresent) (hf : e1.failAt = e2.failAt) (p : PState) :
    isUsable e1 p = isUsable e2 p := by
  unfold isUsable vcsCall
  rw [hv, hf]

/-- the scope in force, as the model input has it -/
theorem TieL.updInOf_scope {α : Type} (A : UpdArgs) (cfg0 : GenE.Config α) (e : EffEnv) (today date : Date) (dg tme : Bool)
    (fs : FS) (fps : List (Str × List CPat))
    (hts : ∀ s, A.tag_scope = some s → (GenF.TagScope.ofValue s).isSome = true) :
    (updInOf A cfg0 e today date dg tme fs fps).scope = absScopeE (scopeE A cfg0) := by
  unfold UpdIn.scope scopeE
  simp only [updInOf]
  cases hs : A.tag_scope with
  | none => rfl
  | some s =>
    have h1 := hts s hs
    have h2 := ofValue_EF s
    cases hv : GenF.TagScope.ofValue s with
    | none => rw [hv] at h1; cases h1
    | some v =>
      rw [hv] at h2
      simp only [Option.map] at h2
      simp [← h2]

theorem TieL.planGate_reject (c : PlanCfg) (a : PlanCli) (e : PlanEnv) (s1 : PState) (h : e.gateOk = false) :
    planGate c a e s1 = (s1.evs.reverse, 1) := by
  unfold planGate; simp [h]

/-- no start version, or no candidate: the model's gate is closed -/
theorem TieL.decide_gateOk_of_cand_none (u : UpdIn) (h : u.cand = none) : u.decide.gateOk = false := by
  unfold UpdIn.decide; rw [h]; rfl

theorem TieL.cand_none_of_startE_none (u : UpdIn) (h : u.startE = none) : u.cand = none := by
  unfold UpdIn.cand; rw [h]

theorem TieL.code_eff (x : Stop) : (CStop.eff x).code = Eff.exitCode (.error x : Except Stop Unit) := by
  cases x <;> rfl

end BV
