/-
  Proofs/Tie_patternsPrims.lean — lemmas about the trusted primitives of the function translator
  `harness/translate_patterns.py` (Gen/PatternsPrims.lean, namespace `BV.PyP`): the fuel loop, loops
  that can raise, slices / `find` at natural-number arguments.  Used by the ties of the group `patterns`.
-/
import BumpverVerif.Gen.PatternsPrims
import BumpverVerif.Proofs.PatternLemmas
namespace BV.PyP

/-! ### loops that can raise -/

/-- a raising loop whose body never raises on the states that occur is a `foldl`
    (`abs` relates a model state to the state of the generated loop) -/
theorem forM_abs {σ τ α : Type} (body : σ → α → Option σ) (f : τ → α → τ) (abs : τ → σ) (xs : List α)
    (h : ∀ x ∈ xs, ∀ t, body (abs t) x = some (abs (f t x))) (t : τ) :
    forM body xs (abs t) = some (abs (xs.foldl f t)) := by
  induction xs generalizing t with
  | nil => rfl
  | cons x xs ih =>
    simp only [forM, h x List.mem_cons_self t, List.foldl_cons]
    exact ih (fun y hy => h y (List.mem_cons_of_mem _ hy)) _

/-- "some iteration raises": `r s x` says that the body raises in state `s` on item `x`, `f` is the
    state transformer of the iterations that do not raise -/
def raisesAlong {σ α : Type} (r : σ → α → Bool) (f : σ → α → σ) : List α → σ → Bool
  | [], _ => false
  | x :: xs, s => r s x || raisesAlong r f xs (f s x)

/-- a raising loop, exactly: `none` iff some iteration raises, otherwise the `foldl` -/
theorem forM_raises {σ α : Type} (body : σ → α → Option σ) (f : σ → α → σ) (r : σ → α → Bool) (xs : List α)
    (h : ∀ x ∈ xs, ∀ s, body s x = if r s x then none else some (f s x)) (s : σ) :
    forM body xs s = if raisesAlong r f xs s then none else some (xs.foldl f s) := by
  induction xs generalizing s with
  | nil => rfl
  | cons x xs ih =>
    simp only [forM, h x List.mem_cons_self s, raisesAlong, List.foldl_cons]
    by_cases hr : r s x = true
    · simp [hr]
    · simp only [hr, Bool.false_eq_true, if_false, Bool.false_or]
      exact ih (fun y hy => h y (List.mem_cons_of_mem _ hy)) _

/-- no iteration raises when an invariant of the states excludes it -/
theorem raisesAlong_false {σ α : Type} (r : σ → α → Bool) (f : σ → α → σ) (P : σ → Prop) (xs : List α)
    (hr : ∀ x ∈ xs, ∀ s, P s → r s x = false) (hf : ∀ x ∈ xs, ∀ s, P s → P (f s x)) (s : σ) (hs : P s) :
    raisesAlong r f xs s = false := by
  induction xs generalizing s with
  | nil => rfl
  | cons x xs ih =>
    simp only [raisesAlong, hr x List.mem_cons_self s hs, Bool.false_or]
    exact ih (fun y hy => hr y (List.mem_cons_of_mem _ hy)) (fun y hy => hf y (List.mem_cons_of_mem _ hy)) _
      (hf x List.mem_cons_self s hs)

/-! ### normal form of `if` tests (so that `if not c: A else: B` and `if c: B else: A`, or two guards merged
    with `or`, give the same term) -/

theorem ite_bnot {α : Type} (c : Bool) (x y : α) :
    (if (!c) = true then x else y) = if c = true then y else x := by cases c <;> rfl

theorem ite_bor {α : Type} (a b : Bool) (x y : α) :
    (if (a || b) = true then x else y) = if a = true then x else if b = true then x else y := by
  cases a <;> cases b <;> rfl

theorem ite_band {α : Type} (a b : Bool) (x y : α) :
    (if (a && b) = true then x else y) = if a = true then (if b = true then x else y) else y := by
  cases a <;> cases b <;> rfl

/-- a loop that appends `f x` (which can raise) to a list is the raising comprehension -/
theorem forM_append_mapM {α β : Type} (f : α → Option β) (body : List β → α → Option (List β))
    (h : ∀ acc x, body acc x = match f x with | none => none | some y => some (acc ++ [y])) :
    ∀ (xs : List α) (acc : List β), forM body xs acc = (mapM f xs).map (acc ++ ·)
  | [], acc => by simp [forM, mapM]
  | x :: xs, acc => by
    simp only [forM, mapM, h]
    cases hx : f x with
    | none => rfl
    | some y =>
      simp only [forM_append_mapM f body h xs (acc ++ [y])]
      cases mapM f xs <;> simp

theorem mapM_some {α β : Type} (f : α → Option β) (g : α → β) (xs : List α)
    (h : ∀ x ∈ xs, f x = some (g x)) : mapM f xs = some (xs.map g) := by
  induction xs with
  | nil => rfl
  | cons x xs ih =>
    simp only [mapM, h x List.mem_cons_self, ih (fun y hy => h y (List.mem_cons_of_mem _ hy)), List.map_cons]

/-! ### slices and `find` at natural-number arguments -/

theorem clamp_natCast (n k : Nat) : clamp n (k : Int) = min n k := by
  have h0 : ¬ ((k : Int) < 0) := by omega
  simp only [clamp, h0, if_false, Int.toNat_natCast]

theorem sliceTo_natCast (s : Str) (k : Nat) : sliceTo s (k : Int) = s.take k := by
  simp only [sliceTo, clamp_natCast]
  rcases Nat.le_total s.length k with h | h
  · rw [Nat.min_eq_left h, List.take_of_length_le (Nat.le_refl _), List.take_of_length_le h]
  · rw [Nat.min_eq_right h]

theorem sliceFrom_natCast (s : Str) (k : Nat) : sliceFrom s (k : Int) = s.drop k := by
  simp only [sliceFrom, clamp_natCast]
  rcases Nat.le_total s.length k with h | h
  · rw [Nat.min_eq_left h, List.drop_of_length_le (Nat.le_refl _), List.drop_of_length_le h]
  · rw [Nat.min_eq_right h]

theorem sliceFrom_one (s : Str) : sliceFrom s 1 = s.drop 1 := sliceFrom_natCast s 1

/-- `s.find(sub, e)` for `0 ≤ e`, nothing found -/
theorem find_natCast_none (s sub : Str) (e : Nat)
    (h : findIdx sub (s.drop e) = none) : find s sub (e : Int) = -1 := by
  have h0 : ¬ ((e : Int) < 0) := by omega
  simp only [find, h0, if_false, Int.toNat_natCast, h]
  split <;> rfl

/-- `s.find(sub, e)` for `0 ≤ e`: the model's `findIdx` on the rest of the string -/
theorem find_natCast_some (s sub : Str) (e i : Nat) (hsub : sub ≠ [])
    (h : findIdx sub (s.drop e) = some i) : find s sub (e : Int) = ((e + i : Nat) : Int) := by
  have h0 : ¬ ((e : Int) < 0) := by omega
  have hlen : ¬ e > s.length := by
    intro hgt
    have hd : s.drop e = [] := List.drop_of_length_le (by omega)
    rw [hd] at h
    cases sub with
    | nil => exact hsub rfl
    | cons c cs => simp [findIdx] at h
  simp only [find, h0, if_false, Int.toNat_natCast, hlen, h]
  rfl

theorem find_zero_none (s sub : Str) (h : findIdx sub s = none) : find s sub 0 = -1 := by
  have := find_natCast_none s sub 0 (by simpa using h)
  simpa using this

theorem find_zero_some (s sub : Str) (i : Nat) (hsub : sub ≠ []) (h : findIdx sub s = some i) :
    find s sub 0 = (i : Int) := by
  have := find_natCast_some s sub 0 i hsub (by simpa using h)
  simpa using this

/-- `s[-2]` -/
theorem getItem_neg_two (s : Str) :
    getItem s (-1 - 1) = if s.length < 2 then none else (s[s.length - 2]?).map (fun c => [c]) := by
  have e : ((-1 : Int) - 1) = -2 := by omega
  rw [e]
  by_cases h : s.length < 2
  · have h1 : (-2 : Int) < 0 := by omega
    have h2 : ((s.length : Int) + -2) < 0 := by omega
    simp only [getItem, h1, if_true, Int.ofNat_eq_natCast, h2, h]
  · have h1 : (-2 : Int) < 0 := by omega
    have h2 : ¬ ((s.length : Int) + -2) < 0 := by omega
    have h3 : ((s.length : Int) + -2).toNat = s.length - 2 := by omega
    simp only [getItem, h1, if_true, Int.ofNat_eq_natCast, h2, if_false, h, h3]

/-- an occurrence found by `findIdx` lies inside the string -/
theorem findIdx_bound {sub s : Str} {i : Nat} (h : findIdx sub s = some i) :
    i + sub.length ≤ s.length ∨ (sub = [] ∧ i ≤ s.length) ∨ s.length < i := by
  have hp := List.isPrefixOf_iff_prefix.mp (findIdx_some_prefix h)
  have hl := hp.length_le
  simp only [List.length_drop] at hl
  omega

theorem findIdx_le {sub s : Str} {i : Nat} (h : findIdx sub s = some i) : i ≤ s.length := by
  induction s generalizing i with
  | nil =>
    simp only [findIdx] at h
    split at h <;> simp_all
  | cons x xs ih =>
    simp only [findIdx] at h
    split at h
    · cases h; simp
    · cases hf : findIdx sub xs with
      | none => simp [hf] at h
      | some j =>
        simp [hf] at h
        subst h
        have := ih hf
        simp; omega

theorem findIdx_add_le {sub s : Str} {i : Nat} (h : findIdx sub s = some i) : i + sub.length ≤ s.length := by
  have hp := List.isPrefixOf_iff_prefix.mp (findIdx_some_prefix h)
  have hl := hp.length_le
  have := findIdx_le h
  simp only [List.length_drop] at hl
  omega

theorem getItem_natCast (s : Str) (k : Nat) : getItem s (k : Int) = (s[k]?).map (fun c => [c]) := by
  have h0 : ¬ ((k : Int) < 0) := by omega
  simp only [getItem, h0, if_false, Int.toNat_natCast]

theorem replace_of_ne (pat rep s : Str) (h : pat ≠ []) : replace pat rep s = replaceAll pat rep s := by
  cases pat with
  | nil => exact absurd rfl h
  | cons c cs => simp [replace]

theorem replaceAll_nil (rep s : Str) : replaceAll [] rep s = s := by
  cases s with
  | nil => simp [replaceAll, replaceAllF]
  | cons c cs => simp [replaceAll, replaceAllF]

end BV.PyP
