/-
  Proofs/TieN_ReadBack.lean — DOMAIN MEMBERSHIP OF WHAT WAS READ BACK: the record `v'` that
  `parse_field_values_to_vinfo` reads from the group dictionary of the rendered text lies in the domain of every
  rendered part again (`Pat.vok v' p`), provided the calendar FIELDS of the pattern read back to themselves:

      CalFieldsReadBack p v today  :=  ∃ c', parseCinfo (Pat.fv v p) today = .ok c' ∧
                                         ∀ f ∈ p.fields, f ∈ calFields → { v with cal := c' }.get f = v.get f

  This is `CalReadsBack` (Proofs/ReadBack.lean) with "same part TEXT" replaced by "same field VALUE".  The two differ
  only for the two-digit-year parts YY / 0Y / GG / 0G, whose renderer `str(v)[-2:]` is not injective:
    * `calFieldsReadBack_of_date`   : it holds for every record whose calendar is `cal_info` of a valid date (what a
                                      bump produces) and every anchored pattern — same hypotheses as `calReadsBack_of_date`;
    * `calFieldsReadBack_of_texts`  : it follows from `CalReadsBack` when the pattern has no two-digit-year part;
    * WITHOUT it `Pat.vok v' p` can fail: `vok_readback_needs_condition` (Props/C02Code.lean).
  No Mathlib.
-/
import BumpverVerif.Proofs.ReadBack
namespace BV
namespace TieN

/-- the calendar fields of the pattern read back to the VALUES they were rendered from -/
def CalFieldsReadBack (p : Pat) (v : VInfo) (today : Nat × Nat × Nat) : Prop :=
  ∃ c', parseCinfo (Pat.fv v p) today = .ok c' ∧
    ∀ f, f ∈ p.fields → f ∈ Gen.calFields → ({ v with cal := c' } : VInfo).get f = v.get f

theorem calReadsBack_of_fields (p : Pat) (v : VInfo) (today : Nat × Nat × Nat) (h : CalFieldsReadBack p v today) :
    CalReadsBack p v today := by
  obtain ⟨c', hpc, hf⟩ := h
  refine ⟨c', hpc, fun n hn hcp => ?_⟩
  obtain ⟨f, hlf, hfc⟩ := calPart_field n hcp
  exact partText_congr_get n f hlf _ _ (hf f (List.mem_filterMap.mpr ⟨n, hn, hlf⟩) hfc)

/-- a record whose calendar is `cal_info` of a valid date reads back FIELD BY FIELD, for every anchored pattern
    (the proof of `calReadsBack_of_date`, with the field-level conclusion kept) -/
theorem calFieldsReadBack_of_date (p : Pat) (v : VInfo) (today : Nat × Nat × Nat) (y m d : Nat)
    (hd : validDate y m d = true) (hcal : v.cal = (calInfo y m d).toOpt)
    (hwf : Pat.wfTop p = true) (hv : Pat.vok v p = true) (ha : Pat.calAnchored p = true) :
    CalFieldsReadBack p v today := by
  simp only [Pat.wfTop, Bool.and_eq_true] at hwf
  obtain ⟨hwf1, hnd0⟩ := hwf
  have hnd := (nodupStr_iff _).mp hnd0
  have gY : v.get "year_y".toList = .nat y := by
    show optNat v.cal.yearY = _; rw [hcal]; rfl
  have gG : v.get "year_g".toList = .nat (calInfo y m d).yearG := by
    show optNat v.cal.yearG = _; rw [hcal]; rfl
  have gQ : v.get "quarter".toList = .nat (calInfo y m d).quarter := by
    show optNat v.cal.quarter = _; rw [hcal]; rfl
  have gM : v.get "month".toList = .nat m := by
    show optNat v.cal.month = _; rw [hcal]; rfl
  have gD : v.get "dom".toList = .nat d := by
    show optNat v.cal.dom = _; rw [hcal]; rfl
  have gJ : v.get "doy".toList = .nat (dayOfYear y m d) := by
    show optNat v.cal.doy = _; rw [hcal]; rfl
  have gW : v.get "week_w".toList = .nat (calInfo y m d).weekW := by
    show optNat v.cal.weekW = _; rw [hcal]; rfl
  have gU : v.get "week_u".toList = .nat (calInfo y m d).weekU := by
    show optNat v.cal.weekU = _; rw [hcal]; rfl
  have gV : v.get "week_v".toList = .nat (calInfo y m d).weekV := by
    show optNat v.cal.weekV = _; rw [hcal]; rfl
  obtain ⟨a1, i1, r1⟩ := rc_read v p hnd hwf1 hv "year_y" (by decide) _ gY
  obtain ⟨a2, i2, r2⟩ := rc_read v p hnd hwf1 hv "year_g" (by decide) _ gG
  obtain ⟨a3, i3, r3⟩ := rc_read v p hnd hwf1 hv "month" (by decide) _ gM
  obtain ⟨a4, i4, r4⟩ := rc_read v p hnd hwf1 hv "doy" (by decide) _ gJ
  obtain ⟨a5, i5, r5⟩ := rc_read v p hnd hwf1 hv "dom" (by decide) _ gD
  obtain ⟨a6, i6, r6⟩ := rc_read v p hnd hwf1 hv "week_w" (by decide) _ gW
  obtain ⟨a7, i7, r7⟩ := rc_read v p hnd hwf1 hv "week_u" (by decide) _ gU
  obtain ⟨a8, i8, r8⟩ := rc_read v p hnd hwf1 hv "week_v" (by decide) _ gV
  obtain ⟨a9, i9, r9⟩ := rc_read v p hnd hwf1 hv "quarter" (by decide) _ gQ
  rw [map_yadj_other _ _ (by decide)] at r3 r4 r5 r6 r7 r8 r9
  have hpc := parseCinfo_eq (Pat.fv v p) today a1 a2 a3 a4 a5 a6 a7 a8 a9 i1 i2 i3 i4 i5 i6 i7 i8 i9
  have hanch : ("year_y".toList ∈ p.fields ∨ "year_g".toList ∈ p.fields ∨ "month".toList ∈ p.fields ∨
      "dom".toList ∈ p.fields ∨ "doy".toList ∈ p.fields ∨ "week_v".toList ∈ p.fields) ∨
      (¬ "year_y".toList ∈ p.fields ∧ ¬ "year_g".toList ∈ p.fields ∧ ¬ "month".toList ∈ p.fields ∧
       ¬ "doy".toList ∈ p.fields ∧ ¬ "dom".toList ∈ p.fields ∧ ¬ "week_w".toList ∈ p.fields ∧
       ¬ "week_u".toList ∈ p.fields ∧ ¬ "week_v".toList ∈ p.fields ∧ ¬ "quarter".toList ∈ p.fields) := by
    simp only [Pat.calAnchored, Bool.or_eq_true, List.any_eq_true, List.all_eq_true,
      Bool.not_eq_true'] at ha
    rcases ha with ⟨n, hn, han⟩ | hno
    · left
      have ht := anchor_field_table
      rw [List.all_eq_true] at ht
      have := ht n (by simpa using han)
      cases hf : lookup n Gen.partFields with
      | none => rw [hf] at this; cases this
      | some f =>
        rw [hf] at this
        have hfp : f ∈ p.fields := List.mem_filterMap.mpr ⟨n, hn, hf⟩
        simp only [List.contains_iff_mem, List.mem_cons, List.not_mem_nil, or_false] at this
        rcases this with rfl | rfl | rfl | rfl | rfl | rfl
        · exact .inl hfp
        · exact .inr (.inl hfp)
        · exact .inr (.inr (.inl hfp))
        · exact .inr (.inr (.inr (.inl hfp)))
        · exact .inr (.inr (.inr (.inr (.inl hfp))))
        · exact .inr (.inr (.inr (.inr (.inr hfp))))
    · right
      have key : ∀ f, f ∈ Gen.calFields → ¬ f ∈ p.fields := by
        intro f hfc hfp
        obtain ⟨n, hn, hf⟩ := List.mem_filterMap.mp hfp
        have := calField_part n f (wf_parts p _ hwf1 n hn) hf hfc
        rw [hno n hn] at this; cases this
      exact ⟨key _ (by decide), key _ (by decide), key _ (by decide), key _ (by decide),
        key _ (by decide), key _ (by decide), key _ (by decide), key _ (by decide), key _ (by decide)⟩
  obtain ⟨c', hc', cY, cG, cM, cJ, cD, cW, cU, cV, cQ⟩ := core_reads y m d today hd
    (dateFromDoy_of_valid y m d hd) _ _ _ _ _ _ _ _ _ _ _ _ _ _ _ _ _ _
    (r1.mono (fun h => h (by decide))) (r2.mono (fun h => h (by decide)))
    (r3.mono (fun h => h (by decide))) (r4.mono (fun h => h (by decide)))
    (r5.mono (fun h => h (by decide))) (r6.mono (fun _ => trivial)) (r7.mono (fun _ => trivial))
    (r8.mono (fun h => h (by decide))) (r9.mono (fun _ => trivial)) hanch
  refine ⟨c', hpc.trans hc', ?_⟩
  intro f hfp hfc
  simp only [Gen.calFields, List.mem_cons, List.not_mem_nil, or_false] at hfc
  rcases hfc with rfl | rfl | rfl | rfl | rfl | rfl | rfl | rfl | rfl
  · rw [gY]; show optNat c'.yearY = _; rw [cY hfp]; rfl
  · rw [gG]; show optNat c'.yearG = _; rw [cG hfp]; rfl
  · rw [gQ]; show optNat c'.quarter = _; rw [cQ hfp]; rfl
  · rw [gM]; show optNat c'.month = _; rw [cM hfp]; rfl
  · rw [gD]; show optNat c'.dom = _; rw [cD hfp]; rfl
  · rw [gJ]; show optNat c'.doy = _; rw [cJ hfp]; rfl
  · rw [gW]; show optNat c'.weekW = _; rw [cW hfp]; rfl
  · rw [gU]; show optNat c'.weekU = _; rw [cU hfp]; rfl
  · rw [gV]; show optNat c'.weekV = _; rw [cV hfp]; rfl


/-! ### domain membership of the record that was read back -/

theorem partOk_congr_aux (n f : Str) (get : CalOpt → Option Nat) (lo hi : Nat)
    (hf : lookup n Gen.partFields = some f) (hget : ∀ v : VInfo, v.get f = optNat (get v.cal))
    (hdom : ∀ v : VInfo, partOk v n = optIn (get v.cal) lo hi) (v1 v2 : VInfo)
    (h : ∀ f, lookup n Gen.partFields = some f → v1.get f = v2.get f) : partOk v1 n = partOk v2 n := by
  have e := h f hf
  rw [hget, hget] at e
  rw [hdom, hdom]
  cases h1 : get v1.cal <;> cases h2 : get v2.cal <;> rw [h1, h2] at e <;> simp only [optNat] at e
  · cases e
  · cases e
  · cases e; rfl

/-- the domain test of a calendar part only looks at the part's field -/
theorem partOk_cal_congr (n : Str) (hc : isCalPart n = true) (v1 v2 : VInfo)
    (h : ∀ f, lookup n Gen.partFields = some f → v1.get f = v2.get f) : partOk v1 n = partOk v2 n := by
  have hmem : n ∈ calPartNames := by simpa [isCalPart] using hc
  simp only [calPartNames, List.map_cons, List.map_nil, List.mem_cons, List.not_mem_nil, or_false] at hmem
  rcases hmem with rfl | rfl | rfl | rfl | rfl | rfl | rfl | rfl | rfl | rfl | rfl | rfl | rfl | rfl |
    rfl | rfl | rfl | rfl | rfl
  · exact partOk_congr_aux _ "year_y".toList (·.yearY) 1000 9999 (by decide) (fun _ => rfl) (fun _ => rfl) v1 v2 h
  · exact partOk_congr_aux _ "year_y".toList (·.yearY) 2001 2099 (by decide) (fun _ => rfl) (fun _ => rfl) v1 v2 h
  · exact partOk_congr_aux _ "year_y".toList (·.yearY) 2000 2099 (by decide) (fun _ => rfl) (fun _ => rfl) v1 v2 h
  · exact partOk_congr_aux _ "year_g".toList (·.yearG) 1000 9999 (by decide) (fun _ => rfl) (fun _ => rfl) v1 v2 h
  · exact partOk_congr_aux _ "year_g".toList (·.yearG) 2001 2099 (by decide) (fun _ => rfl) (fun _ => rfl) v1 v2 h
  · exact partOk_congr_aux _ "year_g".toList (·.yearG) 2000 2099 (by decide) (fun _ => rfl) (fun _ => rfl) v1 v2 h
  · exact partOk_congr_aux _ "quarter".toList (·.quarter) 1 4 (by decide) (fun _ => rfl) (fun _ => rfl) v1 v2 h
  · exact partOk_congr_aux _ "month".toList (·.month) 1 12 (by decide) (fun _ => rfl) (fun _ => rfl) v1 v2 h
  · exact partOk_congr_aux _ "month".toList (·.month) 1 12 (by decide) (fun _ => rfl) (fun _ => rfl) v1 v2 h
  · exact partOk_congr_aux _ "dom".toList (·.dom) 1 31 (by decide) (fun _ => rfl) (fun _ => rfl) v1 v2 h
  · exact partOk_congr_aux _ "dom".toList (·.dom) 1 31 (by decide) (fun _ => rfl) (fun _ => rfl) v1 v2 h
  · exact partOk_congr_aux _ "doy".toList (·.doy) 1 366 (by decide) (fun _ => rfl) (fun _ => rfl) v1 v2 h
  · exact partOk_congr_aux _ "doy".toList (·.doy) 1 366 (by decide) (fun _ => rfl) (fun _ => rfl) v1 v2 h
  · exact partOk_congr_aux _ "week_w".toList (·.weekW) 0 52 (by decide) (fun _ => rfl) (fun _ => rfl) v1 v2 h
  · exact partOk_congr_aux _ "week_w".toList (·.weekW) 0 52 (by decide) (fun _ => rfl) (fun _ => rfl) v1 v2 h
  · exact partOk_congr_aux _ "week_u".toList (·.weekU) 0 52 (by decide) (fun _ => rfl) (fun _ => rfl) v1 v2 h
  · exact partOk_congr_aux _ "week_u".toList (·.weekU) 0 52 (by decide) (fun _ => rfl) (fun _ => rfl) v1 v2 h
  · exact partOk_congr_aux _ "week_v".toList (·.weekV) 1 53 (by decide) (fun _ => rfl) (fun _ => rfl) v1 v2 h
  · exact partOk_congr_aux _ "week_v".toList (·.weekV) 1 53 (by decide) (fun _ => rfl) (fun _ => rfl) v1 v2 h

/-- a calendar part of the pattern is in its domain again when the calendar fields read back -/
theorem partOk_cal_readback (p : Pat) (v v'' : VInfo) (c' : CalOpt) (hcal'' : v''.cal = c')
    (hcal : ∀ f, f ∈ p.fields → f ∈ Gen.calFields → ({ v with cal := c' } : VInfo).get f = v.get f)
    (n : Str) (hn : n ∈ p.parts) (hc : isCalPart n = true) (hok : partOk v n = true) : partOk v'' n = true := by
  rw [partOk_cal_congr n hc v'' v ?_, hok]
  intro f hf
  obtain ⟨f', hf', hfc⟩ := calPart_field n hc
  rw [hf] at hf'
  cases hf'
  exact (get_cal_congr f hfc v'' { v with cal := c' } hcal'').trans
    (hcal f (List.mem_filterMap.mpr ⟨n, hn, hf⟩) hfc)

/-- `Pat.vok` from the rendered slots, for a record that agrees on every part -/
theorem vok_of_slots (v v' : VInfo) : ∀ p : Pat, Pat.agree v v' p = true →
    (∀ n, (n, true) ∈ Pat.slots v p → partOk v' n = true) → Pat.vok v' p = true := by
  intro p
  induction p with
  | done => intro _ _; rfl
  | lit c rest ih => intro ha h; exact ih (by simpa [Pat.agree] using ha) h
  | part m rest ih =>
    intro ha h
    simp only [Pat.agree, Bool.and_eq_true] at ha
    simp only [Pat.vok, Bool.and_eq_true]
    exact ⟨h m (by simp [Pat.slots]), ih ha.2 (fun n hn => h n (by simp [Pat.slots, hn]))⟩
  | opt body rest ihb ihr =>
    intro ha h
    simp only [Pat.agree, Bool.and_eq_true] at ha
    simp only [Pat.vok, Bool.and_eq_true, Bool.or_eq_true]
    refine ⟨?_, ihr ha.2 (fun n hn => h n (by simp only [Pat.slots, List.mem_append]; exact .inr hn))⟩
    by_cases hz : Pat.allZero v body = true
    · rw [if_pos hz] at ha
      exact .inl ha.1
    · rw [if_neg hz] at ha
      exact .inr (ihb ha.1 (fun n hn => h n (by
        simp only [Pat.slots, if_neg hz, List.mem_append]; exact .inl hn)))

/-- every PEP440 short tag of a CLI release tag maps back (through `TAG_BY_PEP440_TAG`) to a CLI release tag with the
    same short tag (regenerated tables) -/
theorem pytag_back_table : Gen.validReleaseTagValues.all (fun t =>
    match lookup t Gen.pep440TagByTag with
    | some py => py.isEmpty || (match lookup py Gen.tagByPep440Tag with
        | some t' => !t'.isEmpty && Gen.validReleaseTagValues.contains t' && (lookup t' Gen.pep440TagByTag == some py)
        | none => false)
    | none => false) = true := by decide

/-- reading a rendered PYTAG without a TAG: the tag is re-derived and is a CLI release tag with that short tag -/
theorem pytagOk_back (v : VInfo) (hok : pytagOk v = true) (t1 p1 : Str)
    (h : rbTagStep [] v.pytag = .ok (t1, p1)) :
    p1 = v.pytag ∧ t1.isEmpty = false ∧ Gen.validReleaseTagValues.contains t1 = true ∧
      lookup t1 Gen.pep440TagByTag = some v.pytag := by
  simp only [pytagOk, Bool.and_eq_true, Bool.not_eq_true', beq_iff_eq] at hok
  obtain ⟨⟨htok, hlk⟩, hpne⟩ := hok
  have ht := List.all_eq_true.mp pytag_back_table v.tag (by simpa [tagOk] using htok)
  rw [hlk] at ht
  simp only [hpne, Bool.false_or] at ht
  simp only [rbTagStep, List.isEmpty_nil, Bool.not_true, Bool.false_eq_true, if_false, hpne,
    Bool.not_false, Bool.and_self, if_true] at h
  cases hl : lookup v.pytag Gen.tagByPep440Tag with
  | none => rw [hl] at ht; cases ht
  | some t' =>
    rw [hl] at ht h
    simp only [Bool.and_eq_true, Bool.not_eq_true', beq_iff_eq] at ht
    have e := Except.ok.inj h
    simp only [Prod.mk.injEq] at e
    obtain ⟨rfl, rfl⟩ := e
    exact ⟨rfl, ht.1.1, ht.1.2, ht.2⟩

theorem isDigitStr_natToStr (x : Nat) : isDigitStr (natToStr x) = true :=
  (isDigitStr_iff _).mpr ⟨natToStr_ne_nil x, allDigits_natToStr x⟩

/-- READ BACK INTO THE DOMAIN: the record `parse_field_values_to_vinfo` reads from the group dictionary of the
    rendered text lies in the domain of every rendered part -/
theorem readback_vok (p : Pat) (v : VInfo) (today : Nat × Nat × Nat) (hwf : Pat.wfTop p = true)
    (hv : Pat.vok v p = true) (htc : tagCoh v = true) (hc : CalFieldsReadBack p v today)
    (v' : VInfo) (hp' : parseVinfo (Pat.fv v p) today = .ok v') : Pat.vok v' p = true := by
  obtain ⟨v'', hp'', hag⟩ := readback p v today hwf hv htc (calReadsBack_of_fields p v today hc)
  have e : v'' = v' := by rw [hp''] at hp'; exact Except.ok.inj hp'
  subst e
  obtain ⟨c', hpc, hcal⟩ := hc
  simp only [Pat.wfTop, Bool.and_eq_true] at hwf
  obtain ⟨hwf1, hnd0⟩ := hwf
  have hnd := (nodupStr_iff _).mp hnd0
  obtain ⟨t1, p1, htag, hT1, hT0, hP1, hP0⟩ := rb_tag v p hnd hv htc
  obtain ⟨b, hbid, hB1, hB2⟩ := rb_bid v p hnd
  have hI1 := rb_nat v p hnd "INC1".toList "inc1" (·.inc1) (by decide) (by decide) (fun _ => rfl) 1
  have hex := parseVinfo_eq _ today c' t1 p1 b hpc htag hbid
  rw [hp''] at hex
  have hv'' := Except.ok.inj hex
  have hcal'' : v''.cal = c' := by rw [hv'']
  have hbid'' : v''.bid = b := by rw [hv'']
  have htag'' : v''.tag = (if t1.isEmpty then "final".toList else t1) := by rw [hv'']
  have hpytag'' : v''.pytag = p1 := by rw [hv'']
  have hinc1'' : v''.inc1 = intFieldOr (Pat.fv v p) "inc1" 1 := by rw [hv'']
  clear hv'' hex
  apply vok_of_slots v v'' p hag
  intro n hm
  have hnp : n ∈ p.parts := by
    rw [← slots_parts v p]; exact List.mem_map.mpr ⟨(n, true), hm, rfl⟩
  have hok : partOk v n = true := slots_true_ok v p hv n hm
  have hmem := lookup_isSome_mem n partDoms (wf_parts p _ hwf1 n hnp)
  simp only [partDoms, List.map_cons, List.map_nil, List.mem_cons, List.not_mem_nil, or_false] at hmem
  rcases hmem with rfl | rfl | rfl | rfl | rfl | rfl | rfl | rfl | rfl | rfl | rfl | rfl | rfl |
    rfl | rfl | rfl | rfl | rfl | rfl | rfl | rfl | rfl | rfl | rfl | rfl | rfl | rfl | rfl | rfl
  iterate 19
    exact partOk_cal_readback p v v'' c' hcal'' hcal _ hnp (by decide) hok
  · rfl
  · rfl
  · rfl
  · rfl
  · rfl
  · show decide (1 ≤ v''.inc1) = true
    rw [hinc1'', hI1.1 hm]
    exact hok
  · show isDigitStr v''.bid = true
    rw [hbid'', hB1 hm]
    exact hok
  · show (isDigitStr v''.bid && decide (1 ≤ strToNat v''.bid)) = true
    rw [hbid'', hB2 hm, isDigitStr_natToStr, strToNat_natToStr]
    have hok' : (isDigitStr v.bid && decide (1 ≤ strToNat v.bid)) = true := hok
    simp only [Bool.and_eq_true] at hok'
    simpa using hok'.2
  · show Gen.validReleaseTagValues.contains v''.tag = true
    rw [htag'', hT1 hm]
    exact hok
  · have hok' : pytagOk v = true := hok
    show pytagOk v'' = true
    have hp1 := hP1 hm
    by_cases hT : ("TAG".toList, true) ∈ Pat.slots v p
    · have ht := hT1 hT
      simp only [pytagOk, tagOk, htag'', hpytag'', ht, hp1]
      exact hok'
    · have htag0 : strField (Pat.fv v p) "tag" = [] :=
        strField_unrendered v p hnd "tag" _ tag_unique hT
      have hpy0 : strField (Pat.fv v p) "pytag" = v.pytag := by
        have := fv_lookup v p hnd _ true _ hm pf_PYTAG
        rw [if_pos rfl, partText_PYTAG] at this
        exact strField_some _ "pytag" _ this
      rw [htag0, hpy0] at htag
      obtain ⟨-, h2, h3, h4⟩ := pytagOk_back v hok' t1 p1 htag
      have hpne : v.pytag.isEmpty = false := by
        simp only [pytagOk, Bool.and_eq_true, Bool.not_eq_true'] at hok'; exact hok'.2
      simp only [pytagOk, tagOk, htag'', hpytag'', hp1, h2, Bool.false_eq_true, if_false, h3, h4, hpne,
        beq_self_eq_true, Bool.not_false, Bool.and_self]


/-- `parse_version_info`'s reading of the rendered text IS `parse_field_values_to_vinfo` on `Pat.fv` -/
theorem parseWithRe_render (p : Pat) (v : VInfo) (r : Re) (today : Nat × Nat × Nat) (v' : VInfo)
    (hwf : Pat.wfTop p = true) (hv : Pat.vok v p = true) (hr : Pat.compile p = some r)
    (h : parseWithRe r (Pat.render v p) today = .ok v') : parseVinfo (Pat.fv v p) today = .ok v' := by
  have hwf' : Pat.wf p FSet.endOnly = true := by
    simp only [Pat.wfTop, Bool.and_eq_true] at hwf; exact hwf.1
  unfold parseWithRe at h
  rw [compose_match v p r hwf' hv hr] at h
  simp only [Nat.lt_irrefl, if_false] at h
  rw [groupdict_compose v p r hwf hr] at h
  cases hpv : parseVinfo (Pat.fv v p) today with
  | ok x => rw [hpv] at h; exact h
  | error e => rw [hpv] at h; cases e <;> cases h

/-! ### `CalReadsBack` (texts) gives `CalFieldsReadBack` (values) when no two-digit-year part occurs -/

/-- the parts rendered by `str(v)[-2:]` -/
def yy2Parts : List Str := ["YY", "0Y", "GG", "0G"].map String.toList

def noYY2 (p : Pat) : Bool := p.parts.all (fun n => !yy2Parts.contains n)

theorem get_of_text_aux (n f : Str) (get : CalOpt → Option Nat) (lo hi : Nat) (kd : Gen.FmtKind)
    (hf : lookup n Gen.partFields = some f) (hkd : lookup n Gen.partFormats = some kd)
    (hget : ∀ v : VInfo, v.get f = optNat (get v.cal))
    (hdom : ∀ v : VInfo, partOk v n = optIn (get v.cal) lo hi)
    (hread : ∀ x, strToNat (fmtValue kd (.nat x)) = x)
    (v1 v2 : VInfo) (hok : partOk v2 n = true) (ht : partText v1 n = partText v2 n) : v1.get f = v2.get f := by
  rw [hdom] at hok
  rw [hget, hget]
  cases h2 : get v2.cal with
  | none => rw [h2] at hok; cases hok
  | some x =>
    have t2 : partText v2 n = some (fmtValue kd (.nat x)) := by
      simp only [partText, hf, hkd, hget, h2, optNat]
    cases h1 : get v1.cal with
    | none =>
      have t1 : partText v1 n = none := by simp only [partText, hf, hkd, hget, h1, optNat]
      rw [t1, t2] at ht; cases ht
    | some x' =>
      have t1 : partText v1 n = some (fmtValue kd (.nat x')) := by
        simp only [partText, hf, hkd, hget, h1, optNat]
      rw [t1, t2] at ht
      have := congrArg strToNat (Option.some.inj ht)
      rw [hread, hread] at this
      rw [this]

theorem calFieldsReadBack_of_texts (p : Pat) (v : VInfo) (today : Nat × Nat × Nat) (hwf : Pat.wfTop p = true)
    (hv : Pat.vok v p = true) (hny : noYY2 p = true) (hc : CalReadsBack p v today) :
    CalFieldsReadBack p v today := by
  obtain ⟨c', hpc, htxt⟩ := hc
  refine ⟨c', hpc, fun f hfp hfc => ?_⟩
  simp only [Pat.wfTop, Bool.and_eq_true] at hwf
  obtain ⟨n, b, hm, hnf⟩ := fields_slot v p f hfp
  have hnp : n ∈ p.parts := by
    rw [← slots_parts v p]; exact List.mem_map.mpr ⟨(n, b), hm, rfl⟩
  have hcp := calField_part n f (wf_parts p _ hwf.1 n hnp) hnf hfc
  have hok : partOk v n = true := by
    cases b with
    | false =>
      have := slots_false_zero v p n hm
      rw [calPart_not_zero v n hcp] at this; cases this
    | true => exact slots_true_ok v p hv n hm
  have ht := htxt n hnp hcp
  have hn2 : yy2Parts.contains n = false := by
    have := List.all_eq_true.mp hny n hnp
    simpa using this
  have hmem : n ∈ calPartNames := by simpa [isCalPart] using hcp
  simp only [calPartNames, List.map_cons, List.map_nil, List.mem_cons, List.not_mem_nil, or_false] at hmem
  rcases hmem with rfl | rfl | rfl | rfl | rfl | rfl | rfl | rfl | rfl | rfl | rfl | rfl | rfl | rfl |
    rfl | rfl | rfl | rfl | rfl
  · cases (Option.some.inj (hnf.symm.trans (by decide : lookup "YYYY".toList Gen.partFields = some "year_y".toList)))
    exact get_of_text_aux _ _ (·.yearY) 1000 9999 .str (by decide) (by decide) (fun _ => rfl) (fun _ => rfl) read_str _ _ hok ht
  · exact absurd hn2 (by decide)
  · exact absurd hn2 (by decide)
  · cases (Option.some.inj (hnf.symm.trans (by decide : lookup "GGGG".toList Gen.partFields = some "year_g".toList)))
    exact get_of_text_aux _ _ (·.yearG) 1000 9999 .str (by decide) (by decide) (fun _ => rfl) (fun _ => rfl) read_str _ _ hok ht
  · exact absurd hn2 (by decide)
  · exact absurd hn2 (by decide)
  · cases (Option.some.inj (hnf.symm.trans (by decide : lookup "Q".toList Gen.partFields = some "quarter".toList)))
    exact get_of_text_aux _ _ (·.quarter) 1 4 .str (by decide) (by decide) (fun _ => rfl) (fun _ => rfl) read_str _ _ hok ht
  · cases (Option.some.inj (hnf.symm.trans (by decide : lookup "MM".toList Gen.partFields = some "month".toList)))
    exact get_of_text_aux _ _ (·.month) 1 12 .str (by decide) (by decide) (fun _ => rfl) (fun _ => rfl) read_str _ _ hok ht
  · cases (Option.some.inj (hnf.symm.trans (by decide : lookup "0M".toList Gen.partFields = some "month".toList)))
    exact get_of_text_aux _ _ (·.month) 1 12 (.pad 2) (by decide) (by decide) (fun _ => rfl) (fun _ => rfl) (read_pad 2) _ _ hok ht
  · cases (Option.some.inj (hnf.symm.trans (by decide : lookup "DD".toList Gen.partFields = some "dom".toList)))
    exact get_of_text_aux _ _ (·.dom) 1 31 .str (by decide) (by decide) (fun _ => rfl) (fun _ => rfl) read_str _ _ hok ht
  · cases (Option.some.inj (hnf.symm.trans (by decide : lookup "0D".toList Gen.partFields = some "dom".toList)))
    exact get_of_text_aux _ _ (·.dom) 1 31 (.pad 2) (by decide) (by decide) (fun _ => rfl) (fun _ => rfl) (read_pad 2) _ _ hok ht
  · cases (Option.some.inj (hnf.symm.trans (by decide : lookup "JJJ".toList Gen.partFields = some "doy".toList)))
    exact get_of_text_aux _ _ (·.doy) 1 366 .str (by decide) (by decide) (fun _ => rfl) (fun _ => rfl) read_str _ _ hok ht
  · cases (Option.some.inj (hnf.symm.trans (by decide : lookup "00J".toList Gen.partFields = some "doy".toList)))
    exact get_of_text_aux _ _ (·.doy) 1 366 (.pad 3) (by decide) (by decide) (fun _ => rfl) (fun _ => rfl) (read_pad 3) _ _ hok ht
  · cases (Option.some.inj (hnf.symm.trans (by decide : lookup "WW".toList Gen.partFields = some "week_w".toList)))
    exact get_of_text_aux _ _ (·.weekW) 0 52 .str (by decide) (by decide) (fun _ => rfl) (fun _ => rfl) read_str _ _ hok ht
  · cases (Option.some.inj (hnf.symm.trans (by decide : lookup "0W".toList Gen.partFields = some "week_w".toList)))
    exact get_of_text_aux _ _ (·.weekW) 0 52 (.pad 2) (by decide) (by decide) (fun _ => rfl) (fun _ => rfl) (read_pad 2) _ _ hok ht
  · cases (Option.some.inj (hnf.symm.trans (by decide : lookup "UU".toList Gen.partFields = some "week_u".toList)))
    exact get_of_text_aux _ _ (·.weekU) 0 52 .str (by decide) (by decide) (fun _ => rfl) (fun _ => rfl) read_str _ _ hok ht
  · cases (Option.some.inj (hnf.symm.trans (by decide : lookup "0U".toList Gen.partFields = some "week_u".toList)))
    exact get_of_text_aux _ _ (·.weekU) 0 52 (.pad 2) (by decide) (by decide) (fun _ => rfl) (fun _ => rfl) (read_pad 2) _ _ hok ht
  · cases (Option.some.inj (hnf.symm.trans (by decide : lookup "VV".toList Gen.partFields = some "week_v".toList)))
    exact get_of_text_aux _ _ (·.weekV) 1 53 .str (by decide) (by decide) (fun _ => rfl) (fun _ => rfl) read_str _ _ hok ht
  · cases (Option.some.inj (hnf.symm.trans (by decide : lookup "0V".toList Gen.partFields = some "week_v".toList)))
    exact get_of_text_aux _ _ (·.weekV) 1 53 (.pad 2) (by decide) (by decide) (fun _ => rfl) (fun _ => rfl) (read_pad 2) _ _ hok ht

end TieN
end BV
