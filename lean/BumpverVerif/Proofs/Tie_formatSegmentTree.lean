/-
  Proofs/Tie_formatSegmentTree.lean — the definition GENERATED from the Python source of
  `v2version._format_segment_tree` (Gen/F_formatSegmentTree.lean: `pre` / `loop` / `post`, the loop by structural
  recursion over the nested list, the recursive call inside the loop) equals the hand model
  (`formatSeg` / `formatSegs`, a mutual RIGHT fold that returns the pair (is_zero, joined text)).

  Python: a LEFT fold with the accumulators `result_parts` (joined after the loop) and `is_zero`; the root of the
  tree is told apart by the parameter `is_root`.  Model: `formatVersion` takes `.2` of `formatSegs` for the root.

  HYPOTHESIS `hne` (no empty part name): inherited from `tie_formatSegment`, see there for the witness.
-/
import BumpverVerif.Gen.F_formatSegmentTree
import BumpverVerif.Proofs.Tie_formatSegment
namespace BV.TieF
open GenF GenF.FP
set_option linter.unusedSectionVars false
set_option linter.unusedSimpArgs false

/-- the rendered text of every item of a list (model side) -/
def segOuts (pvs : List (Str × Str)) (items : List Seg) : List Str :=
  items.map (fun s => (formatSeg pvs s).result)

theorem join_nil_eq_flatten : ∀ (l : List Str), join [] l = l.flatten
  | [] => rfl
  | [p] => by simp [join]
  | p :: q :: ps => by
    have ih := join_nil_eq_flatten (q :: ps)
    simp only [join, List.append_nil, ih, List.flatten_cons]

theorem formatSegs_snd (pvs : List (Str × Str)) : ∀ (items : List Seg),
    (formatSegs pvs items).2 = join [] (segOuts pvs items)
  | [] => by simp [formatSegs, segOuts, join]
  | s :: rest => by
    have ih := formatSegs_snd pvs rest
    simp only [formatSegs, ih, segOuts, join_nil_eq_flatten, List.map_cons, List.flatten_cons]

theorem formatSegs_fst_cons (pvs : List (Str × Str)) (s : Seg) (rest : List Seg) :
    (formatSegs pvs (s :: rest)).1 =
      (if (formatSeg pvs s).isLiteral then (formatSegs pvs rest).1
       else ((formatSeg pvs s).isZero && (formatSegs pvs rest).1)) := by
  simp only [formatSegs]

/-- what `post` makes of the state `loop` computes, in the model's terms -/
def treeResult (pvs : List (Str × Str)) (items : List Seg) (isRoot : Bool) : FSeg :=
  { isLiteral := false, isZero := (formatSegs pvs items).1,
    result := if (formatSegs pvs items).1 && !isRoot then [] else (formatSegs pvs items).2 }

theorem treeResult_false (pvs : List (Str × Str)) (items : List Seg) :
    treeResult pvs items false = formatSeg pvs (.grp items) := by
  simp only [treeResult, formatSeg, Bool.not_false, Bool.and_true]

section
variable (pvs : List (Str × Str)) (hne : ∀ pv ∈ pvs, pv.1 ≠ [])
include hne

mutual
  /-- the loop: the accumulators after all items (state = (result_parts, is_zero)) -/
  theorem formatSegmentTree_loop (root : Bool) : (items : List Seg) → (parts : List Str) → (z : Bool) →
      GenF.formatSegmentTree.loop pvs root (parts, z) items =
        (parts ++ segOuts pvs items, z && (formatSegs pvs items).1)
    | [], parts, z => by simp [GenF.formatSegmentTree.loop, segOuts, formatSegs]
    | .lit t :: rest, parts, z => by
      rw [GenF.formatSegmentTree.loop]
      simp only [tie_formatSegment t pvs hne]
      have ih := formatSegmentTree_loop root rest
      rw [formatSegs_fst_cons]
      simp only [segOuts, List.map_cons, formatSeg]
      by_cases h : (formatSegment t pvs).isLiteral = true <;>
        simp [h, ih, segOuts, Bool.and_assoc, Bool.and_comm, Bool.and_left_comm]
    | .grp sub :: rest, parts, z => by
      rw [GenF.formatSegmentTree.loop]
      have hsub := formatSegmentTree_tree sub false
      simp only [GenF.formatSegmentTree] at hsub
      simp only [hsub, treeResult_false]
      have ih := formatSegmentTree_loop root rest
      rw [formatSegs_fst_cons]
      simp only [segOuts, List.map_cons]
      by_cases h : (formatSeg pvs (Seg.grp sub)).isLiteral = true <;>
        simp [h, ih, segOuts, Bool.and_assoc, Bool.and_comm, Bool.and_left_comm]
  /-- the whole function on a (sub)tree -/
  theorem formatSegmentTree_tree : (items : List Seg) → (root : Bool) →
      GenF.formatSegmentTree items pvs root = treeResult pvs items root
    | items, root => by
      have hl := formatSegmentTree_loop root items [] true
      simp only [GenF.formatSegmentTree, GenF.formatSegmentTree.pre, hl, GenF.formatSegmentTree.post,
        treeResult, List.nil_append, Bool.true_and, formatSegs_snd]
      cases (formatSegs pvs items).1 <;> cases root <;> simp
end
end

/-- `_format_segment_tree(segtree, part_values, is_root)` for ALL trees, part values and both flag values -/
theorem _root_.BV.tie_formatSegmentTree (items : List Seg) (pvs : List (Str × Str)) (isRoot : Bool)
    (hne : ∀ pv ∈ pvs, pv.1 ≠ []) :
    GenF.formatSegmentTree items pvs isRoot =
      { isLiteral := false, isZero := (formatSegs pvs items).1,
        result := if (formatSegs pvs items).1 && !isRoot then [] else (formatSegs pvs items).2 } :=
  formatSegmentTree_tree pvs hne items isRoot

/-- an optional group (`is_root=False`, the default): the model's `formatSeg` on the group -/
theorem _root_.BV.tie_formatSegmentTree_group (items : List Seg) (pvs : List (Str × Str)) (hne : ∀ pv ∈ pvs, pv.1 ≠ []) :
    GenF.formatSegmentTree items pvs false = formatSeg pvs (.grp items) := by
  rw [tie_formatSegmentTree items pvs false hne]; exact treeResult_false pvs items

/-- the root (`is_root=True`): rendered even when all its parts are zero — `formatVersion`'s `.2` -/
theorem _root_.BV.tie_formatSegmentTree_root (items : List Seg) (pvs : List (Str × Str)) (hne : ∀ pv ∈ pvs, pv.1 ≠ []) :
    (GenF.formatSegmentTree items pvs true).result = (formatSegs pvs items).2 := by
  rw [tie_formatSegmentTree items pvs true hne]; simp

end BV.TieF
