/-
  Proofs/CmdLemmas.lean — lemmas and proof automation shared by the command ties
  (Proofs/Tie_cmd*.lean; generated definitions of harness/translate_commands.py, namespace BV.GenL).

  A generated definition is a term built from `Cmd.bind / pure / tryCatch / throw / exit`, the lifts
  `Cmd.liftExc / liftEff / ofOption`, the primitive effects `Cmd.echo / printDiff / format` and calls of
  other generated definitions.  A tie unfolds it, rewrites the calls of other generated definitions with
  THEIR ties (equations for all environments and states), and then case-splits on what the callees answer.
-/
import BumpverVerif.Model.Cmd
import BumpverVerif.Proofs.EffLemmas
import BumpverVerif.Proofs.TieCliLemmas
set_option linter.unusedSimpArgs false
namespace BV
namespace TieL

/-- an error of the new-style engine, as the command monad sees it -/
def ofV2 {α : Type} : Except PErr α → Except CStop α
  | .ok a => .ok a
  | .error e => .error (.exc (.v2 e))

/-- an error of the legacy engine -/
def ofV1 {α : Type} : Except V1Err α → Except CStop α
  | .ok a => .ok a
  | .error e => .error (.exc (.v1 e))

/-- an `Except Exc` result -/
def ofExc {α : Type} : Except Exc α → Except CStop α
  | .ok a => .ok a
  | .error e => .error (.exc e)

@[simp] theorem ofV2_ok {α : Type} (a : α) : ofV2 (.ok a : Except PErr α) = .ok a := rfl
@[simp] theorem ofV2_error {α : Type} (e : PErr) : ofV2 (.error e : Except PErr α) = .error (.exc (.v2 e)) := rfl
@[simp] theorem ofV1_ok {α : Type} (a : α) : ofV1 (.ok a : Except V1Err α) = .ok a := rfl
@[simp] theorem ofV1_error {α : Type} (e : V1Err) : ofV1 (.error e : Except V1Err α) = .error (.exc (.v1 e)) := rfl
@[simp] theorem ofExc_ok {α : Type} (a : α) : ofExc (.ok a : Except Exc α) = .ok a := rfl
@[simp] theorem ofExc_error {α : Type} (e : Exc) : ofExc (.error e : Except Exc α) = .error (.exc e) := rfl

theorem ofExc_liftV2 {α : Type} (r : Except PErr α) : ofExc (liftV2 r) = ofV2 r := by cases r <;> rfl
theorem ofExc_liftV1 {α : Type} (r : Except V1Err α) : ofExc (liftV1 r) = ofV1 r := by cases r <;> rfl

end TieL
open TieL

/-! ### running the combinators -/

theorem Cmd.ite_run {α : Type} (c : Prop) [Decidable c] (m n : Cmd α) (e : CmdEnv) (s : CState) :
    (if c then m else n) e s = if c then m e s else n e s := by split <;> rfl

theorem Cmd.liftExc_run {α : Type} (r : Except Exc α) (e : CmdEnv) (s : CState) :
    Cmd.liftExc r e s = (s, TieL.ofExc r) := by cases r <;> rfl

theorem Cmd.bind_liftExc {α β : Type} (r : Except Exc α) (f : α → Cmd β) (e : CmdEnv) (s : CState) :
    Cmd.bind (Cmd.liftExc r) f e s =
      (match r with
       | .ok a => f a e s
       | .error x => (s, .error (.exc x))) := by
  cases r <;> rfl

theorem Cmd.bind_pure {α β : Type} (a : α) (f : α → Cmd β) (e : CmdEnv) (s : CState) :
    Cmd.bind (Cmd.pure a) f e s = f a e s := rfl

theorem Cmd.bind_pure_right {α : Type} (m : Cmd α) : Cmd.bind m (fun a => Cmd.pure a) = m := by
  funext e s
  unfold Cmd.bind Cmd.pure
  rcases m e s with ⟨s', r⟩
  cases r <;> rfl

@[simp] theorem CStop.isA_v2_pattern (c : CClass) :
    (CStop.exc (.v2 .pattern)).isA c = (c == .baseException || c == .exception || c == .patternError) := by
  cases c <;> rfl
@[simp] theorem CStop.isA_v1_pattern (c : CClass) :
    (CStop.exc (.v1 .pattern)).isA c = (c == .baseException || c == .exception || c == .patternError) := by
  cases c <;> rfl

theorem CStop.isA_v2_patternError (e : PErr) : (CStop.exc (.v2 e)).isA .patternError = (e == .pattern) := by
  cases e <;> rfl
theorem CStop.isA_v1_patternError (e : V1Err) : (CStop.exc (.v1 e)).isA .patternError = (e == .pattern) := by
  cases e <;> rfl
@[simp] theorem CStop.isA_eff_patternError (x : Stop) : (CStop.eff x).isA .patternError = false := rfl
@[simp] theorem CStop.isA_eff_valueError (x : Stop) : (CStop.eff x).isA .valueError = x.isA .valueError := rfl
@[simp] theorem CStop.isA_exc_valueError (x : Exc) :
    (CStop.exc x).isA .valueError = x.isValueError := by
  cases x <;> rfl

/-- unfold the combinators and primitive effects at a state, using every hypothesis as a rewrite rule -/
syntax "cmd_simp" (" [" Lean.Parser.Tactic.simpLemma,* "]")? : tactic
macro_rules
  | `(tactic| cmd_simp) => `(tactic|
      simp [Cmd.ite_run, Cmd.tryCatch, Cmd.bind, Cmd.pure, Cmd.throw, Cmd.exit, Cmd.liftEff, Cmd.liftExc,
        Cmd.ofOption, Cmd.echo, Cmd.printDiff, Cmd.format, Except.map, *])
  | `(tactic| cmd_simp [$ls,*]) => `(tactic|
      simp [Cmd.ite_run, Cmd.tryCatch, Cmd.bind, Cmd.pure, Cmd.throw, Cmd.exit, Cmd.liftEff, Cmd.liftExc,
        Cmd.ofOption, Cmd.echo, Cmd.printDiff, Cmd.format, Except.map, $ls,*, *])

theorem TieL.isInfix_lbrace' (s : Str) : isInfix ['{'] s = s.contains '{' := isInfix_singleton '{' s
theorem TieL.isInfix_rbrace' (s : Str) : isInfix ['}'] s = s.contains '}' := isInfix_singleton '}' s

/-- `"{" not in p and "}" not in p` as the generated text spells it (explicit character lists) -/
theorem TieL.isNewPattern_gen' (pat : Str) :
    ((!isInfix ['{'] pat) && (!isInfix ['}'] pat)) = isNewPattern pat := by
  rw [isInfix_lbrace', isInfix_rbrace']; rfl

/-- the same test written `not ("{" in p or "}" in p)` -/
theorem TieL.isNewPattern_gen'o (pat : Str) :
    (!((isInfix ['{'] pat) || (isInfix ['}'] pat))) = isNewPattern pat := by
  rw [Bool.not_or]; exact TieL.isNewPattern_gen' pat

theorem TieL.isNewPattern_gen'oc (pat : Str) :
    (!((isInfix ['}'] pat) || (isInfix ['{'] pat))) = isNewPattern pat := by
  rw [Bool.or_comm]; exact TieL.isNewPattern_gen'o pat

/-- the NEGATED test `"{" in p or "}" in p` (a variable `is_old_pattern` with the branches exchanged) -/
theorem TieL.isOldPattern_gen (pat : Str) :
    ((isInfix ['{'] pat) || (isInfix ['}'] pat)) = !isNewPattern pat := by
  rw [← TieL.isNewPattern_gen'o, Bool.not_not]

theorem TieL.isOldPattern_genc (pat : Str) :
    ((isInfix ['}'] pat) || (isInfix ['{'] pat)) = !isNewPattern pat := by
  rw [Bool.or_comm]; exact TieL.isOldPattern_gen pat

/-- the same with the conjuncts commuted (a behaviour-preserving rewrite of the Python) -/
theorem TieL.isNewPattern_gen'c (pat : Str) :
    ((!isInfix ['}'] pat) && (!isInfix ['{'] pat)) = isNewPattern pat := by
  rw [Bool.and_comm]; exact isNewPattern_gen' pat

end BV
