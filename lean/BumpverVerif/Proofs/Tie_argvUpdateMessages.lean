/-
  Proofs/Tie_argvUpdateMessages.lean — source-level tie for the MESSAGE PART of `cli.update`
  (Gen/F_argvUpdateMessages.lean: the backward data-flow slice of the two message arguments of the call
  `_try_update(cfg, new_version, <commit message>, <tag message>, allow_dirty)`; property C12).

  The hand model has no function for "which template is used", so the reference definitions are written here
  (as builder D did for `_validate_date`):

    * `msgTemplateRef`   : `--commit-message` / `--tag-message` absent (None) → the configured template, verbatim;
                           given → the CLI text with the OLD / NEW shorthand rewritten (`subMsgTemplate`);
                           an EMPTY CLI text is "given" (it is not None) — so `--tag-message ""` yields an empty
                           tag message, i.e. a lightweight tag (`update_empty_cli_tag_message`);
    * `msgKwargs`        : the six documented placeholders and their values;
    * `renderMessagesRef`: `template.format(**kwargs)` for the commit message, then for the tag message
                           (the model's `pyFormat`; the first exception wins).

  `tie_argvUpdateMessages`: the generated slice = `renderMessagesRef`, for all configurations, CLI values and
  versions.  Hypothesis: the word-class agreement of `tie_argvSubMsgTemplate` for the CLI texts (see there).
  `update_message_render` composes the tie with `C12_message_render` (Props/C12.lean): a template written with
  the documented placeholders is rendered by replacing each placeholder by its value, in one pass.
-/
import BumpverVerif.Gen.F_argvUpdateMessages
import BumpverVerif.Proofs.Tie_argvSubMsgTemplate
import BumpverVerif.Props.C12
namespace BV.TieK
open BV.TieK.Gen

/-- which template: the configured one, or the CLI text with OLD / NEW rewritten -/
def msgTemplateRef (cfgTmpl : Str) (cli : Option Str) : Str :=
  match cli with
  | none => cfgTmpl
  | some m => subMsgTemplate m

/-- the keyword arguments of `template.format(**kwargs)` -/
def msgKwargs (old new : Str) : List (Str × Str) :=
  [("new_version".toList, new), ("old_version".toList, old),
   ("NEW_VERSION".toList, new), ("OLD_VERSION".toList, old),
   ("new_version_pep440".toList, pyToPep440 new), ("old_version_pep440".toList, pyToPep440 old)]

/-- the two rendered messages (commit, tag); the commit message is rendered first -/
def renderMessagesRef (cfgCommit cfgTag : Str) (cm tm : Option Str) (old new : Str) : Except FmtErr (Str × Str) :=
  match pyFormat (msgKwargs old new) (msgTemplateRef cfgCommit cm) with
  | .error e => .error e
  | .ok c =>
    match pyFormat (msgKwargs old new) (msgTemplateRef cfgTag tm) with
    | .error e => .error e
    | .ok t => .ok (c, t)

theorem msgKwargs_eq (old new : Str) :
    dictUpdate [] [(['n', 'e', 'w', '_', 'v', 'e', 'r', 's', 'i', 'o', 'n'], new),
      (['o', 'l', 'd', '_', 'v', 'e', 'r', 's', 'i', 'o', 'n'], old),
      (['N', 'E', 'W', '_', 'V', 'E', 'R', 'S', 'I', 'O', 'N'], new),
      (['O', 'L', 'D', '_', 'V', 'E', 'R', 'S', 'I', 'O', 'N'], old),
      (['n', 'e', 'w', '_', 'v', 'e', 'r', 's', 'i', 'o', 'n', '_', 'p', 'e', 'p', '4', '4', '0'], pyToPep440 new),
      (['o', 'l', 'd', '_', 'v', 'e', 'r', 's', 'i', 'o', 'n', '_', 'p', 'e', 'p', '4', '4', '0'], pyToPep440 old)]
      = msgKwargs old new := by
  rfl

theorem Eff.bind_run_ok {α β : Type} {m : Eff α} {f : α → Eff β} {w : World} {s s' : List KEv} {a : α}
    (h : m w s = (s', .ok a)) : Eff.bind m f w s = f a w s' := by
  simp only [Eff.bind, h]

/-- formatting the two templates, commit message first -/
theorem render_run (kw : List (Str × Str)) (ct tt : Str) (w : World) (s : List KEv) :
    Eff.bind (Eff.format ct kw) (fun c => Eff.bind (Eff.format tt kw) (fun t => Eff.pure (c, t))) w s
      = (s, (match pyFormat kw ct with
          | .error e => .error e
          | .ok c => match pyFormat kw tt with
            | .error e => .error e
            | .ok t => .ok (c, t) : Except FmtErr (Str × Str)).mapError stopOfFmt) := by
  simp only [Eff.bind, Eff.format_eq]
  cases pyFormat kw ct with
  | error e => rfl
  | ok c =>
    simp only [Eff.ofExcept, Except.mapError, Eff.pure]
    cases pyFormat kw tt <;> rfl

theorem tie_argvUpdateMessages {α : Type} (cfg : Config α) (cm tm : Option Str) (old new : Str)
    (w : World) (s : List KEv)
    (hcm : ∀ m, cm = some m → ∀ c ∈ m, w.isWord c = isWordChar c)
    (htm : ∀ m, tm = some m → ∀ c ∈ m, w.isWord c = isWordChar c) :
    argvUpdateMessages cfg cm tm old new w s
      = (s, (renderMessagesRef cfg.commit_message cfg.tag_message cm tm old new).mapError stopOfFmt) := by
  unfold argvUpdateMessages renderMessagesRef
  simp only [msgKwargs_eq, Eff.bind_pure_right]
  cases cm with
  | none =>
    cases tm with
    | none => exact render_run _ _ _ w s
    | some t =>
      simp only [Eff.bind_pure_left]
      rw [Eff.bind_run_ok (tie_argvSubMsgTemplate t w s (htm t rfl))]
      exact render_run _ _ _ w s
  | some c =>
    rw [Eff.bind_run_ok (tie_argvSubMsgTemplate c w s (hcm c rfl))]
    cases tm with
    | none => exact render_run _ _ _ w s
    | some t =>
      rw [Eff.bind_run_ok (tie_argvSubMsgTemplate t w s (htm t rfl))]
      exact render_run _ _ _ w s

/-! ### what the reference says (the C12 content) -/

/-- the documented placeholders -/
def docKeys : List Str :=
  ["new_version".toList, "old_version".toList, "NEW_VERSION".toList, "OLD_VERSION".toList,
   "new_version_pep440".toList, "old_version_pep440".toList]

theorem docKeys_ok (old new : Str) :
    ∀ k ∈ docKeys, simpleName k = true ∧ (lookup k (msgKwargs old new)).isSome = true := by
  intro k hk
  simp only [docKeys, List.mem_cons, List.not_mem_nil, or_false] at hk
  rcases hk with rfl | rfl | rfl | rfl | rfl | rfl <;> exact ⟨by decide, by simp [msgKwargs, lookup]⟩

/-- the values: `{new_version}` and `{NEW_VERSION}` are the new version, `{old_version}` / `{OLD_VERSION}` the
    version the update started from, the two `_pep440` forms their PEP 440 normalisations -/
theorem msgKwargs_values (old new : Str) :
    lookup "new_version".toList (msgKwargs old new) = some new ∧
    lookup "old_version".toList (msgKwargs old new) = some old ∧
    lookup "NEW_VERSION".toList (msgKwargs old new) = some new ∧
    lookup "OLD_VERSION".toList (msgKwargs old new) = some old ∧
    lookup "new_version_pep440".toList (msgKwargs old new) = some (pyToPep440 new) ∧
    lookup "old_version_pep440".toList (msgKwargs old new) = some (pyToPep440 old) := by
  simp [msgKwargs, lookup]

/-- a template written with the documented placeholders is rendered by replacing each placeholder by its value,
    in one pass, whatever the values contain (composition with `C12_message_render`) -/
theorem update_message_render (ps : List Piece) (old new : Str)
    (hps : ∀ p ∈ ps, ∀ k, p = .ph k → k ∈ docKeys) :
    pyFormat (msgKwargs old new) (ps.flatMap Piece.render) = .ok (ps.flatMap (Piece.value (msgKwargs old new))) :=
  C12_message_render ps (msgKwargs old new) (fun p hp k hk => docKeys_ok old new k (hps p hp k hk))

/-- … hence for a CONFIGURED commit template of that form and no `--commit-message`, the message handed on is
    exactly that rendering -/
theorem update_config_commit_message (cfgTag : Str) (ps : List Piece) (tm : Option Str) (old new : Str)
    (hps : ∀ p ∈ ps, ∀ k, p = .ph k → k ∈ docKeys) :
    (renderMessagesRef (ps.flatMap Piece.render) cfgTag none tm old new).map Prod.fst
      = (pyFormat (msgKwargs old new) (msgTemplateRef cfgTag tm)).map
          (fun _ => ps.flatMap (Piece.value (msgKwargs old new))) := by
  simp only [renderMessagesRef, msgTemplateRef, update_message_render ps old new hps]
  cases pyFormat (msgKwargs old new) (match tm with | none => cfgTag | some m => subMsgTemplate m) <;> rfl

/-- an EMPTY `--tag-message` is not "absent": the rendered tag message is empty (→ lightweight tag, see
    `tie_argvTag`), whatever the configuration says -/
theorem update_empty_cli_tag_message (cfgCommit cfgTag : Str) (cm : Option Str) (old new : Str) :
    (renderMessagesRef cfgCommit cfgTag cm (some []) old new).map Prod.snd
      = (pyFormat (msgKwargs old new) (msgTemplateRef cfgCommit cm)).map (fun _ => []) := by
  simp only [renderMessagesRef]
  cases pyFormat (msgKwargs old new) (msgTemplateRef cfgCommit cm) <;> rfl

/-- … while an ABSENT one means the configured tag template -/
theorem update_absent_cli_tag_message (cfgTag : Str) : msgTemplateRef cfgTag none = cfgTag := rfl

end BV.TieK
