/-
  Proofs/V1RewriteLemmas.lean — helper lemmas about the legacy rewrite model (Model/V1Rewrite.lean):

  * `v1FormatVersion_errors`, `v1ErrToPErr_faithful` : the legacy renderer only ends in KeyError / TypeError /
    ValueError / "outside the model", and on these the embedding `v1ErrToPErr` of the legacy exceptions into
    the error type of the rewrite model loses nothing;
  * the dry path `v1DiffFile` / `v1DiffFiles` / `v1DiffAll` versus the write path `v1PlanWrites`;
  * `sortByPath` is a permutation.
  The engine-independent lemmas are those of Proofs/RewriteGeneric.lean at `v1Engine`.
-/
import BumpverVerif.Model.V1Rewrite
import BumpverVerif.Proofs.RewriteGeneric
namespace BV

/-! ### the two fields of `v1Engine` (stated once, with the big functions kept folded) -/

attribute [local irreducible] v1RegexOf in
theorem v1Engine_compile (p : CPat) : v1Engine.compile p = v1RegexOf p := rfl

attribute [local irreducible] v1Render in
theorem v1Engine_render (v : V1Info) (p : CPat) : v1Engine.render v p = v1Render v p := rfl

/-! ### the exceptions of `v1version.format_version` -/

/-- the exceptions `v1version.format_version` can end with -/
def V1Err.ofRender (e : V1Err) : Prop :=
  e = .keyError ∨ e = .typeError ∨ e = .valueError ∨ e = .unsupported

theorem v1Kwargs_errors (v : V1Info) (e : V1Err) (h : v1Kwargs v = .error e) : e.ofRender := by
  unfold v1Kwargs at h
  simp only [bind, Except.bind, pure, Except.pure, throw, throwThe, MonadExceptOf.throw] at h
  repeat' split at h
  all_goals first | (cases h; done) | (cases h; simp [V1Err.ofRender])

theorem v1RenderField_errors (kw : List (Str × FV)) (f : Str) (e : V1Err)
    (h : v1RenderField kw f = .error e) : e.ofRender := by
  unfold v1RenderField at h
  simp only [] at h
  repeat' split at h
  all_goals first | (cases h; done) | (cases h; simp [V1Err.ofRender])

theorem v1PyFormatGo_errors (kw : List (Str × FV)) (n : Nat) (s : Str) (e : V1Err)
    (h : v1PyFormatGo kw n s = .error e) : e.ofRender := by
  induction n generalizing s e with
  | zero => simp only [v1PyFormatGo] at h; cases h; simp [V1Err.ofRender]
  | succ n ih =>
    cases s with
    | nil => simp only [v1PyFormatGo] at h; cases h
    | cons c r =>
      simp only [v1PyFormatGo] at h
      have hmap : ∀ (g : Str → Str) (t : Str), Except.map g (v1PyFormatGo kw n t) = .error e → e.ofRender := by
        intro g t ht
        cases hr : v1PyFormatGo kw n t with
        | error e' => rw [hr] at ht; simp only [Except.map] at ht; cases ht; exact ih _ _ hr
        | ok x => rw [hr] at ht; simp only [Except.map] at ht; cases ht
      repeat' split at h
      all_goals first
        | exact hmap _ _ h
        | (cases h; done)
        | (cases h; simp [V1Err.ofRender]; done)
        | (rename_i hf; cases h; exact v1RenderField_errors _ _ _ hf)

/-- `format_version` of the legacy engine ends in a value, a KeyError (unknown `{name}` / unknown tag), a
    TypeError (`{month:02}` of `None`), a ValueError (malformed format string) or outside the model -/
theorem v1FormatVersion_errors (v : V1Info) (raw : Str) (e : V1Err)
    (h : v1FormatVersion v raw = .error e) : e.ofRender := by
  unfold v1FormatVersion at h
  simp only [bind, Except.bind] at h
  split at h
  · rename_i e' hk; cases h; exact v1Kwargs_errors v _ hk
  · exact v1PyFormatGo_errors _ _ _ _ h

/-- on the exceptions the renderer can end with, the embedding into `PErr` is injective and keeps
    "outside the model" apart from the real exceptions -/
theorem v1ErrToPErr_faithful (a b : V1Err) (ha : a.ofRender) (hb : b.ofRender)
    (h : v1ErrToPErr a = v1ErrToPErr b) : a = b := by
  rcases ha with rfl | rfl | rfl | rfl <;> rcases hb with rfl | rfl | rfl | rfl <;>
    first | rfl | (simp [v1ErrToPErr] at h)

/-- the replacement of a match, read back: an error of `v1Render` IS the legacy exception -/
theorem v1Render_error (v : V1Info) (p : CPat) (e : PErr) (h : v1Render v p = .error e) :
    ∃ e1, v1FormatVersion v p.raw = .error e1 ∧ e1.ofRender ∧ e = v1ErrToPErr e1 := by
  unfold v1Render at h
  split at h
  · cases h
  · rename_i e1 he1
    cases h
    exact ⟨e1, he1, v1FormatVersion_errors _ _ _ he1, rfl⟩

theorem v1Render_ok (v : V1Info) (p : CPat) (s : Str) : v1Render v p = .ok s ↔ v1FormatVersion v p.raw = .ok s := by
  unfold v1Render
  constructor
  · intro h
    split at h
    · cases h; assumption
    · cases h
  · intro h
    simp only [h]

/-! ### the dry path versus the write path -/

theorem v1DiffFile_ok {fs : FS} {old new : V1Info} {path : Str} {pats : List CPat}
    {ol nl : List Str} (h : v1DiffFile fs old new path pats = .ok (ol, nl)) :
    ∃ content, lookup path fs = some content ∧ ol = splitOn (detectLineSep content) content ∧
      v1RewriteLines pats new (splitOn (detectLineSep content) content) = .ok nl := by
  unfold v1DiffFile at h
  split at h
  · cases h
  · rename_i content hc
    refine ⟨content, hc, ?_⟩
    split at h
    · cases h
    · simp only at h
      split at h
      · cases h
      · rename_i newLines hn
        split at h
        · cases h
        · cases h
          exact ⟨rfl, hn⟩

theorem v1DiffFile_rewriteContent {fs : FS} {old new : V1Info} {path : Str} {pats : List CPat}
    {ol nl : List Str} (h : v1DiffFile fs old new path pats = .ok (ol, nl)) :
    ∃ content, lookup path fs = some content ∧ ol = splitOn (detectLineSep content) content ∧
      v1RewriteContent pats new content = .ok (join (detectLineSep content) nl) := by
  obtain ⟨content, h1, h2, h3⟩ := v1DiffFile_ok h
  refine ⟨content, h1, h2, ?_⟩
  unfold v1RewriteLines at h3
  unfold v1RewriteContent RwEngine.rewriteContent
  simp only [h3]

theorem v1DiffFiles_cons_ok {fs : FS} {old new : V1Info} {path : Str} {pats : List CPat}
    {rest : List (Str × List CPat)} {rs : List (Str × List Str × List Str)}
    (h : v1DiffFiles fs old new ((path, pats) :: rest) = .ok rs) :
    ∃ r rs', v1DiffFile fs old new path pats = .ok r ∧ v1DiffFiles fs old new rest = .ok rs' ∧
      rs = (path, r) :: rs' := by
  unfold v1DiffFiles at h
  split at h
  · cases h
  · rename_i r hr
    split at h
    · cases h
    · rename_i rs' hrs'
      cases h
      exact ⟨r, rs', hr, hrs', rfl⟩

/-- a successful legacy dry run ⇒ the read-and-validate phase of the real run succeeds and plans, for
    every diffed file, the join of the diffed new lines -/
theorem v1PlanWrites_of_diffFiles (fs : FS) (old new : V1Info) (fps : List (Str × List CPat))
    (rs : List (Str × List Str × List Str)) (h : v1DiffFiles fs old new fps = .ok rs) :
    ∃ ws, v1PlanWrites fs new fps = .ok ws ∧
      ∀ r ∈ rs, ∃ content, lookup r.1 fs = some content ∧
        (r.1, join (detectLineSep content) r.2.2) ∈ ws := by
  induction fps generalizing rs with
  | nil =>
    simp only [v1DiffFiles, Except.ok.injEq] at h
    subst h
    exact ⟨[], rfl, by simp⟩
  | cons fp rest ih =>
    obtain ⟨path, pats⟩ := fp
    obtain ⟨⟨ol, nl⟩, rs', hr, hrs', rfl⟩ := v1DiffFiles_cons_ok h
    obtain ⟨ws, hws, hall⟩ := ih rs' hrs'
    obtain ⟨content, hc, -, hrc⟩ := v1DiffFile_rewriteContent hr
    refine ⟨(path, join (detectLineSep content) nl) :: ws, ?_, ?_⟩
    · unfold v1PlanWrites at hws ⊢
      unfold v1RewriteContent at hrc
      rw [RwEngine.planWrites_cons]
      simp only [hc, hrc, hws]
    · intro r hrm
      rcases List.mem_cons.1 hrm with rfl | hrm
      · exact ⟨content, hc, List.mem_cons_self⟩
      · obtain ⟨c, h1, h2⟩ := hall r hrm
        exact ⟨c, h1, List.mem_cons_of_mem _ h2⟩

/-! ### `sortByPath` -/

theorem insertByPath_perm {α : Type} (x : Str × α) (ys : List (Str × α)) : (insertByPath x ys).Perm (x :: ys) := by
  induction ys with
  | nil => exact .refl _
  | cons y ys ih =>
    unfold insertByPath
    split
    · exact (List.Perm.cons y ih).trans (List.Perm.swap x y ys)
    · exact .refl _

theorem sortByPath_perm {α : Type} (l : List (Str × α)) : (sortByPath l).Perm l := by
  induction l with
  | nil => exact .refl _
  | cons x l ih =>
    show (insertByPath x (sortByPath l)).Perm (x :: l)
    exact (insertByPath_perm _ _).trans (List.Perm.cons x ih)

theorem mem_sortByPath {α : Type} (l : List (Str × α)) (x : Str × α) : x ∈ sortByPath l ↔ x ∈ l :=
  (sortByPath_perm l).mem_iff

/-- the success of the write phase does not depend on the order of the files (any engine) -/
theorem RwEngine.rewriteFiles_ok_of_mem {V : Type} (E : RwEngine V) (fs : FS) (v : V) (l1 l2 : List (Str × List CPat))
    (hsub : ∀ x ∈ l2, x ∈ l1) (h : (E.rewriteFiles fs l1 v).2 = .ok ()) : (E.rewriteFiles fs l2 v).2 = .ok () := by
  have key : ∀ l, (E.rewriteFiles fs l v).2 = .ok () ↔ ¬ ∃ e, E.planWrites fs v l = .error e := by
    intro l
    unfold RwEngine.rewriteFiles
    cases E.planWrites fs v l with
    | error e => simp
    | ok ws => simp
  rw [key] at h ⊢
  rw [E.planWrites_error_iff] at h ⊢
  rintro ⟨fp, hfp, hbad⟩
  exact h ⟨fp, hsub fp hfp, hbad⟩

end BV
