/-
  Proofs/Tie_v1RewritePrelude.lean — what the ties of the LEGACY rewrite path (Tie_v1RewriteLines …
  Tie_v1Diff) share.  Namespace `BV.TieM`.

  * `Wf1` : the well-formedness of a `patterns.Pattern` made by `v1patterns.compile_pattern`: its `regexp`
    is `_compile_pattern_re` of its (normalized) `raw_pattern`, i.e. the model's `v1CompileRe`;
  * ENGINE-GENERIC versions of the lemmas of Tie_iterMatches / Tie_rewriteLines (the generated
    `GenF.iterMatches` is shared by both engines, as `parse.iter_matches` is in Python): for every
    `RwEngine V` whose `compile` returns the pattern objects' regexes,
      `iterMatches_tie`      : `GenF.iterMatches` abstracts to `E.iterMatches`,
      `pyForE_applyMatches`  : the splice loop is `E.applyMatches`,
      `foundEq_agree` / `foundDiff_agree` : both ways of writing the final test (`set(patterns) ==
        found_patterns`, `set(patterns) - found_patterns` empty) are the model's test.
-/
import BumpverVerif.Gen.F_iterMatches
import BumpverVerif.Model.V1Rewrite
import BumpverVerif.Proofs.RewriteGeneric
import BumpverVerif.Proofs.V1RewriteLemmas
import BumpverVerif.Proofs.Tie_iterMatches
import BumpverVerif.Proofs.Tie_rewriteLines
set_option linter.unusedSimpArgs false
namespace BV.TieM

open GenF (PatternMatch Pattern)

/-- a `Pattern` as `v1patterns.compile_pattern` builds it: `regexp` is `_compile_pattern_re(raw_pattern)`
    (`raw_pattern` is the normalized pattern) -/
def Wf1 (p : Pattern) : Prop := v1CompileRe p.raw_pattern = .ok p.regexp

theorem wf1_compile {p : Pattern} (h : Wf1 p) : v1Engine.compile p.abs = some p.regexp := by
  rw [v1Engine_compile]
  unfold v1RegexOf
  have : p.abs.raw = p.raw_pattern := rfl
  rw [this, h]

theorem abs_inj1 {p q : Pattern} (hp : Wf1 p) (hq : Wf1 q) (h : p.abs = q.abs) : p = q := by
  cases p; cases q
  simp only [GenF.Pattern.abs, CPat.mk.injEq] at h
  obtain ⟨h1, h2⟩ := h
  simp only [Wf1] at hp hq
  subst h1 h2
  rw [hp] at hq
  cases hq
  rfl

/-- the hypothesis is satisfiable for every pattern the legacy compiler accepts -/
theorem wf1_of_compile (vp raw : Str) (r : Re) (h : v1CompilePattern vp raw = .ok r) :
    Wf1 ({ version_pattern := vp, raw_pattern := v1NormalizedPattern vp raw, regexp := r } : Pattern) := h

/-! ### `parse.iter_matches` for every engine -/

theorem foldl_outer_tie {V : Type} (E : RwEngine V) (lines : List Str)
    (f : List PatternMatch × List LineSpan → Pattern → List PatternMatch × List LineSpan)
    (hf : ∀ y s (p : Pattern),
      ((f (y, s) p).1).map PatternMatch.abs
          = y.map PatternMatch.abs ++ keptOf s (iterForPatternGo p.regexp p.abs 0 lines)
      ∧ (f (y, s) p).2 = s ++ (iterForPatternGo p.regexp p.abs 0 lines).map PMatch.span)
    (ps : List Pattern) (hwf : ∀ p ∈ ps, E.compile p.abs = some p.regexp)
    (y : List PatternMatch) (s : List LineSpan) :
    ∃ rest, E.iterMatchesGo lines (ps.map Pattern.abs) s = some rest ∧
      ((List.foldl f (y, s) ps).1).map PatternMatch.abs = y.map PatternMatch.abs ++ rest := by
  induction ps generalizing y s with
  | nil => exact ⟨[], by simp [RwEngine.iterMatchesGo_nil]⟩
  | cons p ps ih =>
    have hp := hwf p List.mem_cons_self
    obtain ⟨h1, h2⟩ := hf y s p
    obtain ⟨rest, hr1, hr2⟩ := ih (fun q hq => hwf q (List.mem_cons_of_mem _ hq)) (f (y, s) p).1 (f (y, s) p).2
    refine ⟨keptOf s (iterForPatternGo p.regexp p.abs 0 lines) ++ rest, ?_, ?_⟩
    · rw [List.map_cons, RwEngine.iterMatchesGo_cons, hp]
      simp only
      rw [← h2, hr1]
      rfl
    · rw [List.foldl_cons]
      have : f (y, s) p = ((f (y, s) p).1, (f (y, s) p).2) := rfl
      rw [this, hr2, h1, List.append_assoc]

/-- the generated `parse.iter_matches` abstracts to the model's `iterMatches` of EVERY engine whose
    `compile` gives back the regexes the pattern objects carry -/
theorem iterMatches_tie {V : Type} (E : RwEngine V) (lines : List Str) (patterns : List Pattern)
    (hwf : ∀ p ∈ patterns, E.compile p.abs = some p.regexp) :
    E.iterMatches lines (patterns.map Pattern.abs)
      = some ((GenF.iterMatches lines patterns).map PatternMatch.abs) := by
  have key : ∀ (f : List PatternMatch × List LineSpan → Pattern → List PatternMatch × List LineSpan),
      (∀ y s (p : Pattern),
        ((f (y, s) p).1).map PatternMatch.abs
            = y.map PatternMatch.abs ++ keptOf s (iterForPatternGo p.regexp p.abs 0 lines)
        ∧ (f (y, s) p).2 = s ++ (iterForPatternGo p.regexp p.abs 0 lines).map PMatch.span) →
      E.iterMatches lines (patterns.map Pattern.abs)
        = some (((List.foldl f ([], []) patterns).1).map PatternMatch.abs) := by
    intro f hf
    obtain ⟨rest, h1, h2⟩ := foldl_outer_tie E lines f hf patterns hwf [] []
    unfold RwEngine.iterMatches
    rw [h1, h2]
    simp
  unfold GenF.iterMatches
  refine key _ ?_
  intro y s p
  rw [← tie_iterForPattern]
  refine foldl_inner_tie _ ?_ (GenF.iterForPattern lines p) y s
  intro y s m
  simp only [tie_hasOverlap, PatternMatch.abs, PMatch.span]
  split <;> simp_all

/-! ### the splice loop of `rewrite_lines` for every engine -/

theorem pyForE_applyMatches {V : Type} (E : RwEngine V) (v : V)
    (body : PatternMatch → List Pattern × List Str → Except RwErr (List Pattern × List Str))
    (hb : ∀ m found ls, m.lineno < ls.length → body m (found, ls) =
      match E.render v m.abs.pat with
      | .error e => .error (.crash e)
      | .ok repl => .ok (GenF.pySetAdd found m.pattern,
          setLine ls m.lineno ((ls.getD m.lineno []).take m.abs.start ++ repl ++ (ls.getD m.lineno []).drop m.abs.stop)))
    (l : List PatternMatch) (found : List Pattern) (ls : List Str) (hl : ∀ m ∈ l, m.lineno < ls.length) :
    GenF.pyForE l body (found, ls) =
      match E.applyMatches v (l.map PatternMatch.abs) ls with
      | .error e => .error e
      | .ok new => .ok (l.foldl (fun s m => GenF.pySetAdd s m.pattern) found, new) := by
  induction l generalizing found ls with
  | nil => rfl
  | cons m l ih =>
    rw [GenF.pyForE_cons, hb m found ls (hl m List.mem_cons_self)]
    simp only [List.map_cons, RwEngine.applyMatches, List.foldl_cons]
    have e1 : m.abs.lineno = m.lineno := rfl
    rw [e1]
    cases E.render v m.abs.pat with
    | error e => rfl
    | ok repl =>
      simp only
      apply ih
      intro m' hm'
      rw [setLine_eq_set, List.length_set]
      exact hl m' (List.mem_cons_of_mem _ hm')

/-! ### the final test of `rewrite_lines`, in the two ways the two files write it -/

/-- the patterns found = the patterns of the yielded matches -/
theorem mem_found (sorted : List PatternMatch) (x : Pattern) :
    x ∈ List.foldl (fun s m => GenF.pySetAdd s m.pattern) GenF.pySetEmpty sorted ↔ ∃ m ∈ sorted, m.pattern = x := by
  rw [GenF.mem_foldl_pySetAdd]
  simp [GenF.pySetEmpty]

/-- "every configured pattern has a match", on the Python objects and on the abstraction -/
theorem allFound_iff (patterns : List Pattern) (hinj : ∀ p ∈ patterns, ∀ q ∈ patterns, p.abs = q.abs → p = q)
    (gen sorted : List PatternMatch) (hmem : ∀ m, m ∈ sorted ↔ m ∈ gen) (hpat : ∀ m ∈ gen, m.pattern ∈ patterns) :
    (∀ p ∈ patterns, ∃ m ∈ sorted, m.pattern = p) ↔
      (patterns.map Pattern.abs).all (fun p => (gen.map PatternMatch.abs).any (fun m => m.pat == p)) = true := by
  simp only [List.all_eq_true, List.mem_map, List.any_eq_true, beq_iff_eq]
  constructor
  · rintro h _ ⟨p, hp, rfl⟩
    obtain ⟨b, hb, e⟩ := h p hp
    exact ⟨b.abs, ⟨b, (hmem b).1 hb, rfl⟩, by rw [← e]; rfl⟩
  · intro h p hp
    obtain ⟨_, ⟨m, hm, rfl⟩, e⟩ := h p.abs ⟨p, hp, rfl⟩
    exact ⟨m, (hmem m).2 hm, hinj _ (hpat m hm) _ hp e⟩

/-- `set(patterns) - found_patterns` is empty iff the model's test holds -/
theorem foundDiff_agree (patterns : List Pattern) (hinj : ∀ p ∈ patterns, ∀ q ∈ patterns, p.abs = q.abs → p = q)
    (gen sorted : List PatternMatch) (hmem : ∀ m, m ∈ sorted ↔ m ∈ gen) (hpat : ∀ m ∈ gen, m.pattern ∈ patterns) :
    (GenF.pySetDiff (GenF.pySetOfList patterns)
        (List.foldl (fun s m => GenF.pySetAdd s m.pattern) GenF.pySetEmpty sorted)).isEmpty
      = (patterns.map Pattern.abs).all (fun p => (gen.map PatternMatch.abs).any (fun m => m.pat == p)) := by
  rw [Bool.eq_iff_iff, ← allFound_iff patterns hinj gen sorted hmem hpat]
  simp only [GenF.pySetDiff, List.isEmpty_iff, List.filter_eq_nil_iff, GenF.mem_pySetOfList,
    Bool.not_eq_true', Bool.not_eq_false, List.contains_iff_mem, Bool.not_eq_eq_eq_not, Bool.not_true,
    mem_found, Bool.not_eq_false']

/-- `set(patterns) == found_patterns` iff the model's test holds -/
theorem foundEq_agree (patterns : List Pattern) (hinj : ∀ p ∈ patterns, ∀ q ∈ patterns, p.abs = q.abs → p = q)
    (gen sorted : List PatternMatch) (hmem : ∀ m, m ∈ sorted ↔ m ∈ gen) (hpat : ∀ m ∈ gen, m.pattern ∈ patterns) :
    GenF.pySetEq (GenF.pySetOfList patterns)
        (List.foldl (fun s m => GenF.pySetAdd s m.pattern) GenF.pySetEmpty sorted)
      = (patterns.map Pattern.abs).all (fun p => (gen.map PatternMatch.abs).any (fun m => m.pat == p)) := by
  rw [Bool.eq_iff_iff, ← allFound_iff patterns hinj gen sorted hmem hpat, GenF.pySetEq_iff]
  simp only [GenF.mem_pySetOfList, mem_found]
  constructor
  · intro h p hp
    exact (h p).1 hp
  · intro h x
    constructor
    · exact h x
    · rintro ⟨b, hb, rfl⟩
      exact hpat b ((hmem b).1 hb)

end BV.TieM
