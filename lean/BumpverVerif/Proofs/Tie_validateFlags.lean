/-
  Proofs/Tie_validateFlags.lean — the definition GENERATED from the Python source of
  `cli._validate_flags` (Gen/F_validateFlags.lean) equals the hand model on all inputs: it returns
  normally exactly when `BV.validFlags` holds, otherwise it is `sys.exit(1)`.
  (`"{" in raw_pattern` is `isInfix "{"` in the generated text and `List.contains '{'` in the model:
  `isInfix_singleton`.)
-/
import BumpverVerif.Gen.F_validateFlags
import BumpverVerif.Proofs.TieCliLemmas
namespace BV

theorem tie_validateFlags (pat : Str) (fl : IncrFlags) :
    GenC.validateFlags pat fl.major fl.minor fl.patch
      = if validFlags pat fl then .ok () else .error (.sysExit 1) := by
  obtain ⟨mj, mn, pa, _, _, _, _⟩ := fl
  simp only [GenC.validateFlags, validFlags, isInfix_lbrace, isInfix_rbrace]
  cases mj <;> cases mn <;> cases pa <;> simp <;> (repeat' split) <;> first | (simp_all; done) | (simp_all; grind) | grind

end BV
