/-
  Proofs/Tie_argvHooksRun.lean — source-level tie for `hooks.run(path, old_version, new_version)`
  (Gen/F_argvHooksRun.lean; the hook clause of property C10: "hooks get BUMPVER_OLD_VERSION / BUMPVER_NEW_VERSION;
  a failing hook stops the run").

  Builder B's effect model (Model/Eff.lean `Eff.hook`) treats `hooks.run` as a primitive: it logs the event
  `preHook old new` / `postHook old new` and ends in `sys.exit(1)` iff the oracle Boolean `preOk` / `postOk` is
  false.  Here the function is opened up:

    `tie_argvHooksRun` : generated `hooks.run` = `hooksRunRef` for all arguments, worlds and traces:
        the environment is `os.environ` with BUMPVER_OLD_VERSION = old and BUMPVER_NEW_VERSION = new set;
        the program started is `Path(path).absolute()` (no arguments, no shell);
        an OSError / IOError on start → `sys.exit(1)`;  otherwise the process is waited for and ANY non-zero
        return code — negative ones (death by signal) included — → `sys.exit(1)`.

    `hooksRun_env_old/new/other` : what the environment holds.
    `hooksRun_outcome`           : the outcome is `Eff.hook`'s: `.ok ()` when `hookOk`, else exit code 1 — with
                                   `hookOk` := the script could be started and returned 0 (the meaning of the
                                   plan model's `preOk` / `postOk`).
    `hooksRun_event`             : the new events, seen through the plan model's glasses, are exactly one
                                   `preHook old new` (resp. `postHook`): the versions the hook is TOLD are the
                                   arguments.
    `hooksRun_signal_witness`    : a hook killed by a signal (return code -9) is a failure — the reading
                                   `returncode > 0` of a seeded change would let the run go on.
-/
import BumpverVerif.Gen.F_argvHooksRun
import BumpverVerif.Proofs.ArgvLemmas
import BumpverVerif.Model.Eff
set_option linter.unusedSimpArgs false
namespace BV.TieK
open BV.TieK.Gen

def kOLD : Str := ['B', 'U', 'M', 'P', 'V', 'E', 'R', '_', 'O', 'L', 'D', '_', 'V', 'E', 'R', 'S', 'I', 'O', 'N']
def kNEW : Str := ['B', 'U', 'M', 'P', 'V', 'E', 'R', '_', 'N', 'E', 'W', '_', 'V', 'E', 'R', 'S', 'I', 'O', 'N']

/-- `dict(os.environ, BUMPVER_OLD_VERSION=old, BUMPVER_NEW_VERSION=new)` -/
def hookEnv (w : World) (old new : Str) : EnvMap := dictSet kNEW new (dictSet kOLD old w.environ)

/-- the reference definition -/
def hooksRunRef (path old new : Str) : Eff Unit := fun w s =>
  match w.popenRc s (w.absolute path) (some (hookEnv w old new)) with
  | none => (KEv.popen (w.absolute path) (some (hookEnv w old new)) :: s, .error (.exit 1))
  | some rc =>
    (KEv.wait s.length :: KEv.popen (w.absolute path) (some (hookEnv w old new)) :: s,
      if rc = 0 then .ok () else .error (.exit 1))

theorem tie_argvHooksRun (path old new : Str) : argvHooksRun path old new = hooksRunRef path old new := by
  funext w s
  unfold argvHooksRun hooksRunRef
  simp only [Eff.bind, Eff.environ, Eff.tryCatch, Eff.absolute, Eff.popen, Eff.pure]
  -- both ways of building the environment (`dict(os.environ, K=v, …)` / `env[K] = v` one by one) are nested `dictSet`s
  simp only [show (['B', 'U', 'M', 'P', 'V', 'E', 'R', '_', 'O', 'L', 'D', '_', 'V', 'E', 'R', 'S', 'I', 'O', 'N'] : Str) = kOLD from rfl,
    show (['B', 'U', 'M', 'P', 'V', 'E', 'R', '_', 'N', 'E', 'W', '_', 'V', 'E', 'R', 'S', 'I', 'O', 'N'] : Str) = kNEW from rfl,
    hookEnv, dictUpdate, List.foldl_cons, List.foldl_nil]
  cases w.popenRc s (w.absolute path) (some (dictSet kNEW new (dictSet kOLD old w.environ))) with
  | none => simp [Eff.exit, Eff.throw]
  | some rc =>
    simp only [Eff.wait, Eff.returncode, Eff.pure, Eff.ite_run, Eff.exit, Eff.throw]
    by_cases h : rc = 0
    · subst h; simp
    · simp [h]

/-! ### the environment of the hook -/

theorem lookup_dictSet_same {α : Type} (k : Str) (v : α) (d : List (Str × α)) : lookup k (dictSet k v d) = some v := by
  induction d with
  | nil => simp [dictSet, lookup]
  | cons p d ih =>
    obtain ⟨k', v'⟩ := p
    by_cases h : k' = k
    · subst h; simp [dictSet, lookup]
    · have h' : ¬ k = k' := fun e => h e.symm
      simp [dictSet, lookup, h, h', ih]

theorem lookup_dictSet_other {α : Type} (k k0 : Str) (v : α) (d : List (Str × α)) (hk : k ≠ k0) :
    lookup k (dictSet k0 v d) = lookup k d := by
  induction d with
  | nil => simp [dictSet, lookup, hk]
  | cons p d ih =>
    obtain ⟨k', v'⟩ := p
    by_cases h : k' = k0
    · subst h; simp [dictSet, lookup, hk]
    · by_cases h2 : k = k'
      · subst h2; simp [dictSet, lookup, h]
      · simp [dictSet, lookup, h, h2, ih]

theorem hooksRun_env_new (w : World) (old new : Str) : lookup kNEW (hookEnv w old new) = some new :=
  lookup_dictSet_same _ _ _

theorem hooksRun_env_old (w : World) (old new : Str) : lookup kOLD (hookEnv w old new) = some old := by
  unfold hookEnv
  rw [lookup_dictSet_other _ _ _ _ (by decide), lookup_dictSet_same]

theorem hooksRun_env_other (w : World) (old new k : Str) (h1 : k ≠ kOLD) (h2 : k ≠ kNEW) :
    lookup k (hookEnv w old new) = lookup k w.environ := by
  unfold hookEnv
  rw [lookup_dictSet_other _ _ _ _ h2, lookup_dictSet_other _ _ _ _ h1]

/-! ### the outcome is the plan model's -/

/-- the meaning of the plan model's `preOk` / `postOk`: the script could be started and returned 0 -/
def hookOk (w : World) (s : List KEv) (path old new : Str) : Bool :=
  w.popenRc s (w.absolute path) (some (hookEnv w old new)) == some 0

theorem hooksRun_outcome (path old new : Str) (w : World) (s : List KEv) :
    (argvHooksRun path old new w s).2 = if hookOk w s path old new then .ok () else .error (.exit 1) := by
  rw [tie_argvHooksRun]
  unfold hooksRunRef hookOk
  cases w.popenRc s (w.absolute path) (some (hookEnv w old new)) with
  | none => rfl
  | some rc =>
    by_cases h : rc = 0
    · subst h; rfl
    · simp [h]

/-- same exit code as builder B's primitive `Eff.hook` under an environment whose oracle Boolean means `hookOk` -/
theorem hooksRun_exitCode_pre (path old new : Str) (w : World) (s : List KEv) (e : BV.EffEnv) (ps : BV.PState)
    (he : e.plan.preOk = hookOk w s path old new) :
    Eff.exitCode (argvHooksRun path old new w s).2 = BV.Eff.exitCode (BV.Eff.hook .pre path old new e ps).2 := by
  rw [hooksRun_outcome]
  simp only [BV.Eff.hook, he]
  cases hookOk w s path old new <;> rfl

theorem hooksRun_exitCode_post (path old new : Str) (w : World) (s : List KEv) (e : BV.EffEnv) (ps : BV.PState)
    (he : e.plan.postOk = hookOk w s path old new) :
    Eff.exitCode (argvHooksRun path old new w s).2 = BV.Eff.exitCode (BV.Eff.hook .post path old new e ps).2 := by
  rw [hooksRun_outcome]
  simp only [BV.Eff.hook, he]
  cases hookOk w s path old new <;> rfl

/-- the plan model's reading of a trace event: a started script is a hook event carrying the two versions its
    environment announces -/
def absHookEv (k : BV.HookKind) : KEv → Option BV.Ev
  | .popen _ (some env) =>
    some (match k with
      | .pre => .preHook ((lookup kOLD env).getD []) ((lookup kNEW env).getD [])
      | .post => .postHook ((lookup kOLD env).getD []) ((lookup kNEW env).getD []))
  | _ => none

/-- the events `hooks.run` adds are, for the plan model, exactly one hook event with the versions passed in -/
theorem hooksRun_event (k : BV.HookKind) (path old new : Str) (w : World) (s : List KEv) :
    ∃ evs, (argvHooksRun path old new w s).1 = evs ++ s ∧
      evs.filterMap (absHookEv k) =
        [match k with | .pre => BV.Ev.preHook old new | .post => BV.Ev.postHook old new] := by
  rw [tie_argvHooksRun]
  unfold hooksRunRef
  cases w.popenRc s (w.absolute path) (some (hookEnv w old new)) with
  | none =>
    refine ⟨[KEv.popen (w.absolute path) (some (hookEnv w old new))], rfl, ?_⟩
    cases k <;> simp [absHookEv, hooksRun_env_old, hooksRun_env_new]
  | some rc =>
    refine ⟨[KEv.wait s.length, KEv.popen (w.absolute path) (some (hookEnv w old new))], rfl, ?_⟩
    cases k <;>
      simp only [List.filterMap, absHookEv, hooksRun_env_old, hooksRun_env_new, Option.getD_some]

/-- the script that is started is the ABSOLUTE path, with that environment, as the first thing that happens -/
theorem hooksRun_starts (path old new : Str) (w : World) (s : List KEv) :
    KEv.popen (w.absolute path) (some (hookEnv w old new)) ∈ (argvHooksRun path old new w s).1 := by
  rw [tie_argvHooksRun]
  unfold hooksRunRef
  cases w.popenRc s (w.absolute path) (some (hookEnv w old new)) <;> simp

/-- a hook killed by a signal (return code -9) stops the run (a seeded `returncode > 0` would not) -/
theorem hooksRun_signal_witness (path old new : Str) (w : World) (s : List KEv)
    (h : w.popenRc s (w.absolute path) (some (hookEnv w old new)) = some (-9)) :
    (argvHooksRun path old new w s).2 = .error (.exit 1) := by
  rw [hooksRun_outcome]
  simp [hookOk, h]

end BV.TieK
