/-
  Proofs/TieV1Spec.lean — scaffolding for the source-level ties of the legacy engine (group `v1`).

  The hand model of `_parse_field_values` (`v1ParseFieldValues`, Model/V1.lean) is written in `do` notation; its
  elaborated form duplicates the continuation into the branches of the two calendar steps.  `pfvSpec` is the SAME
  function as an explicit chain of `Except.bind`s over named stages (`pfvBid`, `pfvMD` = month/dom from the day of
  the year or from the fields, `pfvDW` = day of year and weeks from the date, `pfvQuarter`, `pfvTag`), and
  `pfv_model_eq_spec` proves the model equal to it on all inputs.  Nothing here depends on the Python source;
  `Proofs/Tie_v1ParseFieldValues.lean` proves the GENERATED definition equal to `pfvSpec` step by step.
-/
import BumpverVerif.Model.V1
namespace BV

theorem v1_ebind_ok {ε α β} (a : α) (f : α → Except ε β) : Except.bind (Except.ok a) f = f a := rfl
theorem v1_ebind_error {ε α β} (e : ε) (f : α → Except ε β) :
    Except.bind (Except.error e : Except ε α) f = Except.error e := rfl

/-- lockstep: two bind chains are equal when their heads are and their continuations are pointwise -/
theorem v1_ebind_congr {ε α β} {a b : Except ε α} {f g : α → Except ε β} (h : a = b) (hfg : ∀ x, f x = g x) :
    Except.bind a f = Except.bind b g := by
  subst h
  cases a with
  | error e => rfl
  | ok x => exact hfg x

def pfvBid (fv : FVals) : Except V1Err Str :=
  match lookup "bid".toList fv with
  | none => .ok "0001".toList
  | some (some s) => .ok s
  | some none => .error .unsupported

def pfvAdj (year0 : Option Nat) : Option Nat := year0.map (fun y => if y < 100 then y + 2000 else y)

def pfvMD (fv : FVals) (year doy0 : Option Nat) : Except V1Err (Option Nat × Option Nat) :=
  if truthy year && truthy doy0 then
    match dateFromDoy (year.getD 0) (doy0.getD 0) with
    | some d => .ok (some d.2.1, some d.2.2)
    | none => .error .overflow
  else
    Except.bind (v1IntField fv "month") fun m =>
    Except.bind (v1IntField fv "dom") fun d => .ok (m, d)

def pfvDW (year month dom doy0 : Option Nat) : Except V1Err (Option Nat × Option Nat × Option Nat) :=
  if truthy year && truthy month && truthy dom then
    if validDate (year.getD 0) (month.getD 0) (dom.getD 0) then
      .ok (some (dayOfYear (year.getD 0) (month.getD 0) (dom.getD 0)), some (weekW (year.getD 0) (month.getD 0) (dom.getD 0)),
           some (weekU (year.getD 0) (month.getD 0) (dom.getD 0)))
    else .error .valueError
  else .ok (doy0, none, none)

def pfvQuarter (q0 month : Option Nat) : Option Nat :=
  match q0 with
  | some q => some q
  | none => if truthy month then some (quarterFromMonth (month.getD 0)) else none

def pfvTag (fv : FVals) : Str :=
  let tag0 : Str := match lookup "tag".toList fv with
    | some (some t) => t
    | _ => "final".toList
  (lookup tag0 Gen.tagByPep440Tag).getD tag0

def pfvSpec (fv : FVals) : Except V1Err V1Info :=
  Except.bind (pfvBid fv) fun bid =>
  Except.bind (v1IntField fv "year") fun year0 =>
  Except.bind (v1IntField fv "doy") fun doy0 =>
  Except.bind (pfvMD fv (pfvAdj year0) doy0) fun md =>
  Except.bind (pfvDW (pfvAdj year0) md.1 md.2 doy0) fun dw =>
  Except.bind (v1IntField fv "quarter") fun q0 =>
  Except.bind (v1IntFieldOr0 fv "major") fun major =>
  Except.bind (v1IntFieldOr0 fv "minor") fun minor =>
  Except.bind (v1IntFieldOr0 fv "patch") fun patch =>
  .ok { year := pfvAdj year0, quarter := pfvQuarter q0 md.1, month := md.1, dom := md.2, doy := dw.1,
        isoWeek := dw.2.1, usWeek := dw.2.2, major := major, minor := minor, patch := patch, bid := bid,
        tag := pfvTag fv }



theorem pfv_model_eq_spec (fv : FVals) : v1ParseFieldValues fv = pfvSpec fv := by
  unfold v1ParseFieldValues pfvSpec pfvBid pfvMD pfvDW pfvAdj
  simp only [bind, pure, Except.pure, throw, throwThe, MonadExceptOf.throw]
  generalize v1IntField fv "year" = ry
  generalize v1IntField fv "doy" = rd
  generalize v1IntField fv "month" = rm
  generalize v1IntField fv "dom" = rdom
  generalize lookup "bid".toList fv = lb
  rcases lb with _ | _ | b
  all_goals first | rfl | skip
  all_goals (rcases ry with e | y <;> first | rfl | skip)
  all_goals (rcases rd with e | d <;> first | rfl | skip)
  all_goals simp only [v1_ebind_ok, v1_ebind_error]
  all_goals generalize Option.map (fun y => if y < 100 then y + 2000 else y) y = ya
  all_goals by_cases h1 : (truthy ya && truthy d) = true
  all_goals simp only [h1, if_true, if_false, Bool.false_eq_true]
  -- C1 holds: date from the day of the year
  all_goals try (
    cases hdd : dateFromDoy (ya.getD 0) (d.getD 0) with
    | none => rfl
    | some dt =>
      simp only [v1_ebind_ok]
      by_cases h2 : (truthy ya && truthy (some dt.2.1) && truthy (some dt.2.2)) = true
      · by_cases h3 : validDate (ya.getD 0) ((some dt.2.1).getD 0) ((some dt.2.2).getD 0) = true
        · simp only [h2, h3, if_true, v1_ebind_ok]; rfl
        · simp only [h2, h3, if_true, if_false, v1_ebind_error, Bool.false_eq_true]
      · simp only [h2, if_false, v1_ebind_ok, Bool.false_eq_true]; rfl)
  all_goals (rcases rm with e | m <;> first | rfl | skip)
  all_goals (rcases rdom with e | dm <;> first | rfl | skip)
  all_goals simp only [v1_ebind_ok]
  all_goals (
      by_cases h2 : (truthy ya && truthy m && truthy dm) = true
      · by_cases h3 : validDate (ya.getD 0) (m.getD 0) (dm.getD 0) = true
        · simp only [h2, h3, if_true, v1_ebind_ok]; rfl
        · simp only [h2, h3, if_true, if_false, v1_ebind_error, Bool.false_eq_true]
      · simp only [h2, if_false, v1_ebind_ok, Bool.false_eq_true]; rfl)

end BV
