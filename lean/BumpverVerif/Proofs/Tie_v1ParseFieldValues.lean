/-
  Proofs/Tie_v1ParseFieldValues.lean — the definition GENERATED from the Python source of
  `v1version._parse_field_values` (Gen/F_v1ParseFieldValues.lean, harness/translate_v1.py) equals the hand model
  `BV.v1ParseFieldValues` (Model/V1.lean) on ALL inputs, exceptions included and in the same ORDER:
  tag, bid, year (+2000 below 100), doy, month/dom FROM the day of the year (OverflowError) or from the fields,
  then day of year / weeks from the date (ValueError for an impossible date), THEN the quarter from the month,
  major, minor, patch; `int(None)` is a TypeError at the position Python raises it.

  One hypothesis: the group `bid` is not `None` (`hbid`).  Python would store `None` into the `str` field and
  carry on; the generated code reports that at the constructor (`pyTyped`), the model at the lookup — so with
  `{'bid': None, 'year': None}` the model answers `unsupported`, the generated code `typeError`
  (`tie_v1ParseFieldValues_bid_none_witness`).  No pattern puts a `bid` part into an optional group, so
  `match.groupdict()` never has `bid = None`.

  Method: `pfv_model_eq_spec` (Proofs/TieV1Spec.lean) turns the model into an explicit chain of binds; the
  generated definition is such a chain too; `v1_ebind_congr` walks both in lockstep.  The heads are compared by
  case analysis on the looked-up group / the calendar values, not by the syntactic shape of the generated term.
-/
import BumpverVerif.Gen.F_v1ParseFieldValues
import BumpverVerif.Proofs.TieV1Spec
set_option linter.unusedSimpArgs false
set_option linter.unusedVariables false
namespace BV
open GenV1

/-- lockstep where the generated side still carries `Optional[T]` and the model already `T` -/
theorem v1_ebind_congr_some {ε α β} {a : Except ε (Option α)} {b : Except ε α} {f : Option α → Except ε β}
    {g : α → Except ε β} (h : a = Except.map some b) (hfg : ∀ x, f (some x) = g x) :
    Except.bind a f = Except.bind b g := by
  subst h
  cases b with
  | error e => rfl
  | ok x => exact hfg x

/-- head of a bind: a generated `int(fvals[k]) if k in fvals else None` against the model's `v1IntField` -/
macro "pfv_field" k:term : tactic => `(tactic| (
  try unfold pyGetItem
  try unfold pyInt
  unfold v1IntField
  rcases lookup ($k : String).toList _ with _ | _ | s <;> rfl))

/-- … `else 0` against `v1IntFieldOr0` -/
macro "pfv_field0" k:term : tactic => `(tactic| (
  try unfold pyGetItem
  try unfold pyInt
  unfold v1IntFieldOr0 v1IntField
  rcases lookup ($k : String).toList _ with _ | _ | s <;> rfl))

/-- month and dom read from the fields, in this order -/
macro "pfv_chain" : tactic => `(tactic|
  exact v1_ebind_congr (by pfv_field "month") (fun _ => v1_ebind_congr (by pfv_field "dom") (fun _ => rfl)))

/-- quarter, major, minor, patch, then the record (quarter derived from the month AFTER the date steps) -/
macro "pfv_tail" md:ident : tactic => `(tactic| (
    refine v1_ebind_congr (by pfv_field "quarter") (fun q0 => ?_)
    refine v1_ebind_congr (by pfv_field0 "major") (fun major => ?_)
    refine v1_ebind_congr (by pfv_field0 "minor") (fun minor => ?_)
    refine v1_ebind_congr (by pfv_field0 "patch") (fun patch => ?_)
    simp only [pyTyped, v1_ebind_ok]
    refine congrArg Except.ok ?_
    congr 1
    · -- quarter
      unfold pfvQuarter
      rcases $md:ident with ⟨_ | m, dm⟩ <;> rcases q0 with _ | q <;>
        first | rfl | (by_cases hm : m = 0 <;> simp [truthy, hm])
    · -- tag
      unfold pfvTag
      rcases lookup "tag".toList _ with _ | _ | t <;> rfl))

/-- the simp set that decides the truthiness tests once every tested value is `none`, `some 0` or `some n` with
    `(n != 0) = true` in the context -/
macro "pfv_simp" hs:(ppSpace colGt ident)* : tactic => `(tactic|
  simp only [truthy, if_true, if_false, Bool.true_and, Bool.and_true, Bool.false_and, Bool.and_false, Bool.and_self,
    Bool.not_true, Bool.not_false, Bool.false_eq_true, bne_self_eq_false, Option.getD_some, Option.getD_none,
    ite_self, ne_eq, not_true_eq_false, not_false_eq_true, Bool.not_eq_true', $[$hs:term],*])

/-- month / dom when there is NO year: always from the fields -/
macro "pfv_md_noyear" doy0:ident : tactic => `(tactic| (
    unfold pfvMD
    rcases $doy0:ident with _ | d
    · (try pfv_simp); pfv_chain
    · by_cases hd : d = 0
      · subst hd; (try pfv_simp); pfv_chain
      · have hdb : (d != 0) = true := by simpa using hd
        (try pfv_simp hdb); pfv_chain))

/-- month / dom for a year `Y ≠ 0`: from the day of the year when there is one (and it is not 0), else the fields -/
macro "pfv_md_year" Y:ident hYb:ident doy0:ident : tactic => `(tactic| (
    unfold pfvMD
    rcases $doy0:ident with _ | d
    · pfv_simp $hYb; pfv_chain
    · by_cases hd : d = 0
      · subst hd; pfv_simp $hYb; pfv_chain
      · have hdb : (d != 0) = true := by simpa using hd
        pfv_simp $hYb hdb
        unfold pyDateFromDoy
        cases dateFromDoy $Y:ident d <;> rfl))

/-- day of year and weeks when there is NO year: the `doy` field is kept -/
macro "pfv_dw_noyear" md:ident : tactic => `(tactic| (
    unfold pfvDW
    rcases $md:ident with ⟨_ | m, _ | dm⟩ <;> (try pfv_simp) <;>
      (try (by_cases hm : m = 0 <;> by_cases hdm : dm = 0 <;> simp [hm, hdm]))))

/-- day of year and weeks from the (validated) date for a year `Y ≠ 0` -/
macro "pfv_dw_year" Y:ident hYb:ident md:ident : tactic => `(tactic| (
    unfold pfvDW
    rcases $md:ident with ⟨_ | m, _ | dm⟩
    · pfv_simp $hYb
    · by_cases hdm : dm = 0
      · subst hdm; pfv_simp $hYb
      · have hdb : (dm != 0) = true := by simpa using hdm
        pfv_simp $hYb hdb
    · by_cases hm : m = 0
      · subst hm; pfv_simp $hYb
      · have hmb : (m != 0) = true := by simpa using hm
        pfv_simp $hYb hmb
    · by_cases hm : m = 0
      · subst hm
        by_cases hdm : dm = 0
        · subst hdm; pfv_simp $hYb
        · have hdb : (dm != 0) = true := by simpa using hdm
          pfv_simp $hYb hdb
      · have hmb : (m != 0) = true := by simpa using hm
        by_cases hdm : dm = 0
        · subst hdm; pfv_simp $hYb hmb
        · have hdb : (dm != 0) = true := by simpa using hdm
          pfv_simp $hYb hmb hdb
          unfold pyDate
          cases validDate $Y:ident m dm <;> rfl))

theorem tie_v1ParseFieldValues (fv : FVals) (hbid : lookup "bid".toList fv ≠ some none) :
    GenV1.v1ParseFieldValues fv = v1ParseFieldValues fv := by
  rw [pfv_model_eq_spec]
  unfold GenV1.v1ParseFieldValues pfvSpec
  dsimp only
  -- bid
  refine v1_ebind_congr_some ?_ (fun bid => ?_)
  · unfold pfvBid
    try unfold pyGetItem
    rcases h : lookup "bid".toList fv with _ | _ | b
    · rfl
    · exact absurd h hbid
    · rfl
  -- year, doy
  refine v1_ebind_congr (by pfv_field "year") (fun year0 => ?_)
  refine v1_ebind_congr (by pfv_field "doy") (fun doy0 => ?_)
  rcases year0 with _ | y
  · -- no year: nothing is derived
    dsimp only [pfvAdj, Option.map]
    refine v1_ebind_congr (by pfv_md_noyear doy0) (fun md => ?_)
    refine v1_ebind_congr (by pfv_dw_noyear md) (fun dw => ?_)
    pfv_tail md
  · -- a year: `year < 100` is moved into this century; either way it is not 0
    by_cases hy : y < 100
    · have hYb : (y + 2000 != 0) = true := by simp
      simp only [pfvAdj, Option.map, hy, decide_true, decide_false, if_true, if_false, gt_iff_lt, Bool.false_eq_true]
      try simp only [Nat.add_comm 2000 y]
      obtain ⟨Y, hYe⟩ : ∃ Y, y + 2000 = Y := ⟨_, rfl⟩     -- (`generalize … at` makes the kernel check very slow here)
      simp only [hYe] at hYb ⊢
      refine v1_ebind_congr (by pfv_md_year Y hYb doy0) (fun md => ?_)
      refine v1_ebind_congr (by pfv_dw_year Y hYb md) (fun dw => ?_)
      pfv_tail md
    · have hYb : (y != 0) = true := by
        have : y ≠ 0 := by omega
        simpa using this
      simp only [pfvAdj, Option.map, hy, decide_true, decide_false, if_true, if_false, gt_iff_lt, Bool.false_eq_true]
      refine v1_ebind_congr (by pfv_md_year y hYb doy0) (fun md => ?_)
      refine v1_ebind_congr (by pfv_dw_year y hYb md) (fun dw => ?_)
      pfv_tail md

/-- `hbid` is needed: with `bid = None` AND a second defective group the two sides report different errors
    (the model at the lookup of `bid`, the generated code — like a typed Python would — at the constructor) -/
theorem tie_v1ParseFieldValues_bid_none_witness :
    GenV1.v1ParseFieldValues [("bid".toList, none), ("year".toList, none)] = .error .typeError ∧
    v1ParseFieldValues [("bid".toList, none), ("year".toList, none)] = .error .unsupported := by
  constructor <;> decide +kernel

/-- with `bid = None` alone both sides answer `unsupported` -/
theorem tie_v1ParseFieldValues_bid_none_alone :
    GenV1.v1ParseFieldValues [("bid".toList, none)] = .error .unsupported ∧
    v1ParseFieldValues [("bid".toList, none)] = .error .unsupported := by
  constructor <;> decide +kernel

/-- non-vacuity, and the order of the derivation steps on the input of an earlier seeded bug: day 366 of a
    non-leap year runs into 1 January of the NEXT year's calendar fields (month 1, dom 1), the day of the year is
    recomputed from that date, and the quarter is derived from the month obtained from the day of the year -/
example :
    GenV1.v1ParseFieldValues [("year".toList, some "2023".toList), ("doy".toList, some "366".toList)] =
      .ok { year := some 2023, quarter := some 1, month := some 1, dom := some 1, doy := some 1, isoWeek := some 0,
            usWeek := some 1, major := 0, minor := 0, patch := 0, bid := "0001".toList, tag := "final".toList } := by
  rw [tie_v1ParseFieldValues _ (by decide)]; decide +kernel

end BV
