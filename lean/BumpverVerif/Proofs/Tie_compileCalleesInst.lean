/-
  Proofs/Tie_compileCalleesInst.lean — the callee parameters of the generated `_compile_file_patterns`
  (`compile_pattern`, `compile_patterns` of v2patterns, `compile_patterns` of v1patterns) instantiated by GENERATED code:

  * v2: `GenF.compilePattern` / `GenF.compilePatterns` (agent J, harness/translate_patterns.py; their result `none` =
    an exception of the callee, read here as `re.error`, as the hand model does), with the fuel their `while True:` loops
    need for the pattern at hand (`tie_compilePattern`, `tie_compilePatterns`: any larger fuel gives the same result);
  * v1: `GenV1.v1CompilePattern` (agent I, harness/translate_v1.py) for every pattern.  `v1patterns.compile_patterns` itself
    (a one-line list comprehension over `compile_pattern`) is translated by no group: `mapE` stands for the comprehension
    (NOT tied to the source).

  `genCallees_agree`: these callees satisfy `CalleesAgree` for the environment whose `compileOk` is "the hand model's
  regex compiles" and for `mk` = the `patterns.Pattern` tuple (version_pattern, NORMALISED raw pattern, regex) — so the
  hypothesis `hc` of `tie_parseConfig_instantiated` / `tie_compileFilePatterns_model` is satisfiable by code generated from
  the source, and the compiled patterns in the map are the ones `Proofs/Tie_compilePattern.lean` describes.
-/
import BumpverVerif.Proofs.Tie_parseConfigInst
import BumpverVerif.Proofs.Tie_compilePattern
import BumpverVerif.Proofs.Tie_v1CompilePattern
namespace BV
open TieP Py

/-- `none` (an exception inside the generated v2 compile functions) read as `re.error` -/
def optExc {α : Type} : Option α → Except Str α
  | some a => .ok a
  | none => .error "re.error".toList

def fuelFor (vp p : Str) : Nat := compileFuel (normalizePattern vp p)
def fuelForAll (vp : Str) (ps : List Str) : Nat := (ps.map (fuelFor vp)).foldl max 0

/-- a `patterns.Pattern` made by the v1 compiler, as the same NamedTuple the v2 compiler makes -/
def v1ToPy (p : GenV1.V1Pattern) : GenF.PyPattern :=
  { version_pattern := p.versionPattern, raw_pattern := p.rawPattern, regexp := p.regexp }

/-- the callees instantiated by generated code (a version pattern that is not a str: AttributeError — never reached
    from `_parse_config`, which stores the stripped str first) -/
def genCallees : CompileCallees GenF.PyPattern where
  cp2 v p := match v with
    | .str vp => optExc (GenF.compilePattern Gen.rePatternEscapes Gen.partPatterns Gen.partFields
        Gen.pep440PartSubstitutions (fuelFor vp p) vp (some p))
    | _ => .error "AttributeError".toList
  cps2 v ps := match v with
    | .str vp => optExc (GenF.compilePatterns Gen.rePatternEscapes Gen.partPatterns Gen.partFields
        Gen.pep440PartSubstitutions (fuelForAll vp ps) vp ps)
    | _ => .error "AttributeError".toList
  cps1 v ps := match v with
    | .str vp => mapE (fun p => ((GenV1.v1CompilePattern vp (some p)).mapError V1Err.pyClass).map v1ToPy) ps
    | _ => .error "AttributeError".toList

/-- "the pattern compiles" in the hand model -/
def modelCompileOk (isNew : Bool) (vp p : Str) : Bool :=
  if isNew then (compileRe (normalizePattern vp p)).isSome
  else (match v1CompilePattern vp p with | .ok _ => true | .error _ => false)

/-- the compiled pattern: (version_pattern, normalised raw pattern, regex) -/
def modelPattern (vp : Str) (isNew : Bool) (p : Str) : GenF.PyPattern :=
  if isNew then
    patternOf vp (normalizePattern vp p) ((compileRe (normalizePattern vp p)).getD Re.eps)
  else
    { version_pattern := vp, raw_pattern := v1NormalizedPattern vp p,
      regexp := (match v1CompilePattern vp p with | .ok r => r | .error _ => Re.eps) }

namespace TieP

theorem optExc_mapM {α β : Type} (f : α → Option β) (l : List α) :
    optExc (PyP.mapM f l) = mapE (fun x => optExc (f x)) l := by
  induction l with
  | nil => rfl
  | cons x xs ih =>
    simp only [PyP.mapM, mapE]
    cases f x with
    | none => rfl
    | some y =>
      rw [← ih]
      cases PyP.mapM f xs <;> rfl

theorem mapE_congr {α β : Type} (f g : α → Except Str β) (l : List α) (h : ∀ x ∈ l, f x = g x) :
    mapE f l = mapE g l := by
  induction l with
  | nil => rfl
  | cons x xs ih =>
    simp only [mapE, h x List.mem_cons_self, ih (fun y hy => h y (List.mem_cons_of_mem _ hy))]

theorem le_foldl_max (l : List Nat) (init x : Nat) (h : x ≤ init ∨ x ∈ l) : x ≤ l.foldl max init := by
  induction l generalizing init with
  | nil =>
    rcases h with h | h
    · exact h
    · cases h
  | cons a t ih =>
    rw [List.foldl_cons]
    apply ih
    rcases h with h | h
    · exact .inl (Nat.le_trans h (Nat.le_max_left _ _))
    · rcases List.mem_cons.mp h with h | h
      · exact .inl (h ▸ Nat.le_max_right _ _)
      · exact .inr h

theorem v1CompileRe_error_class (s : Str) (e : V1Err) (h : v1CompileRe s = .error e) :
    e.pyClass = "re.error".toList := by
  unfold v1CompileRe v1ReOfSrc at h
  split at h
  · cases h; rfl
  · split at h
    · cases h; rfl
    · cases h

end TieP

theorem genCallees_cp2 (vp p : Str) :
    genCallees.cp2 (.str vp) p =
      if modelCompileOk true vp p then .ok (modelPattern vp true p) else .error "re.error".toList := by
  simp only [genCallees, modelCompileOk, modelPattern, if_true]
  rw [tie_compilePattern (fuelFor vp p) vp (some p) (by simp [fuelFor])]
  simp only [Option.getD_some]
  cases compileRe (normalizePattern vp p) <;> rfl

theorem genCallees_agree (env : CfgEnv) (henv : env.compileOk = modelCompileOk) (vp : Str) :
    CalleesAgree env genCallees (modelPattern vp) vp := by
  refine ⟨?_, ?_, ?_⟩
  · intro p
    rw [henv]
    exact genCallees_cp2 vp p
  · intro ps
    have hfuel : ∀ raw ∈ ps, compileFuel (normalizePattern vp raw) ≤ fuelForAll vp ps := by
      intro raw hraw
      exact le_foldl_max _ 0 _ (.inr (List.mem_map.mpr ⟨raw, hraw, rfl⟩))
    show optExc (GenF.compilePatterns _ _ _ _ (fuelForAll vp ps) vp ps) = _
    rw [tie_compilePatterns (fuelForAll vp ps) vp ps hfuel, optExc_mapM]
    apply mapE_congr
    intro p _
    rw [genCallees_cp2]
    simp only [modelCompileOk, modelPattern, if_true]
    cases compileRe (normalizePattern vp p) <;> rfl
  · intro ps
    rw [henv]
    show mapE _ ps = _
    apply mapE_congr
    intro p _
    have h1 := tie_v1CompilePattern vp (some p)
    simp only [Option.getD_some] at h1
    simp only [modelCompileOk, modelPattern, Bool.false_eq_true, if_false]
    cases hg : GenV1.v1CompilePattern vp (some p) with
    | error e =>
      rw [hg] at h1
      simp only [Except.map] at h1
      rw [← h1]
      simp only [Except.mapError, Except.map, Bool.false_eq_true, if_false]
      have : v1CompileRe (v1NormalizedPattern vp p) = .error e := by
        have := h1; unfold v1CompilePattern at this; exact this.symm
      rw [v1CompileRe_error_class _ e this]
    | ok pat =>
      rw [hg] at h1
      simp only [Except.map] at h1
      obtain ⟨hv, hr⟩ := tie_v1CompilePattern_fields vp (some p) pat hg
      simp only [Option.getD_some] at hr
      rw [← h1]
      simp only [Except.mapError, Except.map, if_true, v1ToPy, hv, hr]

/-- `tie_parseConfig_full_instantiated` with every callee of the file-pattern step generated from source:
    non-vacuity of its hypothesis `hc` -/
theorem genCallees_agree_all (pathExists : Str → Bool) (glob : Str → List Str) (today : Nat × Nat × Nat) :
    ∀ vp, CalleesAgree { validVersion := validVersion today, compileOk := modelCompileOk, pathExists := pathExists,
                         glob := glob } genCallees (modelPattern vp) vp :=
  fun vp => genCallees_agree _ rfl vp

/-- END TO END for `_parse_config`: every callee of the file-pattern step generated from source, the validation callees
    the hand model's parsers (themselves tied: `tie_parseVersionInfo`, `tie_v1ParseVersionInfo`).  Remaining hypotheses:
    glob total (`glob : Str → List Str`), and `hp` (the parser rejects this configuration's version, if at all, with
    PatternError). -/
theorem tie_parseConfig_full_generated (today : Nat × Nat × Nat) (pathExists : Str → Bool) (glob : Str → List Str)
    (pep : Str → Str) (raw : RawCfg)
    (hp : ∀ s4 s6, lookup "current_version".toList raw.opts = some (.str s4) →
      lookup "version_pattern".toList raw.opts = some (.str s6) →
      parseFailsOnlyWithPatternError today (stripQuotes s4) (stripQuotes s6) (cfgIsNewPattern (stripQuotes s6))) :
    (GenF.parseConfig (GenF.validateVersionWithPattern (parse2Model today) parse1Model) pep
        (GenF.compileFilePatterns (fun g => .ok (glob g)) genCallees.cp2 genCallees.cps2 genCallees.cps1) pathExists
        (TieH.embedRaw raw)).map (fun c => (absConfigNoPatterns c, c.file_patterns, c.pep440_version)) =
      ((parseConfig { validVersion := validVersion today, compileOk := modelCompileOk, pathExists := pathExists,
                      glob := glob } raw).mapError CfgErr.pyClass).map
        (fun e => ({ e with filePatterns := [] }, mapVals (modelPattern e.versionPattern e.isNewPattern) e.filePatterns,
          pep e.currentVersion)) :=
  tie_parseConfig_full_instantiated today
    { validVersion := validVersion today, compileOk := modelCompileOk, pathExists := pathExists, glob := glob }
    genCallees modelPattern pep raw (genCallees_agree_all pathExists glob today) hp

end BV
