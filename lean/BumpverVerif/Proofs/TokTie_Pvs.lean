/-
  Proofs/TokTie_Pvs.lean — `_format_part_values`: the (part, value) list is exactly the graph of `partText`,
  sorted by name length (longest first); and the values of parts in their domain (`partOk`) are non-empty texts
  without upper-case letters.
-/
import BumpverVerif.Proofs.TokTie_Clean
import BumpverVerif.Proofs.ComposeLemmas
namespace BV

/-! ### table facts -/

theorem tbl_fields_nodup : (Gen.partFields.map (·.1)).Nodup := by decide +kernel

theorem tbl_fields_names : Gen.partFields.all (fun e => partNames.contains e.1) = true := by decide +kernel

theorem tbl_tags_lower : Gen.validReleaseTagValues.all (fun t => !t.isEmpty && t.all (fun c => !isUpper c)) = true := by
  decide

theorem tbl_pytags_lower : Gen.pep440TagByTag.all (fun e => e.2.all (fun c => !isUpper c)) = true := by decide

/-! ### insertion keeps members and order -/

theorem mem_insertByKeyLenDesc {x a : Str × Str} {l : List (Str × Str)} :
    x ∈ insertByKeyLenDesc a l ↔ x = a ∨ x ∈ l := by
  induction l with
  | nil => simp [insertByKeyLenDesc]
  | cons y ys ih =>
    simp only [insertByKeyLenDesc]
    split
    · simp
    · simp only [List.mem_cons, ih]
      constructor
      · rintro (h | h | h)
        · exact Or.inr (Or.inl h)
        · exact Or.inl h
        · exact Or.inr (Or.inr h)
      · rintro (h | h | h)
        · exact Or.inr (Or.inl h)
        · exact Or.inl h
        · exact Or.inr (Or.inr h)

def LenSorted (l : List (Str × Str)) : Prop := l.Pairwise (fun a b => b.1.length ≤ a.1.length)

theorem insertByKeyLenDesc_sorted (a : Str × Str) (l : List (Str × Str)) (h : LenSorted l) :
    LenSorted (insertByKeyLenDesc a l) := by
  induction l with
  | nil => simp [insertByKeyLenDesc, LenSorted]
  | cons y ys ih =>
    have hy := List.pairwise_cons.mp h
    simp only [insertByKeyLenDesc]
    split
    · rename_i hgt
      refine List.pairwise_cons.mpr ⟨fun z hz => ?_, h⟩
      rcases List.mem_cons.mp hz with e | e
      · subst e; omega
      · have := hy.1 z e; omega
    · rename_i hle
      refine List.pairwise_cons.mpr ⟨fun z hz => ?_, ih hy.2⟩
      rcases mem_insertByKeyLenDesc.mp hz with e | e
      · subst e; omega
      · exact hy.1 z e

theorem foldl_insert_mem (items acc : List (Str × Str)) (x : Str × Str) :
    x ∈ items.foldl (fun acc x => insertByKeyLenDesc x acc) acc ↔ x ∈ acc ∨ x ∈ items := by
  induction items generalizing acc with
  | nil => simp
  | cons a items ih =>
    rw [List.foldl_cons, ih, mem_insertByKeyLenDesc]
    simp only [List.mem_cons]
    constructor
    · rintro ((h | h) | h)
      · exact Or.inr (Or.inl h)
      · exact Or.inl h
      · exact Or.inr (Or.inr h)
    · rintro (h | h | h)
      · exact Or.inl (Or.inr h)
      · exact Or.inl (Or.inl h)
      · exact Or.inr h

theorem foldl_insert_sorted (items acc : List (Str × Str)) (h : LenSorted acc) :
    LenSorted (items.foldl (fun acc x => insertByKeyLenDesc x acc) acc) := by
  induction items generalizing acc with
  | nil => exact h
  | cons a items ih => exact ih _ (insertByKeyLenDesc_sorted a acc h)

theorem pvs_sorted (v : VInfo) : LenSorted (formatPartValues v) :=
  foldl_insert_sorted _ [] List.Pairwise.nil

/-! ### membership = `partText` -/

theorem lookup_of_mem_nodupKeys {α} (l : List (Str × α)) (h : (l.map (·.1)).Nodup) (k : Str) (x : α)
    (hm : (k, x) ∈ l) : lookup k l = some x := by
  induction l with
  | nil => cases hm
  | cons e l ih =>
    obtain ⟨k', x'⟩ := e
    rw [List.map_cons, List.nodup_cons] at h
    rcases List.mem_cons.mp hm with e | e
    · cases e; simp [lookup]
    · have hne : k ≠ k' := by
        intro e'
        subst e'
        exact h.1 (List.mem_map_of_mem (f := (·.1)) e)
      simp only [lookup, hne, if_false]
      exact ih h.2 e

theorem mem_pvs_iff (v : VInfo) (n w : Str) : (n, w) ∈ formatPartValues v ↔ partText v n = some w := by
  unfold formatPartValues
  rw [foldl_insert_mem]
  simp only [List.not_mem_nil, false_or, List.mem_filterMap]
  constructor
  · rintro ⟨⟨n', f⟩, hmem, hg⟩
    have hl := lookup_of_mem_nodupKeys _ tbl_fields_nodup n' f hmem
    simp only at hg
    cases hget : v.get f with
    | none => rw [hget] at hg; cases hg
    | nat x =>
      rw [hget] at hg
      cases hk : lookup n' Gen.partFormats with
      | none => rw [hk] at hg; cases hg
      | some k =>
        rw [hk] at hg
        simp only [Option.some.injEq, Prod.mk.injEq] at hg
        obtain ⟨rfl, rfl⟩ := hg
        simp [partText, hl, hk, hget]
    | str s =>
      rw [hget] at hg
      cases hk : lookup n' Gen.partFormats with
      | none => rw [hk] at hg; cases hg
      | some k =>
        rw [hk] at hg
        simp only [Option.some.injEq, Prod.mk.injEq] at hg
        obtain ⟨rfl, rfl⟩ := hg
        simp [partText, hl, hk, hget]
  · intro h
    unfold partText at h
    cases hl : lookup n Gen.partFields with
    | none => rw [hl] at h; cases h
    | some f =>
      cases hk : lookup n Gen.partFormats with
      | none => rw [hl, hk] at h; cases h
      | some k =>
        rw [hl, hk] at h
        simp only at h
        refine ⟨(n, f), lookup_mem_cl n _ f hl, ?_⟩
        simp only [hk]
        cases hget : v.get f with
        | none => rw [hget] at h; cases h
        | nat x => rw [hget] at h; simp only [Option.some.injEq] at h; rw [← h]
        | str s => rw [hget] at h; simp only [Option.some.injEq] at h; rw [← h]

theorem pvs_name_mem (v : VInfo) (n w : Str) (h : (n, w) ∈ formatPartValues v) : n ∈ partNames := by
  have h' := (mem_pvs_iff v n w).mp h
  unfold partText at h'
  cases hl : lookup n Gen.partFields with
  | none => rw [hl] at h'; cases h'
  | some f =>
    have := List.all_eq_true.mp tbl_fields_names (n, f) (lookup_mem_cl n _ f hl)
    simpa using this

/-! ### values of parts in their domain -/

def ValOk (v : VInfo) (n : Str) : Prop := ∃ w, partText v n = some w ∧ w ≠ [] ∧ noUpper w

theorem noUpper_of_allDigits {w : Str} (h : allDigits w = true) : noUpper w := by
  intro c hc
  exact digit_not_upper (List.all_eq_true.mp h c hc)

theorem fmtValue_nat_ne_nil (k : Gen.FmtKind) (x : Nat) : fmtValue k (.nat x) ≠ [] := by
  cases k <;> simp [fmtValue, zfill, natToStr_ne_nil]

theorem val_nat (n f : Str) (k : Gen.FmtKind) (hf : lookup n Gen.partFields = some f)
    (hk : lookup n Gen.partFormats = some k) (v : VInfo) (x : Nat) (hg : v.get f = .nat x) : ValOk v n :=
  ⟨fmtValue k (.nat x), by simp [partText, hf, hk, hg], fmtValue_nat_ne_nil k x,
    noUpper_of_allDigits (allDigits_fmtValue k x)⟩

theorem val_cal (n f : Str) (k : Gen.FmtKind) (get : CalOpt → Option Nat) (lo hi : Nat)
    (hf : lookup n Gen.partFields = some f) (hk : lookup n Gen.partFormats = some k)
    (hget : ∀ v : VInfo, v.get f = optNat (get v.cal)) (v : VInfo) (hok : optIn (get v.cal) lo hi = true) :
    ValOk v n := by
  cases hx : get v.cal with
  | none => rw [hx] at hok; cases hok
  | some x => exact val_nat n f k hf hk v x (by rw [hget, hx]; rfl)

theorem val_of_partOk (v : VInfo) (n : Str) (hok : partOk v n = true) : ValOk v n := by
  unfold partOk at hok
  cases hl : lookup n partDoms with
  | none => rw [hl] at hok; cases hok
  | some d =>
    rw [hl] at hok
    have hmem := lookup_mem_cl n partDoms d hl
    simp only [partDoms, List.mem_cons, Prod.mk.injEq, List.not_mem_nil, or_false] at hmem
    rcases hmem with ⟨rfl, rfl⟩ | ⟨rfl, rfl⟩ | ⟨rfl, rfl⟩ | ⟨rfl, rfl⟩ | ⟨rfl, rfl⟩ | ⟨rfl, rfl⟩ |
      ⟨rfl, rfl⟩ | ⟨rfl, rfl⟩ | ⟨rfl, rfl⟩ | ⟨rfl, rfl⟩ | ⟨rfl, rfl⟩ | ⟨rfl, rfl⟩ | ⟨rfl, rfl⟩ |
      ⟨rfl, rfl⟩ | ⟨rfl, rfl⟩ | ⟨rfl, rfl⟩ | ⟨rfl, rfl⟩ | ⟨rfl, rfl⟩ | ⟨rfl, rfl⟩ | ⟨rfl, rfl⟩ |
      ⟨rfl, rfl⟩ | ⟨rfl, rfl⟩ | ⟨rfl, rfl⟩ | ⟨rfl, rfl⟩ | ⟨rfl, rfl⟩ | ⟨rfl, rfl⟩ | ⟨rfl, rfl⟩ |
      ⟨rfl, rfl⟩ | ⟨rfl, rfl⟩
    · exact val_cal _ "year_y".toList .str (·.yearY) _ _ (by decide) (by decide) (fun _ => rfl) v hok
    · exact val_cal _ "year_y".toList .yy (·.yearY) _ _ (by decide) (by decide) (fun _ => rfl) v hok
    · exact val_cal _ "year_y".toList (.yypad 2) (·.yearY) _ _ (by decide) (by decide) (fun _ => rfl) v hok
    · exact val_cal _ "year_g".toList .str (·.yearG) _ _ (by decide) (by decide) (fun _ => rfl) v hok
    · exact val_cal _ "year_g".toList .yy (·.yearG) _ _ (by decide) (by decide) (fun _ => rfl) v hok
    · exact val_cal _ "year_g".toList (.yypad 2) (·.yearG) _ _ (by decide) (by decide) (fun _ => rfl) v hok
    · exact val_cal _ "quarter".toList .str (·.quarter) _ _ (by decide) (by decide) (fun _ => rfl) v hok
    · exact val_cal _ "month".toList .str (·.month) _ _ (by decide) (by decide) (fun _ => rfl) v hok
    · exact val_cal _ "month".toList (.pad 2) (·.month) _ _ (by decide) (by decide) (fun _ => rfl) v hok
    · exact val_cal _ "dom".toList .str (·.dom) _ _ (by decide) (by decide) (fun _ => rfl) v hok
    · exact val_cal _ "dom".toList (.pad 2) (·.dom) _ _ (by decide) (by decide) (fun _ => rfl) v hok
    · exact val_cal _ "doy".toList .str (·.doy) _ _ (by decide) (by decide) (fun _ => rfl) v hok
    · exact val_cal _ "doy".toList (.pad 3) (·.doy) _ _ (by decide) (by decide) (fun _ => rfl) v hok
    · exact val_cal _ "week_w".toList .str (·.weekW) _ _ (by decide) (by decide) (fun _ => rfl) v hok
    · exact val_cal _ "week_w".toList (.pad 2) (·.weekW) _ _ (by decide) (by decide) (fun _ => rfl) v hok
    · exact val_cal _ "week_u".toList .str (·.weekU) _ _ (by decide) (by decide) (fun _ => rfl) v hok
    · exact val_cal _ "week_u".toList (.pad 2) (·.weekU) _ _ (by decide) (by decide) (fun _ => rfl) v hok
    · exact val_cal _ "week_v".toList .str (·.weekV) _ _ (by decide) (by decide) (fun _ => rfl) v hok
    · exact val_cal _ "week_v".toList (.pad 2) (·.weekV) _ _ (by decide) (by decide) (fun _ => rfl) v hok
    · exact val_nat _ "major".toList .str (by decide) (by decide) v v.major rfl
    · exact val_nat _ "minor".toList .str (by decide) (by decide) v v.minor rfl
    · exact val_nat _ "patch".toList .str (by decide) (by decide) v v.patch rfl
    · exact val_nat _ "num".toList .str (by decide) (by decide) v v.num rfl
    · exact val_nat _ "inc0".toList .str (by decide) (by decide) v v.inc0 rfl
    · exact val_nat _ "inc1".toList .str (by decide) (by decide) v v.inc1 rfl
    · rw [isDigitStr_iff] at hok
      exact ⟨v.bid, partText_BUILD v, hok.1, noUpper_of_allDigits hok.2⟩
    · exact ⟨_, partText_BLD v, natToStr_ne_nil _, noUpper_of_allDigits (allDigits_natToStr _)⟩
    · have hok' : tagOk v = true := hok
      simp only [tagOk, List.contains_eq_mem, decide_eq_true_eq] at hok'
      have := List.all_eq_true.mp tbl_tags_lower v.tag hok'
      simp only [Bool.and_eq_true, Bool.not_eq_true', List.isEmpty_eq_false_iff, List.all_eq_true] at this
      exact ⟨v.tag, partText_TAG v, this.1, fun c hc => by simpa using this.2 c hc⟩
    · have hok' : pytagOk v = true := hok
      simp only [pytagOk, Bool.and_eq_true, beq_iff_eq, Bool.not_eq_true', List.isEmpty_eq_false_iff] at hok'
      have hm := lookup_mem_cl _ _ _ hok'.1.2
      have := List.all_eq_true.mp tbl_pytags_lower _ hm
      simp only [List.all_eq_true, Bool.not_eq_true'] at this
      exact ⟨v.pytag, partText_PYTAG v, hok'.2, fun c hc => this c hc⟩

end BV
