/-
  Proofs/TieQ_SearchOk.lean — THE MATCHER OF THE MODEL:  `TieQ.searchOk_groupsOf : TieQ.SearchOk groupsOf`, i.e.

      ∀ s, (groupsOf s).map ofGroups = parsePep s

  the reference `ofGroups` (to which the generated `Version.__init__` is tied for ALL group values,
  Proofs/Tie_pepVersionInit.lean) composed with the model-side group extraction `groupsOf` (Model/PepGroups.lean)
  IS the model's parser `parsePep` (Model/Pep440.lean), on every string.

  Structure: both `groupsCore` and `parseCore` are shown equal to a head phase followed by a common PHASE-WISE tail
  (`gTail` / `pTail`: release tail, pre, post, dev, local), and one lemma per phase relates what the group side reports
  to what the model side reads (`preSeg_groups`, `postSeg_groups`, `devSeg_groups`, `localSeg_groups`, `release_groups`,
  `headSeg_groups`).  The segment lemmas of Proofs/TieQ_Groups.lean (`letterGroups_spec`, `splitOn_join_dot`) do the work
  inside the phases.

  Then the model-level ties and the C16 / C15 source-level corollaries are instantiated with `regex_search := groupsOf`,
  WITHOUT the hypothesis `SearchOk`.
-/
import BumpverVerif.Proofs.TieQ_Groups
import BumpverVerif.Proofs.TieQ_Source
set_option linter.unusedSimpArgs false
namespace BV
namespace TieQ

/-! ### digits contain no dot -/

theorem digit_ne_dot (c : Char) (h : isDigit c = true) : c ≠ '.' := by
  intro e; subst e; exact absurd h (by decide)

theorem mem_takeWhile_holds {α : Type} (p : α → Bool) : ∀ (l : List α), ∀ c ∈ l.takeWhile p, p c = true := by
  intro l
  induction l with
  | nil => intro c hc; simp at hc
  | cons a as ih =>
    intro c hc
    simp only [List.takeWhile_cons] at hc
    split at hc
    · next ha =>
      rcases List.mem_cons.mp hc with rfl | hc
      · exact ha
      · exact ih c hc
    · simp at hc

theorem takeWhile_digit_nodot (s : Str) : ∀ c ∈ s.takeWhile isDigit, c ≠ '.' :=
  fun c hc => digit_ne_dot c (mem_takeWhile_holds isDigit s c hc)

theorem relTailF_nodot (f : Nat) (s : Str) : ∀ q ∈ (relTailF f s).1, ∀ c ∈ q, c ≠ '.' := by
  induction f, s using relTailF.induct with
  | case1 s => intro q hq; simp [relTailF] at hq
  | case2 f c cs hc ih =>
    intro q hq
    simp only [relTailF, hc, if_true, List.mem_cons] at hq
    rcases hq with rfl | hq
    · exact takeWhile_digit_nodot _
    · exact ih q hq
  | case3 f c cs hc =>
    intro q hq
    simp [relTailF, hc] at hq
  | case4 n s hs =>
    intro q hq
    have : relTailF (n + 1) s = ([], s) := by
      unfold relTailF
      split
      all_goals first
        | rfl
        | exact (hs _ _ rfl).elim
        | (rename_i h; exact absurd h (by simp))
    rw [this] at hq
    simp at hq

/-! ### the optional letter segments: pre, post, dev -/

/-- the text after an optional letter segment -/
def restOf (lg : Option (Str × Option Str × Str)) (x : Str) : Str :=
  match lg with
  | some (_, _, r) => r
  | none => x

/-- PHASE pre: what the group side reports is what the model reads -/
theorem preSeg_groups (x : Str) :
    preSeg x = (letterVersion ((letterGroups preWords x).map (·.1)) ((letterGroups preWords x).bind (·.2.1)),
                restOf (letterGroups preWords x) x) := by
  simp only [preSeg]
  rcases letterGroups_spec preWords sub_pre x with ⟨h1, h2⟩ | ⟨w, n, r, v, h1, h2, h3⟩
  · rw [h1, h2]; rfl
  · rw [h1, h2]
    simp only [Option.map_some, Option.bind_some, h3, restOf]

/-- PHASE dev -/
theorem devSeg_groups (x : Str) :
    devSeg x = ((letterVersion ((letterGroups devWords x).map (·.1)) ((letterGroups devWords x).bind (·.2.1))).map (·.2),
                restOf (letterGroups devWords x) x) := by
  simp only [devSeg]
  rcases letterGroups_spec devWords sub_dev x with ⟨h1, h2⟩ | ⟨w, n, r, v, h1, h2, h3⟩
  · rw [h1, h2]; rfl
  · rw [h1, h2]
    obtain ⟨vl, vn⟩ := v
    simp only [Option.map_some, Option.bind_some, h3, restOf]

/-- the post groups through a letter word (group side) -/
def gVia (s : Str) : Option Str × Option Str × Option Str × Str :=
  match letterGroups postWords s with
  | some (w, n, r) => (none, some w, n, r)
  | none => (none, none, none, s)

/-- the post release through a letter word (model side) -/
def mVia (s : Str) : Option Nat × Str :=
  match letterSeg postWords s with
  | some ((_, n), r) => (some n, r)
  | none => (none, s)

/-- the post-release number the three post groups denote -/
def postVal (pg : Option Str × Option Str × Option Str × Str) : Option Nat :=
  (letterVersion pg.2.1 (orGroup pg.1 pg.2.2.1)).map (·.2)

theorem via_groups (s : Str) : mVia s = (postVal (gVia s), (gVia s).2.2.2) := by
  simp only [mVia, gVia, postVal]
  rcases letterGroups_spec postWords sub_post s with ⟨h1, h2⟩ | ⟨w, n, r, v, h1, h2, h3⟩
  · rw [h1, h2]; rfl
  · rw [h1, h2]
    obtain ⟨vl, vn⟩ := v
    simp only [orGroup, h3, Option.map_some]

theorem postSeg_eq (s : Str) :
    postSeg s = match s with
      | '-' :: c :: cs =>
        if isDigit c then (some (strToNat ((c :: cs).takeWhile isDigit)), (c :: cs).dropWhile isDigit) else mVia s
      | _ => mVia s := by
  unfold postSeg mVia
  rfl

theorem postGroups_eq (s : Str) :
    postGroups s = match s with
      | '-' :: c :: cs =>
        if isDigit c then (some ((c :: cs).takeWhile isDigit), none, none, (c :: cs).dropWhile isDigit) else gVia s
      | _ => gVia s := by
  unfold postGroups gVia
  rfl

/-- PHASE post -/
theorem postSeg_groups (s : Str) : postSeg s = (postVal (postGroups s), (postGroups s).2.2.2) := by
  rw [postSeg_eq, postGroups_eq]
  split
  · next c cs =>
    by_cases hc : isDigit c = true
    · simp only [hc, if_true]
      have hne : ((c :: cs).takeWhile isDigit).isEmpty = false := by
        simp [List.takeWhile_cons, hc]
      simp only [postVal, letterVersion, orGroup, hne, implicitPost, Bool.false_eq_true, if_false, Option.map_some]
    · simp only [hc, if_false, Bool.false_eq_true]
      exact via_groups _
  · exact via_groups _

/-! ### the local group -/

/-- PHASE local -/
theorem localSeg_groups (x : Str) : localSeg x = (localGroup x).map (Option.map localOf) := by
  cases x with
  | nil => rfl
  | cons a t =>
    by_cases ha : a = '+'
    · subst ha
      simp only [localSeg, localGroup]
      by_cases hall : ((splitSeps [] t).all (fun p => !p.isEmpty && p.all isLocalChar)) = true
      · simp only [hall, if_true, Option.map_some, localOf, Option.some.injEq]
        apply List.map_congr_left
        intro p hp
        rw [List.all_eq_true] at hall
        have := hall p hp
        simp only [Bool.and_eq_true] at this
        exact (localPartOf_lower p (lowerStr_of_localChars p this.2)).symm
      · simp only [hall, if_false, Bool.false_eq_true, Option.map_none]
    · have h1 : localSeg (a :: t) = none := by
        unfold localSeg
        split
        · next h => cases h
        · next h => injection h with h _; exact absurd h ha
        · rfl
      have h2 : localGroup (a :: t) = none := by
        unfold localGroup
        split
        · next h => cases h
        · next h => injection h with h _; exact absurd h ha
        · rfl
      rw [h1, h2]; rfl

/-! ### the head: `(epoch!)?` and the first release component -/

/-- the common skeleton of `headSeg` (model) and of the head of `groupsCore` (groups) -/
def headWith {α : Type} (s : Str) (mk1 : Str → α) (mk0 : α) : Option (α × Str × Str) :=
  let d1 := s.takeWhile isDigit
  if d1.isEmpty then none else
  match s.dropWhile isDigit with
  | '!' :: r =>
    if (r.takeWhile isDigit).isEmpty then none
    else some (mk1 d1, r.takeWhile isDigit, r.dropWhile isDigit)
  | r1 => some (mk0, d1, r1)

theorem headSeg_eq (s : Str) : headSeg s = headWith s strToNat 0 := rfl

/-- PHASE head: the model's epoch is `epochOf` of the epoch group -/
theorem head_groups (s : Str) :
    headSeg s = (headWith s some none).map (fun t => (epochOf t.1, t.2.1, t.2.2)) := by
  rw [headSeg_eq]
  unfold headWith
  by_cases hd : (s.takeWhile isDigit).isEmpty = true
  · simp only [hd, if_true, Option.map_none]
  · have hd' : (s.takeWhile isDigit).isEmpty = false := by simpa using hd
    simp only [hd', Bool.false_eq_true, if_false]
    split
    · next _ r _ =>
      by_cases hr : (r.takeWhile isDigit).isEmpty = true
      · simp only [hr, if_true, Option.map_none]
      · have hr' : (r.takeWhile isDigit).isEmpty = false := by simpa using hr
        simp only [hr', Bool.false_eq_true, if_false, Option.map_some, epochOf, hd']
    · simp only [Option.map_some, epochOf]

/-- the first release component has no dot -/
theorem head_first_nodot (s : Str) (e : Option Str) (f r : Str) (h : headWith s some none = some (e, f, r)) :
    ∀ c ∈ f, c ≠ '.' := by
  unfold headWith at h
  by_cases hd : (s.takeWhile isDigit).isEmpty = true
  · simp only [hd, if_true] at h; cases h
  · have hd' : (s.takeWhile isDigit).isEmpty = false := by simpa using hd
    simp only [hd', Bool.false_eq_true, if_false] at h
    split at h
    · next _ r' _ =>
      by_cases hr : (r'.takeWhile isDigit).isEmpty = true
      · simp only [hr, if_true] at h; cases h
      · have hr' : (r'.takeWhile isDigit).isEmpty = false := by simpa using hr
        simp only [hr', Bool.false_eq_true, if_false, Option.some.injEq, Prod.mk.injEq] at h
        rw [← h.2.1]; exact takeWhile_digit_nodot r'
    · simp only [Option.some.injEq, Prod.mk.injEq] at h
      rw [← h.2.1]; exact takeWhile_digit_nodot s

/-! ### the phase-wise tails and their agreement -/

/-- everything after the head, group side (the body of `groupsCore`) -/
def gTail (epoch : Option Str) (first r2 : Str) : Option PepGroups :=
  let rel := relTailF r2.length r2
  let pre := letterGroups preWords rel.2
  let post := postGroups (restOf pre rel.2)
  let dev := letterGroups devWords post.2.2.2
  match localGroup (restOf dev post.2.2.2) with
  | none => none
  | some loc =>
    some { epoch := epoch, release := join ['.'] (first :: rel.1),
           pre_l := pre.map (·.1), pre_n := pre.bind (·.2.1),
           post_n1 := post.1, post_l := post.2.1, post_n2 := post.2.2.1,
           dev_l := dev.map (·.1), dev_n := dev.bind (·.2.1), loc := loc }

/-- everything after the head, model side (the body of `parseCore`) -/
def pTail (epoch : Nat) (first r2 : Str) : Option PepVersion :=
  let rel := relTailF r2.length r2
  let pre := preSeg rel.2
  let post := postSeg pre.2
  let dev := devSeg post.2
  match localSeg dev.2 with
  | none => none
  | some loc =>
    some { epoch := epoch, release := (first :: rel.1).map strToNat,
           pre := pre.1, post := post.1, dev := dev.1, loc := loc }

theorem parseCore_eq (s : Str) :
    parseCore s = match headSeg s with
      | none => none
      | some (e, f, r) => pTail e f r := rfl

theorem groupsCore_eq (s : Str) :
    groupsCore s = match headWith s some none with
      | none => none
      | some (e, f, r) => gTail e f r := by
  unfold groupsCore headWith
  by_cases hd : (s.takeWhile isDigit).isEmpty = true
  · simp only [hd, if_true]
  · have hd' : (s.takeWhile isDigit).isEmpty = false := by simpa using hd
    simp only [hd', Bool.false_eq_true, if_false]
    rfl

/-- PHASES release tail, pre, post, dev, local composed -/
theorem tail_groups (epoch : Option Str) (first r2 : Str) (hfirst : ∀ c ∈ first, c ≠ '.') :
    (gTail epoch first r2).map ofGroups = pTail (epochOf epoch) first r2 := by
  simp only [gTail, pTail]
  have hR := relTailF_nodot r2.length r2
  generalize relTailF r2.length r2 = R at hR ⊢
  have hrel : (splitOn ['.'] (join ['.'] (first :: R.1))).map strToNat = (first :: R.1).map strToNat := by
    rw [splitOn_join_dot]
    intro q hq
    rcases List.mem_cons.mp hq with rfl | hq
    · exact hfirst
    · exact hR q hq
  rw [preSeg_groups R.2]
  dsimp only
  generalize letterGroups preWords R.2 = pre
  rw [postSeg_groups (restOf pre R.2)]
  dsimp only
  generalize postGroups (restOf pre R.2) = post
  rw [devSeg_groups post.2.2.2]
  dsimp only
  generalize letterGroups devWords post.2.2.2 = dev
  rw [localSeg_groups]
  cases localGroup (restOf dev post.2.2.2) with
  | none => rfl
  | some loc =>
    simp only [Option.map_some, ofGroups, rawOfGroups, PepRaw.abs, hrel, postVal]

/-- the recogniser on stripped lower-case text -/
theorem groupsCore_ofGroups (s : Str) : (groupsCore s).map ofGroups = parseCore s := by
  rw [groupsCore_eq, parseCore_eq, head_groups]
  cases hh : headWith s some none with
  | none => rfl
  | some t =>
    obtain ⟨e, f, r⟩ := t
    simp only [Option.map_some]
    exact tail_groups e f r (head_first_nodot s e f r hh)

end TieQ

/-- THE MATCHER OF THE MODEL: the reference `ofGroups` after the model's group extraction `groupsOf` is the model's
    `parsePep`, on EVERY string -/
theorem TieQ.searchOk_groupsOf : TieQ.SearchOk groupsOf := by
  intro s
  simp only [groupsOf, parsePep]
  exact TieQ.groupsCore_ofGroups _

/-! ### the model-side split: `legacyTokens` satisfies `SplitOk` (all its items are non-empty) -/

theorem TieQ.legacyTokGo_nonempty (cls : LClass) (cur s : Str) : ∀ p ∈ legacyTokGo cls cur s, p.isEmpty = false := by
  induction s generalizing cls cur with
  | nil =>
    intro p hp
    simp only [legacyTokGo, flushTok] at hp
    split at hp
    · simp at hp
    · next h =>
      simp only [List.mem_singleton] at hp
      subst hp
      cases cur with
      | nil => simp at h
      | cons c cs => simp
  | cons c cs ih =>
    intro p hp
    simp only [legacyTokGo] at hp
    split at hp
    · exact ih _ _ p hp
    · rcases List.mem_append.mp hp with hp | hp
      · simp only [flushTok] at hp
        split at hp
        · simp at hp
        · next h =>
          simp only [List.mem_singleton] at hp
          subst hp
          cases cur with
          | nil => simp at h
          | cons a as => simp
      · exact ih _ _ p hp

/-- the model's own tokeniser is a `legacy_split` in the sense of `SplitOk` -/
theorem TieQ.splitOk_legacyTokens : TieQ.SplitOk legacyTokens := by
  intro t
  apply List.filter_eq_self.mpr
  intro p hp
  simp only [Bool.not_eq_true']
  exact TieQ.legacyTokGo_nonempty _ _ _ p hp

/-! ### the model-level ties and the C16 / C15 corollaries WITHOUT the hypothesis `SearchOk` (`regex_search := groupsOf`) -/
open TieQ

/-- the object the translated `parse` returns with the model's matcher IS the model's `parseVersion s` -/
theorem tie_pepParse_model_groupsOf (s : Str) : absPy (pyOf groupsOf s) = parseVersion s :=
  tie_pepParse_model groupsOf s searchOk_groupsOf

/-- … and its `_key` is the model's key -/
theorem tie_pepParse_key_groupsOf (s : Str) : keyPy (pyOf groupsOf s) = keyOf (parseVersion s) :=
  tie_pepParse_key groupsOf s searchOk_groupsOf

/-- the translated `parse`, run with the model's matcher: never raises, returns (an object denoting) `parseVersion s` -/
theorem tie_pepParse_groupsOf (legacy_split : Str → List Str) (s : Str) (hs : SplitOk legacy_split) :
    (GenQ.pepParse groupsOf legacy_split s).map absPy = .ok (parseVersion s) := by
  rw [tie_pepParse _ _ _ hs]
  simp only [Except.map, tie_pepParse_model_groupsOf]

/-- the translated `to_pep440`, run with the model's matcher, is `str(parse(s))` of the model -/
theorem tie_pepToPep440_model_groupsOf (legacy_split : Str → List Str) (s : Str) (hs : SplitOk legacy_split) :
    GenQ.pepToPep440 groupsOf legacy_split s = .ok (verStr (parseVersion s)) :=
  tie_pepToPep440_model groupsOf legacy_split s hs searchOk_groupsOf

/-- C16 (a)/(b) at source level, no hypothesis on the matcher -/
theorem C16_sourceQ_le_groupsOf (legacy_split : Str → List Str) (s t : Str) (a b : PyVersion)
    (hsp : SplitOk legacy_split)
    (ha : GenQ.pepParseVersion groupsOf legacy_split s = .ok a)
    (hb : GenQ.pepParseVersion groupsOf legacy_split t = .ok b) :
    (cmpKey (keyPy a) (keyPy b) != .gt) = verLe (parseVersion s) (parseVersion t) :=
  C16_sourceQ_le groupsOf legacy_split s t a b hsp searchOk_groupsOf ha hb

/-- C15 at source level, no hypothesis on the matcher -/
theorem C15_sourceQ_to_pep440_groupsOf (legacy_split : Str → List Str) (s : Str) (hsp : SplitOk legacy_split) :
    GenQ.pepToPep440 groupsOf legacy_split s = .ok (pyToPep440 s) :=
  C15_sourceQ_to_pep440 groupsOf legacy_split s hsp searchOk_groupsOf

/-- C16 (c) at source level, no hypothesis on the matcher -/
theorem C16_sourceQ_to_pep440_idempotent_groupsOf (legacy_split : Str → List Str) (s out : Str)
    (hsp : SplitOk legacy_split) (h : GenQ.pepToPep440 groupsOf legacy_split s = .ok out) :
    GenQ.pepToPep440 groupsOf legacy_split out = .ok out :=
  C16_sourceQ_to_pep440_idempotent groupsOf legacy_split s out hsp searchOk_groupsOf h

/-! ### both primitives instantiated with the model's own (`groupsOf`, `legacyTokens`): no hypothesis at all -/

/-- the translated `version.parse_version`, closed -/
theorem tie_pepParseVersion_closed (s : Str) :
    (GenQ.pepParseVersion groupsOf legacyTokens s).map absPy = .ok (parseVersion s) := by
  rw [tie_pepParseVersion _ _ _ splitOk_legacyTokens]
  simp only [Except.map, tie_pepParse_model_groupsOf]

/-- … and the `_key` of the object it returns is the model's key -/
theorem tie_pepParseVersion_key_closed (s : Str) :
    (GenQ.pepParseVersion groupsOf legacyTokens s).map keyPy = .ok (keyOf (parseVersion s)) := by
  rw [tie_pepParseVersion _ _ _ splitOk_legacyTokens]
  simp only [Except.map, tie_pepParse_key_groupsOf]

/-- C15: the translated `version.to_pep440`, closed, is the model's `to_pep440` -/
theorem C15_sourceQ_to_pep440_closed (s : Str) :
    GenQ.pepToPep440 groupsOf legacyTokens s = .ok (pyToPep440 s) :=
  C15_sourceQ_to_pep440_groupsOf legacyTokens s splitOk_legacyTokens

/-- C16: Python's `<=` on the objects the translated `parse_version` returns, closed, is the model's `verLe` -/
theorem C16_sourceQ_le_closed (s t : Str) (a b : PyVersion)
    (ha : GenQ.pepParseVersion groupsOf legacyTokens s = .ok a)
    (hb : GenQ.pepParseVersion groupsOf legacyTokens t = .ok b) :
    (cmpKey (keyPy a) (keyPy b) != .gt) = verLe (parseVersion s) (parseVersion t) :=
  C16_sourceQ_le_groupsOf legacyTokens s t a b splitOk_legacyTokens ha hb

/-- non-vacuity: the closed translated `to_pep440` on the README example (evaluated through the theorem) -/
example : GenQ.pepToPep440 groupsOf legacyTokens "v201811.0007-beta".toList = .ok "201811.7b0".toList := by
  rw [C15_sourceQ_to_pep440_closed]; decide

end BV
