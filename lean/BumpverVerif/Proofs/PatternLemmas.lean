/-
  Proofs/PatternLemmas.lean — helper lemmas about Model/Regex.lean and Model/V2Patterns.lean.
-/
import BumpverVerif.Model.V2Patterns
namespace BV

end BV
