/-
  Proofs/PatternLemmas.lean — helper lemmas about Model/Regex.lean and Model/V2Patterns.lean.
-/
import BumpverVerif.Model.V2Patterns
namespace BV

/-! ### the literal-sequence regex -/

/-- twin of `Re.lits` (Props/C07.lean) -/
def litsRe : Str → Re
  | [] => .eps
  | [c] => .chr c
  | c :: cs => .seq (.chr c) (litsRe cs)

theorem chr_m (c : Char) (st : MSt) :
    (Re.chr c).m st =
      if [c].isPrefixOf st.rest then [{ rest := st.rest.drop 1, start := false, caps := st.caps }] else [] := by
  cases st with
  | mk rest start caps =>
    cases rest with
    | nil => simp [Re.m]
    | cons x r =>
      by_cases h : x = c
      · subst h; simp [Re.m, MSt.step]
      · have h' : ¬ c = x := fun e => h e.symm
        simp [Re.m, h, h']

theorem litsRe_cons_m (c : Char) (cs : Str) (st : MSt) :
    (litsRe (c :: cs)).m st = ((Re.chr c).m st).flatMap (litsRe cs).m := by
  cases cs with
  | nil =>
    simp only [litsRe]
    have : (Re.eps).m = fun s => [s] := by funext s; simp [Re.m]
    rw [this]; simp
  | cons d ds => simp [litsRe, Re.m]

theorem litsRe_m (t : Str) (st : MSt) :
    (litsRe t).m st =
      if t.isPrefixOf st.rest then
        [{ rest := st.rest.drop t.length, start := st.start && t.isEmpty, caps := st.caps }]
      else [] := by
  induction t generalizing st with
  | nil => cases st; simp [litsRe, Re.m]
  | cons c cs ih =>
    rw [litsRe_cons_m, chr_m]
    cases st with
    | mk rest start caps =>
      cases rest with
      | nil => simp
      | cons x r =>
        by_cases h : c = x
        · subst h
          simp [ih]
        · simp [h]

theorem isPrefixOf_length_le {t l : Str} (h : t.isPrefixOf l = true) : t.length ≤ l.length :=
  (List.isPrefixOf_iff_prefix.mp h).length_le

theorem searchGo_litsRe (t line : Str) (idx : Nat) :
    searchGo (litsRe t) idx line =
      (findIdx t line).map (fun i => { start := idx + i, stop := idx + i + t.length, caps := [] }) := by
  induction line generalizing idx with
  | nil =>
    cases t with
    | nil => simp [searchGo, litsRe_m, findIdx]
    | cons c cs => simp [searchGo, litsRe_m, findIdx]
  | cons x xs ih =>
    by_cases h : t.isPrefixOf (x :: xs) = true
    · have hl := isPrefixOf_length_le h
      simp only [List.length_cons] at hl
      simp only [searchGo, litsRe_m, h, if_true, List.head?_cons, findIdx, Option.map_some,
        List.length_drop, List.length_cons, Nat.add_zero]
      congr 2
      omega
    · simp only [searchGo, litsRe_m, h, findIdx, ih]
      simp only [Bool.false_eq_true, if_false, List.head?_nil, Option.map_map]
      congr 1
      funext i
      simp only [Function.comp]
      congr 1 <;> omega

theorem findIdx_some_prefix {t line : Str} {i : Nat} (h : findIdx t line = some i) :
    t.isPrefixOf (line.drop i) = true := by
  induction line generalizing i with
  | nil =>
    simp only [findIdx] at h
    split at h
    · cases t with
      | nil => simp
      | cons _ _ => simp at *
    · cases h
  | cons x xs ih =>
    simp only [findIdx] at h
    split at h
    · cases h; simpa using ‹t.isPrefixOf (x :: xs) = true›
    · cases hf : findIdx t xs with
      | none => simp [hf] at h
      | some j =>
        simp [hf] at h
        subst h
        simpa using ih hf

/-! ### `str.replace` of a single character, and the escape loop -/

theorem replaceAllF_single (c : Char) (rep : Str) (s : Str) (fuel : Nat) (h : s.length < fuel) :
    replaceAllF fuel [c] rep s = s.flatMap (fun x => if x = c then rep else [x]) := by
  induction s generalizing fuel with
  | nil => cases fuel <;> simp [replaceAllF]
  | cons x xs ih =>
    cases fuel with
    | zero => simp at h
    | succ f =>
      simp only [List.length_cons] at h
      have hf : xs.length < f := by omega
      by_cases hx : x = c
      · subst hx
        simp [replaceAllF, ih f hf]
      · have hx' : ¬ c = x := fun e => hx e.symm
        simp [replaceAllF, ih f hf, hx, hx']

theorem replaceAll_single (c : Char) (rep : Str) (s : Str) :
    replaceAll [c] rep s = s.flatMap (fun x => if x = c then rep else [x]) :=
  replaceAllF_single c rep s _ (Nat.lt_succ_self _)

/-- the escape loop over a list of distinct characters, none of them the backslash, is the
    pointwise escape -/
theorem escFold_pointwise (cs : List Char) (hbs : '\\' ∉ cs) (hnd : cs.Nodup) (s : Str) :
    cs.foldl (fun acc c => replaceAll [c] ['\\', c] acc) s =
      s.flatMap (fun x => if cs.contains x then ['\\', x] else [x]) := by
  induction cs generalizing s with
  | nil => simp
  | cons c cs ih =>
    have hbs' : '\\' ∉ cs := fun h => hbs (List.mem_cons_of_mem _ h)
    have hc : c ∉ cs := (List.nodup_cons.mp hnd).1
    have hc0 : ¬ '\\' = c := fun e => hbs (e ▸ List.mem_cons_self)
    rw [List.foldl_cons, ih hbs' (List.nodup_cons.mp hnd).2, replaceAll_single, List.flatMap_assoc]
    congr 1
    funext x
    by_cases hx : x = c
    · subst hx
      simp [hbs', hc]
    · simp [hx]

/-- entries of `RE_PATTERN_ESCAPES` the model skips (the semantic characters) -/
def tblSkip (ce : Str × Str) : Bool :=
  ce.1.all (fun c => "[]\\".toList.contains c) && !ce.1.isEmpty

/-- the characters escaped by a table -/
def tblChars (table : List (Str × Str)) : List Char :=
  (table.filter (fun ce => !tblSkip ce)).filterMap (fun ce => ce.1.head?)

/-- every applied entry replaces one character `c` by `\c` -/
def tblShape (table : List (Str × Str)) : Bool :=
  table.all (fun ce =>
    tblSkip ce || (match ce.1 with | [c] => ce.2 == ['\\', c] && c != '\\' | _ => false))

theorem escapePattern_eq_fold (table : List (Str × Str)) (h : tblShape table = true) (s : Str) :
    escapePattern table s =
      (tblChars table).foldl (fun acc c => replaceAll [c] ['\\', c] acc) s := by
  induction table generalizing s with
  | nil => simp [escapePattern, tblChars]
  | cons ce tbl ih =>
    simp only [tblShape, List.all_cons, Bool.and_eq_true] at h
    have ih' := ih h.2
    simp only [escapePattern, List.foldl_cons] at ih' ⊢
    by_cases hs : tblSkip ce = true
    · have hs' := hs
      simp only [tblSkip] at hs'
      simp only [hs', if_true]
      rw [ih']
      simp [tblChars, hs]
    · have h1 := h.1
      simp only [hs, Bool.false_or] at h1
      have hs' : (ce.1.all (fun c => "[]\\".toList.contains c) && !ce.1.isEmpty) = false := by
        simpa [tblSkip] using hs
      obtain ⟨a, b⟩ := ce
      cases a with
      | nil => simp at h1
      | cons c r =>
        cases r with
        | cons _ _ => simp at h1
        | nil =>
          simp only [Bool.and_eq_true, beq_iff_eq] at h1
          obtain ⟨hb, -⟩ := h1
          subst hb
          simp only [hs', Bool.false_eq_true, if_false]
          rw [ih']
          simp [tblChars, hs]

/-! ### literal text through `_replace_pattern_parts` -/

/-- the characters `RE_PATTERN_ESCAPES` escapes today (Props/C07 proves `escapedChars = escList`) -/
def escList : List Char := ['-', '.', '+', '*', '?', '{', '}', '(', ')', '|']

/-- characters literal text may denote -/
def litChar (x : Char) : Bool := !isUpper x && x != '\\' && x != '^' && x != '$'

/-- the escaped form of one denoted character -/
def encChar (x : Char) : Str :=
  if escList.contains x || x == '[' || x == ']' then ['\\', x] else [x]

def enc (t : Str) : Str := t.flatMap encChar

theorem enc_cons (x : Char) (t : Str) : enc (x :: t) = encChar x ++ enc t := by
  simp [enc]

theorem encChar_cases (x : Char) :
    (encChar x = ['\\', x] ∧ (escList.contains x || x == '[' || x == ']') = true) ∨
    (encChar x = [x] ∧ (escList.contains x || x == '[' || x == ']') = false) := by
  unfold encChar
  cases h : (escList.contains x || x == '[' || x == ']') <;> simp

/-- no bare bracket `b`: every `b` is directly preceded by a backslash (`prevBs` = the character
    before the string is a backslash) -/
def noBare (b : Char) : Bool → Str → Bool
  | _, [] => true
  | prevBs, c :: r => (c != b || prevBs) && noBare b (c == '\\') r

theorem subBracketGo_id (b : Char) (repl : Str) (atStart prevBs : Bool) (s : Str)
    (h : noBare b prevBs s = true) (hs : (atStart && prevBs) = false) :
    subBracketGo b repl atStart s = (s, 0) := by
  induction s generalizing atStart prevBs with
  | nil => simp [subBracketGo]
  | cons c r ih =>
    cases r with
    | nil =>
      simp only [noBare, Bool.and_true, Bool.or_eq_true, bne_iff_ne, ne_eq] at h
      simp only [subBracketGo]
      have : (atStart && c == b) = false := by
        cases atStart <;> cases prevBs <;> simp_all
      simp [this]
    | cons c2 r2 =>
      have h' := h
      simp only [noBare, Bool.and_eq_true, Bool.or_eq_true, bne_iff_ne, ne_eq] at h'
      obtain ⟨h1, h2, h3⟩ := h'
      have hrec : noBare b (c == '\\') (c2 :: r2) = true := by
        simp only [noBare, Bool.and_eq_true, Bool.or_eq_true, bne_iff_ne, ne_eq]
        exact ⟨h2, h3⟩
      have ihr := ih false (c == '\\') hrec (by simp)
      have e1 : (c != '\\' && c2 == b) = false := by
        rcases h2 with h2 | h2
        · have : (c2 == b) = false := by simpa using h2
          simp [this]
        · simp at h2; simp [h2]
      have e2 : (atStart && c == b) = false := by
        cases atStart <;> cases prevBs <;> simp_all
      simp only [subBracketGo, e1, e2, Bool.false_eq_true, if_false, ihr]

theorem bracketsToGroups_id (fuel : Nat) (s : Str)
    (h1 : noBare '[' false s = true) (h2 : noBare ']' false s = true) :
    bracketsToGroups fuel s = s := by
  cases fuel with
  | zero => rfl
  | succ f =>
    simp [bracketsToGroups, subBracket, subBracketGo_id _ _ true false s h1 (by simp),
      subBracketGo_id _ _ true false s h2 (by simp)]

theorem findIdx_some_subset {name s : Str} {i : Nat} (h : findIdx name s = some i) :
    ∀ c ∈ name, c ∈ s := by
  intro c hc
  have hp := List.isPrefixOf_iff_prefix.mp (findIdx_some_prefix h)
  exact List.mem_of_mem_drop (hp.subset hc)

theorem findIdx_none_of_upper {name s : Str} (hn : name.any isUpper = true)
    (hs : s.any isUpper = false) : findIdx name s = none := by
  cases h : findIdx name s with
  | none => rfl
  | some i =>
    exfalso
    obtain ⟨c, hc, hu⟩ := List.any_eq_true.mp hn
    have : s.any isUpper = true := List.any_eq_true.mpr ⟨c, findIdx_some_subset h c hc, hu⟩
    simp [this] at hs

theorem iterPartPatterns_nil (pp pf : List (Str × Str)) (s : Str)
    (h : ∀ e ∈ pp, findIdx e.1 s = none) : iterPartPatterns pp pf s = [] := by
  unfold iterPartPatterns
  suffices H : ∀ (acc : List PosPart × List Str), ∀ l : List (Str × Str),
      (∀ e ∈ l, findIdx e.1 s = none) →
      l.foldl (fun (acc : List PosPart × List Str) (pp : Str × Str) =>
        (findAllFrom pp.1 (s.length + 1) 0 s).foldl (fun (acc : List PosPart × List Str) start =>
          let used := acc.2
          let field := (lookup pp.1 pf).getD []
          let gname := if memStr field used then field ++ ['_'] ++ natToStr used.length else field
          let text := "(?P<".toList ++ gname ++ ">".toList ++ pp.2 ++ ")".toList
          let used' := if memStr field used then used else used ++ [field]
          (acc.1 ++ [{ start := start, stop := start + pp.1.length, name := pp.1, text := text }], used')) acc)
        acc = acc by
    exact congrArg Prod.fst (H ([], []) pp h)
  intro acc l hl
  induction l generalizing acc with
  | nil => rfl
  | cons e l ih =>
    have he : findIdx e.1 s = none := hl e List.mem_cons_self
    rw [List.foldl_cons]
    have : findAllFrom e.1 (s.length + 1) 0 s = [] := by simp [findAllFrom, he]
    rw [this]
    exact ih acc (fun e' he' => hl e' (List.mem_cons_of_mem _ he'))

theorem replacePatternParts_id (pp pf : List (Str × Str)) (s : Str)
    (h1 : noBare '[' false s = true) (h2 : noBare ']' false s = true)
    (hpp : pp.all (fun e => e.1.any isUpper) = true) (hs : s.any isUpper = false) :
    replacePatternParts pp pf s = s := by
  have hn : ∀ e ∈ pp, findIdx e.1 s = none := fun e he =>
    findIdx_none_of_upper (List.all_eq_true.mp hpp e he) hs
  simp [replacePatternParts, bracketsToGroups_id _ s h1 h2, iterPartPatterns_nil pp pf s hn,
    sortParts, substParts]

/-! ### facts about the escaped form -/

theorem litChar_ne_bs {x : Char} (h : litChar x = true) : x ≠ '\\' := by
  simp [litChar] at h; exact h.1.1.2

theorem noBare_enc (b : Char) (hb : b = '[' ∨ b = ']') (t tail : Str)
    (ht : t.all litChar = true) (htail : noBare b false tail = true) :
    noBare b false (enc t ++ tail) = true := by
  induction t with
  | nil => simpa [enc] using htail
  | cons x xs ih =>
    simp only [List.all_cons, Bool.and_eq_true] at ht
    have ih' := ih ht.2
    have hx : (x == '\\') = false := by simpa using litChar_ne_bs ht.1
    have hbb : ('\\' != b) = true := by rcases hb with rfl | rfl <;> decide
    rw [enc_cons]
    rcases encChar_cases x with ⟨e, -⟩ | ⟨e, hne⟩
    · rw [e]
      simp only [List.cons_append, List.nil_append, noBare, hx, ih', hbb]
      simp
    · rw [e]
      simp only [Bool.or_eq_false_iff] at hne
      have : (x != b) = true := by
        rcases hb with rfl | rfl
        · simpa using hne.1.2
        · simpa using hne.2
      simp only [List.cons_append, List.nil_append, noBare, hx, ih', this]
      simp

theorem enc_noUpper (t tail : Str) (ht : t.all litChar = true) (htail : tail.any isUpper = false) :
    (enc t ++ tail).any isUpper = false := by
  induction t with
  | nil => simpa [enc] using htail
  | cons x xs ih =>
    simp only [List.all_cons, Bool.and_eq_true] at ht
    have ih' := ih ht.2
    have hx : isUpper x = false := by
      have := ht.1; simp [litChar] at this; simpa using this.1.1.1
    have hb : isUpper '\\' = false := by decide
    rw [enc_cons]
    rcases encChar_cases x with ⟨e, -⟩ | ⟨e, -⟩ <;> rw [e] <;>
      simp only [List.cons_append, List.nil_append, List.any_cons, hx, hb, ih', Bool.or_self]

theorem length_le_enc (t : Str) : t.length ≤ (enc t).length := by
  induction t with
  | nil => simp [enc]
  | cons x xs ih =>
    rw [enc_cons]
    rcases encChar_cases x with ⟨e, -⟩ | ⟨e, -⟩ <;> rw [e] <;> simp <;> omega

/-! ### parsing the escaped form -/

/-- the string does not start with a quantifier character -/
def quantFree : Str → Bool
  | [] => true
  | c :: _ => c != '*' && c != '+' && c != '?' && c != '{'

theorem parseQuant_none (a : Re) (r : Str) (h : quantFree r = true) : parseQuant a r = some (a, r) := by
  cases r with
  | nil => simp [parseQuant]
  | cons c r =>
    simp only [quantFree, Bool.and_eq_true, bne_iff_ne, ne_eq] at h
    unfold parseQuant
    split <;> simp_all

/-- what `parseSeq` builds from an atom `q` and the parse `b` of the rest -/
def seqc (q : Re) : Re → Re
  | .eps => q
  | b => .seq q b

theorem parseSeq_step (f : Nat) (s r : Str) (a : Re)
    (hs : match s with | [] => False | c :: _ => c ≠ '|' ∧ c ≠ ')')
    (ha : parseAtom f s = some (a, r)) (hq : quantFree r = true) :
    parseSeq (f + 1) s = (parseSeq f r).map (fun br => (seqc a br.1, br.2)) := by
  cases s with
  | nil => exact hs.elim
  | cons c s' =>
    simp only at hs
    cases hp : parseSeq f r with
    | none =>
      unfold parseSeq
      split
      · simp_all
      · simp_all
      · simp_all
      · simp [ha, parseQuant_none a r hq, hp]
    | some br =>
      obtain ⟨b, r''⟩ := br
      unfold parseSeq
      split
      · simp_all
      · simp_all
      · simp_all
      · simp only [ha, parseQuant_none a r hq, hp]
        cases b <;> simp [seqc]
theorem parseAtom_bs (f : Nat) (x : Char) (r : Str) :
    parseAtom (f + 1) ('\\' :: x :: r) = (escapeAtom x).map (fun a => (a, r)) := by
  rfl

theorem parseAtom_plain (f : Nat) (x : Char) (r : Str)
    (h : x ≠ '(' ∧ x ≠ '[' ∧ x ≠ '\\' ∧ x ≠ '.' ∧ x ≠ '^' ∧ x ≠ '$' ∧ x ≠ '*' ∧ x ≠ '+' ∧ x ≠ '?') :
    parseAtom (f + 1) (x :: r) = some (.chr x, r) := by
  unfold parseAtom
  split <;> simp_all

theorem escapeAtom_escaped (x : Char) (h : (escList.contains x || x == '[' || x == ']') = true) :
    escapeAtom x = some (.chr x) := by
  simp only [escList, List.contains_cons, List.contains_nil, Bool.or_false, Bool.or_eq_true,
    beq_iff_eq] at h
  rcases h with ((h | h | h | h | h | h | h | h | h | h) | h) | h <;> subst h <;> rfl

theorem parseAtom_encChar (f : Nat) (x : Char) (r : Str) (hx : litChar x = true) :
    parseAtom (f + 1) (encChar x ++ r) = some (.chr x, r) := by
  rcases encChar_cases x with ⟨e, h⟩ | ⟨e, h⟩
  · rw [e]
    simp only [List.cons_append, List.nil_append]
    rw [parseAtom_bs, escapeAtom_escaped x h]; rfl
  · rw [e]
    simp only [List.cons_append, List.nil_append]
    apply parseAtom_plain
    simp only [escList, List.contains_cons, List.contains_nil, Bool.or_false, Bool.or_eq_false_iff,
      beq_eq_false_iff_ne, ne_eq] at h
    simp only [litChar, Bool.and_eq_true, bne_iff_ne, ne_eq] at hx
    simp_all

/-- the first character of an escaped character is neither a quantifier nor `|` / `)` -/
theorem encChar_head (x : Char) (r : Str) (_hx : litChar x = true) :
    ∃ c r', encChar x ++ r = c :: r' ∧ c ≠ '|' ∧ c ≠ ')' ∧ c ≠ '*' ∧ c ≠ '+' ∧ c ≠ '?' ∧ c ≠ '{' := by
  rcases encChar_cases x with ⟨e, h⟩ | ⟨e, h⟩
  · exact ⟨'\\', x :: r, by rw [e]; rfl, by decide, by decide, by decide, by decide, by decide, by decide⟩
  · refine ⟨x, r, by rw [e]; rfl, ?_⟩
    simp only [escList, List.contains_cons, List.contains_nil, Bool.or_false, Bool.or_eq_false_iff,
      beq_eq_false_iff_ne, ne_eq] at h
    simp_all

theorem quantFree_enc (t tail : Str) (ht : t.all litChar = true) (hq : quantFree tail = true) :
    quantFree (enc t ++ tail) = true := by
  cases t with
  | nil => simpa [enc] using hq
  | cons x xs =>
    simp only [List.all_cons, Bool.and_eq_true] at ht
    rw [enc_cons, List.append_assoc]
    obtain ⟨c, r', e, h⟩ := encChar_head x (enc xs ++ tail) ht.1
    rw [e]
    simp [quantFree, h]

/-- the regex `parseSeq` builds for the characters `t` followed by `rt` -/
def combine (t : Str) (rt : Re) : Re := t.foldr (fun x b => seqc (.chr x) b) rt

theorem parseSeq_enc (t tail : Str) (n0 : Nat) (rt : Re) (rest : Str)
    (ht : t.all litChar = true) (hq : quantFree tail = true)
    (hT : ∀ f, parseSeq (f + n0 + 1) tail = some (rt, rest)) (f : Nat) :
    parseSeq (f + n0 + 1 + t.length) (enc t ++ tail) = some (combine t rt, rest) := by
  induction t with
  | nil => simpa [enc, combine] using hT f
  | cons x xs ih =>
    simp only [List.all_cons, Bool.and_eq_true] at ht
    have ih' := ih ht.2
    have hfuel : f + n0 + 1 + (x :: xs).length = (f + n0 + xs.length + 1) + 1 := by
      simp only [List.length_cons]; omega
    have hfuel2 : f + n0 + xs.length + 1 = f + n0 + 1 + xs.length := by omega
    rw [hfuel, enc_cons, List.append_assoc]
    have hs : match encChar x ++ (enc xs ++ tail) with | [] => False | c :: _ => c ≠ '|' ∧ c ≠ ')' := by
      obtain ⟨c, r', e, h⟩ := encChar_head x (enc xs ++ tail) ht.1
      rw [e]; exact ⟨h.1, h.2.1⟩
    rw [parseSeq_step _ _ _ _ hs (parseAtom_encChar _ x _ ht.1) (quantFree_enc xs tail ht.2 hq),
      hfuel2, ih']
    rfl

theorem parseAlt_of_parseSeq (f : Nat) (s : Str) (a : Re) (h : parseSeq f s = some (a, [])) :
    parseAlt (f + 1) s = some (a, []) := by
  simp [parseAlt, h]

theorem combine_eps (t : Str) : combine t .eps = litsRe t := by
  induction t with
  | nil => rfl
  | cons x xs ih =>
    have : combine (x :: xs) .eps = seqc (.chr x) (combine xs .eps) := rfl
    rw [this, ih]
    cases xs with
    | nil => rfl
    | cons y ys => cases ys <;> rfl

/-- twin of `Re.litsThen` (Props/C07.lean) -/
def litsThenRe : Str → Re → Re
  | [], r => r
  | c :: cs, r => .seq (.chr c) (litsThenRe cs r)

theorem combine_eol (t : Str) : combine t .eol = litsThenRe t .eol := by
  induction t with
  | nil => rfl
  | cons x xs ih =>
    have : combine (x :: xs) .eol = seqc (.chr x) (combine xs .eol) := rfl
    rw [this, ih]
    cases xs <;> rfl

theorem parseRe_enc (t : Str) (ht : t.all litChar = true) : parseRe (enc t) = some (litsRe t) := by
  have hlen := length_le_enc t
  obtain ⟨f, hf⟩ : ∃ f, 3 * (enc t).length + 3 = (f + 0 + 1 + t.length) + 1 :=
    ⟨3 * (enc t).length + 1 - t.length, by omega⟩
  have h := parseSeq_enc t [] 0 .eps [] ht rfl (fun f => rfl) f
  rw [List.append_nil, combine_eps] at h
  simp [parseRe, hf, parseAlt_of_parseSeq _ _ _ h]

theorem parseRe_enc_anchored (t : Str) (ht : t.all litChar = true) :
    parseRe ('^' :: (enc t ++ ['$'])) = some (.seq .bol (litsThenRe t .eol)) := by
  have hlen := length_le_enc t
  obtain ⟨f, hf⟩ : ∃ f, 3 * ('^' :: (enc t ++ ['$'])).length + 3 = ((f + 1 + t.length + 1) + 1) + 1 :=
    ⟨3 * ('^' :: (enc t ++ ['$'])).length - t.length - 1, by simp; omega⟩
  have h := parseSeq_enc t ['$'] 1 .eol [] ht rfl (fun f => rfl) f
  rw [combine_eol] at h
  have hfu : f + 1 + 1 + t.length = (f + 1 + t.length) + 1 := by omega
  rw [hfu] at h
  have hq := quantFree_enc t ['$'] ht rfl
  have ha : parseAtom ((f + 1 + t.length) + 1) ('^' :: (enc t ++ ['$'])) = some (.bol, enc t ++ ['$']) := rfl
  have hs : match ('^' :: (enc t ++ ['$']) : Str) with | [] => False | c :: _ => c ≠ '|' ∧ c ≠ ')' :=
    ⟨by decide, by decide⟩
  have h2 : parseSeq ((f + 1 + t.length + 1) + 1) ('^' :: (enc t ++ ['$'])) =
      some (.seq .bol (litsThenRe t .eol), []) := by
    rw [parseSeq_step _ _ _ _ hs ha hq, h]
    cases t <;> rfl
  simp only [parseRe, hf, parseAlt_of_parseSeq _ _ _ h2]

/-! ### the whole chain on escaped literal text -/

theorem partPatterns_upper : Gen.partPatterns.all (fun e => e.1.any isUpper) = true := by decide

theorem replaceParts_enc (t : Str) (ht : t.all litChar = true) :
    replacePatternParts Gen.partPatterns Gen.partFields (enc t) = enc t := by
  have h1 := noBare_enc '[' (Or.inl rfl) t [] ht rfl
  have h2 := noBare_enc ']' (Or.inr rfl) t [] ht rfl
  have h3 := enc_noUpper t [] ht rfl
  rw [List.append_nil] at h1 h2 h3
  exact replacePatternParts_id _ _ _ h1 h2 partPatterns_upper h3

theorem replaceParts_enc_anchored (t : Str) (ht : t.all litChar = true) :
    replacePatternParts Gen.partPatterns Gen.partFields ('^' :: (enc t ++ ['$'])) =
      '^' :: (enc t ++ ['$']) := by
  have h1 := noBare_enc '[' (Or.inl rfl) t ['$'] ht rfl
  have h2 := noBare_enc ']' (Or.inr rfl) t ['$'] ht rfl
  have h3 := enc_noUpper t ['$'] ht rfl
  have e1 : ('^' != '[') = true := by decide
  have e2 : ('^' != ']') = true := by decide
  have e3 : ('^' == '\\') = false := by decide
  have e4 : isUpper '^' = false := by decide
  apply replacePatternParts_id _ _ _ _ _ partPatterns_upper
  · simp only [List.any_cons, e4, h3, Bool.or_self]
  · simp only [noBare, e1, e3, h1, Bool.true_or, Bool.and_self]
  · simp only [noBare, e2, e3, h2, Bool.true_or, Bool.and_self]

end BV
