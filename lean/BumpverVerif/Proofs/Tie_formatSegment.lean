/-
  Proofs/Tie_formatSegment.lean — the definition GENERATED from the Python source of
  `v2version._format_segment` (Gen/F_formatSegment.lean) equals the hand model `BV.formatSegment`.

  Python: one loop collects `used_parts` and counts the zero-valued ones, a second loop substitutes.
  Model : `filter` / `filter … |>.length` / `foldl replaceAll`.

  HYPOTHESIS `hne`: no part name is the empty string.  Concrete difference without it:
  `_format_segment("a", [("", "X")])` is `FormatedSeg(False, False, "XaX")` (Python's `str.replace("", r)` inserts `r`
  around every character) whereas the model's `replaceAll [] r s = s` gives result "a".  `_format_part_values` only
  produces the keys of `PATTERN_PART_FIELDS`, none of which is empty (`partFields_keys_ne` in Tie_formatPartValues).
-/
import BumpverVerif.Gen.F_formatSegment
import BumpverVerif.Proofs.Tie_isZeroVal
namespace BV.TieF
open GenF GenF.FP

theorem pyReplace_eq (pat rep s : Str) (h : pat ≠ []) : pyReplace pat rep s = replaceAll pat rep s := by
  cases pat with
  | nil => exact absurd rfl h
  | cons c cs => simp [pyReplace]

/-- the collecting loop, for any step function that behaves like the Python loop body
    (state = (zero_part_count, used_parts)) -/
theorem foldl_usedParts (seg : Str) (f : Int × List (Str × Str) → Str × Str → Int × List (Str × Str))
    (hf : ∀ c u p, f (c, u) p =
      if isInfix p.1 seg then ((if isZeroVal p.1 p.2 then c + 1 else c), u ++ [p]) else (c, u)) :
    ∀ (pvs : List (Str × Str)) (c : Int) (u : List (Str × Str)),
      List.foldl f (c, u) pvs =
        (c + Int.ofNat (((pvs.filter (fun pv => isInfix pv.1 seg)).filter (fun pv => isZeroVal pv.1 pv.2)).length),
         u ++ pvs.filter (fun pv => isInfix pv.1 seg)) := by
  intro pvs
  induction pvs with
  | nil => intro c u; simp
  | cons p ps ih =>
    intro c u
    rw [List.foldl_cons, hf]
    by_cases h1 : isInfix p.1 seg = true
    · by_cases h2 : isZeroVal p.1 p.2 = true
      · simp only [h1, h2, if_true, ih, List.filter_cons_of_pos, List.length_cons]
        simp only [List.append_assoc, List.singleton_append, Prod.mk.injEq, and_true, Int.ofNat_eq_natCast]
        omega
      · simp only [h1, h2, if_true, ih, List.filter_cons_of_pos]
        simp [h2]
    · simp only [h1, ih]
      simp [h1]

/-- the substituting loop -/
theorem foldl_pyReplace (f : Str → Str × Str → Str) (hf : ∀ r p, f r p = pyReplace p.1 p.2 r) :
    ∀ (used : List (Str × Str)) (r : Str), (∀ pv ∈ used, pv.1 ≠ []) →
      List.foldl f r used = List.foldl (fun acc pv => replaceAll pv.1 pv.2 acc) r used := by
  intro used
  induction used with
  | nil => intro r _; rfl
  | cons p ps ih =>
    intro r h
    rw [List.foldl_cons, List.foldl_cons, hf, pyReplace_eq _ _ _ (h p (by simp))]
    exact ih _ (fun pv hpv => h pv (by simp [hpv]))

theorem _root_.BV.tie_formatSegment (seg : Str) (pvs : List (Str × Str)) (hne : ∀ pv ∈ pvs, pv.1 ≠ []) :
    GenF.formatSegment seg pvs = formatSegment seg pvs := by
  have hused : ∀ pv ∈ pvs.filter (fun pv => isInfix pv.1 seg), pv.1 ≠ [] :=
    fun pv h => hne pv (List.mem_filter.mp h).1
  simp only [GenF.formatSegment]
  rw [foldl_usedParts seg _ (by
    intro c u p
    simp only [tie_isZeroVal] <;>
      (by_cases h1 : isInfix p.1 seg = true <;> by_cases h2 : isZeroVal p.1 p.2 = true <;> simp [h1, h2] <;> omega))]
  simp only [List.nil_append]
  rw [foldl_pyReplace _ (by intro r p; rfl) _ _ hused]
  simp only [formatSegment]
  generalize (pvs.filter (fun pv => isInfix pv.1 seg)) = used
  generalize (used.filter (fun pv => isZeroVal pv.1 pv.2)).length = n
  cases used with
  | nil => simp
  | cons u us =>
    simp only [List.length_cons, List.isEmpty_cons, Int.ofNat_eq_natCast]
    grind

end BV.TieF
