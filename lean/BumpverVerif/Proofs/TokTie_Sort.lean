/-
  Proofs/TokTie_Sort.lean — `sortParts` (insertion into a dict keyed by `(-end, -len(name))`, then sorted)
  and the right-to-left substitution loop `substParts`, on arbitrary item lists:

  * `sortParts_sorted`, `mem_sortParts`, `mem_sortParts_of_mem` : the result is strictly sorted by key and has the
    same members when equal keys mean equal items;
  * `subst_skip` : on a sorted list in which every item is a token of a disjoint token list `TK`, or lies inside
    one, the loop substitutes exactly the tokens.
-/
import BumpverVerif.Model.V2Patterns
namespace BV

theorem keyLt_iff (a b : PosPart) :
    keyLt a b = true ↔ (b.stop < a.stop ∨ (a.stop = b.stop ∧ b.name.length < a.name.length)) := by
  simp [keyLt]

theorem keyEq_iff (a b : PosPart) :
    keyEq a b = true ↔ (a.stop = b.stop ∧ a.name.length = b.name.length) := by
  simp [keyEq]

def SortedK (l : List PosPart) : Prop := l.Pairwise (fun a b => keyLt a b = true)

theorem mem_insertSorted {x a : PosPart} {l : List PosPart} (h : x ∈ insertSorted a l) : x = a ∨ x ∈ l := by
  induction l with
  | nil => simp [insertSorted] at h; exact Or.inl h
  | cons y ys ih =>
    simp only [insertSorted] at h
    split at h
    · simp only [List.mem_cons] at h
      rcases h with h | h
      · exact Or.inl h
      · exact Or.inr (List.mem_cons_of_mem _ h)
    · split at h
      · simp only [List.mem_cons] at h
        rcases h with h | h | h
        · exact Or.inl h
        · exact Or.inr (by simp [h])
        · exact Or.inr (by simp [h])
      · simp only [List.mem_cons] at h
        rcases h with h | h
        · exact Or.inr (by simp [h])
        · rcases ih h with h | h
          · exact Or.inl h
          · exact Or.inr (List.mem_cons_of_mem _ h)

theorem self_mem_insertSorted (a : PosPart) (l : List PosPart) : a ∈ insertSorted a l := by
  induction l with
  | nil => simp [insertSorted]
  | cons y ys ih =>
    simp only [insertSorted]
    split
    · simp
    · split
      · simp
      · exact List.mem_cons_of_mem _ ih

theorem mem_insertSorted_of_mem {x a : PosPart} {l : List PosPart} (h : x ∈ l) :
    x ∈ insertSorted a l ∨ keyEq a x = true := by
  induction l with
  | nil => cases h
  | cons y ys ih =>
    simp only [insertSorted]
    rcases List.mem_cons.mp h with h | h
    · subst h
      by_cases hk : keyEq a x = true
      · exact Or.inr hk
      · left
        simp only [hk, Bool.false_eq_true, if_false]
        split <;> simp
    · split
      · exact Or.inl (List.mem_cons_of_mem _ h)
      · split
        · exact Or.inl (List.mem_cons_of_mem _ (List.mem_cons_of_mem _ h))
        · rcases ih h with h' | h'
          · exact Or.inl (List.mem_cons_of_mem _ h')
          · exact Or.inr h'

theorem insertSorted_sorted (a : PosPart) (l : List PosPart) (h : SortedK l) : SortedK (insertSorted a l) := by
  induction l with
  | nil => simp [insertSorted, SortedK]
  | cons y ys ih =>
    have hy := List.pairwise_cons.mp h
    simp only [insertSorted]
    split
    · rename_i he
      rw [keyEq_iff] at he
      refine List.pairwise_cons.mpr ⟨fun z hz => ?_, hy.2⟩
      have := hy.1 z hz
      rw [keyLt_iff] at this ⊢
      omega
    · split
      · rename_i he hl
        rw [keyLt_iff] at hl
        refine List.pairwise_cons.mpr ⟨fun z hz => ?_, h⟩
        rcases List.mem_cons.mp hz with hz | hz
        · subst hz; rw [keyLt_iff]; exact hl
        · have := hy.1 z hz
          rw [keyLt_iff] at this ⊢
          omega
      · rename_i he hl
        rw [keyEq_iff] at he
        rw [keyLt_iff] at hl
        refine List.pairwise_cons.mpr ⟨fun z hz => ?_, ih hy.2⟩
        rcases mem_insertSorted hz with hz | hz
        · subst hz; rw [keyLt_iff]; omega
        · exact hy.1 z hz

theorem foldl_insertSorted_sorted (l acc : List PosPart) (h : SortedK acc) :
    SortedK (l.foldl (fun acc x => insertSorted x acc) acc) := by
  induction l generalizing acc with
  | nil => exact h
  | cons a l ih => exact ih _ (insertSorted_sorted a acc h)

theorem sortParts_sorted (l : List PosPart) : SortedK (sortParts l) :=
  foldl_insertSorted_sorted l [] List.Pairwise.nil

theorem mem_foldl_insertSorted {x : PosPart} (l acc : List PosPart)
    (h : x ∈ l.foldl (fun acc x => insertSorted x acc) acc) : x ∈ acc ∨ x ∈ l := by
  induction l generalizing acc with
  | nil => exact Or.inl h
  | cons a l ih =>
    rcases ih _ h with h | h
    · rcases mem_insertSorted h with h | h
      · exact Or.inr (by simp [h])
      · exact Or.inl h
    · exact Or.inr (List.mem_cons_of_mem _ h)

theorem mem_sortParts {x : PosPart} {l : List PosPart} (h : x ∈ sortParts l) : x ∈ l := by
  rcases mem_foldl_insertSorted l [] h with h | h
  · cases h
  · exact h

theorem mem_foldl_insertSorted_of {x : PosPart} (l acc : List PosPart) (h : x ∈ acc ∨ x ∈ l)
    (hu : ∀ y ∈ l, keyEq y x = true → y = x) :
    x ∈ l.foldl (fun acc x => insertSorted x acc) acc := by
  induction l generalizing acc with
  | nil =>
    rcases h with h | h
    · exact h
    · cases h
  | cons a l ih =>
    apply ih
    · rcases h with h | h
      · rcases mem_insertSorted_of_mem (a := a) h with h' | h'
        · exact Or.inl h'
        · have := hu a List.mem_cons_self h'
          subst this
          exact Or.inl (self_mem_insertSorted _ _)
      · rcases List.mem_cons.mp h with h | h
        · subst h; exact Or.inl (self_mem_insertSorted _ _)
        · exact Or.inr h
    · exact fun y hy => hu y (List.mem_cons_of_mem _ hy)

/-- an item whose key no OTHER item shares survives the dict -/
theorem mem_sortParts_of_mem {x : PosPart} {l : List PosPart} (h : x ∈ l)
    (hu : ∀ y ∈ l, keyEq y x = true → y = x) : x ∈ sortParts l :=
  mem_foldl_insertSorted_of l [] (Or.inr h) hu

/-! ### the substitution loop -/

def substStep (acc : Str × Nat) (it : PosPart) : Str × Nat :=
  if it.stop ≤ acc.2 then (acc.1.take it.start ++ it.text ++ acc.1.drop it.stop, it.start) else acc

theorem substParts_eq (pattern : Str) (items : List PosPart) :
    substParts pattern items = (items.foldl substStep (pattern, pattern.length + 1)).1 := rfl

/-- items of the sorted list that are no tokens are skipped: they are dead (`last < stop`) or lie inside a
    token that comes earlier in the order -/
theorem subst_skip (L : List PosPart) : ∀ (TK : List PosPart) (acc : Str) (last : Nat),
    SortedK L →
    (∀ x ∈ L, x.stop = x.start + x.name.length) →
    TK.Pairwise (fun a b => b.stop ≤ a.start) →
    (∀ t ∈ TK, t.start < t.stop ∧ t.stop = t.start + t.name.length) →
    (∀ t ∈ TK, t.stop ≤ last) →
    (∀ t ∈ TK, t ∈ L) →
    (∀ x ∈ L, x ∈ TK ∨ last < x.stop ∨
      ∃ t ∈ TK, x ≠ t ∧ t.start ≤ x.start ∧ x.stop ≤ t.stop ∧ x.start < x.stop) →
    L.foldl substStep (acc, last) = TK.foldl substStep (acc, last) := by
  induction L with
  | nil =>
    intro TK acc last _ _ _ _ _ hin _
    cases TK with
    | nil => rfl
    | cons t _ => exact absurd (hin t List.mem_cons_self) (by simp)
  | cons x L ih =>
    intro TK acc last hs hwf hp htk hal hin hcl
    have hsx := List.pairwise_cons.mp hs
    have hirr : ∀ y : PosPart, keyLt y y = true → False := by
      intro y hy; rw [keyLt_iff] at hy; omega
    have hxL : x ∉ L := fun hx => hirr x (hsx.1 x hx)
    rcases hcl x List.mem_cons_self with hx | hx | hx
    · -- a token: it is the head of TK
      cases TK with
      | nil => cases hx
      | cons h TK' =>
        have hp' := List.pairwise_cons.mp hp
        have hhx : h = x := by
          apply Classical.byContradiction
          intro hne
          have hx' : x ∈ TK' := by
            rcases List.mem_cons.mp hx with e | e
            · exact absurd e.symm hne
            · exact e
          have h1 := hp'.1 x hx'
          have hhL : h ∈ L := by
            rcases List.mem_cons.mp (hin h List.mem_cons_self) with e | e
            · exact absurd e hne
            · exact e
          have h2 := hsx.1 h hhL
          rw [keyLt_iff] at h2
          have h3 := (htk h List.mem_cons_self).1
          omega
        subst hhx
        have hst : h.stop ≤ last := hal h List.mem_cons_self
        have hh := htk h List.mem_cons_self
        simp only [List.foldl_cons, substStep, hst, if_true]
        apply ih TK' _ h.start hsx.2 (fun y hy => hwf y (List.mem_cons_of_mem _ hy)) hp'.2
          (fun t ht => htk t (List.mem_cons_of_mem _ ht)) hp'.1
        · intro t ht
          rcases List.mem_cons.mp (hin t (List.mem_cons_of_mem _ ht)) with e | e
          · subst e
            have := hp'.1 t ht
            have := (htk t (List.mem_cons_of_mem _ ht)).1
            omega
          · exact e
        · intro y hy
          rcases hcl y (List.mem_cons_of_mem _ hy) with hy' | hy' | ⟨t, ht, hne, h1, h2, h3⟩
          · rcases List.mem_cons.mp hy' with e | e
            · subst e; exact absurd hy hxL
            · exact Or.inl e
          · right; left; omega
          · rcases List.mem_cons.mp ht with e | e
            · subst e; right; left; omega
            · exact Or.inr (Or.inr ⟨t, e, hne, h1, h2, h3⟩)
    · -- dead
      have hns : ¬ x.stop ≤ last := by omega
      simp only [List.foldl_cons, substStep, hns, if_false]
      apply ih TK acc last hsx.2 (fun y hy => hwf y (List.mem_cons_of_mem _ hy)) hp htk hal
      · intro t ht
        rcases List.mem_cons.mp (hin t ht) with e | e
        · subst e; have := hal t ht; omega
        · exact e
      · exact fun y hy => hcl y (List.mem_cons_of_mem _ hy)
    · -- inside a token that would have to come later: impossible
      exfalso
      obtain ⟨t, ht, hne, h1, h2, h3⟩ := hx
      have htL : t ∈ L := by
        rcases List.mem_cons.mp (hin t ht) with e | e
        · exact absurd e.symm hne
        · exact e
      have hk := hsx.1 t htL
      rw [keyLt_iff] at hk
      have w1 := hwf x List.mem_cons_self
      have w2 := (htk t ht).2
      omega

end BV
