/-
  Proofs/Tie_isValidWeekPattern.lean — the definition GENERATED from the Python source of
  `v2version.is_valid_week_pattern` equals the hand model `BV.isValidWeekPattern` on all inputs.
  (`logger.error` is dropped by the translator; `alt1`/`alt2` are translated but unused.)
  After unfolding, both sides are Boolean combinations of the same eleven `isInfix` atoms; `grind`
  decides the equivalence, so reordered literals / commuted conjuncts are harmless.
-/
import BumpverVerif.Gen.F_isValidWeekPattern
import BumpverVerif.Model.Calendar
namespace BV

theorem tie_isValidWeekPattern (raw_pattern : Str) :
    GenF.isValidWeekPattern raw_pattern = isValidWeekPattern raw_pattern := by
  simp only [GenF.isValidWeekPattern, isValidWeekPattern, hasYPart, hasVPart, hasGPart, hasWUPart,
    List.any_cons, List.any_nil, Bool.or_false] <;> grind

end BV
