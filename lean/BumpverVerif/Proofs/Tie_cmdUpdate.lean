/-
  Proofs/Tie_cmdUpdate.lean — the definition GENERATED from the Python source of the command `cli.update`
  (Gen/F_cmdUpdate.lean, harness/translate_commands.py) against the COMPOSED hand model `BV.updateFull`
  (Model/Update.lean; = `BV.plan` of Model/Plan.lean for the environment `u.env` that Model/Update.lean derives from the
  models of the version decision, the dirty check and the rewrite phase).

    tie_cmdUpdate_updateFull
        (VCS events in order, exit code) of the translated `cli.update`  =  (events, exit code) of `updateFull u`
        for EVERY command line, configuration (new-style pattern), failure position of the VCS, tag / status output,
        hook behaviour, project files — `u` being the model input that the run corresponds to (`updInOf`).

  Everything `update` CALLS is tied elsewhere and enters through those ties (`tie_validateReleaseTag`,
  `tie_validateDate`, `tie_parseVcsOptions`, `tie_cmdUpdateCfgFromVcs_new`, `incrDispatch_new` ← `tie_incrDispatch`,
  `tie_normalizeSetVersion_new`, `tie_cmdIsValidVersion_new`, `getTags_full` ← `tie_getTags`, `tie_cliTryUpdate`).
  What THIS tie fixes is the order and the wiring inside `update`: validation first (exit 1 before anything is read or
  asked); the options are merged before the tags are looked up and a contradiction is exit 1 with no VCS invocation;
  `_update_cfg_from_vcs(cfg, fetch)` exactly when `--ignore-vcs-tag` is absent, on the MERGED configuration (scope of
  `--tag-scope`); the candidate from the version the lookup returned; `None` is exit 1; `uniqueness_check` from the
  MERGED scope or `--set-version`; the gate on (old = start version, new = candidate); the diff exactly under
  `--dry` (or `-vv`), for the new version; both messages from the right templates and versions; `if dry: return`;
  `_try_update` with the merged configuration, the candidate, commit / tag message in this order and `allow_dirty`.
  Proof: symbolic execution, case-splitting on what the MODEL functions answer; no generated code is restated.

  Hypotheses (`UpdateRealises`; `updateRealises_exists` in Tie_cmdUpdateExtra.lean shows they are jointly satisfiable
  for every command line / configuration / base environment):
  * `input`, `env`   : `u` is `updInOf …` and the plan environment of the run is `u.env`: the decision Booleans of the
                       oracle (`gateOk`, `uniqueOk`, `dirtyAbort`, `rewriteOk`, `startVersion`, `announced`) are what the
                       model's decision functions compute from the tags / status lines the environment serves.
  * `remote`, `notTracked` : those of `tie_getTags` / `tie_vcsCommit` (Tie_apiGetRemote.lean, Tie_vcsCommit.lean).
  * `newStyle`       : the hand model of the version part is the new-style one (`is_new_pattern` of the record and the
                       pattern text agree, as `config.py` computes it).
  * `date`, `emptyDate` : how the `--date` text was read (`strptime` is a parameter); `strptime("")` raises.
  * `scopeChoice`, `preHook`, `postHook` : click's guarantees, needed by `tie_parseVcsOptions` (witness of a difference
                       without them: `parseVcsOptions_empty_hook_differs`).
  * `verbose1`       : with `-v`, `incr_dispatch` also compiles the pattern (witness `YYYY.VV[`, Tie_incrDispatch.lean).
  * `diffDry`        : under `--dry` the diff oracle is the model's `rewriteOk` (the model lets the DIFF decide then).
  * `diffVerbose`    : MODEL GAP (harmless, reported): with `-vv` and without `--dry`, `_print_diff` runs BEFORE
                       `_try_update`; when it fails the command exits 1 without the usable-VCS probe and the status
                       call that `plan` (which has no verbosity) still shows.  Witness: `bumpver update -vv` with a
                       configured file missing.  Exit code and "nothing written / committed" agree.
  * `fmtCommit`, `fmtTag` : MODEL GAP (reported): `template.format(**kwargs)` raises KeyError for a template with an
                       unknown field (witness: `commit_message = "bump {old_version} -> {nope}"`): the real command
                       crashes after the gate — also under `--dry` — and writes nothing, the plan model (which does not
                       render messages) goes on to rewrite and commit.  `fmtTag` also says what the model's
                       `tagMsgEmpty` is: "the RENDERED tag message is empty".
  The run starts in the initial state, with `filepaths_x` = the environment's `files`, and a configuration was read
  (`cmdUpdate_no_config`, `cmdUpdate_unparsable_date` in Tie_cmdUpdateExtra.lean cover the two early exits the model has
  no input for).
-/
import BumpverVerif.Proofs.CmdUpdateLemmas
set_option linter.unusedSimpArgs false
namespace BV
namespace TieL

/-- the message templates in force -/
def commitTemplate {α : Type} (subT : Str → Str) (A : UpdArgs) (cfg0 : GenE.Config α) : Str :=
  match A.commit_message with
  | none => cfg0.commit_message
  | some m => subT m

def tagTemplate {α : Type} (subT : Str → Str) (A : UpdArgs) (cfg0 : GenE.Config α) : Str :=
  match A.tag_message with
  | none => cfg0.tag_message
  | some m => subT m

/-- everything the tie of `cli.update` assumes: `u` is the input of the composed model that the run corresponds to,
    and the environment of the run answers the way `u` says -/
structure UpdateRealises {α DateTime : Type} (strptime : Str → Str → Option DateTime) (dateOf : DateTime → Date)
    (subT : Str → Str) (vg : Int) (cfg0 : GenE.Config α) (ce : CmdEnv) (A : UpdArgs) (today date : Date)
    (dateGiven tme : Bool) (fs : FS) (fps : List (Str × List CPat)) (u : UpdIn) : Prop where
  input : u = updInOf A cfg0 ce.eff today date dateGiven tme fs fps
  env : ce.eff.plan = u.env
  remote : RemoteCoherent ce.eff
  notTracked : ce.eff.plan.kind = .hg → isInfix alreadyTracked ce.eff.excStderr = false
  newStyle : cfg0.is_new_pattern = true ∧ isNewPattern cfg0.version_pattern = true
  date : DateReading strptime dateOf A.date today dateGiven date
  emptyDate : strptime [] "%Y-%m-%d".toList = none
  scopeChoice : ∀ s, A.tag_scope = some s → (GenF.TagScope.ofValue s).isSome = true
  preHook : A.pre_commit_hook ≠ some []
  postHook : A.post_commit_hook ≠ some []
  verbose1 : pyMaxInt vg A.verbose ≠ 0 → ∃ r, pyV2CompilePattern cfg0.version_pattern = .ok r
  diffDry : A.dry = true → u.decide.gateOk = true →
    ce.diffOk u.decide.start cfg0.version_pattern (u.decide.new.getD []) = u.rewriteOk u.decide
  diffVerbose : A.dry = false → pyMaxInt vg A.verbose ≥ 2 → u.decide.gateOk = true →
    ce.diffOk u.decide.start cfg0.version_pattern (u.decide.new.getD []) = true
  fmtCommit : u.decide.gateOk = true →
    ∃ m, ce.fmt (commitTemplate subT A cfg0) (msgKwargs u.decide.start (u.decide.new.getD [])) = some m
  fmtTag : u.decide.gateOk = true →
    ∃ m, ce.fmt (tagTemplate subT A cfg0) (msgKwargs u.decide.start (u.decide.new.getD [])) = some m ∧ tme = m.isEmpty

end TieL
open TieL

attribute [local irreducible] isValid parseVersionInfo incr v1IsValid v1ParseVersionInfo v1Incr formatVersion
  normalizeSetVersion gate latestVersionTag parseVersionTags BV.getTags planTail

theorem tie_cmdUpdate_updateFull {α DateTime Ctx : Type} (strptime : Str → Str → Option DateTime)
    (dateOf : DateTime → Date) (subT : Str → Str) (vg : Int) (ctx : Ctx) (cfg0 : GenE.Config α) (ce : CmdEnv)
    (A : UpdArgs) (today date : Date) (dateGiven tme : Bool) (fs : FS) (fps : List (Str × List CPat)) (u : UpdIn)
    (h : UpdateRealises strptime dateOf subT vg cfg0 ce A today date dateGiven tme fs fps u) :
    cmdView (runUpdate today strptime dateOf subT vg (ctx, some cfg0) ce.eff.plan.files A ce ⟨⟨[], 0⟩, []⟩)
      = (updateFull u).2 := by
  obtain ⟨hu, henv, hrem, hnt, ⟨hnew, hnp⟩, hdate, hempty, hts, hpre, hpost, hverb, hdd, hdv, hfc, hft⟩ := h
  have hufl : u.fl = A.fl := by rw [hu]; rfl
  have hudg : u.dateGiven = dateGiven := by rw [hu]; rfl
  unfold runUpdate GenL.update
  simp only [Cmd.bind_liftExc, tie_validateReleaseTag, tie_validateDate]
  -- 1. the two validations
  cases hrt : validReleaseTag A.fl.tag with
  | false =>
    have hv : (!validReleaseTag u.fl.tag || (u.dateGiven && u.fl.pinDate)) = true := by simp [hufl, hrt]
    rw [updateFull_invalid u hv]
    simp [cmdView, Cmd.exitCode, CStop.code]
  | true =>
  simp only [if_true]
  -- what `_validate_date` answers
  have hvd : (∃ md, validateDateRef strptime dateOf A.date A.fl.pinDate = .ok md ∧ md.getD today = date ∧
                (dateGiven && A.fl.pinDate) = false) ∨
             (validateDateRef strptime dateOf A.date A.fl.pinDate = .error (.sysExit 1) ∧
                (dateGiven && A.fl.pinDate) = true) := by
    unfold validateDateRef
    rcases hdate with ⟨hn, hdg, hd⟩ | ⟨d, dt, hs, hsp, hdg, hd⟩
    · left; exact ⟨none, by rw [hn], by rw [hd]; rfl, by rw [hdg]; rfl⟩
    · have hne : d.isEmpty = false := by
        cases d with
        | nil => rw [hempty] at hsp; cases hsp
        | cons c cs => rfl
      rw [hs]
      cases hpin : A.fl.pinDate
      · left
        refine ⟨some (dateOf dt), ?_, by rw [hd]; rfl, by simp⟩
        simp only [hne, hsp, Bool.not_false, Bool.and_false, Bool.false_eq_true, if_false]
      · right
        refine ⟨?_, by simp [hdg]⟩
        simp only [hne, Bool.not_false, Bool.and_self, if_true]
  rcases hvd with ⟨md, hvd, hmd, hdp⟩ | ⟨hvd, hdp⟩
  case inr =>
    have hv : (!validReleaseTag u.fl.tag || (u.dateGiven && u.fl.pinDate)) = true := by simp [hufl, hudg, hdp]
    rw [updateFull_invalid u hv]
    simp [hvd, cmdView, Cmd.exitCode, CStop.code]
  have hv : (!validReleaseTag u.fl.tag || (u.dateGiven && u.fl.pinDate)) = false := by simp [hufl, hudg, hdp, hrt]
  rw [updateFull_valid u hv]
  simp only [hvd]
  show _ = plan u.c0 u.a u.env
  rw [plan_eq_staged, ← henv]
  unfold planStaged
  -- 2. the configuration, merged with the command line options
  have htie := tie_parseVcsOptions tme
    { commit := none, tagCommit := none, push := none, preHook := false, postHook := false, scopeBranch := none,
      dry := A.dry, fetch := A.fetch, ignoreVcsTag := A.ignore_vcs_tag, setVersion := A.set_version.isSome }
    (GenL.cfgToF cfg0) A.commit A.tag_commit A.push A.tag_scope A.pre_commit_hook A.post_commit_hook hts hpre hpost
  have hc0 : u.c0 = absCfg tme (GenL.cfgToF cfg0) := by rw [hu]; rfl
  have ha : u.a = planCliOf A := by rw [hu]; rfl
  rw [hc0, ha]
  unfold planCliOf
  rw [← htie]
  cases hpo : GenF.parseVcsOptions (GenL.cfgToF cfg0) A.commit A.tag_commit A.push A.tag_scope A.pre_commit_hook
      A.post_commit_hook with
  | none =>
    simp [cmdView, Cmd.exitCode, CStop.code, Cmd.bind, Cmd.tryCatch, Cmd.ofOption, Cmd.throw, Cmd.exit, CStop.isA,
      Exc.isValueError]
  | some cF1 =>
  simp only [Option.map]
  obtain ⟨hf1, hf2, hf3, hf4, hf5, hf6, hf7⟩ := parseVcsOptions_fields _ _ _ _ _ _ _ _ hpo
  have hcv : (GenL.cfgOfF cF1).current_version = cfg0.current_version := hf1
  have hvp : (GenL.cfgOfF cF1).version_pattern = cfg0.version_pattern := hf2
  have hcm : (GenL.cfgOfF cF1).commit_message = cfg0.commit_message := hf4
  have htm : (GenL.cfgOfF cF1).tag_message = cfg0.tag_message := hf5
  have hinp : (GenL.cfgOfF cF1).is_new_pattern = true := by rw [← hnew]; exact hf6
  have hsc : (GenL.cfgOfF cF1).tag_scope = scopeE A cfg0 := by
    show GenL.scopeOfF cF1.tag_scope = _
    rw [hf7]
    exact scopeOfF_choice A.tag_scope cfg0.tag_scope hts
  have hcabs : ∀ (tm st pp : Str), tme = tm.isEmpty →
      absCfgE tm { GenL.cfgOfF cF1 with current_version := st, pep440_version := pp } = absCfg tme cF1 := by
    intro tm st pp htme
    rw [htme, ← absCfgE_ofF]
    rfl
  have hcsb : (absCfg tme cF1).scopeBranch = ((GenL.cfgOfF cF1).tag_scope == GenE.TagScope.BRANCH) := by
    show (cF1.tag_scope == GenF.TagScope.BRANCH) = (GenL.scopeOfF cF1.tag_scope == GenE.TagScope.BRANCH)
    rw [scopeOfF_branch]
  generalize GenL.cfgOfF cF1 = cfg1 at hcv hvp hcm htm hinp hsc hcabs hcsb ⊢
  generalize absCfg tme cF1 = c at hcabs hcsb ⊢
  simp only [Cmd.ofOption, Cmd.bind, Cmd.pure, Cmd.tryCatch]
  -- what the plan model keeps of the command line
  have ha1 : (absCli A.commit A.tag_commit A.push A.tag_scope A.pre_commit_hook A.post_commit_hook
      { commit := none, tagCommit := none, push := none, preHook := false, postHook := false, scopeBranch := none,
        dry := A.dry, fetch := A.fetch, ignoreVcsTag := A.ignore_vcs_tag,
        setVersion := A.set_version.isSome }).ignoreVcsTag = A.ignore_vcs_tag := rfl
  have ha2 : (absCli A.commit A.tag_commit A.push A.tag_scope A.pre_commit_hook A.post_commit_hook
      { commit := none, tagCommit := none, push := none, preHook := false, postHook := false, scopeBranch := none,
        dry := A.dry, fetch := A.fetch, ignoreVcsTag := A.ignore_vcs_tag,
        setVersion := A.set_version.isSome }).fetch = A.fetch := rfl
  have ha3 : (absCli A.commit A.tag_commit A.push A.tag_scope A.pre_commit_hook A.post_commit_hook
      { commit := none, tagCommit := none, push := none, preHook := false, postHook := false, scopeBranch := none,
        dry := A.dry, fetch := A.fetch, ignoreVcsTag := A.ignore_vcs_tag,
        setVersion := A.set_version.isSome }).dry = A.dry := rfl
  have ha4 : (absCli A.commit A.tag_commit A.push A.tag_scope A.pre_commit_hook A.post_commit_hook
      { commit := none, tagCommit := none, push := none, preHook := false, postHook := false, scopeBranch := none,
        dry := A.dry, fetch := A.fetch, ignoreVcsTag := A.ignore_vcs_tag,
        setVersion := A.set_version.isSome }).setVersion = A.set_version.isSome := rfl
  generalize (absCli A.commit A.tag_commit A.push A.tag_scope A.pre_commit_hook A.post_commit_hook
      { commit := none, tagCommit := none, push := none, preHook := false, postHook := false, scopeBranch := none,
        dry := A.dry, fetch := A.fetch, ignoreVcsTag := A.ignore_vcs_tag,
        setVersion := A.set_version.isSome }) = a at ha1 ha2 ha3 ha4 ⊢
  simp only [ha1, ha2]
  -- 3. the version the update starts from
  have hupat : u.pat = cfg0.version_pattern := by rw [hu]; rfl
  have hucv : u.cfgVersion = cfg0.current_version := by rw [hu]; rfl
  have hutoday : u.today = today := by rw [hu]; rfl
  have huign : u.a.ignoreVcsTag = A.ignore_vcs_tag := by rw [hu]; rfl
  have huscope : u.scope = absScopeE (scopeE A cfg0) := by rw [hu]; exact updInOf_scope _ _ _ _ _ _ _ _ _ hts
  have hutags : u.tagsSeen = tagsServed ce.eff (scopeE A cfg0) ⟨[], 0⟩ := by
    unfold UpdIn.tagsSeen tagsServed
    rw [isUsable_congr u.baseEnv ce.eff.plan (by rw [hu]; rfl) (by rw [hu]; rfl)]
    rw [hu]; rfl
  have hgo : ce.eff.plan.gateOk = u.decide.gateOk := by rw [henv]; rfl
  have huo : ce.eff.plan.uniqueOk = u.decide.uniqueOk := by rw [henv]; rfl
  have hrw : ce.eff.plan.rewriteOk = u.rewriteOk u.decide := by rw [henv]; rfl
  have hsv : ce.eff.plan.startVersion = u.decide.start := by rw [henv]; rfl
  have han : ce.eff.plan.announced = u.decide.new.getD [] := by rw [henv]; rfl
  cases hign : A.ignore_vcs_tag
  case' true =>
    simp only [Bool.true_eq_false, Bool.false_eq_true, if_true, if_false]
    have hstartE : u.startE = some cfg1.current_version := by
      unfold UpdIn.startE; rw [huign, hign, hucv, hcv]; rfl
    have hvp2 : cfg1.version_pattern = cfg0.version_pattern := hvp
    have hcm2 : cfg1.commit_message = cfg0.commit_message := hcm
    have htm2 : cfg1.tag_message = cfg0.tag_message := htm
    have hsc2 : cfg1.tag_scope = scopeE A cfg0 := hsc
    have hcabs2 : ∀ (tm : Str), tme = tm.isEmpty → absCfgE tm cfg1 = c := fun tm h => hcabs tm _ _ h
    generalize hp1 : ({ evs := [], n := 0 } : PState) = p1
    generalize hcfg2 : cfg1 = cfg2 at hstartE hvp2 hcm2 htm2 hsc2 hcabs2 ⊢
  case' false =>
    simp only [Bool.true_eq_false, Bool.false_eq_true, if_true, if_false, Cmd.bind, Cmd.pure]
    rw [tie_cmdUpdateCfgFromVcs_new today cfg1 A.fetch hinp, tagsThen_run _ _ _ _ _ hrem]
    simp only [hcsb]
    rcases hg1 : BV.getTags ce.eff.plan A.fetch (cfg1.tag_scope == GenE.TagScope.BRANCH) ⟨[], 0⟩ with ⟨p1, o1⟩
    cases o1
    case failed => simp [cmdView, Cmd.exitCode, CStop.code]
    have hsE : u.startE = (match (latestVersionTag cfg1.version_pattern today
          (tagsServed ce.eff cfg1.tag_scope ⟨[], 0⟩)).map (fun l => (updCfg cfg1 l).current_version) with
        | .ok v => some v
        | .error _ => none) := by
      unfold UpdIn.startE
      rw [huign, hign, updCfg_startVersion, huscope, hupat, hucv, hutoday, hutags, hsc, hvp, hcv]
      rfl
    cases hl : latestVersionTag cfg1.version_pattern today (tagsServed ce.eff cfg1.tag_scope ⟨[], 0⟩)
    case error e =>
      rw [hl] at hsE
      have hgf : ce.eff.plan.gateOk = false := by
        rw [hgo]; exact decide_gateOk_of_cand_none u (cand_none_of_startE_none u hsE)
      simp [cmdView, Cmd.exitCode, CStop.code, ofV2, Except.map, planGate_reject _ _ _ _ hgf]
    rename_i l
    rw [hl] at hsE
    have hstartE : u.startE = some (updCfg cfg1 l).current_version := hsE
    have hvp2 : (updCfg cfg1 l).version_pattern = cfg0.version_pattern := by rw [updCfg_fields]; exact hvp
    have hcm2 : (updCfg cfg1 l).commit_message = cfg0.commit_message := by rw [updCfg_fields]; exact hcm
    have htm2 : (updCfg cfg1 l).tag_message = cfg0.tag_message := by rw [updCfg_fields]; exact htm
    have hsc2 : (updCfg cfg1 l).tag_scope = scopeE A cfg0 := by rw [updCfg_fields]; exact hsc
    have hcabs2 : ∀ (tm : Str), tme = tm.isEmpty → absCfgE tm (updCfg cfg1 l) = c := by
      intro tm h; rw [updCfg_fields]; exact hcabs tm _ _ h
    simp only [ofV2, Except.map]
    generalize hcfg2 : updCfg cfg1 l = cfg2 at hstartE hvp2 hcm2 htm2 hsc2 hcabs2 ⊢
    clear hg1 hsE hl
  all_goals (
    -- 4. the candidate: `incr_dispatch` or the normalised `--set-version`
    have husv : u.setVersion = A.set_version := by rw [hu]; rfl
    have hudate : u.date = md.getD today := by rw [hmd, hu]; rfl
    have hustart : u.start = cfg2.current_version := by unfold UpdIn.start; rw [hstartE]; rfl
    have hc : (pyMaxInt vg A.verbose != 0) = true → ∃ r, pyV2CompilePattern cfg0.version_pattern = .ok r :=
      fun h => hverb ((pyMaxInt_ne_zero_iff vg A.verbose).mp h)
    have hcandNone : u.cand = none → cmdView (({ p := p1, out := [] } : CState), (Except.error (CStop.exc (Exc.sysExit 1)) : Except CStop Unit))
        = planGate c a ce.eff.plan p1 := by
      intro hcn
      rw [planGate_reject _ _ _ _ (by rw [hgo]; exact decide_gateOk_of_cand_none u hcn)]
      rfl
    cases hsvA : A.set_version
    case' none =>
      simp only [Cmd.bind, Cmd.liftExc, Cmd.pure, hvp2]
      rw [incrDispatch_new today _ cfg2.current_version cfg0.version_pattern A.fl md hnp hc]
      have hcand0 : u.cand = (match incr cfg2.current_version cfg0.version_pattern A.fl (md.getD today) today with
          | .ok r => r
          | .error _ => none) := by
        unfold UpdIn.cand; rw [hstartE, husv, hsvA, hupat, hufl, hudate, hutoday]; rfl
      cases hinc : incr cfg2.current_version cfg0.version_pattern A.fl (md.getD today) today
      case error e =>
        rw [hinc] at hcand0
        rw [planGate_reject _ _ _ _ (by rw [hgo]; exact decide_gateOk_of_cand_none u hcand0)]
        simp [liftV2, cmdView, Cmd.exitCode, CStop.code]
      rename_i o
      cases o
      case none =>
        rw [hinc] at hcand0
        rw [planGate_reject _ _ _ _ (by rw [hgo]; exact decide_gateOk_of_cand_none u hcand0)]
        simp [liftV2, cmdView, Cmd.exitCode, CStop.code, Cmd.exit, Cmd.throw]
      rename_i nv
      rw [hinc] at hcand0
      have hcand : u.cand = some nv := hcand0
      simp only [liftV2]
      clear hcand0 hinc
    case' some sv =>
      simp only [Cmd.bind, Cmd.pure, hvp2]
      rw [tie_normalizeSetVersion_new today cfg0.version_pattern sv hnp]
      have hcand0 : u.cand = (match normalizeSetVersion cfg0.version_pattern sv today with
          | .ok r => some r
          | .error _ => none) := by
        unfold UpdIn.cand; rw [hstartE, husv, hsvA, hupat, hutoday]; rfl
      cases hnorm : normalizeSetVersion cfg0.version_pattern sv today
      case error e =>
        rw [hnorm] at hcand0
        rw [planGate_reject _ _ _ _ (by rw [hgo]; exact decide_gateOk_of_cand_none u hcand0)]
        simp [ofV2, cmdView, Cmd.exitCode, CStop.code]
      rename_i nv
      rw [hnorm] at hcand0
      have hcand : u.cand = some nv := hcand0
      simp only [ofV2]
      clear hcand0 hnorm
    all_goals (
      -- 5. the gate
      have hrhs : ∀ (x : List Ev × Nat), (if (Outcome.ok == Outcome.failed) = true then x else planGate c a ce.eff.plan p1)
          = planGate c a ce.eff.plan p1 := fun _ => rfl
      simp only [hrhs]
      have hdec : u.decide = decideCand u cfg2.current_version (some nv) := by
        unfold UpdIn.decide; rw [hustart, hcand]
      have hdstart : u.decide.start = cfg2.current_version := by rw [hdec]; rfl
      have hdnew : u.decide.new = some nv := by rw [hdec]; rfl
      have hglob : u.globalTags = tagsOf (ce.eff.output "ls_tags") := by rw [hu]; rfl
      have hunique : ∀ (x : Option Str), A.set_version = x →
          (cfg2.tag_scope == GenE.TagScope.BRANCH || x != none) = (c.scopeBranch || a.setVersion) := by
        intro x hx
        rw [hcsb, hsc, hsc2, ha4, hx]
        cases x <;> rfl
      have hunique' : ∀ (x : Option Str), A.set_version = x →
          (x != none || cfg2.tag_scope == GenE.TagScope.BRANCH) = (c.scopeBranch || a.setVersion) := by
        intro x hx
        rw [Bool.or_comm]; exact hunique x hx
      first | rw [hunique _ hsvA] | rw [hunique' _ hsvA]
      simp only [Cmd.bind]
      rw [tie_cmdIsValidVersion_new today cfg0.version_pattern cfg2.current_version nv _ hnp]
      unfold gateCmd
      cases hgate : gate cfg0.version_pattern cfg2.current_version nv false [] today
      case error e =>
        have hgf : ce.eff.plan.gateOk = false := by
          rw [hgo, hdec]; simp only [decideCand, hupat, hutoday, hgate]
        rw [planGate_reject _ _ _ _ hgf]
        simp [cmdView, Cmd.exitCode, CStop.code]
      rename_i verdict
      have hnotacc : verdict ≠ .accept → cmdView
          ((match (({ p := p1, out := [] } : CState), (Except.ok false : Except CStop Bool)) with
            | (s', Except.ok a) => (if a = true then (Cmd.pure () : Cmd Unit) else Cmd.exit 1) ce s'
            | (s', Except.error x) => (s', Except.error x)))
          = planGate c a ce.eff.plan p1 := by
        intro hne
        have hgf : ce.eff.plan.gateOk = false := by
          rw [hgo, hdec]; simp only [decideCand, hupat, hutoday, hgate]
          cases verdict <;> first | rfl | exact absurd rfl hne
        rw [planGate_reject _ _ _ _ hgf]
        simp [cmdView, Cmd.exitCode, CStop.code, Cmd.exit, Cmd.throw]
      cases verdict
      case rejectPattern =>
        have hgf : ce.eff.plan.gateOk = false := by rw [hgo, hdec]; simp only [decideCand, hupat, hutoday, hgate]
        rw [planGate_reject _ _ _ _ hgf]
        simp [cmdView, Cmd.exitCode, CStop.code, Cmd.exit, Cmd.throw]
      case rejectNotGreater =>
        have hgf : ce.eff.plan.gateOk = false := by rw [hgo, hdec]; simp only [decideCand, hupat, hutoday, hgate]
        rw [planGate_reject _ _ _ _ hgf]
        simp [cmdView, Cmd.exitCode, CStop.code, Cmd.exit, Cmd.throw]
      case rejectNotUnique =>
        have hgf : ce.eff.plan.gateOk = false := by rw [hgo, hdec]; simp only [decideCand, hupat, hutoday, hgate]
        rw [planGate_reject _ _ _ _ hgf]
        simp [cmdView, Cmd.exitCode, CStop.code, Cmd.exit, Cmd.throw]
      clear hnotacc
      have hgt : ce.eff.plan.gateOk = true := by rw [hgo, hdec]; simp only [decideCand, hupat, hutoday, hgate]
      have hdgo : u.decide.gateOk = true := by rw [← hgo]; exact hgt
      have huq : ce.eff.plan.uniqueOk = (decideCand u cfg2.current_version (some nv)).uniqueOk := by rw [huo, hdec]
      unfold planGate
      simp only [hgt, Bool.not_true, Bool.false_eq_true, if_false, ha3]
      -- 6. the uniqueness check (branch scope or --set-version): one more tag listing
      have hfe : (Outcome.ok == Outcome.failed) = false := rfl
      have hff : (Outcome.failed == Outcome.failed) = true := rfl
      cases hun : (c.scopeBranch || a.setVersion)
      case' false =>
        simp only [Bool.false_eq_true, if_false, Bool.false_and, hfe]
        generalize hp2 : p1 = p2
      case' true =>
        simp only [if_true, Bool.true_and]
        rw [uniqueCmd_run _ _ _ hrem]
        rcases hg2 : BV.getTags ce.eff.plan false false p1 with ⟨p2, o2⟩
        cases o2
        case failed => simp [cmdView, Cmd.exitCode, CStop.code, hff]
        simp only [hfe, Bool.false_eq_true, if_false]
        unfold tagsServed tagsListed
        have hgb : (GenE.TagScope.GLOBAL == GenE.TagScope.BRANCH) = false := rfl
        simp only [hgb, Bool.false_eq_true, if_false]
        cases husable : (isUsable ce.eff.plan p1).2
        case' false =>
          simp only [Bool.false_eq_true, if_false, parseVersionTags_nil, Except.map, ofV2, Bool.false_and]
          have hnil : (!([] : List Str).contains nv) = true := rfl
          simp only [hnil]
        case' true =>
          simp only [if_true, Bool.true_and]
          cases hpvt : parseVersionTags cfg0.version_pattern today (tagsOf (ce.eff.output "ls_tags"))
          case error e =>
            have : ce.eff.plan.uniqueOk = false := by
              rw [huq]; simp only [decideCand, hupat, hutoday, hglob, hpvt]
            simp [this, cmdView, Cmd.exitCode, CStop.code, ofV2, Except.map]
          rename_i vts
          have huqv : ce.eff.plan.uniqueOk = !vts.contains nv := by
            rw [huq]; simp only [decideCand, hupat, hutoday, hglob, hpvt]
          simp only [huqv, Except.map, ofV2, Bool.not_not]
          cases hcont : vts.contains nv
          case true => simp [cmdView, Cmd.exitCode, CStop.code, Cmd.exit, Cmd.throw]
          simp only [Bool.not_false, Bool.false_eq_true, if_false]
          clear hpvt hcont huqv
        all_goals clear hg2
      all_goals (
        -- 7. diff (under --dry / -vv), the two messages, `if dry: return`, `_try_update`
        simp only [if_true]
        obtain ⟨cm, hcmf⟩ := hfc hdgo
        obtain ⟨tm, htmf, htme⟩ := hft hdgo
        rw [hdstart, hdnew] at hcmf htmf
        simp only [Option.getD_some] at hcmf htmf
        unfold msgKwargs at hcmf htmf
        have hdiffD := fun h => hdd h hdgo
        have hdiffV := fun h1 h2 => hdv h1 h2 hdgo
        rw [hdstart, hdnew] at hdiffD hdiffV
        simp only [Option.getD_some, ← hrw] at hdiffD hdiffV
        have hdirty : ce.eff.plan.dirtyAbort =
            (BV.assertNotDirty (pySplitlines (ce.eff.output "status")) ce.eff.plan.files A.allow_dirty != .proceed) := by
          have h1 : ce.eff.plan.dirtyAbort = u.dirtyAbort := by rw [henv]; rfl
          have h2 : ce.eff.plan.files = u.paths := by rw [henv]; rfl
          have h3 : u.statusLines = pySplitlines (ce.eff.output "status") := by rw [hu]; rfl
          have h4 : u.allowDirty = A.allow_dirty := by rw [hu]; rfl
          rw [h1, h2]
          unfold UpdIn.dirtyAbort
          rw [h3, h4]
          cases BV.assertNotDirty (pySplitlines (ce.eff.output "status")) u.paths A.allow_dirty <;> rfl
        have hcoh : UpdateCoherent ce.eff cfg2 nv A.allow_dirty :=
          ⟨⟨hrem, rfl, hnt, by rw [hsv, hdstart], by rw [han, hdnew]; rfl⟩, hdirty⟩
        have htail := fun cmsg p => tie_cliTryUpdate ce.eff p cfg2 nv cmsg tm A.allow_dirty hcoh
        rw [hcabs2 tm htme] at htail
        simp only [hcm2, htm2]
        cases hcmA : A.commit_message <;> cases htmA : A.tag_message <;>
          simp only [commitTemplate, tagTemplate, hcmA, htmA] at hcmf htmf <;>
          simp only [] <;>
          cases hdry : A.dry
        all_goals first
          | -- --dry: the diff decides the exit code, nothing else happens
            (have hd := hdiffD hdry
             simp only [Bool.true_or, if_true, Cmd.bind, Cmd.printDiff, hd]
             cases hrwv : ce.eff.plan.rewriteOk <;>
               simp [cmdView, Cmd.exitCode, CStop.code, Cmd.pure, Cmd.format, Cmd.bind, hcmf, htmf])
          | -- a real run: `_try_update` = the tail of the plan
            (have hd := hdiffV hdry
             have ht := htail cm p2
             rcases hr : GenE.cliTryUpdate cfg2 nv cm tm A.allow_dirty ce.eff.plan.files ce.eff p2 with ⟨p3, res⟩
             rw [hr] at ht
             simp only [Bool.false_or, Bool.false_eq_true, if_false] at ht ⊢
             rw [← ht]
             by_cases hv2 : pyMaxInt vg A.verbose ≥ 2
             · have hd2 := hd hv2
               cases res <;>
                 simp [cmdView, Cmd.exitCode, code_eff, Eff.exitCode, Cmd.pure, Cmd.format, Cmd.bind, Cmd.printDiff,
                   Cmd.liftEff, hcmf, htmf, hv2, hd2, hr]
             · cases res <;>
                 simp [cmdView, Cmd.exitCode, code_eff, Eff.exitCode, Cmd.pure, Cmd.format, Cmd.bind, Cmd.printDiff,
                   Cmd.liftEff, hcmf, htmf, hv2, hr]))))

end BV
