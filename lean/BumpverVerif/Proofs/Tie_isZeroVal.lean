/-
  Proofs/Tie_isZeroVal.lean — the definition GENERATED from the Python source of `version.is_zero_val`
  (Gen/F_isZeroVal.lean; the dict `PART_ZERO_VALUES` is the generated table `Gen.partZeroValues`)
  equals the hand model `BV.isZeroVal` on all inputs.
-/
import BumpverVerif.Gen.F_isZeroVal
import BumpverVerif.Model.V2Version
namespace BV.TieF
open GenF GenF.FP

theorem _root_.BV.tie_isZeroVal (part value : Str) : GenF.isZeroVal part value = isZeroVal part value := by
  rw [Bool.eq_iff_iff]
  cases h : lookup part Gen.partZeroValues <;> simp [GenF.isZeroVal, isZeroVal, h] <;> exact eq_comm

end BV.TieF
