/-
  Proofs/EffTactics.lean — the case-splitting tactic used by the effect ties (Proofs/Tie_*.lean of the
  functions translated by harness/translate_effects.py).

  `eff_step` looks for the FIRST `if`-condition or `match`-discriminant in the goal that is "atomic"
  (contains no further `if`/`match`, no bound variable) and splits on it:
    * a condition `c`                         ↦ `by_cases h : c`
    * a discriminant that is a free variable  ↦ `cases x`
    * any other discriminant `d`              ↦ `cases h : d`   (e.g. `vcsCall e ev s`, `addAll e ps s`,
                                                 `getRemote e s`: the hand-model pieces stay opaque)
    * inside a constructor application (`(s', o)`) the arguments of an enumeration-like type.
  Lean's own `split` takes the OUTERMOST match first and generalises its (compound) discriminant; for
  the nested `match m e s with | (s', .ok a) => …` terms that `Eff.bind` unfolds to, the innermost
  discriminant — the first step of the program — is the one to split.

  Nothing here is trusted: the tactic only produces proof terms that the kernel checks.
-/
import Lean
open Lean Meta Elab Tactic

namespace BV.EffTac

def isSplitHead (env : Environment) (t : Expr) : Bool :=
  ((t.isAppOf ``ite || t.isAppOf ``dite) && t.getAppNumArgs ≥ 5) ||
    (match t.getAppFn with
     | .const n _ =>
       (match getMatcherInfoCore? env n with
        | some info => t.getAppNumArgs ≥ info.getFirstDiscrPos + info.numDiscrs
        | none => false)
     | _ => false)

/-- no closed `if`/`match` inside (one under a binder, mentioning the bound variable, cannot be split anyway) -/
def isPlain (env : Environment) (e : Expr) : Bool :=
  (e.find? (fun t => !t.hasLooseBVars && isSplitHead env t)).isNone

/-- head constants of the types worth a case split when they occur inside a constructor application -/
def enumLike : List Name :=
  [``Prod, ``Except, ``Option, ``Bool, `BV.Outcome, `BV.VcsKind, `BV.DirtyVerdict, `BV.Stop]

/-- the things to split on inside the discriminant `d` -/
partial def discrTargets (env : Environment) (d : Expr) (top : Bool) : MetaM (Array Expr) := do
  if d.hasLooseBVars then return #[]
  if d.isLit || d.isSort || d.isLambda || d.isForall then return #[]
  let ctor? : Option ConstructorVal := match d.getAppFn with
    | .const n _ => (match env.find? n with | some (.ctorInfo cv) => some cv | _ => none)
    | _ => none
  match ctor? with
  | some cv =>
    let args := d.getAppArgs
    let mut out := #[]
    for a in args.extract cv.numParams args.size do
      out := out ++ (← discrTargets env a false)
    return out
  | none =>
    if top then return #[d]
    let ty ← whnfR (← inferType d)
    match ty.getAppFn with
    | .const n _ => if enumLike.contains n then return #[d] else return #[]
    | _ => return #[]

/-- the first propositional atom of a condition: `a ∧ b`, `a ∨ b`, `¬a`, `a ↔ b` are taken apart, so that
    two differently arranged but equivalent conditions are decided by the same case analysis -/
partial def firstAtom (c : Expr) : Expr :=
  match c.getAppFn, c.getAppArgs with
  | .const ``And _, #[a, _] => firstAtom a
  | .const ``Or _, #[a, _] => firstAtom a
  | .const ``Not _, #[a] => firstAtom a
  | .const ``Iff _, #[a, _] => firstAtom a
  | _, _ => c

inductive Target
  | prop (c : Expr)
  | term (d : Expr)

/-- the split target of the `if`/`match` application `t`, if it is atomic -/
def targetOf (env : Environment) (t : Expr) : MetaM (Option Target) := do
  if t.isAppOf ``ite || t.isAppOf ``dite then
    let args := t.getAppArgs
    if args.size < 5 then return none
    let c := args[1]!
    if c.hasLooseBVars || !isPlain env c then return none
    return some (.prop (firstAtom c))
  match t.getAppFn with
  | .const n _ =>
    match getMatcherInfoCore? env n with
    | none => return none
    | some info =>
      let args := t.getAppArgs
      let first := info.getFirstDiscrPos
      if args.size < first + info.numDiscrs then return none
      for i in [first : first + info.numDiscrs] do
        let d := args[i]!
        if d.hasLooseBVars || !isPlain env d then continue
        let ts ← discrTargets env d true
        if h : 0 < ts.size then return some (.term ts[0])
      return none
  | _ => return none

/-- search for the first atomic split target; applications are visited left to right (so the
    discriminant of a `match` before its alternatives, the condition of an `if` before its branches) -/
partial def findTarget (env : Environment) (e : Expr) : MetaM (Option Target) := do
  if isSplitHead env e then
    if let some t ← targetOf env e then return some t
  match e with
  | .app .. =>
    if let some t ← findTarget env e.getAppFn then return some t
    for a in e.getAppArgs do
      if let some t ← findTarget env a then return some t
    return none
  | .lam _ ty b _ => do
    if let some t ← findTarget env ty then return some t
    findTarget env b
  | .forallE _ ty b _ => do
    if let some t ← findTarget env ty then return some t
    findTarget env b
  | .letE _ ty v b _ => do
    if let some t ← findTarget env v then return some t
    if let some t ← findTarget env ty then return some t
    findTarget env b
  | .mdata _ b => findTarget env b
  | .proj _ _ b => findTarget env b
  | _ => return none

elab "eff_step" : tactic => withMainContext do
  let goal ← getMainGoal
  let tgt ← instantiateMVars (← goal.getType)
  let env ← getEnv
  let some t ← findTarget env tgt | throwError "eff_step: no atomic `if`/`match` to split on"
  match t with
  | .prop c =>
    -- a condition that is already decided by a hypothesis means the simplifier could not use it: stop
    for ldecl in ← getLCtx do
      if ldecl.isImplementationDetail then continue
      let ty ← instantiateMVars ldecl.type
      if ty == c || ty == mkNot c then
        throwError "eff_step: the condition{indentExpr c}\nis already decided by hypothesis {ldecl.userName}"
    let stx ← Term.exprToSyntax c
    evalTactic (← `(tactic| by_cases _h : $stx))
  | .term d =>
    let stx ← Term.exprToSyntax d
    if d.isFVar then
      evalTactic (← `(tactic| cases $stx:term))
    else
      evalTactic (← `(tactic| cases _h : $stx:term))

end BV.EffTac
