/-
  Proofs/Tie_hasOverlap.lean — the definition GENERATED from the Python source of
  `parse._has_overlap` (Gen/F_hasOverlap.lean) equals the hand model `BV.hasOverlap` on all inputs.

  The proof compares the two per-span predicates as propositions (linear arithmetic), so it
  survives renamed locals and reordered conjuncts but not a changed comparison.
-/
import BumpverVerif.Gen.F_hasOverlap
import BumpverVerif.Model.Rewrite
namespace BV

theorem tie_hasOverlap (needle : LineSpan) (haystack : List LineSpan) :
    GenF.hasOverlap needle haystack = hasOverlap needle haystack := by
  -- both sides are `haystack.any` of a Boolean combination of the same three comparisons: compared span by
  -- span, as propositions (whatever shape the Python gives the test: one expression, nested ifs, `continue`)
  unfold GenF.hasOverlap hasOverlap
  refine congrArg (List.any haystack) (funext fun span => ?_)
  first
    | rfl
    | (rw [Bool.eq_iff_iff]; simp <;> omega)

end BV
