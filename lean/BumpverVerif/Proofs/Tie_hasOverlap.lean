/-
  Proofs/Tie_hasOverlap.lean — the definition GENERATED from the Python source of
  `parse._has_overlap` (Gen/F_hasOverlap.lean) equals the hand model `BV.hasOverlap` on all inputs.

  The proof compares the two per-span predicates as propositions (linear arithmetic), so it
  survives renamed locals and reordered conjuncts but not a changed comparison.
-/
import BumpverVerif.Gen.F_hasOverlap
import BumpverVerif.Model.Rewrite
namespace BV

theorem tie_hasOverlap (needle : LineSpan) (haystack : List LineSpan) :
    GenF.hasOverlap needle haystack = hasOverlap needle haystack := by
  rw [Bool.eq_iff_iff]
  simp only [GenF.hasOverlap, hasOverlap, List.any_eq_true, Bool.and_eq_true, beq_iff_eq,
    decide_eq_true_eq, ge_iff_le] <;>
  (constructor <;> (rintro ⟨x, hx, h⟩; exact ⟨x, hx, by omega⟩))

end BV
