/-
  Proofs/Tie_pickConfigFile.lean — the definition GENERATED from the Python source of
  `config._pick_config_filepath` (Gen/F_pickConfigFile.lean) equals the hand model `BV.pickConfigFile`
  (the C19 model `pick`) on EVERY project directory.

  The file system is a parameter `fs : ProjFS` (file name ↦ content, `none` = no such file):
  `path / "name"` is the name, `p.exists()` is `(fs p).isSome`, `with p.open(mode="rb") as f: f.read()`
  is the content (FileNotFoundError when absent — the tie shows it never happens: the `open` is
  guarded by `exists()`).  The two `for` loops with their early `return` are the structurally
  recursive `….loop1` / `….loop2`; both are `List.find?` over the candidate list (by induction).
  The candidate list and the fallback are literals of the function body; they are compared with the
  generated tables `Gen.configCandidates` / `Gen.configFallback` by `decide`.
-/
import BumpverVerif.Gen.F_pickConfigFile
import BumpverVerif.Proofs.TieConfigCommon
set_option linter.unusedSimpArgs false
namespace BV
open TieH

namespace TieH

theorem exists_worldOf (fs : ProjFS) (f : Str) : (worldOf fs).exists_ f = (fs f).isSome := by
  unfold World.exists_ worldOf
  rcases fs f with _ | (_ | ⟨c, t⟩)
  · rfl
  · rfl
  · simp only [classify]; split <;> rfl

theorem hasSection_worldOf (fs : ProjFS) (f : Str) (d : Str) (h : fs f = some d) :
    (worldOf fs f == FileState.hasSection) =
      ((isInfix "bumpver]".toList d || isInfix "pycalver]".toList d) && isInfix "current_version".toList d) := by
  unfold worldOf
  rw [h]
  rcases d with _ | ⟨c, t⟩
  · rfl
  · simp only [classify]
    generalize ((isInfix "bumpver]".toList (c :: t) || isInfix "pycalver]".toList (c :: t))
      && isInfix "current_version".toList (c :: t)) = b
    cases b <;> rfl

theorem hasSection_absent (fs : ProjFS) (f : Str) (h : fs f = none) :
    (worldOf fs f == FileState.hasSection) = false := by
  unfold worldOf; rw [h]; rfl

end TieH

/-- the second loop: the first existing candidate, else the fallback -/
theorem tie_pick_loop2 (fs : ProjFS) (p : Py.ProjDir) (cands l : List Str) :
    GenF.pickConfigFile.loop2 fs p cands l =
      .ok (match l.find? (fun f => (worldOf fs).exists_ f) with
           | some f => f
           | none => Gen.configFallback) := by
  induction l with
  | nil =>
    unfold GenF.pickConfigFile.loop2
    have : ∀ s : Str, s = Gen.configFallback → (Except.ok s : Except Str Str) = Except.ok Gen.configFallback :=
      fun s h => by rw [h]
    exact this _ (by decide)
  | cons f t ih =>
    unfold GenF.pickConfigFile.loop2
    simp only [List.find?_cons, exists_worldOf]
    cases (fs f).isSome
    · simp only [Bool.false_eq_true, if_false, ih, exists_worldOf]
    · simp only [if_true]

/-- the first loop: the first candidate that holds a section, else the second loop -/
theorem tie_pick_loop1 (fs : ProjFS) (p : Py.ProjDir) (cands l : List Str) :
    GenF.pickConfigFile.loop1 fs p cands l =
      match l.find? (fun f => worldOf fs f == .hasSection) with
      | some f => .ok f
      | none => GenF.pickConfigFile.loop2 fs p cands cands := by
  induction l with
  | nil => unfold GenF.pickConfigFile.loop1; rfl
  | cons f t ih =>
    unfold GenF.pickConfigFile.loop1
    simp only [List.find?_cons]
    rcases h : fs f with _ | d
    · simp only [Option.isSome_none, Bool.false_eq_true, if_false, ih, hasSection_absent fs f h]
    · simp only [Option.isSome_some, if_true, hasSection_worldOf fs f d h]
      -- the three byte markers are atoms: whatever Boolean combination the source writes is compared by cases
      generalize isInfix "bumpver]".toList d = b1
      generalize isInfix "pycalver]".toList d = b2
      generalize isInfix "current_version".toList d = b3
      cases b1 <;> cases b2 <;> cases b3 <;>
        simp only [Bool.or_false, Bool.or_true, Bool.and_false, Bool.and_true, Bool.or_self, Bool.and_self,
          Bool.false_or, Bool.true_or, Bool.false_and, Bool.true_and, Bool.false_eq_true, if_false, if_true, ih]

theorem tie_pickConfigFile (fs : ProjFS) (p : Py.ProjDir) :
    GenF.pickConfigFile fs p = .ok (pickConfigFile (worldOf fs)) := by
  unfold GenF.pickConfigFile pickConfigFile
  simp only [tie_pick_loop1, tie_pick_loop2]
  have hc : ∀ l : List Str, l = Gen.configCandidates →
      (match l.find? (fun f => worldOf fs f == FileState.hasSection) with
        | some f => (Except.ok f : Except Str Str)
        | none => Except.ok (match l.find? (fun f => (worldOf fs).exists_ f) with
            | some f => f
            | none => Gen.configFallback)) =
      Except.ok (match Gen.configCandidates.find? (fun f => worldOf fs f == FileState.hasSection) with
        | some f => f
        | none => match Gen.configCandidates.find? (fun f => (worldOf fs).exists_ f) with
            | some f => f
            | none => Gen.configFallback) := by
    intro l hl
    subst hl
    cases Gen.configCandidates.find? (fun f => worldOf fs f == FileState.hasSection) <;> rfl
  exact hc _ (by decide)

end BV
