/-
  Proofs/Tie_assertNotDirty.lean — `VCSAPI.status(required_files)` and `vcs.assert_not_dirty(vcs_api,
  filepaths, allow_dirty)`, GENERATED from the Python AST (Gen/F_apiStatus.lean, Gen/F_assertNotDirty.lean),
  against the hand model `BV.statusParse` / `BV.assertNotDirty` (Model/Vcs.lean), which decides property C11.

    tie_apiStatus        one `status` invocation; its output, read by the generated comprehension pipeline
                         (splitlines → strip → drop blanks → split(None, 1) → unpack → filter), is exactly
                         `statusParse required (pySplitlines output)`; `none` = the unpacking ValueError
    tie_assertNotDirty   CalledProcessError when the invocation fails; otherwise `sys.exit(1)` iff the
                         model's verdict is `abort`, ValueError iff `crash`, and it returns iff `proceed`

  Trusted primitives (shared with the hand model): `pySplitlines`, `strip`, `isPySpace`; `pySplitWs1`
  (`str.split(None, 1)`) is new in Model/Eff.lean and is PROVED to agree with the model's `splitFirstWs`
  on stripped non-empty lines (`unpack2_pySplitWs1_strip`).  No hypotheses.
-/
import BumpverVerif.Gen.F_assertNotDirty
import BumpverVerif.Proofs.EffLemmas
set_option linter.unusedSimpArgs false
namespace BV
open GenE

theorem length_dropWhile_le' (p : Char → Bool) : ∀ l : List Char, (l.dropWhile p).length ≤ l.length
  | [] => Nat.le_refl _
  | c :: l => by
    by_cases hc : p c
    · simp only [List.dropWhile_cons, hc, if_true, List.length_cons]
      exact Nat.le_succ_of_le (length_dropWhile_le' p l)
    · simp [List.dropWhile_cons, hc]

theorem dropWhile_eq_self_of_append {p : Char → Bool} : ∀ {a t : List Char}, a ≠ [] →
    (a ++ t).dropWhile p = a ++ t → a.dropWhile p = a
  | [], _, h, _ => absurd rfl h
  | c :: a', t, _, h => by
    by_cases hc : p c
    · exfalso
      have hl := congrArg List.length h
      simp only [List.cons_append, List.dropWhile_cons, hc, if_true] at hl
      have := length_dropWhile_le' p (a' ++ t)
      simp only [List.length_cons] at hl
      omega
    · simp [List.dropWhile_cons, hc]

theorem dropWhile_idem (p : Char → Bool) (l : List Char) : (l.dropWhile p).dropWhile p = l.dropWhile p := by
  induction l with
  | nil => rfl
  | cons c l ih =>
    by_cases hc : p c
    · simp [List.dropWhile_cons, hc, ih]
    · simp [List.dropWhile_cons, hc]

/-- a stripped string does not start with white space -/
theorem strip_dropWhile (x : Str) : (strip x).dropWhile isPySpace = strip x := by
  unfold strip
  generalize hy : x.dropWhile isPySpace = y
  have hyy : y.dropWhile isPySpace = y := by rw [← hy]; exact dropWhile_idem _ _
  by_cases hne : (y.reverse.dropWhile isPySpace).reverse = []
  · rw [hne]; rfl
  · have hsplit : y = (y.reverse.dropWhile isPySpace).reverse ++ (y.reverse.takeWhile isPySpace).reverse := by
      have := List.takeWhile_append_dropWhile (p := isPySpace) (l := y.reverse)
      have h2 := congrArg List.reverse this
      simp only [List.reverse_append, List.reverse_reverse] at h2
      exact h2.symm
    exact dropWhile_eq_self_of_append hne (by rw [← hsplit]; exact hyy)

/-- on a stripped non-empty line, `a, b = line.split(None, 1)` is the model's `splitFirstWs` -/
theorem unpack2_pySplitWs1 (l : Str) (h1 : l.dropWhile isPySpace = l) (h2 : l ≠ []) :
    unpack2 (pySplitWs1 l) = splitFirstWs l := by
  unfold pySplitWs1 splitFirstWs
  simp only [h1]
  have : l.isEmpty = false := by cases l <;> simp_all
  simp only [this]
  by_cases hr : (List.dropWhile isPySpace (List.dropWhile (fun c => !isPySpace c) l)).isEmpty = true
  · simp [hr, unpack2]
  · simp [hr, unpack2]

/-- a pure `Option` result as an effect result: `none` raises `x` -/
def optRes {β : Type} (s : PState) (x : Stop) : Option β → PState × Except Stop β
  | some d => (s, .ok d)
  | none => (s, .error x)

theorem option_result_congr {α β : Type} (o1 : Option α) (f : α → β) (s : PState) (x : Stop) :
    (match o1 with | some a => (s, Except.ok (f a)) | none => (s, Except.error x)) = optRes s x (o1.map f) := by
  cases o1 <;> rfl

/-- the result of `VCSAPI.status` in terms of the hand model -/
def statusResult (e : EffEnv) (req : List Str) (s : PState) : PState × Except Stop (List Str) :=
  match vcsCall e.plan (.cmd "status") s with
  | (s', .failed) => (s', .error .called)
  | (s', .ok) => optRes s' .valueError (statusParse req (pySplitlines (e.output "status")))

/-- unconditional form (a blank line gives `[]`, which does not unpack) -/
theorem unpack2_pySplitWs1_strip (x : Str) :
    unpack2 (pySplitWs1 (strip x)) = if strip x = [] then none else splitFirstWs (strip x) := by
  by_cases h : strip x = []
  · simp [h, pySplitWs1, unpack2]
  · simp only [h, if_false]
    exact unpack2_pySplitWs1 _ (strip_dropWhile x) h

theorem Eff.bind_ofOption {α β : Type} (x : Stop) (o : Option α) (f : α → Eff β) :
    Eff.bind (Eff.ofOption x o) f = fun e s => (match o with | some a => f a e s | none => (s, .error x)) := by
  cases o <;> rfl

theorem tie_apiStatus (e : EffEnv) (s : PState) (api : VcsApi) (req : List Str) :
    apiStatus api req e s = statusResult e req s := by
  unfold apiStatus statusResult
  simp only [Eff.bind_ofOption]
  eff_simp
  eff_step; eff_step <;> eff_simp
  rw [option_result_congr]
  congr 1
  generalize pySplitlines (e.output "status") = lines
  induction lines with
  | nil => simp [unpackAll, statusParse]
  | cons l ls ih =>
    simp only [statusParse, ← ih]
    clear ih
    simp only [List.filterMap_cons, Function.comp_apply]
    generalize List.filterMap _ ls = items
    eff_simp [List.filterMap_cons, unpackAll, unpack2_pySplitWs1_strip, List.length_pos_iff]
    eff_auto [List.filterMap_cons, unpackAll, unpack2_pySplitWs1_strip, List.length_pos_iff]
    all_goals (generalize unpackAll items = u; cases u <;> simp [List.filterMap_cons, *])

theorem setInter_eq_nil (xs ys : List Str) : (setInter xs ys = []) = (xs.any (fun x => ys.contains x) = false) := by
  simp [setInter]

/-- the verdict of the hand model as an effect result -/
def dirtyResult (s : PState) : DirtyVerdict → PState × Except Stop Unit
  | .proceed => (s, .ok ())
  | .abort => (s, .error (.exit 1))
  | .crash => (s, .error .valueError)

theorem tie_assertNotDirty (e : EffEnv) (s : PState) (api : VcsApi) (filepaths : List Str) (allow : Bool) :
    GenE.assertNotDirty api filepaths allow e s =
      (match vcsCall e.plan (.cmd "status") s with
       | (s', .failed) => (s', .error .called)
       | (s', .ok) => dirtyResult s' (BV.assertNotDirty (pySplitlines (e.output "status")) filepaths allow)) := by
  have hS := fun req s => tie_apiStatus e s api req
  unfold GenE.assertNotDirty BV.assertNotDirty
  eff_simp [statusResult, optRes, dirtyResult, setInter_eq_nil]
  eff_auto [statusResult, optRes, dirtyResult, setInter_eq_nil]

end BV
