/-
  Proofs/Tie_pepParseLocalVersion.lean — the definition GENERATED from the Python source of
  `setuptools_v65_version._parse_local_version` (Gen/F_pepParseLocalVersion.lean, harness/translate_pepversion.py)
  against the reference `localOf` of Model/PepGroups.lean and against the way the hand model
  (Model/Pep440.lean, `localSeg`) reads a local version.

  * `tie_pepParseLocalVersion`       : for EVERY optional text, generated = `Option.map localOf`
       (`localOf s = (splitSeps [] s).map localPartOf`: split at `.`, `_`, `-`; a part that is a non-empty digit
       string becomes its number, any other part is lower-cased);
  * `tie_pepParseLocalVersion_model` : on a text the model's `localSeg` accepts (after `+`, already lower-cased —
       the model lower-cases the whole version first), the generated function returns exactly the model's parts.
  The character class of `_local_version_separators` is read from the source (`splitAny ['.', '_', '-']`);
  `splitAny_seps` proves that it is the model's `splitSeps`.
-/
import BumpverVerif.Gen.F_pepParseLocalVersion
import BumpverVerif.Model.PepGroups
import BumpverVerif.Proofs.Pep440Lemmas
namespace BV
namespace TieQ

/-- closes `∀ c, seps.elem c = isSep c` for a literal list `seps` (the three separators in any order, with repetitions) -/
macro "seps_elem" : tactic =>
  `(tactic| (intro c; simp only [List.elem, isSep];
             cases h1 : c == '.' <;> cases h2 : c == '_' <;> cases h3 : c == '-' <;> rfl))

theorem elem_seps : ∀ c : Char, (['.', '_', '-'] : List Char).elem c = isSep c := by seps_elem

theorem splitAnyGo_seps (seps : List Char) (h : ∀ c, seps.elem c = isSep c) (cur s : Str) :
    splitAnyGo seps cur s = splitSeps cur s := by
  induction s generalizing cur with
  | nil => rfl
  | cons c cs ih => simp only [splitAnyGo, splitSeps, h, ih]

/-- the separators read from the Python regex literal are the model's `isSep` -/
theorem splitAny_seps (s : Str) : splitAny ['.', '_', '-'] s = splitSeps [] s :=
  splitAnyGo_seps _ elem_seps [] s

theorem lowerStr_of_localChars (p : Str) (h : p.all isLocalChar = true) : lowerStr p = p := by
  apply lowerStr_of_canon
  rw [List.all_eq_true] at h ⊢
  intro c hc
  exact isCanon_of_localChar c (h c hc)

end TieQ

/-- generated `_parse_local_version` = the reference, for every argument -/
theorem tie_pepParseLocalVersion (loc : Option Str) :
    GenQ.pepParseLocalVersion loc = loc.map localOf := by
  cases loc with
  | none => rfl
  | some s =>
    simp only [GenQ.pepParseLocalVersion, Option.map_some, localOf, Option.some.injEq]
    -- the character class is whatever the source says; it must denote the model's three separators
    rw [show splitAny _ s = splitSeps [] s from TieQ.splitAnyGo_seps _ (by seps_elem) [] s]
    apply List.map_congr_left
    intro p _
    first
      | (simp only [localPartOf]; done)
      | (simp only [localPartOf]; cases isDigitStr p <;> rfl)

/-- a part of lower-case text: the reference's part is the model's part -/
theorem TieQ.localPartOf_lower (p : Str) (h : lowerStr p = p) : localPartOf p = parseLocalPart p := by
  simp only [localPartOf, parseLocalPart, h]

/-- On a text the model's `localSeg` accepts after `+` (lower-case letters and digits between the separators: the
    model lower-cases the whole version before anything else) the generated function returns the model's parts. -/
theorem tie_pepParseLocalVersion_model (text : Str) (parts : List LocalSeg)
    (h : localSeg ('+' :: text) = some (some parts)) :
    GenQ.pepParseLocalVersion (some text) = some parts := by
  rw [tie_pepParseLocalVersion]
  simp only [localSeg] at h
  split at h
  · next hall =>
    simp only [Option.some.injEq] at h
    subst h
    simp only [Option.map_some, localOf, Option.some.injEq]
    apply List.map_congr_left
    intro p hp
    apply TieQ.localPartOf_lower
    rw [List.all_eq_true] at hall
    have := hall p hp
    simp only [Bool.and_eq_true] at this
    exact TieQ.lowerStr_of_localChars p this.2
  · cases h

/-- non-vacuity -/
example : GenQ.pepParseLocalVersion (some "Ubuntu-01_x".toList) = some [.str "ubuntu".toList, .num 1, .str "x".toList] := by
  decide

end BV
