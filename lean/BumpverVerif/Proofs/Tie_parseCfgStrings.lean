/-
  Proofs/Tie_parseCfgStrings.lean — the definition GENERATED from the Python source of
  `config._parse_cfg_strings` (Gen/F_parseCfgStrings.lean) equals the hand model
  `BV.parseCfgStrings` on all inputs; the generated definition also returns the raw dict after
  the in-place `raw_cfg[key] = raw_cfg[key].strip(...)`, which the hand model leaves implicit
  (`stripOpt`, Proofs/TieConfigCommon.lean, says what it is).

  Errors: the generated definition answers the Python exception CLASS (`Except Str _`), the hand
  model a `CfgErr`; `CfgErr.pyClass` (Model/Config.lean) is the abstraction.  In particular the
  pseudo class `!cast` (Model/ConfigPy.lean: a value used as `str` on the strength of the
  annotation `-> str`) never occurs.
-/
import BumpverVerif.Gen.F_parseCfgStrings
import BumpverVerif.Proofs.TieConfigCommon
namespace BV
open TieH

theorem tie_parseCfgStrings (raw : TomlSection) (key dflt : Str) :
    GenF.parseCfgStrings raw key dflt =
      ((parseCfgStrings key dflt raw.opts).mapError CfgErr.pyClass).map (fun s => (stripOpt key raw, s)) := by
  unfold GenF.parseCfgStrings parseCfgStrings stripOpt
  cases h : lookup key raw.opts with
  | none => simp [h, Py.castStr, Except.map, Except.mapError]
  | some v =>
    cases v <;>
      simp [Py.strOf, Py.castStr, lookup_setOpt, stripQuotes, Except.map, Except.mapError, pyClass_notAString]

end BV
