/-
  Proofs/Tie_convertToPep440.lean — the definition GENERATED from the Python source of
  `v2patterns._convert_to_pep440` (Gen/F_convertToPep440.lean) against the hand model
  `BV.convertToPep440With` (Model/V2Patterns.lean).

  `tie_convertToPep440` is EXACT: generated = `none` where Python raises IndexError (`pep440IndexError`: an
  iteration in which a numerical part with a substitution is not found in the pattern converted so far —
  `find` = -1, so `pattern[part_index - 1]` is `pattern[-2]` — while that pattern has fewer than two
  characters), otherwise `some` of the model's value (the model reads "no character" there: this is the one
  place where hand model and Python differ; the witness at the end of the file needs other tables).
  `pep440IndexError_false`: no exception when the stripped pattern has ≥ 2 characters and every substitution
  text has ≥ 2.  `gen_pep440IndexError_false` / `tie_convertToPep440_gen_total`: over the GENERATED tables
  Python never raises, on any input, and generated = `some (convertToPep440 vp)`.
  Hypothesis `hne`: no key of PATTERN_PART_FIELDS is "" (Python's `replace("", x)` inserts `x` everywhere).
-/
import BumpverVerif.Gen.F_convertToPep440
import BumpverVerif.Proofs.Tie_patternsPrims
import BumpverVerif.Proofs.Tie_patternsSort
set_option linter.unusedSimpArgs false
namespace BV
open PyP

/-! ### the pieces before and after the loop -/

/-- `re.subn(r"[^a-zA-Z0-9\.\!\[\]]", "", s)` as translated (class semantics of Model/Regex.lean) is the
    model's `keepPep440Chars` -/
theorem subnDeleteCls_pep440 (s : Str) :
    (subnDeleteCls true [ClsItem.range 'a' 'z', ClsItem.range 'A' 'Z', ClsItem.range '0' '9', ClsItem.ch '.',
      ClsItem.ch '!', ClsItem.ch '[', ClsItem.ch ']'] s).1 = keepPep440Chars s := by
  simp only [subnDeleteCls, keepPep440Chars]
  congr 1
  funext c
  simp only [List.any_cons, List.any_nil, ClsItem.matches, isAlnum, isAlpha, isLower, isUpper, isDigit,
    Bool.or_false, bne_iff_ne, ne_eq, Bool.not_eq_true, Bool.or_assoc]
  cases h : ('a' ≤ c && c ≤ 'z' || ('A' ≤ c && c ≤ 'Z' || ('0' ≤ c && c ≤ '9' ||
    (c == '.' || (c == '!' || (c == '[' || c == ']')))))) <;> simp [h]

theorem insertSortedBy_len (x : Str) : ∀ l : List Str,
    insertSortedBy (fun a b => decide (List.length a > List.length b)) x l = insertByLenDesc x l
  | [] => rfl
  | y :: ys => by
    simp only [insertSortedBy, insertByLenDesc, insertSortedBy_len x ys, decide_eq_true_eq]

/-- `part_names.sort(key=len, reverse=True)` as translated is the model's `sortByLenDesc` -/
theorem sortByKeyDesc_len (l : List Str) : sortByKeyDesc List.length l = sortByLenDesc l := by
  unfold sortByKeyDesc sortByLenDesc
  congr 1
  funext acc x
  exact insertSortedBy_len x acc

/-! ### the substitution loop -/

/-- the model's loop step (the body of the `foldl` in `convertToPep440With`, verbatim) -/
def pepStep (subst : List (Str × Str)) (versionPattern : Str) (acc : Str) (name : Str) : Str :=
  if !isInfix name versionPattern then acc
  else match lookup name subst with
    | none => acc
    | some sub =>
      if isInfix sub acc then acc
      else if name != "TAG".toList && name != "PYTAG".toList then
        match findIdx name acc with
        | none =>
          let ch := if acc.length ≥ 2 then acc[acc.length - 2]? else none
          if ch == some '.' then replaceAll name sub acc else acc
        | some i =>
          if i == 0 || acc[i - 1]? == some '.' then replaceAll name sub acc else acc
      else replaceAll name sub acc

/-- the part of the conversion before the loop -/
def pep440Stripped (versionPattern : Str) : Str :=
  keepPep440Chars (replaceAll "\\]".toList [] (replaceAll "\\[".toList []
    (if startsWith versionPattern ['v'] then versionPattern.drop 1 else versionPattern)))

/-- the part of the conversion after the loop -/
def pep440Tail (p4 : Str) : Str :=
  if !isInfix "PYTAGNUM".toList p4 then
    replaceAll "[]".toList [] (replaceAll "NUM".toList [] (replaceAll "PYTAG".toList [] p4)) ++ "[PYTAGNUM]".toList
  else p4

theorem convertToPep440With_eq (partFields subst : List (Str × Str)) (vp : Str) :
    convertToPep440With partFields subst vp =
      pep440Tail ((sortByLenDesc (partFields.map (·.1))).foldl (pepStep subst vp) (pep440Stripped vp)) := rfl

/-- Python raises IndexError in this iteration: a numerical part that has a substitution, occurs in the
    version pattern but NOT in the pattern converted so far (`find` = -1, so `pattern[-2]` is read), and the
    converted pattern has fewer than two characters.  The model reads "no character" there. -/
def pepStepRaises (subst : List (Str × Str)) (versionPattern : Str) (acc : Str) (name : Str) : Bool :=
  isInfix name versionPattern &&
    match lookup name subst with
    | none => false
    | some sub =>
      !isInfix sub acc && (name != "TAG".toList && name != "PYTAG".toList) &&
        (findIdx name acc).isNone && decide (acc.length < 2)

/-- `_convert_to_pep440(version_pattern)` raises IndexError -/
def pep440IndexError (partFields subst : List (Str × Str)) (vp : Str) : Bool :=
  raisesAlong (pepStepRaises subst vp) (pepStep subst vp) (sortByLenDesc (partFields.map (·.1))) (pep440Stripped vp)

theorem elem_two (x a b : Str) : List.elem x [a, b] = !(x != a && x != b) := by
  by_cases h1 : x = a <;> by_cases h2 : x = b <;> simp [h1, h2]

/-- one iteration of the generated loop, exactly: `none` where Python raises IndexError, otherwise the
    model's step -/
theorem pepStep_gen (subst : List (Str × Str)) (vp acc name : Str) (hne : name ≠ []) :
    (if (!isInfix name vp) then some acc else
      if (!(lookup name subst).isSome) then some acc else
        match lookup name subst with
        | none => none
        | some sub =>
          if isInfix sub acc then some acc else
            if (!List.elem name ["TAG".toList, "PYTAG".toList]) then
              match (if (PyP.find acc name 0 == 0) then some true else
                      match PyP.getItem acc (PyP.find acc name 0 - 1) with
                      | none => none
                      | some c => some (c == ".".toList)) with
              | none => none
              | some b => some (if b then PyP.replace name sub acc else acc)
            else some (PyP.replace name sub acc))
    = if pepStepRaises subst vp acc name then none else some (pepStep subst vp acc name) := by
  unfold pepStepRaises pepStep
  by_cases h1 : isInfix name vp = true
  · cases h2 : lookup name subst with
    | none => simp [h1]
    | some sub =>
      by_cases h3 : isInfix sub acc = true
      · simp [h1, h3]
      · rw [elem_two]
        cases h4 : (name != "TAG".toList && name != "PYTAG".toList) with
        | false =>
          simp only [h1, h3, Bool.not_true, Bool.false_eq_true, if_false, Option.isSome_some,
            Bool.not_false, replace_of_ne _ _ _ hne, Bool.and_false, Bool.false_and, Bool.true_and]
        | true =>
          simp only [h1, h3, Bool.not_true, Bool.false_eq_true, if_false, Option.isSome_some,
            Bool.not_false, if_true, Bool.true_and, replace_of_ne _ _ _ hne]
          cases h5 : findIdx name acc with
          | none =>
            have hm1 : ¬ ((-1 : Int) == 0) = true := by decide
            simp only [find_zero_none acc name h5, hm1, if_false, getItem_neg_two, Option.isNone_none,
              Bool.true_and, decide_eq_true_eq]
            by_cases h6 : acc.length < 2
            · simp [h6]
            · have h6' : acc.length ≥ 2 := by omega
              have hlt : acc.length - 2 < acc.length := by omega
              simp only [h6, if_false, h6', if_true, List.getElem?_eq_getElem hlt, Option.map_some]
              by_cases h7 : acc[acc.length - 2] = '.'
              · simp [h7]
              · have : ¬ ([acc[acc.length - 2]] == ".".toList) = true := by simpa using h7
                simp [h7, this]
          | some i =>
            simp only [find_zero_some acc name i hne h5, Option.isNone_some, Bool.false_and,
              Bool.false_eq_true, if_false]
            cases i with
            | zero => simp
            | succ k =>
              have hk : k < acc.length := by have := findIdx_le h5; omega
              have e3 : ¬ (((k + 1 : Nat) : Int) == 0) = true := by simp; omega
              have e4 : ((k + 1 : Nat) : Int) - 1 = (k : Int) := by omega
              simp only [e3, if_false, e4, getItem_natCast, List.getElem?_eq_getElem hk, Option.map_some]
              have e5 : acc[k]? = some acc[k] := List.getElem?_eq_getElem hk
              by_cases h7 : acc[k] = '.'
              · simp [h7, e5]
              · have : ¬ ([acc[k]] == ".".toList) = true := by simpa using h7
                simp [h7, this, e5]
  · simp [h1]

theorem mem_sortByLenDesc (l : List Str) (x : Str) (h : x ∈ sortByLenDesc l) : x ∈ l := by
  rw [← sortByKeyDesc_len] at h
  unfold sortByKeyDesc at h
  have gen : ∀ (l acc : List Str), x ∈ l.foldl (fun acc x =>
      insertSortedBy (fun a b => decide (List.length a > List.length b)) x acc) acc → x ∈ acc ∨ x ∈ l := by
    intro l
    induction l with
    | nil => intro acc h; exact Or.inl h
    | cons y ys ih =>
      intro acc h
      rcases ih _ h with r | r
      · rcases (mem_insertSortedBy _ y acc x).mp r with r | r
        · exact Or.inr (by simp [r])
        · exact Or.inl r
      · exact Or.inr (List.mem_cons_of_mem _ r)
  rcases gen l [] h with r | r
  · simp at r
  · exact r

/-- `_convert_to_pep440` generated from the source, EXACTLY: `none` where Python raises IndexError
    (`pep440IndexError`), otherwise the model's result.
    Hypothesis `hne` (decidable, true of the generated table): no key of PATTERN_PART_FIELDS is the empty
    string — for the key "" Python's `str.replace("", …)` inserts the substitution between all characters,
    the model's `replaceAll` leaves the string unchanged. -/
theorem tie_convertToPep440 (partFields subst : List (Str × Str)) (vp : Str)
    (hne : ∀ pf ∈ partFields, pf.1 ≠ []) :
    GenF.convertToPep440 partFields subst vp =
      if pep440IndexError partFields subst vp then none else some (convertToPep440With partFields subst vp) := by
  have hmodel : convertToPep440With partFields subst vp =
      pep440Tail ((sortByLenDesc (partFields.map Prod.fst)).foldl (pepStep subst vp) (pep440Stripped vp)) := rfl
  have hraise : pep440IndexError partFields subst vp =
      raisesAlong (pepStepRaises subst vp) (pepStep subst vp) (sortByLenDesc (partFields.map Prod.fst))
        (pep440Stripped vp) := rfl
  have hnames : ∀ name ∈ sortByLenDesc (partFields.map Prod.fst), name ≠ [] := by
    intro name hn
    have := mem_sortByLenDesc _ _ hn
    simp only [List.mem_map] at this
    obtain ⟨pf, hpf, rfl⟩ := this
    exact hne pf hpf
  have hloop : ∀ B : Str → Str → Option Str,
      (∀ name ∈ sortByLenDesc (partFields.map Prod.fst), ∀ acc, B acc name =
        if pepStepRaises subst vp acc name then none else some (pepStep subst vp acc name)) →
      forM B (sortByLenDesc (partFields.map Prod.fst)) (pep440Stripped vp) =
        if raisesAlong (pepStepRaises subst vp) (pepStep subst vp) (sortByLenDesc (partFields.map Prod.fst))
            (pep440Stripped vp) then none
        else some ((sortByLenDesc (partFields.map Prod.fst)).foldl (pepStep subst vp) (pep440Stripped vp)) :=
    fun B hB => forM_raises B _ _ _ hB _
  have hstrip : (subnDeleteCls true [ClsItem.range 'a' 'z', ClsItem.range 'A' 'Z', ClsItem.range '0' '9',
        ClsItem.ch '.', ClsItem.ch '!', ClsItem.ch '[', ClsItem.ch ']']
      (replaceAll "\\]".toList "".toList (replaceAll "\\[".toList "".toList
        (if startsWith vp "v".toList then sliceFrom vp 1 else vp)))).1 = pep440Stripped vp := by
    rw [subnDeleteCls_pep440, sliceFrom_one]; rfl
  rw [hmodel, hraise]
  simp only [GenF.convertToPep440, sortByKeyDesc_len]
  rw [hstrip]
  rw [hloop _ ?_]
  · by_cases hr : raisesAlong (pepStepRaises subst vp) (pepStep subst vp)
        (sortByLenDesc (partFields.map Prod.fst)) (pep440Stripped vp) = true
    · simp only [hr, if_true]
    · simp only [hr, Bool.false_eq_true, if_false, pep440Tail]
      rfl
  · intro name hn acc
    have := pepStep_gen subst vp acc name (hnames name hn)
    first
    | exact this
    | (simp only [ite_bnot, ite_bor, ite_band, Bool.not_not] at this ⊢
       exact this)

/-! ### when Python does not raise -/

theorem lookup_mem_pep {α : Type} (k : Str) (v : α) : ∀ (l : List (Str × α)), lookup k l = some v → (k, v) ∈ l
  | [], h => by simp [lookup] at h
  | (k', v') :: rest, h => by
    simp only [lookup] at h
    split at h
    · rename_i hk
      simp only [Option.some.injEq] at h
      subst hk; subst h
      exact List.mem_cons_self
    · exact List.mem_cons_of_mem _ (lookup_mem_pep k v rest h)

theorem replaceAllF_ne_nil (pat rep : Str) (hrep : rep ≠ []) : ∀ (f : Nat) (s : Str), s ≠ [] →
    replaceAllF f pat rep s ≠ []
  | 0, s, hs => by simpa [replaceAllF] using hs
  | f + 1, [], hs => absurd rfl hs
  | f + 1, c :: cs, _ => by
    simp only [replaceAllF]
    split
    · simp
    · split
      · simp [hrep]
      · simp

theorem replaceAllF_len2 (pat rep : Str) (hrep : 2 ≤ rep.length) : ∀ (f : Nat) (s : Str), 2 ≤ s.length →
    2 ≤ (replaceAllF f pat rep s).length
  | 0, s, hs => by simpa [replaceAllF] using hs
  | f + 1, [], hs => by simp at hs
  | f + 1, c :: cs, hs => by
    simp only [replaceAllF]
    split
    · exact hs
    · split
      · simp only [List.length_append]; omega
      · have hcs : cs ≠ [] := by
          intro e; subst e; simp at hs
        have hrep' : rep ≠ [] := by intro e; subst e; simp at hrep
        have := replaceAllF_ne_nil pat rep hrep' f cs hcs
        have : 1 ≤ (replaceAllF f pat rep cs).length := by
          cases h : replaceAllF f pat rep cs with
          | nil => exact absurd h this
          | cons _ _ => simp
        simp only [List.length_cons]; omega

/-- the converted pattern keeps at least two characters when every substitution has at least two -/
theorem pepStep_len2 (subst : List (Str × Str)) (vp acc name : Str)
    (hsub : ∀ s ∈ subst, 2 ≤ s.2.length) (hacc : 2 ≤ acc.length) : 2 ≤ (pepStep subst vp acc name).length := by
  unfold pepStep
  split
  · exact hacc
  · split
    · exact hacc
    · rename_i sub hl
      have hs : 2 ≤ sub.length := hsub _ (lookup_mem_pep name sub subst hl)
      have hr : 2 ≤ (replaceAll name sub acc).length := replaceAllF_len2 name sub hs _ acc hacc
      repeat' split
      all_goals (try dsimp only)
      all_goals (repeat' split)
      all_goals first | exact hacc | exact hr

/-- SUFFICIENT for "no IndexError": the version pattern keeps at least two characters after stripping and
    every substitution text has at least two characters (true of PEP440_PART_SUBSTITUTIONS) -/
theorem pep440IndexError_false (partFields subst : List (Str × Str)) (vp : Str)
    (hsub : ∀ s ∈ subst, 2 ≤ s.2.length) (hlen : 2 ≤ (pep440Stripped vp).length) :
    pep440IndexError partFields subst vp = false := by
  unfold pep440IndexError
  refine raisesAlong_false _ _ (fun acc => 2 ≤ acc.length) _ ?_ ?_ _ hlen
  · intro name _ acc hacc
    unfold pepStepRaises
    have : ¬ acc.length < 2 := by omega
    cases lookup name subst <;> simp [this]
  · intro name _ acc hacc
    exact pepStep_len2 subst vp acc name hsub hacc

/-! ### over the generated tables -/

theorem genPartFields_ne : ∀ pf ∈ Gen.partFields, pf.1 ≠ [] := by decide

theorem genSubst_len2 : ∀ s ∈ Gen.pep440PartSubstitutions, 2 ≤ s.2.length := by decide

/-- `_convert_to_pep440` over the generated tables, exactly -/
theorem tie_convertToPep440_gen (vp : Str) :
    GenF.convertToPep440 Gen.partFields Gen.pep440PartSubstitutions vp =
      if pep440IndexError Gen.partFields Gen.pep440PartSubstitutions vp then none
      else some (convertToPep440 vp) :=
  tie_convertToPep440 _ _ vp genPartFields_ne

/-- … and it IS the model's `convertToPep440` (no exception) for every version pattern that keeps at least
    two characters after stripping (`v` prefix, escaped brackets, characters outside `[a-zA-Z0-9.!\[\]]`) -/
theorem tie_convertToPep440_gen_some (vp : Str) (hlen : 2 ≤ (pep440Stripped vp).length) :
    GenF.convertToPep440 Gen.partFields Gen.pep440PartSubstitutions vp = some (convertToPep440 vp) := by
  rw [tie_convertToPep440_gen, pep440IndexError_false _ _ vp genSubst_len2 hlen]
  rfl

/-- whenever Python returns at all, it returns the model's value -/
theorem tie_convertToPep440_gen_partial (vp r : Str)
    (h : GenF.convertToPep440 Gen.partFields Gen.pep440PartSubstitutions vp = some r) : r = convertToPep440 vp := by
  rw [tie_convertToPep440_gen] at h
  split at h
  · cases h
  · exact (Option.some.inj h).symm

/-! ### with the generated tables Python never raises: a part that has a substitution consists of at least
    two letters/digits other than `v`, and stripping keeps those -/

/-- number of letters/digits other than `v` -/
def cntA (s : Str) : Nat := (s.filter (fun c => isAlnum c && c != 'v')).length

theorem replaceAllF_nil_filter (pat : Str) (p : Char → Bool) (hp : ∀ c ∈ pat, p c = false) :
    ∀ (f : Nat) (s : Str), (replaceAllF f pat [] s).filter p = s.filter p
  | 0, s => by simp [replaceAllF]
  | f + 1, [] => by simp [replaceAllF]
  | f + 1, c :: cs => by
    simp only [replaceAllF]
    split
    · rfl
    · split
      · rename_i hpre
        obtain ⟨rest, hrest⟩ := List.isPrefixOf_iff_prefix.mp hpre
        rw [List.nil_append, replaceAllF_nil_filter pat p hp f, ← hrest, List.drop_left, List.filter_append]
        have : pat.filter p = [] := by
          rw [List.filter_eq_nil_iff]; intro a ha; simp [hp a ha]
        rw [this, List.nil_append]
      · simp only [List.filter_cons, replaceAllF_nil_filter pat p hp f cs]

theorem cntA_stripped (vp : Str) : cntA (pep440Stripped vp) = cntA vp := by
  unfold cntA pep440Stripped keepPep440Chars replaceAll
  rw [List.filter_filter]
  have e : (fun c => (isAlnum c && c != 'v') && (isAlnum c || c == '.' || c == '!' || c == '[' || c == ']'))
      = (fun c => isAlnum c && c != 'v') := by
    funext c; cases isAlnum c <;> simp
  rw [e, replaceAllF_nil_filter _ _ (by decide), replaceAllF_nil_filter _ _ (by decide)]
  split
  · rename_i hv
    cases vp with
    | nil => rfl
    | cons c cs =>
      have : c = 'v' := by have := hv; simp [startsWith] at this; exact this.symm
      subst this
      simp [isAlnum]
  · rfl

theorem cntA_infix (name vp : Str) (h : isInfix name vp = true) : cntA name ≤ cntA vp := by
  simp only [isInfix, Option.isSome_iff_exists] at h
  obtain ⟨i, hi⟩ := h
  obtain ⟨rest, hrest⟩ := List.isPrefixOf_iff_prefix.mp (findIdx_some_prefix hi)
  have : vp = vp.take i ++ (name ++ rest) := by rw [hrest, List.take_append_drop]
  unfold cntA
  rw [this, List.filter_append, List.filter_append]
  simp only [List.length_append]
  omega

theorem genSubst_keys_cnt : ∀ s ∈ Gen.pep440PartSubstitutions, 2 ≤ cntA s.1 := by decide

/-- over the generated tables `_convert_to_pep440` never raises IndexError, whatever the version pattern -/
theorem gen_pep440IndexError_false (vp : Str) :
    pep440IndexError Gen.partFields Gen.pep440PartSubstitutions vp = false := by
  by_cases hlen : 2 ≤ (pep440Stripped vp).length
  · exact pep440IndexError_false _ _ vp genSubst_len2 hlen
  · unfold pep440IndexError
    refine raisesAlong_false _ _ (fun _ => True) _ ?_ (fun _ _ _ _ => trivial) _ trivial
    intro name _ acc _
    unfold pepStepRaises
    by_cases h1 : isInfix name vp = true
    · cases h2 : lookup name Gen.pep440PartSubstitutions with
      | none => simp
      | some sub =>
        exfalso
        have hk := genSubst_keys_cnt _ (lookup_mem_pep name sub _ h2)
        have h3 := cntA_infix name vp h1
        have h4 := cntA_stripped vp
        have h5 : cntA (pep440Stripped vp) ≤ (pep440Stripped vp).length := List.length_filter_le _ _
        simp only at hk
        omega
    · simp [h1]

/-- `_convert_to_pep440` generated from the source, over the generated tables, IS the model's
    `convertToPep440` — on EVERY version pattern (in particular Python never raises) -/
theorem tie_convertToPep440_gen_total (vp : Str) :
    GenF.convertToPep440 Gen.partFields Gen.pep440PartSubstitutions vp = some (convertToPep440 vp) := by
  rw [tie_convertToPep440_gen, gen_pep440IndexError_false]
  rfl

/-- the IndexError is real for OTHER tables (model ≠ Python): with PATTERN_PART_FIELDS = {"abc", "bc"} and
    substitutions abc→x, bc→yy the version pattern "abc" becomes "x", then `"x".find("bc") = -1` and
    `"x"[-2]` raises; the model goes on and answers "x[PYTAGNUM]" -/
example : GenF.convertToPep440 [("abc".toList, "f".toList), ("bc".toList, "g".toList)]
    [("abc".toList, "x".toList), ("bc".toList, "yy".toList)] "abc".toList = none := by decide
example : convertToPep440With [("abc".toList, "f".toList), ("bc".toList, "g".toList)]
    [("abc".toList, "x".toList), ("bc".toList, "yy".toList)] "abc".toList = "x[PYTAGNUM]".toList := by decide

end BV
