/-
  Proofs/Tie_rewriteSource.lean — how the ties of the rewrite path are USED: the property theorems of
  C03, C04, C06, C13 (proved about the hand model) transported along the ties to the definitions GENERATED
  from the Python source.  Nothing new is proved about the model here; every statement is about
  `GenF.rewriteLines` / `GenF.rfdFromContent` / `GenF.rewriteFiles` / `GenF.diff`.
-/
import BumpverVerif.Props.C03
import BumpverVerif.Props.C04
import BumpverVerif.Props.C06
import BumpverVerif.Props.C13
import BumpverVerif.Proofs.Tie_rewriteFiles
import BumpverVerif.Proofs.Tie_diff
namespace BV

open GenF (PatternMatch Pattern RewrittenFileData)

/-- the hypothesis `Pattern.Wf` is satisfiable for every raw pattern inside the model's regex fragment -/
theorem GenF.Pattern.wf_of_compile (vp raw : Str) (r : Re) (h : compileRe raw = some r) :
    ({ version_pattern := vp, raw_pattern := raw, regexp := r } : Pattern).Wf := h

/-- C03 on the generated code: after a successful `rewrite_lines` every match `iter_matches` yields shows the
    new version, rendered through its own pattern, at its shifted position in the new line -/
theorem src_C03_every_occurrence (patterns : List Pattern) (v : VInfo) (old new : List Str)
    (hwf : ∀ p ∈ patterns, p.Wf) (h : GenF.rewriteLines patterns v old = .ok new)
    (m : PatternMatch) (hm : m ∈ GenF.iterMatches old patterns) :
    ∃ newLine, new[m.lineno]? = some newLine ∧
      (newLine.drop (shiftedStart v ((GenF.iterMatches old patterns).map PatternMatch.abs) m.abs).toNat).take
        (replOf v m.abs).length = replOf v m.abs := by
  rw [tie_rewriteLines _ _ _ hwf] at h
  exact C03_every_occurrence _ v old new _ (tie_iterMatches old patterns hwf) h m.abs (List.mem_map_of_mem hm)

/-- C03: success means every configured pattern (the very object, regex included) has a match -/
theorem src_C03_all_patterns_found (patterns : List Pattern) (v : VInfo) (old new : List Str)
    (hwf : ∀ p ∈ patterns, p.Wf) (h : GenF.rewriteLines patterns v old = .ok new) :
    ∀ p ∈ patterns, ∃ m ∈ GenF.iterMatches old patterns, m.pattern = p := by
  intro p hp
  rw [tie_rewriteLines _ _ _ hwf] at h
  obtain ⟨m', hm', e⟩ := C03_all_patterns_found _ v old new _ (tie_iterMatches old patterns hwf) h p.abs
    (List.mem_map_of_mem hp)
  obtain ⟨m, hm, rfl⟩ := List.mem_map.1 hm'
  exact ⟨m, hm, GenF.Pattern.abs_inj (hwf _ (iterMatches_pattern_mem old patterns m hm)) (hwf p hp) e⟩

/-- C04 on the generated code: the number of lines never changes … -/
theorem src_C04_line_count (patterns : List Pattern) (v : VInfo) (old new : List Str)
    (hwf : ∀ p ∈ patterns, p.Wf) (h : GenF.rewriteLines patterns v old = .ok new) : new.length = old.length := by
  rw [tie_rewriteLines _ _ _ hwf] at h
  exact C04_line_count _ v old new h

/-- … lines without a match are untouched … -/
theorem src_C04_unmatched_lines (patterns : List Pattern) (v : VInfo) (old new : List Str)
    (hwf : ∀ p ∈ patterns, p.Wf) (h : GenF.rewriteLines patterns v old = .ok new)
    (i : Nat) (hi : ∀ m ∈ GenF.iterMatches old patterns, m.lineno ≠ i) : new[i]? = old[i]? := by
  rw [tie_rewriteLines _ _ _ hwf] at h
  refine C04_unmatched_lines _ v old new _ (tie_iterMatches old patterns hwf) h i ?_
  intro m' hm'
  obtain ⟨m, hm, rfl⟩ := List.mem_map.1 hm'
  exact hi m hm

/-- … and the record of `rfd_from_content` carries the detected separator and the split content, so that
    joining the OLD lines gives back the file's text exactly -/
theorem src_C04_old_content (patterns : List Pattern) (v : VInfo) (content path : Str) (rfd : RewrittenFileData)
    (hwf : ∀ p ∈ patterns, p.Wf) (h : GenF.rfdFromContent patterns v content path = .ok rfd) :
    rfd.path = path ∧ rfd.line_sep = detectLineSep content ∧ join rfd.line_sep rfd.old_lines = content ∧
      rfd.new_lines.length = rfd.old_lines.length := by
  rw [tie_rfdFromContent _ _ _ _ hwf] at h
  cases hr : rewriteLines (patterns.map Pattern.abs) v (splitOn (detectLineSep content) content) with
  | error e => rw [hr] at h; cases h
  | ok nl =>
    rw [hr] at h
    simp only [Except.map, Except.ok.injEq] at h
    subst h
    exact ⟨rfl, rfl, C04_join_split _ _ (C04_sep_detect content).2, C04_line_count _ v _ _ hr⟩

/-- C04: files that are not configured are not touched by `rewrite_files` -/
theorem src_C04_other_files (file_patterns : List (Str × List Pattern)) (v : VInfo) (fs : FS) (p : Str)
    (hwf : GenF.WfFilePatterns file_patterns) (hp : ∀ it ∈ file_patterns, it.1 ≠ p) :
    lookup p (GenF.rewriteFiles file_patterns v fs).1 = lookup p fs := by
  rw [tie_rewriteFiles _ _ _ hwf]
  refine C04_other_files fs _ v p ?_
  intro fp hfp
  obtain ⟨it, hit, rfl⟩ := List.mem_map.1 hfp
  exact hp it hit

/-- C06 on the generated code: ALL OR NOTHING — whatever error `rewrite_files` ends with, the file system is
    exactly what it was -/
theorem src_C06_all_or_nothing (file_patterns : List (Str × List Pattern)) (v : VInfo) (fs : FS) (e : RwErr)
    (hwf : GenF.WfFilePatterns file_patterns) (h : (GenF.rewriteFiles file_patterns v fs).2 = .error e) :
    (GenF.rewriteFiles file_patterns v fs).1 = fs := by
  rw [tie_rewriteFiles _ _ _ hwf] at h ⊢
  exact C06_all_or_nothing fs _ v e h

/-- the success of the model's write phase does not depend on the order of the files -/
theorem rewriteFiles_ok_of_mem (fs : FS) (v : VInfo) (l1 l2 : List (Str × List CPat))
    (hsub : ∀ x ∈ l2, x ∈ l1) (h : (rewriteFiles fs l1 v).2 = .ok ()) : (rewriteFiles fs l2 v).2 = .ok () := by
  cases h2 : (rewriteFiles fs l2 v).2 with
  | ok u => rfl
  | error e =>
    obtain ⟨fp, hfp, hbad⟩ := (C06_error_iff fs l2 v).1 ⟨e, h2⟩
    have := (C06_error_iff fs l1 v).2 ⟨fp, hsub fp hfp, hbad⟩
    obtain ⟨e', he'⟩ := this
    rw [h] at he'
    cases he'

/-- C13 on the generated code: if `diff` (the `--dry` path) succeeds, then `rewrite_files` (the write path) on
    the same file system and configuration succeeds too — both go through the same `rfd_from_content` -/
theorem src_C13_dry_ok_real_ok (old_vinfo new_vinfo : VInfo) (file_patterns : List (Str × List Pattern))
    (diff_lines : RewrittenFileData → List Str) (fs : FS) (text : Str)
    (hdl : ∀ rfd, (diff_lines rfd).length = 0 ↔ rfd.old_lines = rfd.new_lines)
    (hready : ∀ it ∈ file_patterns, DiffReady old_vinfo new_vinfo it)
    (h : GenF.diff old_vinfo new_vinfo file_patterns diff_lines fs = (fs, .ok text)) :
    (GenF.rewriteFiles file_patterns new_vinfo fs).2 = .ok () := by
  have hwf : GenF.WfFilePatterns file_patterns := fun it hit p hp => (hready it hit p hp).1
  obtain ⟨-, rs, hrs⟩ := (tie_diff_ok_iff _ _ _ _ _ hdl hready).1 ⟨text, h⟩
  rw [tie_rewriteFiles _ _ _ hwf]
  refine rewriteFiles_ok_of_mem fs new_vinfo _ _ ?_ (C13_dry_ok_real_ok fs old_vinfo new_vinfo _ rs hrs)
  intro x hx
  obtain ⟨it, hit, rfl⟩ := List.mem_map.1 hx
  refine List.mem_map.2 ⟨it, ?_, rfl⟩
  unfold GenF.pySortedBy
  exact (GenF.mem_foldr_pyInsertBy _ it _).2 hit

/-- C13: `diff` never touches the file system (no hypothesis at all) -/
theorem src_C13_diff_pure (old_vinfo new_vinfo : VInfo) (file_patterns : List (Str × List Pattern))
    (diff_lines : RewrittenFileData → List Str) (fs : FS) :
    (GenF.diff old_vinfo new_vinfo file_patterns diff_lines fs).1 = fs :=
  tie_diff_pure old_vinfo new_vinfo file_patterns diff_lines fs

end BV
