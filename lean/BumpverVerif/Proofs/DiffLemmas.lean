/-
  Proofs/DiffLemmas.lean — helper lemmas about Model/Diff.lean: the dry (diff) path versus the
  write path, the strict unified-diff applier, the hunk body reader.
-/
import BumpverVerif.Model.Diff
import BumpverVerif.Proofs.RewriteLemmas
namespace BV

/-! ### `diffFile` / `diffFiles` versus `rewriteContent` / `planWrites` -/

theorem diffFile_ok {fs : FS} {old new : VInfo} {path : Str} {pats : List CPat}
    {ol nl : List Str} (h : diffFile fs old new path pats = .ok (ol, nl)) :
    ∃ content, lookup path fs = some content ∧ ol = splitOn (detectLineSep content) content ∧
      rewriteLines pats new (splitOn (detectLineSep content) content) = .ok nl := by
  unfold diffFile at h
  split at h
  · cases h
  · rename_i content hc
    refine ⟨content, hc, ?_⟩
    simp only at h
    split at h
    · cases h
    · rename_i newLines hn
      split at h
      · cases h
      · cases h
        exact ⟨rfl, hn⟩

theorem diffFile_rewriteContent {fs : FS} {old new : VInfo} {path : Str} {pats : List CPat}
    {ol nl : List Str} (h : diffFile fs old new path pats = .ok (ol, nl)) :
    ∃ content, lookup path fs = some content ∧ ol = splitOn (detectLineSep content) content ∧
      rewriteContent pats new content = .ok (join (detectLineSep content) nl) := by
  obtain ⟨content, h1, h2, h3⟩ := diffFile_ok h
  refine ⟨content, h1, h2, ?_⟩
  unfold rewriteContent
  simp only [h3]

theorem diffFiles_cons_ok {fs : FS} {old new : VInfo} {path : Str} {pats : List CPat}
    {rest : List (Str × List CPat)} {rs : List (Str × List Str × List Str)}
    (h : diffFiles fs old new ((path, pats) :: rest) = .ok rs) :
    ∃ r rs', diffFile fs old new path pats = .ok r ∧ diffFiles fs old new rest = .ok rs' ∧
      rs = (path, r) :: rs' := by
  unfold diffFiles at h
  split at h
  · cases h
  · rename_i r hr
    split at h
    · cases h
    · rename_i rs' hrs'
      cases h
      exact ⟨r, rs', hr, hrs', rfl⟩

/-- a successful dry run ⇒ the read-and-validate phase of the real run succeeds and plans, for
    every diffed file, the join of the diffed new lines -/
theorem planWrites_of_diffFiles (fs : FS) (old new : VInfo) (fps : List (Str × List CPat))
    (rs : List (Str × List Str × List Str)) (h : diffFiles fs old new fps = .ok rs) :
    ∃ ws, planWrites fs new fps = .ok ws ∧
      ∀ r ∈ rs, ∃ content, lookup r.1 fs = some content ∧
        (r.1, join (detectLineSep content) r.2.2) ∈ ws := by
  induction fps generalizing rs with
  | nil =>
    simp only [diffFiles, Except.ok.injEq] at h
    subst h
    exact ⟨[], rfl, by simp⟩
  | cons fp rest ih =>
    obtain ⟨path, pats⟩ := fp
    obtain ⟨⟨ol, nl⟩, rs', hr, hrs', rfl⟩ := diffFiles_cons_ok h
    obtain ⟨ws, hws, hall⟩ := ih rs' hrs'
    obtain ⟨content, hc, -, hrc⟩ := diffFile_rewriteContent hr
    refine ⟨(path, join (detectLineSep content) nl) :: ws, ?_, ?_⟩
    · unfold planWrites
      simp only [hc, hrc, hws]
    · intro r hrm
      rcases List.mem_cons.1 hrm with rfl | hrm
      · exact ⟨content, hc, List.mem_cons_self⟩
      · obtain ⟨c, h1, h2⟩ := hall r hrm
        exact ⟨c, h1, List.mem_cons_of_mem _ h2⟩

/-- with distinct paths, every planned write is what is found afterwards -/
theorem lookup_foldl_write_mem (ws : List (Str × Str)) (fs : FS) (p c : Str)
    (hnd : (ws.map (·.1)).Nodup) (hm : (p, c) ∈ ws) :
    lookup p (ws.foldl (fun acc w => FS.write acc w.1 w.2) fs) = some c := by
  induction ws generalizing fs with
  | nil => cases hm
  | cons w ws ih =>
    simp only [List.map_cons, List.nodup_cons] at hnd
    simp only [List.foldl_cons]
    rcases List.mem_cons.1 hm with rfl | hm
    · rw [lookup_foldl_write, lookup_write]
      · simp
      · intro w' hw' heq
        exact hnd.1 (List.mem_map.2 ⟨w', hw', heq⟩)
    · exact ih _ hnd.2 hm

/-! ### the applier -/

theorem split_facts {α} (old pre mid rest : List α) (k n : Nat) (h : old = pre ++ mid ++ rest)
    (hk : pre.length = k) (hn : mid.length = n) :
    (old.drop k).take n = mid ∧ old.drop (k + n) = rest ∧ k + n ≤ old.length ∧ old.take k = pre := by
  subst h hk hn
  refine ⟨?_, ?_, ?_, ?_⟩
  · simp [List.append_assoc]
  · rw [← List.length_append, List.drop_left]
  · simp only [List.length_append]; omega
  · rw [List.append_assoc, List.take_left]

/-- one step of `applyHunks`, as an iff -/
theorem applyHunks_cons_some (h : Hunk) (hs : List Hunk) (pos : Nat) (old new : List Str) :
    applyHunks (h :: hs) pos old = some new ↔
      pos ≤ h.oldPos ∧ h.oldSide.length = h.oldLen ∧ h.newSide.length = h.newLen ∧
      (h.oldLen = 0 ∨ h.oldStart ≠ 0) ∧ (h.oldPos - pos) + h.oldLen ≤ old.length ∧
      (old.drop (h.oldPos - pos)).take h.oldLen = h.oldSide ∧
      ∃ rest, applyHunks hs (h.oldPos + h.oldLen) (old.drop ((h.oldPos - pos) + h.oldLen)) = some rest ∧
        new = old.take (h.oldPos - pos) ++ h.newSide ++ rest := by
  rw [applyHunks]
  by_cases c1 : h.oldPos < pos
  · simp only [c1, if_true]
    constructor
    · intro x; cases x
    · intro x; omega
  simp only [c1, if_false]
  by_cases c2 : (h.oldSide.length != h.oldLen || h.newSide.length != h.newLen) = true
  · simp only [c2, if_true]
    constructor
    · intro x; cases x
    · rintro ⟨-, a, b, -⟩
      simp [a, b] at c2
  simp only [c2, Bool.false_eq_true, if_false]
  have c2' : h.oldSide.length = h.oldLen ∧ h.newSide.length = h.newLen := by
    simpa using c2
  by_cases c3 : (h.oldLen != 0 && h.oldStart == 0) = true
  · simp only [c3, if_true]
    constructor
    · intro x; cases x
    · rintro ⟨-, -, -, a, -⟩
      simp at c3
      omega
  simp only [c3, Bool.false_eq_true, if_false]
  have c3' : h.oldLen = 0 ∨ h.oldStart ≠ 0 := by
    simp at c3
    omega
  by_cases c4 : old.length < h.oldPos - pos + h.oldLen
  · simp only [c4, if_true]
    constructor
    · intro x; cases x
    · intro x; omega
  simp only [c4, if_false]
  by_cases c5 : ((old.drop (h.oldPos - pos)).take h.oldLen != h.oldSide) = true
  · simp only [c5, if_true]
    constructor
    · intro x; cases x
    · rintro ⟨-, -, -, -, -, a, -⟩
      simp [a] at c5
  simp only [c5, Bool.false_eq_true, if_false]
  have c5' : (old.drop (h.oldPos - pos)).take h.oldLen = h.oldSide := by simpa using c5
  cases hr : applyHunks hs (h.oldPos + h.oldLen) (old.drop (h.oldPos - pos + h.oldLen)) with
  | none =>
    simp
  | some rest =>
    simp only [Option.some.injEq]
    constructor
    · intro x
      exact ⟨by omega, c2'.1, c2'.2, c3', by omega, c5', rest, rfl, x.symm⟩
    · rintro ⟨-, -, -, -, -, -, rest', hr', hn⟩
      cases hr'
      exact hn.symm

/-! ### the hunk body reader -/

def DLine.isOld : DLine → Bool
  | .add _ => false
  | _ => true

def DLine.isNew : DLine → Bool
  | .del _ => false
  | _ => true

theorem readHunkBody_counts (lines : List Str) (o n : Nat) (ls : List DLine) (rest : List Str)
    (h : readHunkBody lines o n = some (ls, rest)) :
    (ls.filter DLine.isOld).length = o ∧ (ls.filter DLine.isNew).length = n ∧
      lines.length = ls.length + rest.length := by
  induction lines generalizing o n ls rest with
  | nil =>
    unfold readHunkBody at h
    split at h
    · rename_i hc
      simp only [Bool.and_eq_true, beq_iff_eq] at hc
      cases h
      simp [hc.1, hc.2]
    · cases h
  | cons l tl ih =>
    unfold readHunkBody at h
    split at h
    · rename_i hc
      simp only [Bool.and_eq_true, beq_iff_eq] at hc
      cases h
      simp [hc.1, hc.2]
    · split at h
      · split at h
        · cases h
        · rename_i hc
          simp only [Bool.or_eq_true, beq_iff_eq, not_or] at hc
          obtain ⟨⟨ls', r'⟩, hrec, heq⟩ := Option.map_eq_some_iff.1 h
          cases heq
          obtain ⟨h1, h2, h3⟩ := ih _ _ _ _ hrec
          simp only [List.filter_cons, DLine.isOld, DLine.isNew, if_true, List.length_cons]
          omega
      · split at h
        · cases h
        · rename_i hc
          simp only [beq_iff_eq] at hc
          obtain ⟨⟨ls', r'⟩, hrec, heq⟩ := Option.map_eq_some_iff.1 h
          cases heq
          obtain ⟨h1, h2, h3⟩ := ih _ _ _ _ hrec
          simp only [List.filter_cons, DLine.isOld, DLine.isNew, if_true, List.length_cons]
          simp only [Bool.false_eq_true, if_false]
          omega
      · split at h
        · cases h
        · rename_i hc
          simp only [beq_iff_eq] at hc
          obtain ⟨⟨ls', r'⟩, hrec, heq⟩ := Option.map_eq_some_iff.1 h
          cases heq
          obtain ⟨h1, h2, h3⟩ := ih _ _ _ _ hrec
          simp only [List.filter_cons, DLine.isOld, DLine.isNew, if_true, List.length_cons]
          simp only [Bool.false_eq_true, if_false]
          omega
      · cases h

end BV
