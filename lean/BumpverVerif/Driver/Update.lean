/-
  Driver/Update.lean — op `update_full`: the composed model of `bumpver update` (Model/Update.lean).
-/
import BumpverVerif.Driver.Common
import BumpverVerif.Driver.Core
import BumpverVerif.Driver.V2
import BumpverVerif.Driver.Rw
import BumpverVerif.Driver.Cli
import BumpverVerif.Model.Update
import BumpverVerif.Model.V1Rewrite
import BumpverVerif.Driver.V1
open Lean
namespace BV.Drv

def optScope (j : Json) (k : String) : Except String (Option TagScope) :=
  match j.getObjVal? k with
  | .ok (Json.str s) => .ok (some (scopeOf s.toList))
  | .ok Json.null => .ok none
  | _ => .error s!"missing optional scope field {k}"

def getV1Pairs (j : Json) : Except String (List (Str × Str)) :=
  match j with
  | Json.arr a => a.toList.mapM (fun x => match x with
      | Json.arr #[Json.str vp, Json.str raw] => .ok (vp.toList, raw.toList)
      | _ => .error "bad pattern pair")
  | _ => .error "patterns must be a list"

def handleUpdate : Handler := fun op j =>
  match op with
  | "v1_rewrite_content" => some do
    -- the LEGACY rewrite path (Model/V1Rewrite.lean): patterns as (version_pattern, raw_pattern) pairs in configuration order
    let pairs ← getV1Pairs (← j.getObjVal? "patterns")
    let vi ← getV1Info j "vinfo"
    let content ← getStr j "content"
    pure (match v1RewriteContentOfPairs pairs vi content with | .ok s => okStr s | .error e => rwErrJson e)
  | "update_full" => some do
    let scope0 := scopeOf (← getStr j "cfg_scope")
    let cliScope ← optScope j "cli_scope"
    let c : PlanCfg := {
      commit := ← getBool j "cfg_commit", tag := ← getBool j "cfg_tag", push := ← getBool j "cfg_push",
      preHook := ← getBool j "cfg_pre", postHook := ← getBool j "cfg_post",
      scopeBranch := scope0 == .branch, tagMsgEmpty := ← getBool j "tag_msg_empty" }
    let sv ← getOptStr j "set_version"
    let a : PlanCli := {
      commit := ← getOptBool j "commit", tagCommit := ← getOptBool j "tag_commit", push := ← getOptBool j "push",
      preHook := ← getBool j "cli_pre", postHook := ← getBool j "cli_post",
      scopeBranch := cliScope.map (· == .branch), dry := ← getBool j "dry", fetch := ← getBool j "fetch",
      ignoreVcsTag := ← getBool j "ignore_vcs_tag", setVersion := sv.isSome }
    let kind ← getStr j "kind"
    let files ← getKw j "files"
    let fps ← match j.getObjVal? "file_patterns" with
      | .ok (Json.arr arr) => arr.toList.mapM (fun x => match x with
          | Json.arr #[Json.str path, pats] => do
            let ps ← getCPats pats
            pure (path.toList, ps)
          | _ => .error "bad file_patterns entry")
      | _ => .error "missing file_patterns"
    let u : UpdIn := {
      c0 := c, a := a, scope0 := scope0, cliScope := cliScope,
      kind := if kind == "hg".toList then .hg else .git,
      vcsPresent := ← getBool j "vcs_present", failAt := ← getOptNat j "fail_at",
      branchRemote := ← getBool j "branch_remote", urlRemote := ← getBool j "url_remote",
      preOk := ← getBool j "pre_ok", postOk := ← getBool j "post_ok",
      pat := ← getStr j "pattern", cfgVersion := ← getStr j "config_version",
      fl := ← getFlags j, dateGiven := ← getBool j "date_given", date := ← getDate j "date", today := ← getDate j "today",
      setVersion := sv, scopeTags := ← getStrList j "scope_tags", globalTags := ← getStrList j "global_tags",
      statusLines := ← getStrList j "status_lines", allowDirty := ← getBool j "allow_dirty",
      fs := files, filePatterns := fps }
    if nonAscii u.cfgVersion || (sv.map nonAscii).getD false || u.scopeTags.any nonAscii || u.globalTags.any nonAscii || u.unsupported then pure unsupported else
    let (fs', evs, code) := updateFull u
    pure (Json.mkObj [("trace", Json.arr (evs.map evJson).toArray), ("exit", Json.num code),
                      ("files", Json.mkObj (fs'.map (fun (p, c) => (String.ofList p, jstr c))))])
  | "update_decide" => some do
    -- the version part only (debugging aid): start version and candidate
    let sv ← getOptStr j "set_version"
    pure (Json.mkObj [("set_version", match sv with | some n => jstr n | none => Json.null)])
  | _ => none

end BV.Drv
