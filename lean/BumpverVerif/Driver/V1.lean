/-
  Driver/V1.lean — ops for the legacy (`{…}`) engine model (C20).
-/
import BumpverVerif.Driver.Common
import BumpverVerif.Driver.V2
import BumpverVerif.Model.V1
open Lean
namespace BV.Drv

def v1ErrJson : V1Err → Json
  | .pattern => errStr "PatternError"
  | .typeError => errStr "TypeError"
  | .valueError => errStr "ValueError"
  | .overflow => errStr "OverflowError"
  | .keyError => errStr "KeyError"
  | .notImplemented => errStr "NotImplementedError"
  | .reError => errStr "re.error"
  | .unsupported => unsupported

def v1InfoJson (v : V1Info) : Json :=
  Json.mkObj [("cal", Json.arr (v.calList.map v2OptNatJson).toArray),
    ("major", Json.num v.major), ("minor", Json.num v.minor), ("patch", Json.num v.patch),
    ("bid", jstr v.bid), ("tag", jstr v.tag)]

def getV1Info (j : Json) (k : String) : Except String V1Info := do
  let o ← j.getObjVal? k
  let cal ← match o.getObjVal? "cal" with
    | .ok (Json.arr a) => pure a
    | _ => .error "missing cal"
  let v : V1Info := {
    year := getOptNatAt cal 0, quarter := getOptNatAt cal 1, month := getOptNatAt cal 2,
    dom := getOptNatAt cal 3, doy := getOptNatAt cal 4, isoWeek := getOptNatAt cal 5,
    usWeek := getOptNatAt cal 6, major := (← getNat o "major"), minor := (← getNat o "minor"),
    patch := (← getNat o "patch"), bid := (← getStr o "bid"), tag := (← getStr o "tag") }
  pure v

def getV1Flags (j : Json) : Except String V1Flags := do
  let fl : V1Flags := {
    major := (← getBool j "major"), minor := (← getBool j "minor"), patch := (← getBool j "patch"),
    tag := (← getOptStr j "tag"), tagNum := (← getBool j "tag_num"), pinDate := (← getBool j "pin_date") }
  pure fl

def v1NonAscii (s : Str) : Bool := s.any (fun c => c.toNat ≥ 128)

/-- the optional `version_pattern` of a search pattern (default: the pattern itself) -/
def getVersionPattern (j : Json) (dflt : Str) : Str :=
  match j.getObjVal? "version_pattern" with
  | .ok (Json.str s) => s.toList
  | _ => dflt

/-- like `matchJson`, but only groups with NON-EMPTY text are reported: CPython keeps one empty
    iteration of an optional group (`(?:(?P<pep440_tag>…\\d*))?` captures `''`), the matcher of
    Model/Regex.lean drops it; both sides of the comparison leave empty captures out -/
def v1MatchJson (m : Option Match) : Json :=
  match m with
  | none => Json.mkObj [("nomatch", Json.num 1)]
  | some m =>
    let names := m.caps.map (·.1) |>.eraseDups
    let groups := names.filterMap (fun n => match lookup n m.caps with
      | some v => if v.isEmpty then none else some (String.ofList n, jstr v)
      | none => none)
    Json.mkObj [("span", Json.arr #[Json.num m.start, Json.num m.stop]), ("groups", Json.mkObj groups)]

def incrResultJson : Except V1Err (Option Str) → Json
  | .ok (some s) => okStr s
  | .ok none => Json.mkObj [("ok", Json.null)]
  | .error e => v1ErrJson e

def testOutcomeJson : TestOutcome → Json
  | .announce n p => Json.mkObj [("exit", Json.num 0), ("new", jstr n), ("pep440", jstr p)]
  | .exit1 => Json.mkObj [("exit", Json.num 1)]
  | .crash => Json.mkObj [("exit", Json.num 1)]
  | .unsupported => unsupported

def handleV1 : Handler := fun op j =>
  match op with
  | "v1_compile_str" => some do
    let p ← getStr j "pattern"
    let vp := getVersionPattern j p
    let n := v1NormalizedPattern vp p
    pure (match v1CompileRe n with
      | .ok _ => okStr (v1CompileStr n)
      | .error e => v1ErrJson e)
  | "v1_compile_search" => some do
    let p ← getStr j "pattern"
    let line ← getStr j "line"
    let vp := getVersionPattern j p
    pure (match v1CompilePattern vp p with
      | .error e => v1ErrJson e
      | .ok r => if hasCategory r && v1NonAscii line then unsupported else v1MatchJson (reSearch r line))
  | "v1_parse" => some do
    let v ← getStr j "version"
    let p ← getStr j "pattern"
    if v1NonAscii v then pure unsupported else
    pure (match v1ParseVersionInfo v p with
      | .ok vi => Json.mkObj [("ok", v1InfoJson vi)]
      | .error e => v1ErrJson e)
  | "v1_format" => some do
    let vi ← getV1Info j "vinfo"
    let p ← getStr j "pattern"
    pure (match v1FormatVersion vi p with
      | .ok s => okStr s
      | .error e => v1ErrJson e)
  | "v1_incr" => some do
    let v ← getStr j "version"
    let p ← getStr j "pattern"
    let fl ← getV1Flags j
    let date ← getDate j "date"
    let _today ← getDate j "today"
    if v1NonAscii v then pure unsupported else
    pure (incrResultJson (v1Incr v p fl date))
  | "v1_gate" => some do
    let pat ← getStr j "pattern"
    let old ← getStr j "old"
    let new ← getStr j "new"
    if v1NonAscii old || v1NonAscii new then pure unsupported else
    pure (match v1Gate pat old new false [] with
      | .ok .accept => Json.mkObj [("ok", Json.bool true)]
      | .ok _ => Json.mkObj [("ok", Json.bool false)]
      | .error e => v1ErrJson e)
  | "dispatch" => some do
    let p ← getStr j "pattern"
    pure (Json.mkObj [("has_v1_part", Json.bool (hasV1Part p)), ("is_new_pattern", Json.bool (isNewPattern p))])
  | "v1_cli_test" => some do
    let old ← getStr j "version"
    let pat ← getStr j "pattern"
    let fl ← getFlags j
    let dateGiven ← getBool j "date_given"
    let date ← getDate j "date"
    let today ← getDate j "today"
    let sv ← getOptStr j "set_version"
    if v1NonAscii old || (sv.map v1NonAscii).getD false then pure unsupported else
    pure (testOutcomeJson (dispatchCliTest old pat fl dateGiven date today sv))
  | _ => none

end BV.Drv
