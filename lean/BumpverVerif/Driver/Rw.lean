/-
  Driver/Rw.lean — ops for the rewrite model (C03, C04, C06, C13).
-/
import BumpverVerif.Driver.Common
import BumpverVerif.Driver.V2
import BumpverVerif.Model.Rewrite
import BumpverVerif.Model.Diff
open Lean
namespace BV.Drv

def rwErrJson : RwErr → Json
  | .noMatch => errStr "NoPatternMatch"
  | .missingFile => errStr "OSError"
  | .crash .unsupported => unsupported
  | .crash e => perrJson e

/-- [[version_pattern, raw_pattern], …] → compiled patterns (raw is normalised here, as
    `compile_pattern` does) -/
def getCPats (j : Json) : Except String (List CPat) :=
  match j with
  | Json.arr a => a.toList.mapM (fun x => match x with
      | Json.arr #[Json.str vp, Json.str raw] =>
        .ok { vp := vp.toList, raw := normalizePattern vp.toList raw.toList }
      | _ => .error "bad pattern pair")
  | _ => .error "patterns must be a list"

def handleRw : Handler := fun op j =>
  match op with
  | "rewrite_content" => some do
    let pats ← getCPats (← j.getObjVal? "patterns")
    let vi ← getVinfo j "vinfo"
    let content ← getStr j "content"
    pure (match rewriteContent pats vi content with
      | .ok s => okStr s
      | .error e => rwErrJson e)
  | "rewrite_files" => some do
    let vi ← getVinfo j "vinfo"
    let files ← getKw j "files"
    let fps ← match j.getObjVal? "file_patterns" with
      | .ok (Json.arr a) => a.toList.mapM (fun x => match x with
          | Json.arr #[Json.str path, pats] => do
            let ps ← getCPats pats
            pure (path.toList, ps)
          | _ => .error "bad file_patterns entry")
      | _ => .error "missing file_patterns"
    let lazy ← getBool j "lazy"
    let (fs', res) := if lazy then rewriteFilesLazy vi files fps else rewriteFiles files fps vi
    let filesJson := Json.mkObj (fs'.map (fun (p, c) => (String.ofList p, jstr c)))
    pure (match res with
      | .ok () => Json.mkObj [("files", filesJson), ("result", Json.str "ok")]
      | .error (.crash .unsupported) => unsupported
      | .error e => Json.mkObj [("files", filesJson), ("result", (rwErrJson e).getObjValD "err")])
  | "apply_diff" => some do
    -- {"diff": text printed by `update --dry`, "files": {path: old content}, "seps": {path: separator}}
    let diff ← getStr j "diff"
    let files ← getKw j "files"
    let seps ← getKw j "seps"
    let oldFiles := files.map (fun (p, c) => (p, splitOn ((lookup p seps).getD ['\n']) c))
    pure (match applyUnifiedText (splitOn ['\n'] diff) oldFiles with
      | none => errStr "DiffDoesNotApply"
      | some nf => Json.mkObj [("files", Json.mkObj (nf.map (fun (p, ls) =>
          (String.ofList p, jstr (join ((lookup p seps).getD ['\n']) ls)))))])
  | "dry_files" => some do
    let oldv ← getVinfo j "old_vinfo"
    let newv ← getVinfo j "new_vinfo"
    let files ← getKw j "files"
    let fps ← match j.getObjVal? "file_patterns" with
      | .ok (Json.arr a) => a.toList.mapM (fun x => match x with
          | Json.arr #[Json.str path, pats] => do
            let ps ← getCPats pats
            pure (path.toList, ps)
          | _ => .error "bad file_patterns entry")
      | _ => .error "missing file_patterns"
    pure (match diffFiles files oldv newv fps with
      | .error (.crash .unsupported) => unsupported
      | .error e => Json.mkObj [("result", (rwErrJson e).getObjValD "err")]
      | .ok rs => Json.mkObj [("result", Json.str "ok"), ("files", Json.mkObj (rs.map (fun (p, _, nl) =>
          (String.ofList p, jstr (join (detectLineSep ((lookup p files).getD [])) nl)))))])
  | "detect_sep" => some do
    let content ← getStr j "content"
    pure (okStr (detectLineSep content))
  | _ => none

end BV.Drv
