/-
  Driver/Rw.lean — ops for the rewrite model (C03, C04, C06, C13).
-/
import BumpverVerif.Driver.Common
import BumpverVerif.Driver.V2
import BumpverVerif.Model.Rewrite
open Lean
namespace BV.Drv

def rwErrJson : RwErr → Json
  | .noMatch => errStr "NoPatternMatch"
  | .missingFile => errStr "OSError"
  | .crash .unsupported => unsupported
  | .crash e => perrJson e

/-- [[version_pattern, raw_pattern], …] → compiled patterns (raw is normalised here, as
    `compile_pattern` does) -/
def getCPats (j : Json) : Except String (List CPat) :=
  match j with
  | Json.arr a => a.toList.mapM (fun x => match x with
      | Json.arr #[Json.str vp, Json.str raw] =>
        .ok { vp := vp.toList, raw := normalizePattern vp.toList raw.toList }
      | _ => .error "bad pattern pair")
  | _ => .error "patterns must be a list"

def handleRw : Handler := fun op j =>
  match op with
  | "rewrite_content" => some do
    let pats ← getCPats (← j.getObjVal? "patterns")
    let vi ← getVinfo j "vinfo"
    let content ← getStr j "content"
    pure (match rewriteContent pats vi content with
      | .ok s => okStr s
      | .error e => rwErrJson e)
  | "rewrite_files" => some do
    let vi ← getVinfo j "vinfo"
    let files ← getKw j "files"
    let fps ← match j.getObjVal? "file_patterns" with
      | .ok (Json.arr a) => a.toList.mapM (fun x => match x with
          | Json.arr #[Json.str path, pats] => do
            let ps ← getCPats pats
            pure (path.toList, ps)
          | _ => .error "bad file_patterns entry")
      | _ => .error "missing file_patterns"
    let lazy ← getBool j "lazy"
    let (fs', res) := if lazy then rewriteFilesLazy vi files fps else rewriteFiles files fps vi
    let filesJson := Json.mkObj (fs'.map (fun (p, c) => (String.ofList p, jstr c)))
    pure (match res with
      | .ok () => Json.mkObj [("files", filesJson), ("result", Json.str "ok")]
      | .error (.crash .unsupported) => unsupported
      | .error e => Json.mkObj [("files", filesJson), ("result", (rwErrJson e).getObjValD "err")])
  | "detect_sep" => some do
    let content ← getStr j "content"
    pure (okStr (detectLineSep content))
  | _ => none

end BV.Drv
