/-
  Driver/Common.lean — JSON helpers shared by the driver's op handlers.
  An op handler has type `Handler`: it returns `none` when the op name is not its own.
-/
import Lean.Data.Json
import BumpverVerif.Model.Basic
open Lean
namespace BV.Drv

def jstr (s : Str) : Json := Json.str (String.ofList s)

def getStr (j : Json) (k : String) : Except String Str :=
  match j.getObjVal? k with
  | .ok (Json.str s) => .ok s.toList
  | _ => .error s!"missing string field {k}"

def getBool (j : Json) (k : String) : Except String Bool :=
  match j.getObjVal? k with
  | .ok (Json.bool b) => .ok b
  | _ => .error s!"missing bool field {k}"

def getNat (j : Json) (k : String) : Except String Nat :=
  match j.getObjVal? k with
  | .ok (Json.num n) => .ok n.mantissa.toNat
  | _ => .error s!"missing nat field {k}"

def getStrList (j : Json) (k : String) : Except String (List Str) :=
  match j.getObjVal? k with
  | .ok (Json.arr a) => a.toList.mapM (fun x => match x with
      | Json.str s => .ok s.toList
      | _ => .error s!"non-string in {k}")
  | _ => .error s!"missing list field {k}"

/-- an object of string values as an association list -/
def getKw (j : Json) (k : String) : Except String (List (Str × Str)) :=
  match j.getObjVal? k with
  | .ok (Json.obj o) => o.toList.mapM (fun (kk, v) => match v with
      | Json.str s => .ok (kk.toList, s.toList)
      | _ => .error s!"non-string value in {k}")
  | _ => .error s!"missing object field {k}"

def okList (l : List Str) : Json := Json.mkObj [("ok", Json.arr (l.map jstr).toArray)]
def unsupported : Json := Json.mkObj [("unsupported", Json.num 1)]

def okStr (s : Str) : Json := Json.mkObj [("ok", jstr s)]
def errStr (e : String) : Json := Json.mkObj [("err", Json.str e)]


abbrev Handler := String → Json → Option (Except String Json)

end BV.Drv
