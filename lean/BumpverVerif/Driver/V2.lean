/-
  Driver/V2.lean — ops for the regex fragment, pattern compilation and the v2 version model.
-/
import BumpverVerif.Driver.Common
import BumpverVerif.Model.V2Patterns
import BumpverVerif.Model.V2Version
import BumpverVerif.Model.PatWf
import BumpverVerif.Model.PepTree
import BumpverVerif.Model.PepOfRecord
import BumpverVerif.Model.Pep440
import BumpverVerif.Model.PatText
open Lean
namespace BV.Drv

def matchJson (m : Option Match) : Json :=
  match m with
  | none => Json.mkObj [("nomatch", Json.num 1)]
  | some m =>
    -- newest capture per name wins
    let names := m.caps.map (·.1) |>.eraseDups
    let groups := names.filterMap (fun n => (lookup n m.caps).map (fun v => (String.ofList n, jstr v)))
    Json.mkObj [("span", Json.arr #[Json.num m.start, Json.num m.stop]), ("groups", Json.mkObj groups)]

def hasCategory : Re → Bool
  | .cls _ items => items.any (fun i => match i with
      | .digit | .notDigit | .space | .notSpace | .word | .notWord => true | _ => false)
  | .seq a b => hasCategory a || hasCategory b
  | .alt a b => hasCategory a || hasCategory b
  | .rep r _ _ => hasCategory r
  | .grp _ r => hasCategory r
  | _ => false

def v2OptNatJson : Option Nat → Json
  | some n => Json.num n
  | none => Json.null

def vinfoJson (v : VInfo) : Json :=
  Json.mkObj [("cal", Json.arr (v.cal.toList.map v2OptNatJson).toArray),
    ("major", Json.num v.major), ("minor", Json.num v.minor), ("patch", Json.num v.patch),
    ("bid", jstr v.bid), ("tag", jstr v.tag), ("pytag", jstr v.pytag),
    ("num", Json.num v.num), ("inc0", Json.num v.inc0), ("inc1", Json.num v.inc1)]

def perrJson : PErr → Json
  | .pattern => errStr "PatternError"
  | .typeError => errStr "TypeError"
  | .valueError => errStr "ValueError"
  | .overflow => errStr "OverflowError"
  | .keyError => errStr "KeyError"
  | .unsupported => unsupported

def getOptNatAt (a : Array Json) (i : Nat) : Option Nat :=
  match a[i]? with
  | some (Json.num n) => some n.mantissa.toNat
  | _ => none

def getVinfo (j : Json) (k : String) : Except String VInfo := do
  let o ← j.getObjVal? k
  let cal ← match o.getObjVal? "cal" with
    | .ok (Json.arr a) => pure a
    | _ => .error "missing cal"
  let c : CalOpt := {
    yearY := getOptNatAt cal 0, yearG := getOptNatAt cal 1, quarter := getOptNatAt cal 2,
    month := getOptNatAt cal 3, dom := getOptNatAt cal 4, doy := getOptNatAt cal 5,
    weekW := getOptNatAt cal 6, weekU := getOptNatAt cal 7, weekV := getOptNatAt cal 8 }
  let v : VInfo := {
         cal := c, major := (← getNat o "major"), minor := (← getNat o "minor"),
         patch := (← getNat o "patch"), bid := (← getStr o "bid"), tag := (← getStr o "tag"),
         pytag := (← getStr o "pytag"), num := (← getNat o "num"), inc0 := (← getNat o "inc0"),
         inc1 := (← getNat o "inc1") }
  pure v

def getDate (j : Json) (k : String) : Except String (Nat × Nat × Nat) :=
  match j.getObjVal? k with
  | .ok (Json.arr #[Json.num y, Json.num m, Json.num d]) => .ok (y.mantissa.toNat, m.mantissa.toNat, d.mantissa.toNat)
  | _ => .error s!"missing date field {k}"

def getOptStr (j : Json) (k : String) : Except String (Option Str) :=
  match j.getObjVal? k with
  | .ok (Json.str s) => .ok (some s.toList)
  | .ok Json.null => .ok none
  | _ => .error s!"missing optional string field {k}"

def getFlags (j : Json) : Except String IncrFlags := do
  let fl : IncrFlags := {
         major := (← getBool j "major"), minor := (← getBool j "minor"),
         patch := (← getBool j "patch"), tag := (← getOptStr j "tag"), tagNum := (← getBool j "tag_num"),
         pinIncrements := (← getBool j "pin_increments"), pinDate := (← getBool j "pin_date") }
  pure fl

def handleV2 : Handler := fun op j =>
  match op with
  | "ast_tie" => some do
    -- does the structural (tree) reading of the pattern agree with the string pipeline on this pattern and record?
    let p ← getStr j "pattern"
    let vi ← getVinfo j "vinfo"
    let today ← (match j.getObjVal? "today" with | .ok _ => getDate j "today" | .error _ => pure (2026, 9, 29))
    pure (match tokenize p with
      | none => Json.mkObj [("tokenized", Json.bool false)]
      | some t =>
        let ceq := match t.compile, compileRe p with
          | some a, some b => Re.beq a b
          | _, _ => false
        let req := match formatVersion vi p with
          | .ok s => s == t.render vi
          | .error _ => false
        -- is this (pattern, record) inside the domain of the round-trip theorems (Props/C02.lean)?  If it is, the
        -- theorem's conclusion is also EVALUATED here (a test of the statement, not part of the proof).
        let inDom := t.wfTop && t.vok vi && tagCoh vi
        let anchored := t.calAnchored
        let thm := match t.compile with
          | some r =>
            (match reMatch r (t.render vi) with
             | some m => m.start == 0 && m.stop == (t.render vi).length && m.caps == (t.caps vi).reverse
             | none => false) &&
            (match parseWithRe r (t.render vi) today with
             | .ok v' => t.agree vi v' && t.render v' == t.render vi
             | .error _ => false)
          | none => false
        Json.mkObj [("tokenized", Json.bool true), ("compile_eq", Json.bool ceq), ("render_eq", Json.bool req),
                    ("wf", Json.bool t.wfTop), ("in_domain", Json.bool inDom), ("anchored", Json.bool anchored),
                    ("theorem_instance", Json.bool thm),
                    -- inside the domain of the PROVED tree = string-surgery tie (Props/C02Tie.lean: compile_tie, format_tie, tokenize_tie)?
                    ("tok_safe", Json.bool (tokSafe t && t.text == p)),
                    ("pep_tok_safe", Json.bool (tokSafe t.toPep))])
  | "pep_tie" => some do
    -- C15 on the pattern tree: does the tree-level conversion agree with the string surgery on this pattern, and is the (pattern,
    -- record) pair inside the domain of C15_derived_accepts_of_original?  If so the theorem's conclusion is evaluated too.
    let p ← getStr j "pattern"
    let vi ← getVinfo j "vinfo"
    let today ← (match j.getObjVal? "today" with | .ok _ => getDate j "today" | .error _ => pure (2026, 9, 29))
    pure (match tokenize p with
      | none => Json.mkObj [("tokenized", Json.bool false)]
      | some t =>
        let q := t.toPep
        let inDom := t.vok vi && pepReady vi && t.tagGuarded && q.wfTop && q.calAnchored
        let thm := match q.compile with
          | some r =>
            (match reMatch r (q.render vi) with
             | some m => m.start == 0 && m.stop == (q.render vi).length
             | none => false) &&
            (match parseWithRe r (q.render vi) today with
             | .ok v' => q.agree vi v' && q.render v' == q.render vi
             | .error _ => false)
          | none => false
        let reqStr := match formatVersion vi (convertToPep440 p) with
          | .ok s => s == q.render vi
          | .error _ => false
        -- C15_version_parses_equal: the version string and the written text parse to the same PEP 440 version
        let shaped := t.pepShaped && t.vok vi && pepReady vi && pepCoherent t vi
        let same := match parsePep (q.render vi), parsePep (t.render vi), pepOfRecord q vi with
          | some a, some b, some c => (pepKey a == pepKey b) && (pepKey a == pepKey c)
          | _, _, _ => false
        Json.mkObj [("tokenized", Json.bool true), ("tie", Json.bool (pepTie p)), ("render_eq", Json.bool reqStr),
                    ("in_domain", Json.bool inDom), ("normal", Json.bool q.pepNormal),
                    ("theorem_instance", Json.bool thm), ("shaped_domain", Json.bool shaped), ("same_version", Json.bool same)])
  | "parse" => some do
    let v ← getStr j "version"
    let p ← getStr j "pattern"
    let today ← getDate j "today"
    pure (match parseVersionInfo v p today with
      | .ok vi => Json.mkObj [("ok", vinfoJson vi)]
      | .error e => perrJson e)
  | "format" => some do
    let vi ← getVinfo j "vinfo"
    let p ← getStr j "pattern"
    pure (match formatVersion vi p with
      | .ok s => okStr s
      | .error e => perrJson e)
  | "pattern_fields" => some do
    let p ← getStr j "pattern"
    pure (match parsePatternFields p with
      | .ok l => okList l
      | .error e => perrJson e)
  | "incr" => some do
    let v ← getStr j "version"
    let p ← getStr j "pattern"
    let fl ← getFlags j
    let date ← getDate j "date"
    let today ← getDate j "today"
    pure (match incr v p fl date today with
      | .ok (some s) => okStr s
      | .ok none => Json.mkObj [("ok", Json.null)]
      | .error e => perrJson e)
  | "compile_str" => some do
    let p ← getStr j "pattern"
    pure (if (compileRe p).isNone then unsupported else okStr (compileStr p))
  | "re_search" => some do
    -- a regex SOURCE string and a line
    let src ← getStr j "re"
    let line ← getStr j "line"
    pure (match parseRe src with
      | none => unsupported
      | some r => if hasCategory r && line.any (fun c => c.toNat ≥ 128) then unsupported
                  else matchJson (reSearch r line))
  | "compile_search" => some do
    let p ← getStr j "pattern"
    let line ← getStr j "line"
    pure (match compileRe p with
      | none => unsupported
      | some r => if hasCategory r && line.any (fun c => c.toNat ≥ 128) then unsupported
                  else matchJson (reSearch r line))
  | "compile_match" => some do
    let p ← getStr j "pattern"
    let line ← getStr j "line"
    pure (match compileRe p with
      | none => unsupported
      | some r => if hasCategory r && line.any (fun c => c.toNat ≥ 128) then unsupported
                  else matchJson (reMatch r line))
  | "normalize" => some do
    let vp ← getStr j "version_pattern"
    let rp ← getStr j "raw_pattern"
    pure (okStr (normalizePattern vp rp))
  | "to_pep440_pattern" => some do
    let vp ← getStr j "version_pattern"
    pure (okStr (convertToPep440 vp))
  | _ => none

end BV.Drv
