/-
  Driver/V2.lean — ops for the regex fragment, pattern compilation and the v2 version model.
-/
import BumpverVerif.Driver.Common
import BumpverVerif.Model.V2Patterns
open Lean
namespace BV.Drv

def matchJson (m : Option Match) : Json :=
  match m with
  | none => Json.mkObj [("nomatch", Json.num 1)]
  | some m =>
    -- newest capture per name wins
    let names := m.caps.map (·.1) |>.eraseDups
    let groups := names.filterMap (fun n => (lookup n m.caps).map (fun v => (String.ofList n, jstr v)))
    Json.mkObj [("span", Json.arr #[Json.num m.start, Json.num m.stop]), ("groups", Json.mkObj groups)]

def hasCategory : Re → Bool
  | .cls _ items => items.any (fun i => match i with
      | .digit | .notDigit | .space | .notSpace | .word | .notWord => true | _ => false)
  | .seq a b => hasCategory a || hasCategory b
  | .alt a b => hasCategory a || hasCategory b
  | .rep r _ _ => hasCategory r
  | .grp _ r => hasCategory r
  | _ => false

def handleV2 : Handler := fun op j =>
  match op with
  | "compile_str" => some do
    let p ← getStr j "pattern"
    pure (if (compileRe p).isNone then unsupported else okStr (compileStr p))
  | "re_search" => some do
    -- a regex SOURCE string and a line
    let src ← getStr j "re"
    let line ← getStr j "line"
    pure (match parseRe src with
      | none => unsupported
      | some r => if hasCategory r && line.any (fun c => c.toNat ≥ 128) then unsupported
                  else matchJson (reSearch r line))
  | "compile_search" => some do
    let p ← getStr j "pattern"
    let line ← getStr j "line"
    pure (match compileRe p with
      | none => unsupported
      | some r => if hasCategory r && line.any (fun c => c.toNat ≥ 128) then unsupported
                  else matchJson (reSearch r line))
  | "compile_match" => some do
    let p ← getStr j "pattern"
    let line ← getStr j "line"
    pure (match compileRe p with
      | none => unsupported
      | some r => if hasCategory r && line.any (fun c => c.toNat ≥ 128) then unsupported
                  else matchJson (reMatch r line))
  | "normalize" => some do
    let vp ← getStr j "version_pattern"
    let rp ← getStr j "raw_pattern"
    pure (okStr (normalizePattern vp rp))
  | "to_pep440_pattern" => some do
    let vp ← getStr j "version_pattern"
    pure (okStr (convertToPep440 vp))
  | _ => none

end BV.Drv
