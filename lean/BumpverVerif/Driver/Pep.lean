/-
  Driver/Pep.lean — ops for Model/Pep440 (`setuptools_v65_version.parse`).

  All ops answer `unsupported` when an input has a char ≥ 128 (the model is ASCII only) or
  is longer than 4000 chars (CPython's int/str digit limit is outside the model).

  pep_parse {"s"}      → {"kind":"pep","epoch":n,"release":[n,..],"pre":[letter,n]|null,
                          "post":n|null,"dev":n|null,"local":[n|"str",..]|null}
                        | {"kind":"legacy","parts":[str,..]}
  pep_str   {"s"}      → {"ok": str(parse(s))}
  pep_cmp   {"a","b"}  → {"ok": "lt"|"eq"|"gt"}       parse(a) against parse(b)
-/
import BumpverVerif.Driver.Common
import BumpverVerif.Model.Pep440
open Lean
namespace BV.Drv

def pepSupported (s : Str) : Bool := s.all (fun c => c.toNat < 128) && s.length ≤ 4000

def jnat (n : Nat) : Json := Json.num (JsonNumber.fromNat n)

def optNatJson : Option Nat → Json
  | none => Json.null
  | some n => jnat n

def localSegJson : LocalSeg → Json
  | .num n => jnat n
  | .str s => jstr s

def parsedJson : Parsed → Json
  | .pep v => Json.mkObj [
      ("kind", Json.str "pep"),
      ("epoch", jnat v.epoch),
      ("release", Json.arr (v.release.map jnat).toArray),
      ("pre", match v.pre with
        | none => Json.null
        | some (l, n) => Json.arr #[jstr l, jnat n]),
      ("post", optNatJson v.post),
      ("dev", optNatJson v.dev),
      ("local", match v.loc with
        | none => Json.null
        | some l => Json.arr (l.map localSegJson).toArray)]
  | .legacy _ parts => Json.mkObj [
      ("kind", Json.str "legacy"),
      ("parts", Json.arr (parts.map jstr).toArray)]

def handlePep : Handler := fun op j =>
  match op with
  | "pep_parse" => some do
    let s ← getStr j "s"
    pure (if pepSupported s then parsedJson (parseVersion s) else unsupported)
  | "pep_str" => some do
    let s ← getStr j "s"
    pure (if pepSupported s then okStr (verStr (parseVersion s)) else unsupported)
  | "pep_cmp" => some do
    let a ← getStr j "a"
    let b ← getStr j "b"
    pure (if pepSupported a && pepSupported b then
      (match cmpKey (keyOf (parseVersion a)) (keyOf (parseVersion b)) with
        | .lt => okStr "lt".toList
        | .eq => okStr "eq".toList
        | .gt => okStr "gt".toList)
      else unsupported)
  | _ => none

end BV.Drv
