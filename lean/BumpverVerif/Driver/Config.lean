/-
  Driver/Config.lean — ops for the configuration layer and `bumpver init` (C18, C19).

  cfg_post_ini   {sections:[[name,[[k,v]…]]…], self:null|{rel_path,text}, env}
  cfg_post_toml  {doc:{tool_bumpver,bumpver,pycalver : null|{opts:[[k,str|bool|null]…], file_patterns:null|[[f,[p…]]…]}}, self, env}
                 env = {valid:bool, bad_patterns:[p…], exists:[path…], glob:[[g,[file…]]…]}
                 → {ok:{…effective config…}} | {err:<Python class>, what:<which check>}
  cur_version_pattern {text,current_version,version_pattern} → {ok:line} | {err:"ValueError"}
  init_pick      {fs:[[name,content]…]}                → {ok:name}
  init_text      {fs, year}                            → {ok:text} | {err:…}
  init           {fs, dry, parses, year}               → {outcome, exit, file?, text?, fs:{name:content}}
  abs_raw        {cfg:<AbsCfg>}  → {expressible, ini, ini_legacy, toml_tool, toml_plain, toml_legacy}
-/
import BumpverVerif.Driver.Common
import BumpverVerif.Model.Config
open Lean
namespace BV.Drv

def jsonStr? : Json → Except String Str
  | Json.str s => .ok s.toList
  | _ => .error "expected a string"

def jsonArr? : Json → Except String (List Json)
  | Json.arr a => .ok a.toList
  | _ => .error "expected an array"

def jsonPair? (j : Json) : Except String (Json × Json) := do
  match ← jsonArr? j with
  | [a, b] => pure (a, b)
  | _ => throw "expected a pair"

/-- `[[k, x]…]` with string keys -/
def jsonAssoc? {α} (f : Json → Except String α) (j : Json) : Except String (List (Str × α)) := do
  (← jsonArr? j).mapM (fun e => do
    let (k, v) ← jsonPair? e
    pure (← jsonStr? k, ← f v))

def jsonStrList? (j : Json) : Except String (List Str) := do
  (← jsonArr? j).mapM jsonStr?

def jsonRawVal? : Json → Except String RawVal
  | Json.str s => .ok (.str s.toList)
  | Json.bool b => .ok (.bool b)
  | Json.null => .ok .none
  | _ => .error "expected string, bool or null"

def getField (j : Json) (k : String) : Except String Json :=
  match j.getObjVal? k with
  | .ok v => .ok v
  | .error _ => .error s!"missing field {k}"

def jsonTomlSection? : Json → Except String (Option TomlSection)
  | Json.null => .ok none
  | j => do
    let opts ← jsonAssoc? jsonRawVal? (← getField j "opts")
    let fp ← match ← getField j "file_patterns" with
      | Json.null => pure none
      | x => pure (some (← jsonAssoc? jsonStrList? x))
    pure (some { opts := opts, filePatterns := fp })

def jsonEnv? (j : Json) : Except String CfgEnv := do
  let valid ← getBool j "valid"
  let bad ← getStrList j "bad_patterns"
  let ex ← getStrList j "exists"
  let gl ← jsonAssoc? jsonStrList? (← getField j "glob")
  pure {
    validVersion := fun _ _ _ => valid,
    compileOk := fun _ _ p => !bad.contains p,
    pathExists := fun p => ex.contains p,
    glob := fun g => (lookup g gl).getD [] }

def fpJson (fps : FilePatterns) : Json :=
  Json.arr (fps.map (fun (f, ps) => Json.arr #[jstr f, Json.arr (ps.map jstr).toArray])).toArray

def cfgErrName : CfgErr → String
  | .missingSection => "missingSection"
  | .missingPattern => "missingPattern"
  | .patternType => "patternType"
  | .missingVersion => "missingVersion"
  | .versionType => "versionType"
  | .noVersionLine => "noVersionLine"
  | .notAString => "notAString"
  | .keyError => "keyError"
  | .invalidVersion => "invalidVersion"
  | .bracketPattern => "bracketPattern"
  | .reError => "reError"
  | .tagScope => "tagScope"
  | .tagRequiresCommit => "tagRequiresCommit"
  | .pushRequiresCommit => "pushRequiresCommit"
  | .preHookMissing => "preHookMissing"
  | .postHookMissing => "postHookMissing"

def cfgResultJson : Except CfgErr EffectiveConfig → Json
  | .error e => Json.mkObj [("err", jstr e.pyClass), ("what", Json.str (cfgErrName e))]
  | .ok c => Json.mkObj [("ok", Json.mkObj [
      ("current_version", jstr c.currentVersion), ("version_pattern", jstr c.versionPattern),
      ("commit_message", jstr c.commitMessage), ("tag_message", jstr c.tagMessage),
      ("tag_scope", jstr c.tagScope), ("pre_commit_hook", jstr c.preCommitHook),
      ("post_commit_hook", jstr c.postCommitHook), ("commit", Json.bool c.commit),
      ("tag", Json.bool c.tag), ("push", Json.bool c.push),
      ("is_new_pattern", Json.bool c.isNewPattern), ("file_patterns", fpJson c.filePatterns)])]

/-- `self` = null: `_parse_config` directly on the reader's result; otherwise with the
    self-pattern step of `_parse_raw_config` in between -/
def withSelf (env : CfgEnv) (j : Json) (raw : Except CfgErr RawCfg) : Except String Json := do
  match ← getField j "self" with
  | Json.null =>
    pure (cfgResultJson (match raw with | .error e => .error e | .ok r => parseConfig env r))
  | s =>
    let rel ← getStr s "rel_path"
    let text ← getStr s "text"
    pure (cfgResultJson (match raw with
      | .error e => .error e
      | .ok r => match addSelfPattern rel text r with
        | .error e => .error e
        | .ok r' => parseConfig env r'))

def getFs (j : Json) : Except String (List (Str × Str)) := do
  jsonAssoc? jsonStr? (← getField j "fs")

def fsOf (files : List (Str × Str)) : ProjFS := fun f => lookup f files

def initErrJson : InitErr → Json
  | .badFormat => Json.mkObj [("err", Json.str "ValueError")]
  | .fmt .keyError => Json.mkObj [("err", Json.str "KeyError")]
  | .fmt .valueError => Json.mkObj [("err", Json.str "ValueError")]
  | .fmt .unsupported => unsupported

/-! ### abstract configurations (C18) -/

def jsonQuote? (j : Json) : Except String Quote :=
  match j with
  | Json.str "bare" => .ok .bare
  | Json.str "dq" => .ok .dq
  | Json.str "sq" => .ok .sq
  | _ => .error "expected bare|dq|sq"

def jsonAbsStr? (j : Json) : Except String AbsStr := do
  pure { s := ← getStr j "s", q := ← jsonQuote? (← getField j "q") }

def jsonOpt? {α} (f : Json → Except String α) (j : Json) (k : String) : Except String (Option α) := do
  match ← getField j k with
  | Json.null => pure none
  | x => pure (some (← f x))

def jsonAbsBool? (j : Json) : Except String AbsBool := do
  pure { b := ← getBool j "b", spelling := ← getStr j "spelling", quoted := ← getBool j "quoted" }

def jsonAbsFile? (j : Json) : Except String AbsFile := do
  pure { name := ← getStr j "name", patterns := ← getStrList j "patterns", inline := ← getBool j "inline" }

def jsonAbsCfg? (j : Json) : Except String AbsCfg := do
  pure {
    currentVersion := ← jsonAbsStr? (← getField j "current_version"),
    versionPattern := ← jsonAbsStr? (← getField j "version_pattern"),
    commitMessage := ← jsonOpt? jsonAbsStr? j "commit_message",
    tagMessage := ← jsonOpt? jsonAbsStr? j "tag_message",
    tagScope := ← jsonOpt? jsonAbsStr? j "tag_scope",
    preHook := ← jsonOpt? jsonAbsStr? j "pre_commit_hook",
    postHook := ← jsonOpt? jsonAbsStr? j "post_commit_hook",
    commit := ← jsonOpt? jsonAbsBool? j "commit",
    tag := ← jsonOpt? jsonAbsBool? j "tag",
    push := ← jsonOpt? jsonAbsBool? j "push",
    files := ← (← jsonArr? (← getField j "files")).mapM jsonAbsFile? }

def pairJson (a b : Json) : Json := Json.arr #[a, b]

def iniDocJson (d : IniDoc) : Json :=
  Json.arr (d.sections.map (fun (n, items) =>
    pairJson (jstr n) (Json.arr (items.map (fun (k, v) => pairJson (jstr k) (jstr v))).toArray))).toArray

def rawValJson : RawVal → Json
  | .str s => jstr s
  | .bool b => Json.bool b
  | .none => Json.null

def tomlSectionJson : Option TomlSection → Json
  | none => Json.null
  | some s => Json.mkObj [
      ("opts", Json.arr (s.opts.map (fun (k, v) => pairJson (jstr k) (rawValJson v))).toArray),
      ("file_patterns", match s.filePatterns with | none => Json.null | some fp => fpJson fp)]

def tomlDocJson (d : TomlDoc) : Json :=
  Json.mkObj [("tool_bumpver", tomlSectionJson d.toolBumpver), ("bumpver", tomlSectionJson d.bumpver),
              ("pycalver", tomlSectionJson d.pycalver)]

/-- abs_raw {cfg} → the raw data of every rendering and the `expressible` verdict -/
def handleAbsRaw (j : Json) : Except String Json := do
  let c ← jsonAbsCfg? (← getField j "cfg")
  pure (Json.mkObj [
    ("expressible", Json.bool c.expressible),
    ("ini", iniDocJson (iniRaw false c)), ("ini_legacy", iniDocJson (iniRaw true c)),
    ("toml_tool", tomlDocJson (tomlRaw .tool c)), ("toml_plain", tomlDocJson (tomlRaw .plain c)),
    ("toml_legacy", tomlDocJson (tomlRaw .legacy c))])

def handleConfig : Handler := fun op j =>
  match op with
  | "abs_raw" => some (handleAbsRaw j)
  | "cfg_post_ini" => some do
    let secs ← jsonAssoc? (jsonAssoc? jsonStr?) (← getField j "sections")
    let env ← jsonEnv? (← getField j "env")
    withSelf env j (parseCfgPost { sections := secs })
  | "cfg_post_toml" => some do
    let d ← getField j "doc"
    let doc : TomlDoc := {
      toolBumpver := ← jsonTomlSection? (← getField d "tool_bumpver"),
      bumpver := ← jsonTomlSection? (← getField d "bumpver"),
      pycalver := ← jsonTomlSection? (← getField d "pycalver") }
    let env ← jsonEnv? (← getField j "env")
    withSelf env j (parseTomlPost doc)
  | "cur_version_pattern" => some do
    let text ← getStr j "text"
    let cv ← getStr j "current_version"
    let vp ← getStr j "version_pattern"
    pure (match parseCurrentVersionDefaultPattern cv vp text with
      | .ok l => okStr l
      | .error e => Json.mkObj [("err", jstr e.pyClass)])
  | "init_pick" => some do
    let files ← getFs j
    pure (okStr (pickConfigFile (worldOf (fsOf files))))
  | "init_text" => some do
    let files ← getFs j
    let year ← getNat j "year"
    let w := worldOf (fsOf files)
    pure (match defaultConfigText w (pickConfigFile w) (initialVersion year) with
      | .ok t => okStr t
      | .error e => initErrJson e)
  | "init" => some do
    let files ← getFs j
    let dry ← getBool j "dry"
    let parses ← getBool j "parses"
    let year ← getNat j "year"
    let fs := fsOf files
    let (out, fs') := cliInit fs dry parses year
    let picked := pickConfigFile (worldOf fs)
    let names := (files.map (·.1) ++ [picked]).eraseDups
    let fsJson := Json.mkObj (names.filterMap (fun n =>
      (fs' n).map (fun c => (String.ofList n, jstr c))))
    let base : List (String × Json) := [("exit", Json.num out.exitCode), ("fs", fsJson)]
    pure (match out with
      | .refused => Json.mkObj (("outcome", Json.str "refused") :: base)
      | .dry t => Json.mkObj (("outcome", Json.str "dry") :: ("text", jstr t) :: base)
      | .written f => Json.mkObj (("outcome", Json.str "written") :: ("file", jstr f) :: base)
      | .crashed _ => Json.mkObj (("outcome", Json.str "crashed") :: base))
  | _ => none

end BV.Drv
