/-
  Driver/Core.lean — ops for LexId, the VCS layer and the update plan.
-/
import BumpverVerif.Driver.Common
import BumpverVerif.Model.LexId
import BumpverVerif.Model.Vcs
import BumpverVerif.Gen.VcsTemplates
import BumpverVerif.Model.Plan
open Lean
namespace BV.Drv

def fmtErrJson : FmtErr → Json
  | .keyError => Json.mkObj [("err", Json.str "KeyError")]
  | .valueError => Json.mkObj [("err", Json.str "ValueError")]
  | .unsupported => unsupported

def getOptBool (j : Json) (k : String) : Except String (Option Bool) :=
  match j.getObjVal? k with
  | .ok (Json.bool b) => .ok (some b)
  | .ok Json.null => .ok none
  | _ => .error s!"missing tri-state field {k}"

def getOptNat (j : Json) (k : String) : Except String (Option Nat) :=
  match j.getObjVal? k with
  | .ok (Json.num n) => .ok (some n.mantissa.toNat)
  | .ok Json.null => .ok none
  | _ => .error s!"missing optional nat field {k}"

def evJson : Ev → Json
  | .cmd n => Json.str n
  | .add _ => Json.str "add"
  | .preHook o n => Json.str ("pre_hook:" ++ String.ofList o ++ ":" ++ String.ofList n)
  | .postHook o n => Json.str ("post_hook:" ++ String.ofList o ++ ":" ++ String.ofList n)
  | .rewrite => Json.str "rewrite"

def handlePlan (j : Json) : Except String Json := do
  let c : PlanCfg := {
    commit := ← getBool j "cfg_commit", tag := ← getBool j "cfg_tag", push := ← getBool j "cfg_push",
    preHook := ← getBool j "cfg_pre", postHook := ← getBool j "cfg_post",
    scopeBranch := ← getBool j "cfg_branch", tagMsgEmpty := ← getBool j "tag_msg_empty" }
  let a : PlanCli := {
    commit := ← getOptBool j "commit", tagCommit := ← getOptBool j "tag_commit", push := ← getOptBool j "push",
    preHook := ← getBool j "cli_pre", postHook := ← getBool j "cli_post",
    scopeBranch := ← getOptBool j "cli_branch", dry := ← getBool j "dry", fetch := ← getBool j "fetch",
    ignoreVcsTag := ← getBool j "ignore_vcs_tag", setVersion := ← getBool j "set_version" }
  let kind ← getStr j "kind"
  let e : PlanEnv := {
    kind := if kind == "hg".toList then .hg else .git,
    vcsPresent := ← getBool j "vcs_present", failAt := ← getOptNat j "fail_at",
    branchRemote := ← getBool j "branch_remote", urlRemote := ← getBool j "url_remote",
    dirtyAbort := ← getBool j "dirty_abort", gateOk := ← getBool j "gate_ok", uniqueOk := ← getBool j "unique_ok",
    rewriteOk := ← getBool j "rewrite_ok", preOk := ← getBool j "pre_ok", postOk := ← getBool j "post_ok",
    files := ← getStrList j "files", startVersion := "1.2.3".toList, announced := "1.2.4".toList }
  let (evs, code) := plan c a e
  pure (Json.mkObj [("trace", Json.arr (evs.map evJson).toArray), ("exit", Json.num code)])


def handleCore : Handler := fun op j =>
  match op with
  | "nextid" => some do
    let s ← getStr j "s"
    pure (match nextId s with | some r => okStr r | none => errStr "OverflowError")
  | "bumpbid" => some do
    let s ← getStr j "s"
    pure (match bumpBid s with | some r => okStr r | none => errStr "OverflowError")
  | "argv" => some do
    let vcs ← getStr j "vcs"
    let cmd ← getStr j "cmd"
    let kw ← getKw j "kw"
    match (lookup vcs Gen.vcsTemplates).bind (lookup cmd) with
    | none => pure (Json.mkObj [("err", Json.str "KeyError")])
    | some tmpl => pure (match argv tmpl kw with
      | .ok l => okList l
      | .error (.fmt e) => fmtErrJson e
      | .error .shlex => Json.mkObj [("err", Json.str "ValueError")])
  | "fmt" => some do
    let t ← getStr j "tmpl"
    let kw ← getKw j "kw"
    pure (match pyFormat kw t with | .ok r => okStr r | .error e => fmtErrJson e)
  | "shlex" => some do
    let t ← getStr j "s"
    pure (match shlexSplit t with | some l => okList l | none => Json.mkObj [("err", Json.str "ValueError")])
  | "submsg" => some do
    let m ← getStr j "m"
    pure (if m.any (fun c => c.toNat ≥ 128) then unsupported else okStr (subMsgTemplate m))
  | "dirty" => some do
    let t ← getStr j "status"
    let files ← getStrList j "files"
    let allow ← getBool j "allow"
    pure (match assertNotDirty (pySplitlines t) files allow with
      | .proceed => okStr "proceed".toList
      | .abort => okStr "abort".toList
      | .crash => errStr "ValueError")
  | "plan" => some (handlePlan j)
  | _ => none

end BV.Drv
