/-
  Driver/UpdateV1.lean — op `update_full_v1`: the composed model of `bumpver update` for a LEGACY
  configuration (Model/UpdateV1.lean).  Same request fields as `update_full` (Driver/Update.lean), except
    * `pattern` is the legacy version pattern,
    * `file_patterns` is a list of `[path, [[version_pattern, raw_pattern], …]]` (the argument pairs of
      `v1patterns.compile_pattern`, as op `v1_rewrite_content` takes its `patterns`).
  Answer: `{"trace": …, "exit": …, "files": …}` or `unsupported`, exactly like `update_full`.
-/
import BumpverVerif.Driver.Common
import BumpverVerif.Driver.Core
import BumpverVerif.Driver.V2
import BumpverVerif.Driver.Cli
import BumpverVerif.Driver.Update
import BumpverVerif.Model.UpdateV1
open Lean
namespace BV.Drv

def handleUpdateV1 : Handler := fun op j =>
  match op with
  | "update_full_v1" => some do
    let scope0 := scopeOf (← getStr j "cfg_scope")
    let cliScope ← optScope j "cli_scope"
    let c : PlanCfg := {
      commit := ← getBool j "cfg_commit", tag := ← getBool j "cfg_tag", push := ← getBool j "cfg_push",
      preHook := ← getBool j "cfg_pre", postHook := ← getBool j "cfg_post",
      scopeBranch := scope0 == .branch, tagMsgEmpty := ← getBool j "tag_msg_empty" }
    let sv ← getOptStr j "set_version"
    let a : PlanCli := {
      commit := ← getOptBool j "commit", tagCommit := ← getOptBool j "tag_commit", push := ← getOptBool j "push",
      preHook := ← getBool j "cli_pre", postHook := ← getBool j "cli_post",
      scopeBranch := cliScope.map (· == .branch), dry := ← getBool j "dry", fetch := ← getBool j "fetch",
      ignoreVcsTag := ← getBool j "ignore_vcs_tag", setVersion := sv.isSome }
    let kind ← getStr j "kind"
    let files ← getKw j "files"
    let fps ← match j.getObjVal? "file_patterns" with
      | .ok (Json.arr arr) => arr.toList.mapM (fun x => match x with
          | Json.arr #[Json.str path, pairs] => do
            let ps ← getV1Pairs pairs
            pure (path.toList, ps)
          | _ => .error "bad file_patterns entry")
      | _ => .error "missing file_patterns"
    let u : UpdInV1 := {
      c0 := c, a := a, scope0 := scope0, cliScope := cliScope,
      kind := if kind == "hg".toList then .hg else .git,
      vcsPresent := ← getBool j "vcs_present", failAt := ← getOptNat j "fail_at",
      branchRemote := ← getBool j "branch_remote", urlRemote := ← getBool j "url_remote",
      preOk := ← getBool j "pre_ok", postOk := ← getBool j "post_ok",
      pat := ← getStr j "pattern", cfgVersion := ← getStr j "config_version",
      fl := ← getFlags j, dateGiven := ← getBool j "date_given", date := ← getDate j "date", today := ← getDate j "today",
      setVersion := sv, scopeTags := ← getStrList j "scope_tags", globalTags := ← getStrList j "global_tags",
      statusLines := ← getStrList j "status_lines", allowDirty := ← getBool j "allow_dirty",
      fs := files, filePatterns := fps }
    if nonAscii u.cfgVersion || (sv.map nonAscii).getD false || u.scopeTags.any nonAscii || u.globalTags.any nonAscii || u.unsupported then pure unsupported else
    let (fs', evs, code) := updateFullV1 u
    pure (Json.mkObj [("trace", Json.arr (evs.map evJson).toArray), ("exit", Json.num code),
                      ("files", Json.mkObj (fs'.map (fun (p, c) => (String.ofList p, jstr c))))])
  | _ => none

end BV.Drv
