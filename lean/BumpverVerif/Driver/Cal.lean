/-
  Driver/Cal.lean — ops for the calendar model (Model/Calendar.lean):
  `calinfo`, `ordinal`, `fromordinal`, `datefromdoy`, `weekpat`.
-/
import BumpverVerif.Driver.Common
import BumpverVerif.Model.Calendar
open Lean
namespace BV.Drv

def okNats (l : List Nat) : Json :=
  Json.mkObj [("ok", Json.arr (l.map (fun n => Json.num (n : Nat))).toArray)]

def handleCal : Handler := fun op j =>
  match op with
  | "calinfo" => some do
    let y ← getNat j "y"
    let m ← getNat j "m"
    let d ← getNat j "d"
    pure (if validDate y m d then okNats (calInfo y m d).toList else errStr "ValueError")
  | "ordinal" => some do
    let y ← getNat j "y"
    let m ← getNat j "m"
    let d ← getNat j "d"
    pure (if validDate y m d then Json.mkObj [("ok", Json.num (ordinal y m d : Nat))]
          else errStr "ValueError")
  | "fromordinal" => some do
    let n ← getNat j "n"
    pure (if 1 ≤ n ∧ n ≤ maxOrdinal then
            let t := fromOrdinal n
            okNats [t.1, t.2.1, t.2.2]
          else errStr "ValueError")
  | "datefromdoy" => some do
    let y ← getNat j "y"
    let doy ← getNat j "doy"
    pure (if 1 ≤ y ∧ y ≤ 9999 then
            match dateFromDoy y doy with
            | some t => okNats [t.1, t.2.1, t.2.2]
            | none => errStr "OverflowError"
          else errStr "ValueError")
  | "weekpat" => some do
    let p ← getStr j "p"
    pure (Json.mkObj [("ok", Json.bool (isValidWeekPattern p))])
  | _ => none

end BV.Drv
