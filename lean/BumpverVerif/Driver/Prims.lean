/-
  Driver/Prims.lean — op `prim`: the TRUSTED PRIMITIVES of the function translators, evaluated one by one.

  The generated definitions (Gen/F_*.lean) call these Lean functions wherever the Python source calls a built-in,
  a `str`/`list`/`dict` method, `sorted`/`max`/`min`, `datetime.date`, `lexid.next_id` …  The ties prove
  "generated definition = hand model"; that the PRIMITIVES mean what CPython does is not provable here — it is
  checked on every run by `harness/props/prims.py`, which sends random arguments to this op and to CPython.
  (Primitives that are thin wrappers of hand-model functions with their own op — `parseRe`/`reMatch`, `calInfo`,
  `shlexSplit`, `pyFormat`, `nextId`, the config readers — are exercised through those ops.)
-/
import BumpverVerif.Driver.Common
import BumpverVerif.Model.PyPrims
import BumpverVerif.Model.CliPrims
import BumpverVerif.Model.Eff
import BumpverVerif.Model.EffK
import BumpverVerif.Gen.F_PyPrelude
import BumpverVerif.Gen.F_formatPrelude
import BumpverVerif.Gen.F_rewriteTypes
import BumpverVerif.Gen.F_v1Prim
import BumpverVerif.Gen.PatternsPrims
import BumpverVerif.Model.PepGroups
open Lean
namespace BV.Drv

def pjint (i : Int) : Json := Json.num ⟨i, 0⟩
def pjnat (n : Nat) : Json := Json.num ⟨Int.ofNat n, 0⟩

def pasInt : Json → Except String Int
  | Json.num n => if n.exponent == 0 then .ok n.mantissa else .error "not an integer"
  | _ => .error "not an integer"

def pgetInt (j : Json) (k : String) : Except String Int := do pasInt (← j.getObjVal? k)

def getIntList (j : Json) (k : String) : Except String (List Int) :=
  match j.getObjVal? k with
  | .ok (Json.arr a) => a.toList.mapM pasInt
  | _ => .error s!"missing int list {k}"

/-- a list of `[key, id]` pairs -/
def getPairs (j : Json) (k : String) : Except String (List (Int × Int)) :=
  match j.getObjVal? k with
  | .ok (Json.arr a) => a.toList.mapM (fun x => match x with
      | Json.arr #[a, b] => do pure (← pasInt a, ← pasInt b)
      | _ => .error "bad pair")
  | _ => .error s!"missing pair list {k}"

/-- a list of `[key string, value string]` pairs (the order matters: dict insertion order) -/
def getStrPairs (j : Json) (k : String) : Except String (List (Str × Str)) :=
  match j.getObjVal? k with
  | .ok (Json.arr a) => a.toList.mapM (fun x => match x with
      | Json.arr #[Json.str a, Json.str b] => .ok (a.toList, b.toList)
      | _ => .error "bad pair")
  | _ => .error s!"missing pair list {k}"

def okInts (l : List Int) : Json := Json.mkObj [("ok", Json.arr (l.map pjint).toArray)]
def pokInt (i : Int) : Json := Json.mkObj [("ok", pjint i)]
def okPairs (l : List (Int × Int)) : Json := Json.mkObj [("ok", Json.arr (l.map (fun p => Json.arr #[pjint p.1, pjint p.2])).toArray)]
def okStrPairs (l : List (Str × Str)) : Json := Json.mkObj [("ok", Json.arr (l.map (fun p => Json.arr #[jstr p.1, jstr p.2])).toArray)]
def pokDate (d : Nat × Nat × Nat) : Json := Json.mkObj [("ok", Json.arr #[pjnat d.1, pjnat d.2.1, pjnat d.2.2])]
def pokBool (b : Bool) : Json := Json.mkObj [("ok", Json.bool b)]

def nonAsciiP (s : Str) : Bool := s.any (fun c => c.toNat > 127)

def ltInt (a b : Int) : Bool := decide (a < b)

def optStrJson : Option Str → Json
  | some s => jstr s
  | none => Json.null

/-- op `pep_groups`: the model-side matcher `groupsOf` (Model/PepGroups.lean) — what the ties of `Version.__init__` assume of
    `Version._regex.search` (hypothesis `TieQ.SearchOk`); compared with the REAL regular expression by props/c16.py -/
def handlePepGroups (j : Json) : Except String Json := do
  let s ← getStr j "s"
  if nonAsciiP s then pure unsupported else
  match groupsOf s with
  | none => pure (Json.mkObj [("ok", Json.null)])
  | some g => pure (Json.mkObj [("ok", Json.mkObj [
      ("epoch", optStrJson g.epoch), ("release", jstr g.release), ("pre_l", optStrJson g.pre_l), ("pre_n", optStrJson g.pre_n),
      ("post_n1", optStrJson g.post_n1), ("post_l", optStrJson g.post_l), ("post_n2", optStrJson g.post_n2),
      ("dev_l", optStrJson g.dev_l), ("dev_n", optStrJson g.dev_n), ("local", optStrJson g.loc)])])

def handlePrims : Handler := fun op j =>
  if op == "pep_groups" then some (handlePepGroups j) else
  if op != "prim" then none else some do
  let name ← getStr j "name"
  match String.ofList name with
  -- str.replace in its three copies
  | "replace_fp" => pure (okStr (GenF.FP.pyReplace (← getStr j "pat") (← getStr j "rep") (← getStr j "s")))
  | "replace_pyp" => pure (okStr (PyP.replace (← getStr j "pat") (← getStr j "rep") (← getStr j "s")))
  | "replace_v1" => pure (okStr (GenV1.pyReplace (← getStr j "pat") (← getStr j "rep") (← getStr j "s")))
  -- slices and indexing
  | "slice_fp" => pure (okInts (GenF.FP.pySlice (← getIntList j "xs") (← pgetInt j "a") (← pgetInt j "b")))
  | "slice_pyp" => pure (okStr (PyP.slice (← getStr j "s") (← pgetInt j "a") (← pgetInt j "b")))
  | "slice_from" => pure (okStr (PyP.sliceFrom (← getStr j "s") (← pgetInt j "a")))
  | "slice_to" => pure (okStr (PyP.sliceTo (← getStr j "s") (← pgetInt j "a")))
  | "index_fp" => pure (match GenF.FP.pyIndex (← getIntList j "xs") (← pgetInt j "a") with
      | .ok v => pokInt v | .error _ => errStr "IndexError")
  | "pop_fp" => pure (match GenF.FP.pyPop (← getIntList j "xs") with
      | .ok (r, v) => Json.mkObj [("ok", Json.arr #[Json.arr (r.map pjint).toArray, pjint v])] | .error _ => errStr "IndexError")
  | "getitem_pyp" => pure (match PyP.getItem (← getStr j "s") (← pgetInt j "a") with
      | some v => okStr v | none => errStr "IndexError")
  | "getitem_rw" => pure (match GenF.pyGetItem (← getIntList j "xs") (← getNat j "a") with
      | .ok v => pokInt v | .error _ => errStr "IndexError")
  | "setitem_rw" => pure (match GenF.pySetItem (← getIntList j "xs") (← getNat j "a") (← pgetInt j "v") with
      | .ok v => okInts v | .error _ => errStr "IndexError")
  | "find_fp" => pure (pokInt (GenF.FP.pyFind (← getStr j "s") (← getStr j "sub")))
  | "find_pyp" => pure (pokInt (PyP.find (← getStr j "s") (← getStr j "sub") (← pgetInt j "a")))
  -- int() / str()
  | "int_genf" => pure (match GenF.pyInt (← getStr j "s") with | .ok n => pokInt n | .error _ => errStr "ValueError")
  | "int_to_str" => pure (okStr (PyP.intToStr (← pgetInt j "a")))
  -- sorting (elements are [key, id] pairs; the id shows stability)
  | "sorted_fp" => pure (okPairs (GenF.FP.pySortedBy (fun p => p.1) (← getPairs j "xs")))
  | "sorted_desc_fp" => pure (okPairs (GenF.FP.pySortedByDesc (fun p => p.1) (← getPairs j "xs")))
  | "sorted_items_fp" => do
    let xs ← getPairs j "xs"
    -- dict items with pair keys (key, id) — all distinct
    pure (okPairs ((GenF.FP.pySortedItems (xs.map (fun p => (p, ())))).map (·.1)))
  | "sorted_rw" => pure (okPairs (GenF.pySortedBy (fun (p : Int × Int) => p.1) ltInt (← getPairs j "xs")))
  | "sorted_asc_pyp" => pure (okPairs (PyP.sortByKeyAsc (fun (p : Int × Int) => p.1.toNat) (← getPairs j "xs")))
  | "sorted_desc_pyp" => pure (okPairs (PyP.sortByKeyDesc (fun (p : Int × Int) => p.1.toNat) (← getPairs j "xs")))
  | "sorted_cli" => pure (okPairs (pySorted ltInt (fun (p : Int × Int) => p.1) (← getPairs j "xs")))
  | "sorted_rev_cli" => pure (okPairs (pySortedRev ltInt (fun (p : Int × Int) => p.1) (← getPairs j "xs")))
  | "max_cli" => pure (match pyMaxBy ltInt (fun (p : Int × Int) => p.1) (← getPairs j "xs") with
      | some p => okPairs [p] | none => errStr "ValueError")
  | "min_cli" => pure (match pyMinBy ltInt (fun (p : Int × Int) => p.1) (← getPairs j "xs") with
      | some p => okPairs [p] | none => errStr "ValueError")
  -- dicts (insertion order) and sets (first-seen order; only membership is observed)
  | "dict_fp" => pure (okStrPairs ((← getStrPairs j "kvs").foldl (fun d kv => GenF.FP.dictSet d kv.1 kv.2) []))
  | "dict_pyp" => pure (okStrPairs ((← getStrPairs j "kvs").foldl (fun d kv => PyP.dictSet kv.1 kv.2 d) []))
  | "dict_of_pairs_pyp" => pure (okStrPairs (PyP.dictOfPairs (← getStrPairs j "kvs")))
  | "dict_genf" => pure (okStrPairs ((← getStrPairs j "kvs").foldl (fun d kv => GenF.dictSet kv.1 kv.2 d) []))
  | "dict_of_list_genf" => pure (okStrPairs (GenF.dictOfList (← getStrPairs j "kvs")))
  | "dict_update_k" => pure (okStrPairs (TieK.dictUpdate (← getStrPairs j "kvs") (← getStrPairs j "more")))
  | "set_of_list" => pure (okInts (GenF.pySetOfList (← getIntList j "xs")))
  | "set_diff" => pure (okInts (GenF.pySetDiff (← getIntList j "xs") (← getIntList j "ys")))
  | "set_eq" => pure (pokBool (GenF.pySetEq (← getIntList j "xs") (← getIntList j "ys")))
  | "set_inter" => pure (okList (setInter (← getStrList j "xs") (← getStrList j "ys")))
  | "enumerate" => pure (okPairs ((GenF.pyEnumerate (← getIntList j "xs")).map (fun p => (Int.ofNat p.1, p.2))))
  -- splitting
  | "split_rw" => pure (match GenF.pySplit (← getStr j "s") (← getStr j "sep") with
      | .ok l => okList l | .error _ => errStr "ValueError")
  | "split_ws1" => pure (okList (pySplitWs1 (← getStr j "s")))
  | "before_first_blank" => pure (okStr (pyBeforeFirstBlank (← getStr j "s")))
  -- dates
  | "date" => pure (match pyDate (← getNat j "y") (← getNat j "m") (← getNat j "d") with
      | .ok d => pokDate d | .error _ => errStr "ValueError")
  | "date_v1" => pure (match GenV1.pyDate (← getNat j "y") (← getNat j "m") (← getNat j "d") with
      | .ok d => pokDate d | .error _ => errStr "ValueError")
  | "date_add_days" => pure (match pyDateAddDays (← getNat j "y", ← getNat j "m", ← getNat j "d") (← pgetInt j "n") with
      | .ok d => pokDate d | .error _ => errStr "OverflowError")
  | "date_from_doy" => pure (match GenV1.pyDateFromDoy (← getNat j "y") (← getNat j "doy") with
      | .ok d => pokDate d | .error _ => errStr "OverflowError")
  | "next_id" => pure (match GenV1.pyNextId (← getStr j "s") with
      | .ok s => okStr s | .error .overflow => errStr "OverflowError" | .error _ => unsupported)
  | "re_sub" =>
    -- the generic `re.sub` of Model/EffK.lean (pattern fragment: literals, \b, \B, groups, alternation); `\w` = Python's on the test alphabet
    pure (match TieK.reSub (fun c => isAlnum c || c == '_' || c == 'é') (← getStr j "pat") (← getStr j "rep") (← getStr j "s") with
      | some r => okStr r | none => Json.mkObj [("refused", Json.num 1)])
  | other => .error s!"unknown primitive {other}"

end BV.Drv
