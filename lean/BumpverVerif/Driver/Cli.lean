/-
  Driver/Cli.lean — ops for the CLI decision model (C01, C09).
-/
import BumpverVerif.Driver.Common
import BumpverVerif.Driver.V2
import BumpverVerif.Model.Cli
import BumpverVerif.Model.History
open Lean
namespace BV.Drv

def nonAscii (s : Str) : Bool := s.any (fun c => c.toNat ≥ 128)

def scopeOf (s : Str) : TagScope :=
  if s == "global".toList then .global else if s == "branch".toList then .branch else .default

def outcomeJson : CliOutcome → Json
  | .announce n p => Json.mkObj [("exit", Json.num 0), ("new", jstr n), ("pep440", jstr p)]
  | .exit1 => Json.mkObj [("exit", Json.num 1)]
  | .crash .unsupported => unsupported
  | .crash _ => Json.mkObj [("exit", Json.num 1)]

def handleCli : Handler := fun op j =>
  match op with
  | "latest_tag" => some do
    let pat ← getStr j "pattern"
    let tags ← getStrList j "tags"
    let today ← getDate j "today"
    if tags.any nonAscii then pure unsupported else
    pure (match latestVersionTag pat today tags with
      | .ok (some t) => okStr t
      | .ok none => Json.mkObj [("ok", Json.null)]
      | .error e => perrJson e)
  | "start_version" => some do
    let pat ← getStr j "pattern"
    let cfgv ← getStr j "config_version"
    let tags ← getStrList j "tags"
    let scope ← getStr j "scope"
    let today ← getDate j "today"
    if tags.any nonAscii || nonAscii cfgv then pure unsupported else
    pure (match startVersion (scopeOf scope) pat cfgv today tags with
      | .ok v => okStr v
      | .error e => perrJson e)
  | "gate" => some do
    let pat ← getStr j "pattern"
    let old ← getStr j "old"
    let new ← getStr j "new"
    let unique ← getBool j "unique"
    let tags ← getStrList j "tags"
    let today ← getDate j "today"
    if nonAscii old || nonAscii new || tags.any nonAscii then pure unsupported else
    pure (match gate pat old new unique tags today with
      | .ok .accept => Json.mkObj [("ok", Json.bool true)]
      | .ok _ => Json.mkObj [("ok", Json.bool false)]
      | .error e => perrJson e)
  | "cli_test" => some do
    let old ← getStr j "version"
    let pat ← getStr j "pattern"
    let fl ← getFlags j
    let dateGiven ← getBool j "date_given"
    let date ← getDate j "date"
    let today ← getDate j "today"
    let sv ← getOptStr j "set_version"
    if nonAscii old || (sv.map nonAscii).getD false then pure unsupported else
    pure (outcomeJson (cliTest old pat fl dateGiven date today sv))
  | "cli_update_version" => some do
    let pat ← getStr j "pattern"
    let cfgv ← getStr j "config_version"
    let fl ← getFlags j
    let dateGiven ← getBool j "date_given"
    let date ← getDate j "date"
    let today ← getDate j "today"
    let sv ← getOptStr j "set_version"
    let scope ← getStr j "scope"
    let ign ← getBool j "ignore_vcs_tag"
    let scopeTags ← getStrList j "scope_tags"
    let globalTags ← getStrList j "global_tags"
    if nonAscii cfgv || (sv.map nonAscii).getD false || scopeTags.any nonAscii || globalTags.any nonAscii then pure unsupported else
    let (o, start) := cliUpdateVersion (scopeOf scope) ign pat cfgv fl dateGiven date today sv scopeTags globalTags
    pure (match outcomeJson o with
      | Json.obj kvs => Json.obj (kvs.insert "start" (jstr start))
      | x => x)
  | "history" => some do
    -- {"pattern", "config_version", "tags": [...], "today", "ops": [{"candidate": str|null, "commit": b, "tag": b}, …]}
    let pat ← getStr j "pattern"
    let cfgv ← getStr j "config_version"
    let tags ← getStrList j "tags"
    let today ← getDate j "today"
    let ops ← match j.getObjVal? "ops" with
      | .ok (Json.arr a) => a.toList.mapM (fun o => do
          let c ← getOptStr o "candidate"
          let cm ← getBool o "commit"
          let tg ← getBool o "tag"
          pure ({ candidate := c, commit := cm, tag := tg } : HOp))
      | _ => .error "missing ops"
    if nonAscii cfgv || tags.any nonAscii || ops.any (fun o => (o.candidate.map nonAscii).getD false) then pure unsupported else
    let (final, oks) := ops.foldl (fun (acc : HState × List Bool) op =>
      let (s', ok) := hstep pat today acc.1 op
      (s', acc.2 ++ [ok])) ({ cfg := cfgv, tags := tags }, [])
    pure (Json.mkObj [("oks", Json.arr (oks.map Json.bool).toArray), ("config_version", jstr final.cfg),
                      ("tags", Json.arr (final.tags.map jstr).toArray)])
  | _ => none

end BV.Drv
