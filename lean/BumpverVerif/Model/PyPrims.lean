/-
  Model/PyPrims.lean — the TRUSTED PRIMITIVES of harness/translate_parse.py.

  The definitions generated from the Python source of the READ side of the new-style version
  engine (Gen/F_dateFromDoy, F_calInfo, F_parseCinfo, F_parseVinfo, F_parseVersionInfo, F_isValid)
  call these functions for the stdlib / third-party operations the Python code uses.  Each one is
  a thin wrapper around a function of the hand model (Model/Calendar, Model/Regex, Model/V2Patterns,
  Model/V2Version), so that the ties are about bumpver's OWN control flow and not about `datetime`
  or `re`.  They are documented one by one in harness/TRANSLATE_PARSE.md.

  No Mathlib (this file sits beside the model; nothing in the driver imports it).
-/
import BumpverVerif.Model.V2Version
namespace BV

/-- a `datetime.date` value: (year, month, day) -/
abbrev PDate := Nat × Nat × Nat

/-- a Python `dict` with `str` keys, in iteration order; `lookup` finds the (only) entry of a key -/
abbrev PyDict (α : Type) := List (Str × α)

/-- `dt.date(y, m, d)`: `ValueError` when the arguments are not a date of the proleptic Gregorian
    calendar 0001-01-01 … 9999-12-31 -/
def pyDate (y m d : Nat) : Except PErr PDate :=
  if validDate y m d then .ok (y, m, d) else .error .valueError

/-- `date + dt.timedelta(days=n)`: `OverflowError` when the result leaves 0001-01-01 … 9999-12-31
    (also what `dt.timedelta(days=n)` itself raises for |n| > 999999999) -/
def pyDateAddDays (d : PDate) (n : Int) : Except PErr PDate :=
  let o : Int := (ordinal d.1 d.2.1 d.2.2 : Nat) + n
  if 1 ≤ o ∧ o ≤ (maxOrdinal : Nat) then .ok (fromOrdinal o.toNat) else .error .overflow

/-- `d[k]`: `KeyError` when the key is missing -/
def pyGetItem {α : Type} (d : PyDict α) (k : Str) : Except PErr α :=
  match lookup k d with
  | some v => .ok v
  | none => .error .keyError

/-- `k in d` -/
def pyHasKey {α : Type} (d : PyDict α) (k : Str) : Bool := (lookup k d).isSome

/-- `d.get(k)` -/
def pyGet {α : Type} (d : PyDict α) (k : Str) : Option α := lookup k d

/-- `for key in d` / `d.keys()` -/
def pyKeys {α : Type} (d : PyDict α) : List Str := d.map (·.1)

/-- `v2patterns.compile_pattern(version_pattern)` (one argument: raw pattern = version pattern), reduced to
    its `.regexp`; `unsupported` = the compiled regex source is outside the modelled fragment of `re`
    (or `re.error`) -/
def pyCompilePattern (versionPattern : Str) : Except PErr Re :=
  match compileRe (normalizePattern versionPattern versionPattern) with
  | some r => .ok r
  | none => .error .unsupported

/-- a Python `re.Match`: it remembers its regex and its subject string -/
structure PyMatch where
  re : Re
  subject : Str
  m : Match

/-- `regexp.match(s)` -/
def pyReMatch (r : Re) (s : Str) : Option PyMatch :=
  match reMatch r s with
  | some m => some { re := r, subject := s, m := m }
  | none => none

/-- `match.group()`: the matched text `subject[start:stop]` -/
def PyMatch.group0 (pm : PyMatch) : Str := (pm.subject.drop pm.m.start).take (pm.m.stop - pm.m.start)

/-- `match.groupdict()` -/
def PyMatch.groupdict (pm : PyMatch) : PyDict (Option Str) := BV.groupdict pm.re pm.m

/-- `try: BODY except …: HANDLER` followed by more statements, for a BODY that does not `return`: `onOk` continues
    after a BODY that ran through (with the variables it assigned), `onErr` decides about a BODY that raised.
    Exceptions raised by the statements AFTER the `try` are not seen by the handler. -/
def pyTry {α β : Type} (body : Except PErr α) (onOk : α → Except PErr β) (onErr : PErr → Except PErr β) :
    Except PErr β :=
  match body with
  | .ok a => onOk a
  | .error e => onErr e

end BV
