/-
  Model/Pep440.lean — `setuptools_v65_version` (vendored `packaging.version` with
  `LegacyVersion`), as bumpver uses it: `version.parse_version(s)` (`<=`, sort key)
  and `version.to_pep440(s) = str(parse_version(s))`.

  Scope: ASCII input (the driver answers `unsupported` for any char ≥ 128; for such
  chars `re.IGNORECASE` case folding, `\s`, `\d`, `str.isdigit` and `str.lower`
  have Unicode behaviour this model does not describe). Integers are unbounded
  (`int()`/`str()` of more than 4300 digits raise `ValueError` in CPython ≥ 3.11;
  the driver answers `unsupported` for such long inputs).

  Parts:
    1. comparison combinators and keys (`Key`, `cmpKey`) = Python comparison of `_key` tuples
    2. the recogniser for `^\s*` VERSION_PATTERN `\s*$` (re.VERBOSE | re.IGNORECASE)
    3. `_parse_letter_version`, `_parse_local_version`, `_cmpkey`, `Version.__str__`
    4. `_parse_version_parts`, `_legacy_cmpkey`
    5. `parseVersion`, `verStr`, `keyOf`, `verLe`, `verLt`, `verEqKey`

  Tied to the code by correspondence ops `pep_parse`, `pep_str`, `pep_cmp`
  (Driver/Pep.lean; harness/dev/pep440_difftest.py).
  Everything is structurally recursive; no Mathlib.
-/
import BumpverVerif.Model.Basic
namespace BV

/-! ## 1. comparison combinators

Python compares two tuples by finding the first position where the items are not `==`
and comparing those items; if there is none the shorter tuple is smaller. The items of
a `_key` are ints, strs, tuples of those, and the two sentinels `Infinity` /
`NegativeInfinity` whose rich comparisons answer without looking at the other operand.
`tuple.__lt__(sentinel)` and `int.__lt__(sentinel)` return `NotImplemented`, so Python
falls back to the reflected method of the sentinel: the comparison is always defined. -/

def cmpNat (a b : Nat) : Ordering := if a < b then .lt else if b < a then .gt else .eq

def cmpChar (a b : Char) : Ordering := cmpNat a.toNat b.toNat

/-- Python tuple / str comparison: first differing position decides, a proper prefix is smaller. -/
def cmpList {α : Type} (cmp : α → α → Ordering) : List α → List α → Ordering
  | [], [] => .eq
  | [], _ :: _ => .lt
  | _ :: _, [] => .gt
  | a :: as, b :: bs => (cmp a b).then (cmpList cmp as bs)

/-- `str.__lt__` etc.: by code point (`cmpStr a b = .lt ↔ strLt a b`, see Proofs/Pep440Lemmas). -/
def cmpStr (a b : Str) : Ordering := cmpList cmpChar a b

/-- a value or one of the sentinels `NegativeInfinity` / `Infinity` -/
inductive Ext (α : Type) where
  | negInf
  | val (a : α)
  | inf
  deriving DecidableEq, Repr

def cmpExt {α : Type} (cmp : α → α → Ordering) : Ext α → Ext α → Ordering
  | .negInf, .negInf => .eq
  | .negInf, _ => .lt
  | _, .negInf => .gt
  | .inf, .inf => .eq
  | .inf, _ => .gt
  | _, .inf => .lt
  | .val a, .val b => cmp a b

/-- `(letter, number)` tuples -/
def cmpLetNum (a b : Str × Nat) : Ordering := (cmpStr a.1 b.1).then (cmpNat a.2 b.2)

/-- one element of a parsed local version: an `int` or a lower-cased `str` -/
inductive LocalSeg where
  | num (n : Nat)
  | str (s : Str)
  deriving DecidableEq, Repr

/-- `_cmpkey` turns an int `i` into `(i, "")` and a str `s` into `(NegativeInfinity, s)`;
    the first components decide between the two kinds (`NegativeInfinity < i` always). -/
def cmpSeg : LocalSeg → LocalSeg → Ordering
  | .str s, .str t => cmpStr s t
  | .str _, .num _ => .lt
  | .num _, .str _ => .gt
  | .num n, .num m => cmpNat n m

/-- The `_key` of a version object.
    `legacy parts` is `(-1, parts)`;
    `pep e r pre post dev loc` is `(e, r, pre, post, dev, loc)`, where the `"post"` / `"dev"`
    letters of the post and dev tuples are constant and therefore left out. -/
inductive Key where
  | legacy (parts : List Str)
  | pep (epoch : Nat) (release : List Nat) (pre : Ext (Str × Nat)) (post : Ext Nat)
      (dev : Ext Nat) (loc : Ext (List LocalSeg))
  deriving DecidableEq, Repr

/-- Python's comparison of two `_key` tuples. A legacy key starts with `-1`, a PEP 440 key
    with an epoch `≥ 0`, so a mixed pair is decided at the first item and the remaining items
    (a tuple of strs against a tuple of ints) are never compared: no `TypeError`. Inside one
    kind every position holds comparable things (int/int, str/str, tuple/tuple or a sentinel). -/
def cmpKey : Key → Key → Ordering
  | .legacy p, .legacy q => cmpList cmpStr p q
  | .legacy _, .pep .. => .lt
  | .pep .., .legacy _ => .gt
  | .pep e r pre post dev loc, .pep e' r' pre' post' dev' loc' =>
    (cmpNat e e').then <| (cmpList cmpNat r r').then <| (cmpExt cmpLetNum pre pre').then <|
      (cmpExt cmpNat post post').then <| (cmpExt cmpNat dev dev').then <|
        cmpExt (cmpList cmpSeg) loc loc'

/-! ## 2. the recogniser for `^\s*` VERSION_PATTERN `\s*$`

The pattern is matched with backtracking, but on ASCII input every choice is forced, so a
deterministic left-to-right recogniser reports the same groups:

* `\s*` on both sides: nothing in the pattern proper matches white space, so both ends are
  simply stripped (`\s` on ASCII: 9-13, 28-32).
* IGNORECASE: every group is lower-cased or converted with `int` afterwards, so the whole
  string is lower-cased first.
* `epoch!`: digits followed by `!`; without the `!` the digits start the release.
* release `[0-9]+(\.[0-9]+)*`: maximal munch; nothing later can start with a digit or with
  `.digit`, so giving back never helps.
* a letter segment `[-_\.]? LETTER [-_\.]? ([0-9]+)?`: if the letter does not follow, the
  optional group fails as a whole and the separator is given back to the next segment.
  Among the alternatives `a|b|c|rc|alpha|beta|pre|preview` (and `post|rev|r`) a shorter
  word that is a prefix of a longer one (`a`/`alpha`, `b`/`beta`, `pre`/`preview`, `r`/`rev`)
  is tried first by the regex, but its continuation (`lpha`, `eta`, `view`, `ev`) can start
  nothing that follows, so the match backtracks into the longer word: longest word wins.
  The separator after the letter is consumed greedily even when no number follows
  (`1.0a-` is valid); giving it back yields the same groups.
* post release: `-N` first (the only reading of `-digit`), otherwise a letter segment.
* local: `+` `[a-z0-9]+` (`[-_\.]` `[a-z0-9]+`)* up to the end.
-/

def isReSpace (c : Char) : Bool :=
  let n := c.toNat
  (9 ≤ n && n ≤ 13) || (28 ≤ n && n ≤ 32)

def reStrip (s : Str) : Str := ((s.dropWhile isReSpace).reverse.dropWhile isReSpace).reverse

def lowerStr (s : Str) : Str := s.map toLowerAscii

def isSep (c : Char) : Bool := c == '-' || c == '_' || c == '.'

/-- `[-_\.]?` -/
def dropOptSep : Str → Str
  | [] => []
  | c :: cs => if isSep c then cs else c :: cs

/-- remove a literal prefix -/
def dropPrefix? : Str → Str → Option Str
  | [], s => some s
  | _ :: _, [] => none
  | a :: p, b :: s => if a = b then dropPrefix? p s else none

/-- first word of the table that is a prefix; answers its normal form and the rest -/
def firstPrefix : List (Str × Str) → Str → Option (Str × Str)
  | [], _ => none
  | (w, norm) :: rest, s =>
    match dropPrefix? w s with
    | some r => some (norm, r)
    | none => firstPrefix rest s

/-- pre-release words (longest first) with the normal form `_parse_letter_version` gives them -/
def preWords : List (Str × Str) :=
  [("alpha".toList, "a".toList), ("a".toList, "a".toList),
   ("beta".toList, "b".toList), ("b".toList, "b".toList),
   ("c".toList, "rc".toList), ("rc".toList, "rc".toList),
   ("preview".toList, "rc".toList), ("pre".toList, "rc".toList)]

def postWords : List (Str × Str) :=
  [("post".toList, "post".toList), ("rev".toList, "post".toList), ("r".toList, "post".toList)]

def devWords : List (Str × Str) := [("dev".toList, "dev".toList)]

/-- `[-_\.]? LETTER [-_\.]? ([0-9]+)?` followed by `_parse_letter_version` (a missing number
    is an implicit 0). `none`: the letter does not follow and nothing is consumed. -/
def letterSeg (words : List (Str × Str)) (s : Str) : Option ((Str × Nat) × Str) :=
  match firstPrefix words (dropOptSep s) with
  | none => none
  | some (l, r) =>
    let r' := dropOptSep r
    some ((l, strToNat (r'.takeWhile isDigit)), r'.dropWhile isDigit)

/-- the post-release group: `-N`, or a letter segment with `post|rev|r` -/
def postSeg (s : Str) : Option Nat × Str :=
  let viaLetter : Option Nat × Str :=
    match letterSeg postWords s with
    | some ((_, n), r) => (some n, r)
    | none => (none, s)
  match s with
  | '-' :: c :: cs =>
    if isDigit c then (some (strToNat ((c :: cs).takeWhile isDigit)), (c :: cs).dropWhile isDigit)
    else viaLetter
  | _ => viaLetter

/-- `(\.[0-9]+)*` — the further release components (fuel = length of the input) -/
def relTailF : Nat → Str → List Str × Str
  | 0, s => ([], s)
  | f + 1, '.' :: c :: cs =>
    if isDigit c then
      let more := relTailF f ((c :: cs).dropWhile isDigit)
      ((c :: cs).takeWhile isDigit :: more.1, more.2)
    else ([], '.' :: c :: cs)
  | _ + 1, s => ([], s)

def isLocalChar (c : Char) : Bool := isLower c || isDigit c

/-- `re.split("[\._-]", local)`; `cur` is the reversed current piece -/
def splitSeps : Str → Str → List Str
  | cur, [] => [cur.reverse]
  | cur, c :: cs => if isSep c then cur.reverse :: splitSeps [] cs else splitSeps (c :: cur) cs

/-- one part of `_parse_local_version` (the text is already lower case) -/
def parseLocalPart (p : Str) : LocalSeg := if isDigitStr p then .num (strToNat p) else .str p

/-- `(\+ local)?` up to the end of the string. Outer `none`: no match. -/
def localSeg : Str → Option (Option (List LocalSeg))
  | [] => some none
  | '+' :: rest =>
    let parts := splitSeps [] rest
    if parts.all (fun p => !p.isEmpty && p.all isLocalChar) then some (some (parts.map parseLocalPart))
    else none
  | _ :: _ => none

/-! ## 3. `Version` -/

/-- `Version._version`: `pre` is `(letter, n)` with the letter normalised to `a`, `b`, `rc`;
    `post` and `dev` keep only the number (their letters are always `"post"` / `"dev"`). -/
structure PepVersion where
  epoch : Nat
  release : List Nat
  pre : Option (Str × Nat)
  post : Option Nat
  dev : Option Nat
  loc : Option (List LocalSeg)
  deriving DecidableEq, Repr

/-- `v?` -/
def dropV : Str → Str
  | 'v' :: r => r
  | s => s

/-- `(?:(?P<epoch>[0-9]+)!)?` and the first `[0-9]+` of the release:
    epoch (0 when absent), text of the first release component, rest -/
def headSeg (s : Str) : Option (Nat × Str × Str) :=
  let d1 := s.takeWhile isDigit
  if d1.isEmpty then none else
  match s.dropWhile isDigit with
  | '!' :: r =>
    if (r.takeWhile isDigit).isEmpty then none
    else some (strToNat d1, r.takeWhile isDigit, r.dropWhile isDigit)
  | r1 => some (0, d1, r1)

/-- the pre-release group -/
def preSeg (s : Str) : Option (Str × Nat) × Str :=
  match letterSeg preWords s with
  | some (p, r) => (some p, r)
  | none => (none, s)

/-- the dev-release group -/
def devSeg (s : Str) : Option Nat × Str :=
  match letterSeg devWords s with
  | some ((_, n), r) => (some n, r)
  | none => (none, s)

/-- VERSION_PATTERN after `^\s*v?`, up to `\s*$`, on lower-cased stripped text -/
def parseCore (s : Str) : Option PepVersion :=
  match headSeg s with
  | none => none
  | some (epoch, first, r2) =>
    let rel := relTailF r2.length r2
    let pre := preSeg rel.2
    let post := postSeg pre.2
    let dev := devSeg post.2
    match localSeg dev.2 with
    | none => none
    | some loc =>
      some { epoch := epoch, release := (first :: rel.1).map strToNat,
             pre := pre.1, post := post.1, dev := dev.1, loc := loc }

/-- `Version.__init__`: `none` = `InvalidVersion`. -/
def parsePep (s0 : Str) : Option PepVersion := parseCore (dropV (reStrip (lowerStr s0)))

/-- a local part as `_parse_local_version` produces it: an int, or a non-empty lower-case
    alphanumeric word that is not all digits -/
def wfLocalSeg : LocalSeg → Bool
  | .num _ => true
  | .str s => !s.isEmpty && s.all isLocalChar && !allDigits s

/-- What `parsePep` can produce (proved: `C16_parse_wf`): a non-empty release, a pre-release
    letter normalised to `a`, `b` or `rc`, and a local version (if any) of at least one
    well-formed part. -/
def wfPep (v : PepVersion) : Bool :=
  !v.release.isEmpty &&
  (match v.pre with
   | none => true
   | some (l, _) => l == "a".toList || l == "b".toList || l == "rc".toList) &&
  (match v.loc with
   | none => true
   | some l => !l.isEmpty && l.all wfLocalSeg)

/-- `reversed(dropwhile(lambda x: x == 0, reversed(release)))` -/
def stripTrailingZeros (r : List Nat) : List Nat := (r.reverse.dropWhile (· == 0)).reverse

/-! `_cmpkey`: the four sentinel rules, then the key tuple -/

/-- `_pre`: a dev release without pre and post sorts before every pre-release
    (`NegativeInfinity`); otherwise a version without a pre-release sorts after those with one -/
def preKeyOf (v : PepVersion) : Ext (Str × Nat) :=
  match v.pre, v.post, v.dev with
  | none, none, some _ => .negInf
  | none, _, _ => .inf
  | some p, _, _ => .val p

/-- `_post`: no post segment sorts before any -/
def postKeyOf (v : PepVersion) : Ext Nat :=
  match v.post with
  | none => .negInf
  | some n => .val n

/-- `_dev`: no dev segment sorts after any -/
def devKeyOf (v : PepVersion) : Ext Nat :=
  match v.dev with
  | none => .inf
  | some n => .val n

/-- `_local`: no local segment sorts before any -/
def locKeyOf (v : PepVersion) : Ext (List LocalSeg) :=
  match v.loc with
  | none => .negInf
  | some l => .val l

/-- `_cmpkey` -/
def pepKey (v : PepVersion) : Key :=
  .pep v.epoch (stripTrailingZeros v.release) (preKeyOf v) (postKeyOf v) (devKeyOf v) (locKeyOf v)

def localSegStr : LocalSeg → Str
  | .num n => natToStr n
  | .str s => s

/-- `f"{epoch}!"` when the epoch is not 0 -/
def epochStr (e : Nat) : Str := if e != 0 then natToStr e ++ ['!'] else []

/-- `"".join(str(x) for x in self.pre)` -/
def preStr : Option (Str × Nat) → Str
  | some (l, n) => l ++ natToStr n
  | none => []

/-- `f".post{self.post}"` -/
def postStr : Option Nat → Str
  | some n => ".post".toList ++ natToStr n
  | none => []

/-- `f".dev{self.dev}"` -/
def devStr : Option Nat → Str
  | some n => ".dev".toList ++ natToStr n
  | none => []

/-- `f"+{self.local}"` with `local = ".".join(str(x) for x in self._version.local)` -/
def locStr : Option (List LocalSeg) → Str
  | some l => '+' :: join ['.'] (l.map localSegStr)
  | none => []

/-- `Version.__str__` -/
def pepStr (v : PepVersion) : Str :=
  epochStr v.epoch ++ (join ['.'] (v.release.map natToStr) ++
    (preStr v.pre ++ (postStr v.post ++ (devStr v.dev ++ locStr v.loc))))

/-! ## 4. `LegacyVersion` -/

/-- character classes of `_legacy_version_component_re = (\d+ | [a-z]+ | \. | -)`;
    `other` = text between matches -/
inductive LClass where
  | digit | lower | dot | dash | other
  deriving DecidableEq, Repr

def lclass (c : Char) : LClass :=
  if isDigit c then .digit else if isLower c then .lower
  else if c = '.' then .dot else if c = '-' then .dash else .other

/-- `.` and `-` are matched one at a time; the other classes form maximal runs -/
def LClass.isRun : LClass → Bool
  | .dot => false
  | .dash => false
  | _ => true

def flushTok (cur : Str) : List Str := if cur.isEmpty then [] else [cur.reverse]

/-- the non-empty items of `_legacy_version_component_re.split(s)`, in order
    (`cls`, `cur`: class and reversed text of the piece being read) -/
def legacyTokGo (cls : LClass) (cur : Str) : Str → List Str
  | [] => flushTok cur
  | c :: cs =>
    if lclass c = cls && cls.isRun then legacyTokGo cls (c :: cur) cs
    else flushTok cur ++ legacyTokGo (lclass c) [c] cs

def legacyTokens (s : Str) : List Str := legacyTokGo .other [] s

/-- `_legacy_version_replacement_map.get(part, part)` -/
def legacyReplace (p : Str) : Str :=
  if p = "pre".toList then "c".toList
  else if p = "preview".toList then "c".toList
  else if p = "-".toList then "final-".toList
  else if p = "rc".toList then "c".toList
  else if p = "dev".toList then "@".toList
  else p

/-- body of the loop of `_parse_version_parts` for one non-empty item -/
def legacyPart (p0 : Str) : Option Str :=
  let p := legacyReplace p0
  if p.isEmpty || p = ['.'] then none
  else match p with
    | c :: _ => if isDigit c then some (zfill 8 p) else some ('*' :: p)
    | [] => none

/-- `_parse_version_parts(s)` (for the already lower-cased `s`) -/
def parseVersionParts (s : Str) : List Str :=
  (legacyTokens s).filterMap legacyPart ++ ["*final".toList]

/-- one step of the loop of `_legacy_cmpkey`; `acc` is `parts` reversed -/
def legacyStep (acc : List Str) (part : Str) : List Str :=
  if part.head? = some '*' then
    let acc1 := if strLt part "*final".toList then acc.dropWhile (· == "*final-".toList) else acc
    part :: acc1.dropWhile (· == "00000000".toList)
  else part :: acc

/-- the tuple of parts of `_legacy_cmpkey(version)` -/
def legacyKeyParts (s : Str) : List Str :=
  ((parseVersionParts (lowerStr s)).foldl legacyStep []).reverse

/-! ## 5. `parse`, `str`, keys and the comparisons bumpver uses -/

inductive Parsed where
  | pep (v : PepVersion)
  | legacy (orig : Str) (parts : List Str)
  deriving DecidableEq, Repr

/-- `parse(version)` -/
def parseVersion (s : Str) : Parsed :=
  match parsePep s with
  | some v => .pep v
  | none => .legacy s (legacyKeyParts s)

/-- `str(parse(s))` (= bumpver's `to_pep440`) -/
def verStr : Parsed → Str
  | .pep v => pepStr v
  | .legacy orig _ => orig

def keyOf : Parsed → Key
  | .pep v => pepKey v
  | .legacy _ parts => .legacy parts

/-- `a <= b` -/
def verLe (a b : Parsed) : Bool := cmpKey (keyOf a) (keyOf b) != .gt
/-- `a < b` -/
def verLt (a b : Parsed) : Bool := cmpKey (keyOf a) (keyOf b) == .lt
/-- `a == b` -/
def verEqKey (a b : Parsed) : Bool := cmpKey (keyOf a) (keyOf b) == .eq

end BV
