/-
  Model/V1.lean — the legacy (`{…}` brace style) engine: v1patterns.py and v1version.py,
  plus the places of cli.py / config.py that decide WHICH engine handles a pattern.

  * `v1InitComposites`            = `v1patterns._init_composite_patterns` (run-time table mutation)
  * `v1ReplacePatternParts`       = `v1patterns._replace_pattern_parts`
  * `v1CompileStr` / `v1CompileRe`= `v1patterns._compile_pattern_re` (regex SOURCE string, then `parseRe`)
  * `v1NormalizedPattern`         = `v1patterns._normalized_pattern`
  * `v1ParsePatternGroups`, `v1ParseFieldValues`, `v1ParseVersionInfo`, `v1IsValid`
  * `v1Kwargs`, `v1PyFormat`, `v1FormatVersion`  = `v1version.format_version` (`str.format` on the
    fragment `{name}` / `{name:0N}` / `{{` / `}}`)
  * `v1CalInfo`, `v1IsCalGt`, `v1Incr`         = `v1version.cal_info`, `_is_cal_gt`, `incr`
  * `hasV1Part`                   = the test of `cli.incr_dispatch`; `isNewPattern` (Model/Cli.lean) is
                                    the test of `cli._is_valid_version` and `config._parse_config`
  * `v1Gate`, `dispatchIncr`, `dispatchCliTest` = `_is_valid_version` (legacy branch), `incr_dispatch`,
                                    `bumpver test` for any pattern

  Tables are GENERATED (Gen/V1Tables.lean; the shared escape table and the tag maps come from
  Gen/V2Tables.lean).  All recursion is structural; no Mathlib (linked into the driver).
-/
import BumpverVerif.Model.Cli
import BumpverVerif.Gen.V1Tables
namespace BV

/-- how a call into the legacy code can end other than with a value -/
inductive V1Err
  | pattern          -- version.PatternError
  | typeError        -- TypeError (`int(None)`, `format(None, "02")`)
  | valueError       -- ValueError (impossible date, malformed format string)
  | overflow         -- OverflowError (lexid, date_from_doy)
  | keyError         -- KeyError (unknown `{name}`, unknown tag)
  | notImplemented   -- NotImplementedError (`--tag-num`)
  | reError          -- re.error (a group name defined twice)
  | unsupported      -- outside the modelled language
  deriving DecidableEq, Repr

/-! ### tables: `_replace_pattern_parts`, `_init_composite_patterns` -/

/-- `"\\{" + part_name + "\\}"` -/
def v1Placeholder (name : Str) : Str := "\\{".toList ++ name ++ "\\}".toList

/-- `f"(?P<{part_name}>{part_pattern})"` -/
def v1NamedPart (name rx : Str) : Str := "(?P<".toList ++ name ++ ">".toList ++ rx ++ ")".toList

/-- `_replace_pattern_parts(pattern)`: sequential `str.replace` over the table, in table order -/
def v1ReplacePatternParts (parts : List (Str × Str)) (p : Str) : Str :=
  parts.foldl (fun acc (pp : Str × Str) => replaceAll (v1Placeholder pp.1) (v1NamedPart pp.1 pp.2) acc) p

/-- `d[k] = v` on an ordered dict -/
def v1DictSet (k v : Str) : List (Str × Str) → List (Str × Str)
  | [] => [(k, v)]
  | (k', v') :: rest => if k = k' then (k, v) :: rest else (k', v') :: v1DictSet k v rest

/-- `_init_composite_patterns()`: every composite gets its braces escaped, its parts substituted
    (with the table as it is at that moment) and is stored in `PART_PATTERNS` -/
def v1InitComposites (base composites : List (Str × Str)) : List (Str × Str) :=
  composites.foldl (fun tbl (c : Str × Str) =>
    let esc := replaceAll "}".toList "\\}".toList (replaceAll "{".toList "\\{".toList c.2)
    v1DictSet c.1 (v1ReplacePatternParts tbl esc) tbl) base

/-! ### `_compile_pattern_re`, `_normalized_pattern`, `compile_pattern` -/

/-- the loop over `RE_PATTERN_ESCAPES`: sequential `str.replace` of EVERY entry (the legacy
    engine has no optional `[…]` groups, so brackets and the backslash are escaped too) -/
def v1EscapePattern (table : List (Str × Str)) (p : Str) : Str :=
  table.foldl (fun acc (ce : Str × Str) => replaceAll ce.1 ce.2 acc) p

def v1CompileStrWith (escapes parts : List (Str × Str)) (normalized : Str) : Str :=
  v1ReplacePatternParts parts (v1EscapePattern escapes normalized)

/-- the regex SOURCE `_compile_pattern_re` hands to `re.compile` -/
def v1CompileStr (normalized : Str) : Str :=
  v1CompileStrWith Gen.rePatternEscapes Gen.v1PartPatterns normalized

def v1HasDup : List Str → Bool
  | [] => false
  | x :: xs => xs.contains x || v1HasDup xs

/-- `re.compile` of that source: a group name defined twice is a `re.error` -/
def v1ReOfSrc (src : Str) : Except V1Err Re :=
  match parseRe src with
  | none => .error .unsupported
  | some r => if v1HasDup (reGroupNames r) then .error .reError else .ok r

def v1CompileRe (normalized : Str) : Except V1Err Re := v1ReOfSrc (v1CompileStr normalized)

/-- `_normalized_pattern(version_pattern, raw_pattern)` -/
def v1NormalizedPattern (versionPattern raw : Str) : Str :=
  let res := replaceAll "{version}".toList versionPattern raw
  match lookup versionPattern Gen.v1Pep440VersionMap with
  | some rep => replaceAll "{pep440_version}".toList rep res
  | none => res

/-- `compile_pattern(version_pattern, raw_pattern)` (its regex) -/
def v1CompilePattern (versionPattern raw : Str) : Except V1Err Re :=
  v1CompileRe (v1NormalizedPattern versionPattern raw)

/-! ### reading -/

/-- `version.V1VersionInfo` -/
structure V1Info where
  year : Option Nat
  quarter : Option Nat
  month : Option Nat
  dom : Option Nat
  doy : Option Nat
  isoWeek : Option Nat
  usWeek : Option Nat
  major : Nat
  minor : Nat
  patch : Nat
  bid : Str
  tag : Str
  deriving DecidableEq, Repr

def v1HasKey (k : Str) (l : List (Str × Str)) : Bool := (lookup k l).isSome

/-- `_parse_pattern_groups`: `(field, text)` items in the order of `PATTERN_PART_FIELDS` -/
def v1ParsePatternGroups (groups : FVals) : Except V1Err FVals :=
  if groups.any (fun g => !(v1HasKey g.1 Gen.v1CompositePartPatterns || v1HasKey g.1 Gen.v1PatternPartFields))
  then .error .pattern
  else
    let items : FVals := Gen.v1PatternPartFields.filterMap (fun (pf : Str × Str) =>
      match lookup pf.1 groups with
      | some v => some (pf.2, v)
      | none => none)
    let all := items.map (·.1)
    if all.any (fun f => all.count f > 1) then .error .pattern else .ok items

/-- `int(fvals[k]) if k in fvals else None` -/
def v1IntField (fv : FVals) (k : String) : Except V1Err (Option Nat) :=
  match lookup k.toList fv with
  | none => .ok none
  | some none => .error .typeError
  | some (some s) => .ok (some (strToNat s))

/-- `int(fvals[k]) if k in fvals else 0` -/
def v1IntFieldOr0 (fv : FVals) (k : String) : Except V1Err Nat := do
  let v ← v1IntField fv k
  pure (v.getD 0)

/-- `_parse_field_values` -/
def v1ParseFieldValues (fv : FVals) : Except V1Err V1Info := do
  let tag0 : Str := match lookup "tag".toList fv with
    | some (some t) => t
    | _ => "final".toList
  let tag := (lookup tag0 Gen.tagByPep440Tag).getD tag0
  let bid ← match lookup "bid".toList fv with
    | none => pure "0001".toList
    | some (some s) => pure s
    | some none => throw .unsupported
  let year0 ← v1IntField fv "year"
  let year := year0.map (fun y => if y < 100 then y + 2000 else y)
  let doy0 ← v1IntField fv "doy"
  let (month, dom) ←
    if truthy year && truthy doy0 then
      match dateFromDoy (year.getD 0) (doy0.getD 0) with
      | some d => pure (some d.2.1, some d.2.2)
      | none => throw .overflow
    else do
      let m ← v1IntField fv "month"
      let d ← v1IntField fv "dom"
      pure (m, d)
  let (doy, isoWeek, usWeek) ←
    if truthy year && truthy month && truthy dom then
      let y := year.getD 0
      let m := month.getD 0
      let d := dom.getD 0
      if validDate y m d then pure (some (dayOfYear y m d), some (weekW y m d), some (weekU y m d))
      else throw .valueError
    else pure (doy0, none, none)
  let quarter0 ← v1IntField fv "quarter"
  let quarter := match quarter0 with
    | some q => some q
    | none => if truthy month then some (quarterFromMonth (month.getD 0)) else none
  let major ← v1IntFieldOr0 fv "major"
  let minor ← v1IntFieldOr0 fv "minor"
  let patch ← v1IntFieldOr0 fv "patch"
  pure { year := year, quarter := quarter, month := month, dom := dom, doy := doy, isoWeek := isoWeek,
         usWeek := usWeek, major := major, minor := minor, patch := patch, bid := bid, tag := tag }

/-- `_parse_version_info(match.groupdict())` -/
def v1ParseGroups (groups : FVals) : Except V1Err V1Info := do
  let fv ← v1ParsePatternGroups groups
  v1ParseFieldValues fv

/-- `parse_version_info(version_str, raw_pattern)`: `regexp.match`, and the match must consume
    the whole string (v1version.py after the C01 repair); an impossible date is a PatternError -/
def v1ParseVersionInfo (versionStr raw : Str) : Except V1Err V1Info :=
  match v1CompilePattern raw raw with
  | .error e => .error e
  | .ok r =>
    match reMatch r versionStr with
    | none => .error .pattern
    | some m =>
      if m.stop < versionStr.length then .error .pattern
      else match v1ParseGroups (groupdict r m) with
        | .error .valueError => .error .pattern      -- impossible calendar date (v1version.py after the C09 repair)
        | x => x

/-- `is_valid`: only PatternError is caught -/
def v1IsValid (versionStr raw : Str) : Except V1Err Bool :=
  match v1ParseVersionInfo versionStr raw with
  | .ok _ => .ok true
  | .error .pattern => .ok false
  | .error e => .error e

/-! ### rendering -/

/-- `full_pattern.replace("{" + part_name + "}", full_part_format)` over `FULL_PART_FORMATS` -/
def v1FullPattern (formats : List (Str × Str)) (raw : Str) : Str :=
  formats.foldl (fun acc (pf : Str × Str) => replaceAll ('{' :: pf.1 ++ ['}']) pf.2 acc) raw


/-- the `kwargs` of `format_version`; NEWEST binding first (so `lookup` sees the last assignment) -/
def v1Kwargs (v : V1Info) : Except V1Err (List (Str × FV)) := do
  let base : List (Str × FV) := [
    ("year".toList, optNat v.year), ("quarter".toList, optNat v.quarter), ("month".toList, optNat v.month),
    ("dom".toList, optNat v.dom), ("doy".toList, optNat v.doy), ("iso_week".toList, optNat v.isoWeek),
    ("us_week".toList, optNat v.usWeek), ("major".toList, .nat v.major), ("minor".toList, .nat v.minor),
    ("patch".toList, .nat v.patch), ("bid".toList, .str v.bid), ("tag".toList, .str v.tag)]
  let (release, pepTag) ←
    if v.tag == "final".toList then pure (([] : Str), ([] : Str))
    else match lookup v.tag Gen.pep440TagByTag with
      | some p => pure ('-' :: v.tag, p ++ ['0'])
      | none => throw .keyError
  let k1 : List (Str × FV) :=
    [("release_tag".toList, .str v.tag), ("pep440_tag".toList, .str pepTag), ("release".toList, .str release)] ++ base
  let k2 : List (Str × FV) := match v.year with
    | some y => if y != 0 then [("yyyy".toList, .nat y), ("yy".toList, .str (last2 (natToStr y)))] ++ k1 else k1
    | none => k1
  -- `int(vinfo.bid, 10)`: digit strings only (anything else `int` accepts is outside the model)
  if !isDigitStr v.bid then throw .unsupported
  let k3 : List (Str × FV) := ("BID".toList, .nat (strToNat v.bid)) :: k2
  let k4 := Gen.v1IdFieldsByPart.foldl (fun (kw : List (Str × FV)) (pf : Str × Str) =>
    let val : FV := (lookup pf.2 kw).getD .none
    if lowerStr pf.1 == lowerStr pf.2 then
      match val with
      | .str s => (pf.1, .nat (strToNat s)) :: kw
      | x => (pf.1, x) :: kw
    else
      let s : Str := match val with | .nat n => natToStr n | .str s => s | .none => "None".toList
      (pf.1, .str (zfill pf.1.length s)) :: kw) k3
  pure k4

def v1IdentStart (c : Char) : Bool := isAlpha c || c == '_'
def v1IdentChar (c : Char) : Bool := isAlnum c || c == '_'

/-- the text up to the closing `}` of a replacement field; `none` = no closing brace -/
def v1TakeField : Str → Option (Str × Str)
  | [] => none
  | c :: r =>
    if c == '}' then some ([], r)
    else match v1TakeField r with
      | some (f, rest) => some (c :: f, rest)
      | none => none

/-- one replacement field `name[:spec]` rendered: `{name}` = `str(v)`, `{name:0N}` = zero padded
    integer (a `None` with a format spec is a TypeError) -/
def v1RenderField (kw : List (Str × FV)) (field : Str) : Except V1Err Str :=
  let name := field.takeWhile (· != ':')
  let spec := (field.dropWhile (· != ':')).drop 1
  let hasSpec := field.contains ':'
  if name.isEmpty || !(name.head?.map v1IdentStart).getD false || !name.all v1IdentChar then .error .unsupported
  else if hasSpec && !(spec.head? == some '0' && allDigits spec) then .error .unsupported
  else
    match lookup name kw with
    | none => .error .keyError
    | some v =>
      if !hasSpec then
        .ok (match v with | .nat n => natToStr n | .str s => s | .none => "None".toList)
      else
        match v with
        | .nat n => .ok (zfill (strToNat spec) (natToStr n))
        | .none => .error .typeError
        | .str _ => .error .unsupported

/-- `fmt.format(**kwargs)` on the fragment `{name}`, `{name:0N}`, `{{`, `}}`, left to right -/
def v1PyFormatGo (kw : List (Str × FV)) : Nat → Str → Except V1Err Str
  | 0, _ => .error .unsupported
  | _ + 1, [] => .ok []
  | f + 1, c :: r =>
    if c == '{' then
      match r with
      | '{' :: r' => (v1PyFormatGo kw f r').map ('{' :: ·)
      | _ =>
        match v1TakeField r with
        | none => .error .valueError                      -- "expected '}' before end of string"
        | some (field, rest) =>
          if field.contains '{' then .error .unsupported  -- nested replacement field
          else match v1RenderField kw field with
            | .error e => .error e
            | .ok s => (v1PyFormatGo kw f rest).map (s ++ ·)
    else if c == '}' then
      match r with
      | '}' :: r' => (v1PyFormatGo kw f r').map ('}' :: ·)
      | _ => .error .valueError                           -- "Single '}' encountered"
    else (v1PyFormatGo kw f r).map (c :: ·)

def v1PyFormat (kw : List (Str × FV)) (fmt : Str) : Except V1Err Str := v1PyFormatGo kw (fmt.length + 1) fmt

/-- `format_version(vinfo, raw_pattern)` -/
def v1FormatVersion (v : V1Info) (raw : Str) : Except V1Err Str := do
  let kw ← v1Kwargs v
  v1PyFormat kw (v1FullPattern Gen.v1FullPartFormats raw)

/-! ### bumping -/

/-- `version.V1CalendarInfo` as the list of its seven fields -/
def V1Info.calList (v : V1Info) : List (Option Nat) :=
  [v.year, v.quarter, v.month, v.dom, v.doy, v.isoWeek, v.usWeek]

/-- `cal_info(date)`: `iso_week` is `%W`, `us_week` is `%U` -/
def v1CalInfo (y m d : Nat) : List (Option Nat) :=
  [some y, some (quarterFromMonth m), some m, some d, some (dayOfYear y m d), some (weekW y m d), some (weekU y m d)]

/-- `_is_cal_gt(left, right)` on the seven-field lists -/
def v1IsCalGt (l r : List (Option Nat)) : Bool :=
  let ps := presentPairs l r
  lexLt (ps.map (·.2)) (ps.map (·.1))

/-- `vinfo._replace(**cinfo._asdict())` -/
def V1Info.setCal (v : V1Info) : List (Option Nat) → V1Info
  | [y, q, m, d, j, w, u] => { v with year := y, quarter := q, month := m, dom := d, doy := j, isoWeek := w, usWeek := u }
  | _ => v

structure V1Flags where
  major : Bool := false
  minor : Bool := false
  patch : Bool := false
  tag : Option Str := none
  tagNum : Bool := false
  pinDate : Bool := false
  deriving Repr

/-- the calendar step of `incr`: `cur_cinfo` is the old calendar (`--pin-date`) or `cal_info(date)`;
    a version "from the future" keeps its own calendar fields -/
def v1BumpCal (old : V1Info) (fl : V1Flags) (date : Nat × Nat × Nat) : V1Info :=
  let curC : List (Option Nat) := if fl.pinDate then old.calList else v1CalInfo date.1 date.2.1 date.2.2
  if v1IsCalGt old.calList curC then old else old.setCal curC

/-- `--major` / `--minor` / `--patch` / `--tag` on the record -/
def v1ApplyFlags (c : V1Info) (fl : V1Flags) : V1Info :=
  let c2 := if fl.major then { c with major := c.major + 1, minor := 0, patch := 0 } else c
  let c3 := if fl.minor then { c2 with minor := c2.minor + 1, patch := 0 } else c2
  let c4 := if fl.patch then { c3 with patch := c3.patch + 1 } else c3
  match fl.tag with
  | some t => if t.isEmpty then c4 else { c4 with tag := t }
  | none => c4

/-- the record arithmetic of `incr` between reading and rendering: calendar step, `lexid.next_id`
    (OverflowError at the all-nines id), flags (`--tag-num` is NotImplementedError) -/
def v1Bump (old : V1Info) (fl : V1Flags) (date : Nat × Nat × Nat) : Except V1Err V1Info :=
  let cur0 := v1BumpCal old fl date
  if !isDigitStr cur0.bid then .error .unsupported
  else match nextId cur0.bid with
    | none => .error .overflow
    | some b => if fl.tagNum then .error .notImplemented else .ok (v1ApplyFlags { cur0 with bid := b } fl)

/-- `incr(old_version, raw_pattern, …, maybe_date=date)`; `.ok none` = no new version (None) -/
def v1Incr (oldVersion raw : Str) (fl : V1Flags) (date : Nat × Nat × Nat) : Except V1Err (Option Str) := do
  let old ← match v1ParseVersionInfo oldVersion raw with
    | .ok v => pure v
    | .error .pattern => return none
    | .error e => throw e
  let new ← v1Bump old fl date
  let s ← v1FormatVersion new raw
  if s == oldVersion then return none else return some s

/-! ### which engine? -/

/-- `incr_dispatch`: `any("{" + part + "}" in raw_pattern for part in PART_PATTERNS + FULL_PART_FORMATS)` -/
def hasV1PartWith (parts formats : List (Str × Str)) (raw : Str) : Bool :=
  (parts.map (·.1) ++ formats.map (·.1)).any (fun n => isInfix ('{' :: n ++ ['}']) raw)

def hasV1Part (raw : Str) : Bool := hasV1PartWith Gen.v1PartPatterns Gen.v1FullPartFormats raw

/-- `_parse_version_tags` with the legacy parser -/
def v1ParseVersionTags (pat : Str) : List Str → Except V1Err (List Str)
  | [] => .ok []
  | t :: ts =>
    match v1IsValid t pat with
    | .error e => .error e
    | .ok b =>
      match v1ParseVersionTags pat ts with
      | .error e => .error e
      | .ok rest => .ok (if b then t :: rest else rest)

/-- `_is_valid_version(raw_pattern, old, new, unique)` for a pattern with braces
    (`is_new_pattern = False`): legacy parser, PEP 440 order, uniqueness among the tags -/
def v1Gate (pat old new : Str) (unique : Bool) (globalTags : List Str) : Except V1Err GateVerdict :=
  match v1ParseVersionInfo new pat with
  | .error .pattern => .ok .rejectPattern
  | .error e => .error e
  | .ok _ =>
    if pepLe new old then .ok .rejectNotGreater
    else if unique then
      match v1ParseVersionTags pat globalTags with
      | .error e => .error e
      | .ok vts => if vts.contains new then .ok .rejectNotUnique else .ok .accept
    else .ok .accept

/-- outcome of `bumpver test` as seen from outside -/
inductive TestOutcome
  | announce (new : Str) (pep440 : Str)
  | exit1
  | crash
  | unsupported
  deriving DecidableEq, Repr

def IncrFlags.toV1 (fl : IncrFlags) : V1Flags :=
  { major := fl.major, minor := fl.minor, patch := fl.patch, tag := fl.tag, tagNum := fl.tagNum, pinDate := fl.pinDate }

/-- result of either engine's `incr`: new version / None / exception -/
inductive IncrResult
  | new (s : Str) | noChange | crash | unsupported
  deriving DecidableEq, Repr

/-- `incr_dispatch` -/
def dispatchIncr (old pat : Str) (fl : IncrFlags) (date today : Nat × Nat × Nat) : IncrResult :=
  if hasV1Part pat then
    match v1Incr old pat fl.toV1 date with
    | .ok (some s) => .new s
    | .ok none => .noChange
    | .error .unsupported => .unsupported
    | .error _ => .crash
  else
    match incr old pat fl date today with
    | .ok (some s) => .new s
    | .ok none => .noChange
    | .error .unsupported => .unsupported
    | .error _ => .crash

/-- the gate for any pattern: `is_new_pattern` picks the parser -/
def dispatchGate (pat old new : Str) (today : Nat × Nat × Nat) : IncrResult :=
  if isNewPattern pat then
    match gate pat old new false [] today with
    | .ok .accept => .new new
    | .ok _ => .noChange
    | .error .unsupported => .unsupported
    | .error _ => .crash
  else
    match v1Gate pat old new false [] with
    | .ok .accept => .new new
    | .ok _ => .noChange
    | .error .unsupported => .unsupported
    | .error _ => .crash

/-- `_normalize_set_version` for a pattern with braces: the text given with --set-version is read and rendered again by the
    legacy engine (`1.02.3` ↦ `1.2.3` for `{semver}`); a PatternError of either step leaves the text as it is (the gate reports it) -/
def legacyNormalizeSetVersion (pat v : Str) : Except V1Err Str :=
  match v1ParseVersionInfo v pat with
  | .error .pattern => .ok v
  | .error e => .error e
  | .ok vi =>
    match v1FormatVersion vi pat with
    | .error .pattern => .ok v
    | r => r

/-- `_normalize_set_version` for ANY pattern: `is_new_pattern` picks the engine -/
def dispatchNormalize (pat v : Str) (today : Nat × Nat × Nat) : IncrResult :=
  if isNewPattern pat then
    match normalizeSetVersion pat v today with
    | .ok s => .new s
    | .error .unsupported => .unsupported
    | .error _ => .crash
  else
    match legacyNormalizeSetVersion pat v with
    | .ok s => .new s
    | .error .unsupported => .unsupported
    | .error _ => .crash

/-- `bumpver test OLD PATTERN [flags] [--date D] [--set-version V]` for ANY pattern:
    `incr_dispatch` picks the engine by `hasV1Part`, the gate by `isNewPattern` -/
def dispatchCliTest (old pat : Str) (fl : IncrFlags) (dateGiven : Bool) (date today : Nat × Nat × Nat)
    (setVersion : Option Str) : TestOutcome :=
  if !validReleaseTag fl.tag then .exit1
  else if !validFlags pat fl then .exit1
  else if dateGiven && fl.pinDate then .exit1
  else
    let r : IncrResult := match setVersion with
      | some v => dispatchNormalize pat v today
      | none => dispatchIncr old pat fl date today
    match r with
    | .crash => .crash
    | .unsupported => .unsupported
    | .noChange => .exit1
    | .new new =>
      match dispatchGate pat old new today with
      | .new _ => .announce new (verStr (parseVersion new))
      | .noChange => .exit1
      | .crash => .crash
      | .unsupported => .unsupported

end BV
