/-
  Model/PatWf.lean — the decidable side conditions of the round-trip theorems of C02 (Props/C02.lean), as
  EXECUTABLE definitions (no proofs here, so the compiled driver can evaluate them on every generated
  pattern and record and report how much of the generated input lies inside the theorems' domain):

  `partDoms` / `partOk` : the domain of every supported part (where recogniser and renderer agree)
  `Pat.wf` / `Pat.wfTop` : static well-formedness of a pattern tree ("uniquely readable")
  `Pat.vok`              : the record lies in the domain of every part that is RENDERED
  `Pat.caps` / `Pat.fv`  : the named groups / the group dictionary the match of the rendered text yields
  `Pat.agree`            : "every part equal"
  `Pat.calAnchored`, `tagCoh` : the two remaining hypotheses (see Props/C02.lean)
-/
import BumpverVerif.Model.PatAst
namespace BV

def isTagPart (n : Str) : Bool := n == "TAG".toList || n == "PYTAG".toList

def optIn (o : Option Nat) (lo hi : Nat) : Bool :=
  match o with
  | some x => decide (lo ≤ x) && decide (x ≤ hi)
  | none => false

def tagOk (v : VInfo) : Bool := Gen.validReleaseTagValues.contains v.tag

/-- PYTAG is rendered: the tag is a CLI release tag other than `final`, and `pytag` is its
    image under `PEP440_TAG_BY_TAG` -/
def pytagOk (v : VInfo) : Bool :=
  tagOk v && (lookup v.tag Gen.pep440TagByTag == some v.pytag) && !v.pytag.isEmpty

/-- the domain of every supported part (GITHASH / HEXHASH are absent: outside the language) -/
def partDoms : List (Str × (VInfo → Bool)) := [
  ("YYYY".toList, fun v => optIn v.cal.yearY 1000 9999),
  ("YY".toList, fun v => optIn v.cal.yearY 2001 2099),
  ("0Y".toList, fun v => optIn v.cal.yearY 2000 2099),
  ("GGGG".toList, fun v => optIn v.cal.yearG 1000 9999),
  ("GG".toList, fun v => optIn v.cal.yearG 2001 2099),
  ("0G".toList, fun v => optIn v.cal.yearG 2000 2099),
  ("Q".toList, fun v => optIn v.cal.quarter 1 4),
  ("MM".toList, fun v => optIn v.cal.month 1 12),
  ("0M".toList, fun v => optIn v.cal.month 1 12),
  ("DD".toList, fun v => optIn v.cal.dom 1 31),
  ("0D".toList, fun v => optIn v.cal.dom 1 31),
  ("JJJ".toList, fun v => optIn v.cal.doy 1 366),
  ("00J".toList, fun v => optIn v.cal.doy 1 366),
  ("WW".toList, fun v => optIn v.cal.weekW 0 52),
  ("0W".toList, fun v => optIn v.cal.weekW 0 52),
  ("UU".toList, fun v => optIn v.cal.weekU 0 52),
  ("0U".toList, fun v => optIn v.cal.weekU 0 52),
  ("VV".toList, fun v => optIn v.cal.weekV 1 53),
  ("0V".toList, fun v => optIn v.cal.weekV 1 53),
  ("MAJOR".toList, fun _ => true),
  ("MINOR".toList, fun _ => true),
  ("PATCH".toList, fun _ => true),
  ("NUM".toList, fun _ => true),
  ("INC0".toList, fun _ => true),
  ("INC1".toList, fun v => decide (1 ≤ v.inc1)),
  ("BUILD".toList, fun v => isDigitStr v.bid),
  ("BLD".toList, fun v => isDigitStr v.bid && decide (1 ≤ strToNat v.bid)),
  ("TAG".toList, tagOk),
  ("PYTAG".toList, pytagOk)]

/-- the field of part `n` lies in the domain on which recogniser and renderer agree -/
def partOk (v : VInfo) (n : Str) : Bool :=
  match lookup n partDoms with
  | some d => d v
  | none => false

/-- parts whose recogniser is variable-width or (for simplicity) any calendar alternation: the
    next rendered character must not be a digit.  YYYY / GGGG (fixed four digits) and the tags
    (no alternative is a prefix of another) need no such condition. -/
def needND (n : Str) : Bool :=
  !(["YYYY".toList, "GGGG".toList, "TAG".toList, "PYTAG".toList].contains n)

/-- a class of continuations, described by their first character -/
structure FSet where
  digit : Bool
  lower : Bool
  lits : List Char
  atEnd : Bool
  deriving Repr

def FSet.hasChar (F : FSet) (c : Char) : Bool :=
  (F.digit && isDigit c) || (F.lower && isLower c) || F.lits.contains c

def FSet.has (F : FSet) : Str → Bool
  | [] => F.atEnd
  | c :: _ => F.hasChar c

def FSet.union (A B : FSet) : FSet :=
  ⟨A.digit || B.digit, A.lower || B.lower, A.lits ++ B.lits, A.atEnd || B.atEnd⟩

/-- only the end of the input follows (the whole version string) -/
def FSet.endOnly : FSet := ⟨false, false, [], true⟩

def FSet.noDigit (F : FSet) : Bool := !F.digit && F.lits.all (fun c => !isDigit c)
def FSet.noLower (F : FSet) : Bool := !F.lower && F.lits.all (fun c => !isLower c)

/-- the first characters of what `p` followed by a continuation in `F` can render to -/
def Pat.first : Pat → FSet → FSet
  | .done, F => F
  | .lit c _, _ => ⟨false, false, [c], false⟩
  | .part n _, _ => if isTagPart n then ⟨false, true, [], false⟩ else ⟨true, false, [], false⟩
  | .opt body rest, F => (Pat.first body (Pat.first rest F)).union (Pat.first rest F)

/-- the compiled body cannot match at all on a continuation of class `F` -/
def Pat.failsOn : Pat → FSet → Bool
  | .lit c _, F => !F.hasChar c
  | .part n _, F => if isTagPart n then F.noLower else F.noDigit
  | _, _ => false

def Pat.wf : Pat → FSet → Bool
  | .done, _ => true
  | .lit _ rest, F => Pat.wf rest F
  | .part n rest, F =>
    (lookup n partDoms).isSome && Pat.wf rest F && (!needND n || (Pat.first rest F).noDigit)
  | .opt body rest, F =>
    Pat.wf body (Pat.first rest F) && Pat.wf rest F && Pat.failsOn body (Pat.first rest F)

/-- fields of the parts, left to right -/
def Pat.fields (p : Pat) : List Str := p.parts.filterMap (fun n => lookup n Gen.partFields)

def nodupStr : List Str → Bool
  | [] => true
  | x :: xs => !xs.contains x && nodupStr xs

/-- a supported ("uniquely readable") version pattern -/
def Pat.wfTop (p : Pat) : Bool := Pat.wf p FSet.endOnly && nodupStr p.fields

/-- the record is in the domain of every part that is rendered -/
def Pat.vok (v : VInfo) : Pat → Bool
  | .done => true
  | .lit _ rest => Pat.vok v rest
  | .part n rest => partOk v n && Pat.vok v rest
  | .opt body rest => (Pat.allZero v body || Pat.vok v body) && Pat.vok v rest

/-- (field, text) of every rendered part, in match order -/
def Pat.caps (v : VInfo) : Pat → List (Str × Str)
  | .done => []
  | .lit _ rest => Pat.caps v rest
  | .part n rest =>
    match lookup n Gen.partFields, partText v n with
    | some f, some t => (f, t) :: Pat.caps v rest
    | _, _ => Pat.caps v rest
  | .opt body rest => (if Pat.allZero v body then [] else Pat.caps v body) ++ Pat.caps v rest

def Pat.fv (v : VInfo) (p : Pat) : FVals := p.fields.map (fun f => (f, lookup f (Pat.caps v p)))

/-- every part of the pattern renders the same for `v'` as for `v`; omitted groups stay omitted -/
def Pat.agree (v v' : VInfo) : Pat → Bool
  | .done => true
  | .lit _ rest => Pat.agree v v' rest
  | .part n rest => (partText v' n == partText v n) && Pat.agree v v' rest
  | .opt body rest =>
    (if Pat.allZero v body then Pat.allZero v' body else Pat.agree v v' body) && Pat.agree v v' rest

def calPartNames : List Str :=
  ["YYYY", "YY", "0Y", "GGGG", "GG", "0G", "Q", "MM", "0M", "DD", "0D", "JJJ", "00J", "WW", "0W", "UU", "0U",
   "VV", "0V"].map String.toList

def isCalPart (n : Str) : Bool := calPartNames.contains n

/-- parts that keep `parse_field_values_to_cinfo` from falling back to TODAY: they are never 0 -/
def anchorPartNames : List Str :=
  ["YYYY", "YY", "0Y", "GGGG", "GG", "0G", "MM", "0M", "DD", "0D", "JJJ", "00J", "VV", "0V"].map String.toList

def Pat.calAnchored (p : Pat) : Bool :=
  p.parts.any (fun n => anchorPartNames.contains n) || p.parts.all (fun n => !isCalPart n)

/-- tag / pytag coherence: an empty `pytag` belongs to the `final` tag.  Every record that
    `parse_field_values_to_vinfo` or `_incr_numeric` produce satisfies it.  WITHOUT it the round trip is
    false: p = `TAG[PYTAG]`, v = { tag := "beta", pytag := "" } (all else default) is `wfTop`, `vok`
    (the PYTAG group is all-zero), renders to "beta", and reads back as { tag := "beta", pytag := "b" }
    (the `tag and not pytag` branch fills `pytag` from PEP440_TAG_BY_TAG), which renders to "betab". -/
def tagCoh (v : VInfo) : Bool := !v.pytag.isEmpty || v.tag == "final".toList

end BV
