/-
  Model/PatText.lean — the SOURCE TEXT of a pattern tree and the decidable, local side condition
  (`tokSafe`) under which bumpver's string surgery (`compileStr`, Model/V2Patterns.lean) and the tree
  (`Pat.compile`, Model/PatAst.lean) provably agree (Props/C02Tie.lean).

  * `Pat.text`      : pattern source text (literal brackets written `\[` `\]`, groups `[`…`]`, part names verbatim;
                      defined in Model/PepTree.lean)
  * `Pat.gtext`     : the text after escaping and after the bracket rewrite (`(?:` … `)?`), parts still by name
  * `Pat.regexText` : the structural regex source: escaped literal / `(?:` body `)?` / `(?P<field>` table regex `)`
  * `tokSafe`       : no part name begins at a literal character; no part name begins inside a part token and
                      runs past its end; every field at most once; a part name contained in another part of the
                      pattern (TAG in PYTAG) has the same field or its field is absent from the pattern; literal
                      characters are lower-case / digits / punctuation (no upper case, backslash, `^`, `$`);
                      no empty group `[]`.

  Executable, no proofs (except the defining equations of `Pat.text`), no Mathlib.
-/
import BumpverVerif.Model.PatWf
import BumpverVerif.Model.PepTree
namespace BV

/-- a literal character as written in pattern source -/
def litText (c : Char) : Str := if c == '[' || c == ']' then ['\\', c] else [c]

/-! the pattern source text of a tree is `Pat.text` (Model/PepTree.lean); its defining equations in the form
    used here: -/
theorem Pat.text_done : Pat.text .done = [] := rfl
theorem Pat.text_lit (c : Char) (rest : Pat) : Pat.text (.lit c rest) = litText c ++ Pat.text rest := rfl
theorem Pat.text_part (n : Str) (rest : Pat) : Pat.text (.part n rest) = n ++ Pat.text rest := rfl
theorem Pat.text_opt (body rest : Pat) :
    Pat.text (.opt body rest) = '[' :: (Pat.text body ++ ']' :: Pat.text rest) := rfl

/-- the characters the generated `RE_PATTERN_ESCAPES` escapes (entries for `[`, `]`, backslash are skipped
    by `_compile_pattern_re`) -/
def patEscChars : List Char :=
  (Gen.rePatternEscapes.filter
    (fun ce => !(ce.1.all (fun c => "[]\\".toList.contains c) && !ce.1.isEmpty))).filterMap (fun ce => ce.1.head?)

/-- a literal character in regex source -/
def regexLit (c : Char) : Str := if patEscChars.contains c || c == '[' || c == ']' then ['\\', c] else [c]

def fieldOf (n : Str) : Str := (lookup n Gen.partFields).getD []
def rxOf (n : Str) : Str := (lookup n Gen.partPatterns).getD []

/-- `(?P<field>regex)` of a part -/
def groupText (n : Str) : Str := "(?P<".toList ++ fieldOf n ++ ">".toList ++ rxOf n ++ ")".toList

/-- escaped text with the brackets rewritten to optional groups; parts still by name -/
def Pat.gtext : Pat → Str
  | .done => []
  | .lit c rest => regexLit c ++ Pat.gtext rest
  | .part n rest => n ++ Pat.gtext rest
  | .opt body rest => "(?:".toList ++ (Pat.gtext body ++ (")?".toList ++ Pat.gtext rest))

/-- the regex source, structurally -/
def Pat.regexText : Pat → Str
  | .done => []
  | .lit c rest => regexLit c ++ Pat.regexText rest
  | .part n rest => groupText n ++ Pat.regexText rest
  | .opt body rest => "(?:".toList ++ (Pat.regexText body ++ (")?".toList ++ Pat.regexText rest))

/-- the part names `_iter_part_patterns` scans for -/
def partNames : List Str := Gen.partPatterns.map (·.1)

/-- characters literal text may denote (as in C07): no upper-case letter, backslash, `^`, `$` -/
def litOk (c : Char) : Bool := !isUpper c && c != '\\' && c != '^' && c != '$'

/-- shape: supported literals, known parts, no empty group -/
def Pat.shapeOk : Pat → Bool
  | .done => true
  | .lit c rest => litOk c && Pat.shapeOk rest
  | .part n rest => (lookup n Gen.partPatterns).isSome && (lookup n Gen.partFields).isSome && Pat.shapeOk rest
  | .opt body rest => (match body with | .done => false | _ => true) && Pat.shapeOk body && Pat.shapeOk rest

/-- no part name begins at the head of `s` -/
def noNameAt (s : Str) : Bool := partNames.all (fun m => !m.isPrefixOf s)

/-- every part name that begins inside the token `n` (followed by `k`) ends inside it -/
def tokenClosed (n k : Str) : Bool :=
  (List.range n.length).all (fun o =>
    partNames.all (fun m => !m.isPrefixOf (n.drop o ++ k) || decide (o + m.length ≤ n.length)))

/-- adjacency: `k` = the source text that follows the tree -/
def Pat.safeK : Pat → Str → Bool
  | .done, _ => true
  | .lit c rest, k => noNameAt (c :: (Pat.text rest ++ k)) && Pat.safeK rest k
  | .part n rest, k => tokenClosed n (Pat.text rest ++ k) && Pat.safeK rest k
  | .opt body rest, k => Pat.safeK body (']' :: (Pat.text rest ++ k)) && Pat.safeK rest k

/-- a part name `m` contained in the part `n` has the same field, or its field does not occur in the pattern -/
def innerOk (fields : List Str) (n : Str) : Bool :=
  partNames.all (fun m => m == n || !isInfix m n || fieldOf m == fieldOf n || !fields.contains (fieldOf m))

/-- THE SIDE CONDITION of the tree ↔ string-surgery tie -/
def tokSafe (p : Pat) : Bool :=
  p.shapeOk && p.safeK [] && nodupStr p.fields && p.parts.all (innerOk p.fields)

end BV
