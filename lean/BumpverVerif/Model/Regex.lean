/-
  Model/Regex.lean — the fragment of Python `re` that bumpver's compiled patterns use.

  * `Re`      : regex AST (literals, `.`, classes, sequence, ORDERED alternation, greedy
                bounded/unbounded repetition, named groups, `^`, `$`).
  * `Re.m`    : priority-ordered LIST-OF-SUCCESSES semantics: `r.m st` lists every way `r`
                can match at state `st`, in the order a backtracking engine tries them;
                its head is what `re.match` reports.
  * `search`  : leftmost start, first success at that start (= `regexp.search`).
  * `parseRe` : a parser for that fragment of regex SYNTAX — bumpver builds its regexes as
                strings at run time (escaped literal text + bracket rewrite + part
                substitution); `none` = outside the fragment (or a Python `re.error`).

  Tied to Python's `re` by the correspondence ops `re_search` / `compile` (behavioural).
  All recursion is structural (fuel where needed).
-/
import BumpverVerif.Model.Basic
namespace BV

inductive ClsItem
  | ch (c : Char)
  | range (lo hi : Char)
  | digit | notDigit | space | notSpace | word | notWord
  deriving DecidableEq, Repr

inductive Re
  | eps
  | chr (c : Char)
  | any                                   -- `.` (no newline)
  | cls (neg : Bool) (items : List ClsItem)
  | seq (a b : Re)
  | alt (a b : Re)
  | rep (r : Re) (min : Nat) (max : Option Nat)   -- greedy
  | grp (name : Str) (r : Re)              -- `(?P<name>…)`
  | bol | eol
  deriving Repr

/-- ASCII reading of the categories (the driver answers `unsupported` for non-ASCII input
    when a category escape is present). -/
def ClsItem.matches : ClsItem → Char → Bool
  | .ch c, x => x == c
  | .range lo hi, x => lo ≤ x && x ≤ hi
  | .digit, x => isDigit x
  | .notDigit, x => !isDigit x
  | .space, x => isPySpace x
  | .notSpace, x => !isPySpace x
  | .word, x => isAlnum x || x == '_'
  | .notWord, x => !(isAlnum x || x == '_')

/-- matcher state: remaining input, "at absolute position 0", captures (newest first) -/
structure MSt where
  rest : Str
  start : Bool
  caps : List (Str × Str)
  deriving Repr

def MSt.step (s : MSt) (r : Str) : MSt := { s with rest := r, start := false }

/-- greedy repetition of `step` with progress requirement (an iteration that consumes nothing
    ends the loop, as in CPython); `fuel` ≥ remaining length. -/
def mRep (step : MSt → List MSt) : Nat → Nat → Option Nat → MSt → List MSt
  | 0, min, _, st => if min == 0 then [st] else []
  | fuel + 1, min, max, st =>
    let more : List MSt :=
      if max == some 0 then []
      else ((step st).filter (fun st' => st'.rest.length < st.rest.length)).flatMap
             (mRep step fuel (min - 1) (max.map (· - 1)))
    more ++ (if min == 0 then [st] else [])

def Re.m : Re → MSt → List MSt
  | .eps, s => [s]
  | .chr c, s => match s.rest with
    | x :: r => if x == c then [s.step r] else []
    | [] => []
  | .any, s => match s.rest with
    | x :: r => if x != '\n' then [s.step r] else []
    | [] => []
  | .cls neg items, s => match s.rest with
    | x :: r => if (items.any (·.matches x)) != neg then [s.step r] else []
    | [] => []
  | .seq a b, s => (a.m s).flatMap b.m
  | .alt a b, s => a.m s ++ b.m s
  | .rep r min max, s => mRep r.m s.rest.length min max s
  | .grp name r, s =>
    (r.m s).map (fun s' =>
      { s' with caps := (name, s.rest.take (s.rest.length - s'.rest.length)) :: s'.caps })
  | .bol, s => if s.start then [s] else []
  | .eol, s => if s.rest.isEmpty || s.rest == ['\n'] then [s] else []

/-- result of a successful match: span and named groups -/
structure Match where
  start : Nat
  stop : Nat
  caps : List (Str × Str)
  deriving Repr, DecidableEq

/-- `regexp.match(s)` -/
def reMatch (r : Re) (s : Str) : Option Match :=
  match (r.m { rest := s, start := true, caps := [] }).head? with
  | some st => some { start := 0, stop := s.length - st.rest.length, caps := st.caps }
  | none => none

/-- `regexp.search(s)`: try every start position from the left; `idx` = current offset -/
def searchGo (r : Re) : Nat → Str → Option Match
  | idx, [] =>
    match (r.m { rest := [], start := idx == 0, caps := [] }).head? with
    | some st => some { start := idx, stop := idx, caps := st.caps }
    | none => none
  | idx, c :: cs =>
    match (r.m { rest := c :: cs, start := idx == 0, caps := [] }).head? with
    | some st => some { start := idx, stop := idx + ((c :: cs).length - st.rest.length), caps := st.caps }
    | none => searchGo r (idx + 1) cs

def reSearch (r : Re) (s : Str) : Option Match := searchGo r 0 s

/-- `match.groupdict()[name]` (newest capture wins; `none` = group did not participate) -/
def Match.group (m : Match) (name : Str) : Option Str := lookup name m.caps

/-! ### regex syntax -/

/-- `\x` escapes outside classes: category, or literal for punctuation / control escapes -/
def escapeAtom (c : Char) : Option Re :=
  if c == 'd' then some (.cls false [.digit])
  else if c == 'D' then some (.cls false [.notDigit])
  else if c == 's' then some (.cls false [.space])
  else if c == 'S' then some (.cls false [.notSpace])
  else if c == 'w' then some (.cls false [.word])
  else if c == 'W' then some (.cls false [.notWord])
  else if c == 'n' then some (.chr '\n')
  else if c == 't' then some (.chr '\t')
  else if c == 'r' then some (.chr '\r')
  else if c == 'f' then some (.chr '\x0c')
  else if c == 'v' then some (.chr '\x0b')
  else if isAlnum c then none                       -- \b \A \Z \1 \x.. \u.. : outside the fragment
  else some (.chr c)

def escapeClsItem (c : Char) : Option ClsItem :=
  if c == 'd' then some .digit else if c == 'D' then some .notDigit
  else if c == 's' then some .space else if c == 'S' then some .notSpace
  else if c == 'w' then some .word else if c == 'W' then some .notWord
  else if c == 'n' then some (.ch '\n') else if c == 't' then some (.ch '\t')
  else if c == 'r' then some (.ch '\r')
  else if isAlnum c then none
  else some (.ch c)

/-- body of a character class after `[` / `[^`; `first` = no item read yet (a leading `]` is
    literal).  Returns items and the input after the closing `]`. -/
def parseClsItems : Nat → Bool → List ClsItem → Str → Option (List ClsItem × Str)
  | 0, _, _, _ => none
  | _ + 1, _, _, [] => none
  | f + 1, first, acc, c :: r =>
    if c == ']' && !first then some (acc.reverse, r)
    else if c == '\\' then
      match r with
      | e :: r' => match escapeClsItem e with
        | some it => parseClsItems f false (it :: acc) r'
        | none => none
      | [] => none
    else if c == '[' then none                         -- nested sets / POSIX classes: outside
    else match r with
      | '-' :: hi :: r' =>
        if hi == ']' then parseClsItems f false (.ch c :: acc) r      -- trailing '-' is literal
        else if hi == '\\' || hi == '[' then none
        else if c ≤ hi then parseClsItems f false (.range c hi :: acc) r'
        else none                                                      -- bad range: re.error
      | _ => parseClsItems f false (.ch c :: acc) r

def takeDigits : Str → Str × Str
  | [] => ([], [])
  | c :: r => if isDigit c then let (d, rest) := takeDigits r; (c :: d, rest) else ([], c :: r)

/-- `{m}`, `{m,}`, `{,n}`, `{m,n}` after the `{`; `none` = not a quantifier (literal `{`) -/
def parseBraces (s : Str) : Option (Nat × Option Nat × Str) :=
  let (lo, r1) := takeDigits s
  match r1 with
  | '}' :: r2 => if lo.isEmpty then none else some (strToNat lo, some (strToNat lo), r2)
  | ',' :: r2 =>
    let (hi, r3) := takeDigits r2
    match r3 with
    | '}' :: r4 =>
      if lo.isEmpty && hi.isEmpty then none
      else some (strToNat lo, if hi.isEmpty then none else some (strToNat hi), r4)
    | _ => none
  | _ => none

/-- a quantifier directly after an atom; lazy / possessive / stacked quantifiers are outside
    the fragment. Returns `some none` for outside-fragment. -/
def parseQuant (a : Re) (s : Str) : Option (Re × Str) :=
  let finish (r : Re) (rest : Str) : Option (Re × Str) :=
    match rest with
    | '?' :: _ => none | '+' :: _ => none | '*' :: _ => none
    | '{' :: r' => if (parseBraces r').isSome then none else some (r, rest)
    | _ => some (r, rest)
  let repeatable : Bool := match a with | .bol => false | .eol => false | .eps => false | _ => true
  match s with
  | '*' :: r => if repeatable then finish (.rep a 0 none) r else none
  | '+' :: r => if repeatable then finish (.rep a 1 none) r else none
  | '?' :: r => if repeatable then finish (.rep a 0 (some 1)) r else none
  | '{' :: r =>
    match parseBraces r with
    | some (lo, hi, r') =>
      if !repeatable then none
      else if (match hi with | some h => decide (h < lo) | none => false) then none
      else finish (.rep a lo hi) r'
    | none => some (a, s)                      -- literal `{` handled by the caller's next atom
  | _ => some (a, s)

def takeName : Str → Str → Option (Str × Str)
  | _, [] => none
  | acc, c :: r => if c == '>' then some (acc.reverse, r) else takeName (c :: acc) r

mutual
  /-- alternation: `seq ('|' seq)*`; stops before `)` or at end of input -/
  def parseAlt : Nat → Str → Option (Re × Str)
    | 0, _ => none
    | f + 1, s =>
      match parseSeq f s with
      | none => none
      | some (a, rest) =>
        match rest with
        | '|' :: r' =>
          match parseAlt f r' with
          | some (b, rest') => some (.alt a b, rest')
          | none => none
        | _ => some (a, rest)

  /-- sequence of quantified atoms; stops before `|`, `)` or at end of input -/
  def parseSeq : Nat → Str → Option (Re × Str)
    | 0, _ => none
    | f + 1, s =>
      match s with
      | [] => some (.eps, [])
      | '|' :: _ => some (.eps, s)
      | ')' :: _ => some (.eps, s)
      | _ =>
        match parseAtom f s with
        | none => none
        | some (a, rest) =>
          match parseQuant a rest with
          | none => none
          | some (q, rest') =>
            match parseSeq f rest' with
            | some (.eps, rest'') => some (q, rest'')
            | some (b, rest'') => some (.seq q b, rest'')
            | none => none

  def parseAtom : Nat → Str → Option (Re × Str)
    | 0, _ => none
    | f + 1, s =>
      match s with
      | [] => none
      | '(' :: '?' :: ':' :: r =>
        match parseAlt f r with
        | some (a, ')' :: rest) => some (a, rest)
        | _ => none
      | '(' :: '?' :: 'P' :: '<' :: r =>
        match takeName [] r with
        | some (name, r') =>
          match parseAlt f r' with
          | some (a, ')' :: rest) => some (.grp name a, rest)
          | _ => none
        | none => none
      | '(' :: '?' :: _ => none
      | '(' :: r =>
        match parseAlt f r with
        | some (a, ')' :: rest) => some (a, rest)      -- unnamed group: captures are not observed
        | _ => none
      | '[' :: '^' :: r =>
        match parseClsItems (r.length + 1) true [] r with
        | some (items, rest) => some (.cls true items, rest)
        | none => none
      | '[' :: r =>
        match parseClsItems (r.length + 1) true [] r with
        | some (items, rest) => some (.cls false items, rest)
        | none => none
      | '\\' :: e :: r => (escapeAtom e).map (fun a => (a, r))
      | '\\' :: [] => none
      | '.' :: r => some (.any, r)
      | '^' :: r => some (.bol, r)
      | '$' :: r => some (.eol, r)
      | '*' :: _ => none | '+' :: _ => none | '?' :: _ => none     -- nothing to repeat
      | c :: r => some (.chr c, r)
end

/-- `re.compile(src)` restricted to the fragment -/
def parseRe (src : Str) : Option Re :=
  match parseAlt (3 * src.length + 3) src with
  | some (r, []) => some r
  | _ => none

end BV
