/-
  Model/ReDecEq.lean — decidable equality of regex syntax trees, in ONE place (several proof files and the generated
  rewrite types need it; the driver does not).  `re.Pattern.__eq__` is read as structural equality of the syntax tree.
-/
import BumpverVerif.Model.Regex
namespace BV

deriving instance DecidableEq for Re

end BV
