/-
  Model/Update.lean — the WHOLE `bumpver update` command as one function: the pieces that the
  other model files describe separately are composed the way cli.py composes them
  (cli.update → _parse_vcs_options → _update_cfg_from_vcs → incr_dispatch → _is_valid_version →
   _try_update/_update → vcs.assert_not_dirty → v2rewrite.rewrite_files → vcs.commit).

  `Model/Plan.lean` takes the OUTCOMES of the version decision, of the dirty check and of the
  rewrite phase as parameters (`gateOk`, `uniqueOk`, `dirtyAbort`, `rewriteOk`, `startVersion`,
  `announced`).  Here they are COMPUTED from the models of those steps (`startVersion`, `incr`,
  `gate`, `parseVersionTags` of Model/Cli.lean, `assertNotDirty` of Model/Vcs.lean, `planWrites` /
  `rewriteFiles` of Model/Rewrite.lean), and the result of the command is the triple
  (files afterwards, externally visible events in order, exit code).

  The glue is where the end-to-end properties live (C01 "in every other case no project file is
  changed", C06 "nothing is committed, tagged or pushed", C13 "--dry changes nothing"); Props/Update.lean
  proves them of `updateFull` for all inputs, and the driver op `update_full` runs the composite against
  the real CLI (real files, fake git) on generated projects.
-/
import BumpverVerif.Model.Plan
import BumpverVerif.Model.Cli
import BumpverVerif.Model.Rewrite
import BumpverVerif.Model.Vcs
import BumpverVerif.Model.Diff
namespace BV

structure UpdIn where
  c0 : PlanCfg                     -- commit/tag/push/hooks/scopeBranch/tagMsgEmpty as configured
  a : PlanCli                      -- the command line (tri-state flags, --dry, --fetch, --ignore-vcs-tag, --set-version given)
  scope0 : TagScope                -- configured tag_scope (c0.scopeBranch = (scope0 = branch))
  cliScope : Option TagScope       -- --tag-scope (a.scopeBranch = its branch-ness)
  kind : VcsKind
  vcsPresent : Bool
  failAt : Option Nat
  branchRemote : Bool
  urlRemote : Bool
  preOk : Bool
  postOk : Bool
  pat : Str                        -- version_pattern (new style)
  cfgVersion : Str                 -- current_version of the config file
  fl : IncrFlags
  dateGiven : Bool
  date : Nat × Nat × Nat
  today : Nat × Nat × Nat
  setVersion : Option Str
  scopeTags : List Str             -- what the tag listing of the scope in force serves
  globalTags : List Str            -- what the listing of all branches serves (uniqueness check)
  statusLines : List Str           -- lines of the status listing
  allowDirty : Bool
  fs : FS                          -- the project files
  filePatterns : List (Str × List CPat)

def UpdIn.scope (u : UpdIn) : TagScope := u.cliScope.getD u.scope0

def UpdIn.paths (u : UpdIn) : List Str := u.filePatterns.map (·.1)

/-- the environment of the plan, before the decisions are known (the probes only look at these fields) -/
def UpdIn.baseEnv (u : UpdIn) : PlanEnv :=
  { kind := u.kind, vcsPresent := u.vcsPresent, failAt := u.failAt, branchRemote := u.branchRemote,
    urlRemote := u.urlRemote, dirtyAbort := false, gateOk := false, uniqueOk := true, rewriteOk := false,
    preOk := u.preOk, postOk := u.postOk, files := u.paths, startVersion := u.cfgVersion, announced := [] }

/-- what the version part of the command decides -/
structure UpdDecision where
  start : Str                      -- the version the update starts from (C09)
  new : Option Str                 -- the candidate (bump or --set-version), `none` = "no new version"
  gateOk : Bool                    -- full match and strictly greater (C01), uniqueness aside
  uniqueOk : Bool                  -- the candidate is not among the valid tags of all branches
  newV : Option VInfo              -- the candidate read back through the pattern

/-- the tag listing the start-version lookup sees: tags are only seen when a usable VCS listed them
    (`get_tags` returns [] otherwise) -/
def UpdIn.tagsSeen (u : UpdIn) : List Str :=
  if (isUsable u.baseEnv { evs := [], n := 0 }).2 then u.scopeTags else []

/-- `_update_cfg_from_vcs`: the version the update starts from; `none` = the lookup crashed -/
def UpdIn.startE (u : UpdIn) : Option Str :=
  if u.a.ignoreVcsTag then some u.cfgVersion
  else match startVersion u.scope u.pat u.cfgVersion u.today u.tagsSeen with
    | .ok v => some v
    | .error _ => none

def UpdIn.start (u : UpdIn) : Str := u.startE.getD u.cfgVersion

/-- `incr_dispatch` or `--set-version`: the candidate -/
def UpdIn.cand (u : UpdIn) : Option Str :=
  match u.startE with
  | none => none
  | some start =>
    match u.setVersion with
    | some v => (match normalizeSetVersion u.pat v u.today with
      | .ok s => some s
      | .error _ => none)
    | none => match incr start u.pat u.fl u.date u.today with
      | .ok r => r
      | .error _ => none

/-- the two halves of `_is_valid_version` and the read-back of the candidate -/
def decideCand (u : UpdIn) (start : Str) : Option Str → UpdDecision
  | none => { start := start, new := none, gateOk := false, uniqueOk := true, newV := none }
  | some new =>
    { start := start, new := some new,
      gateOk := (match gate u.pat start new false [] u.today with
        | .ok .accept => true
        | _ => false),
      uniqueOk := (match parseVersionTags u.pat u.today u.globalTags with
        | .ok vts => !vts.contains new
        | .error _ => false),
      newV := (match parseVersionInfo new u.pat u.today with
        | .ok v => some v
        | .error _ => none) }

def UpdIn.decide (u : UpdIn) : UpdDecision := decideCand u u.start u.cand

/-- `vcs.assert_not_dirty` on the status listing -/
def UpdIn.dirtyAbort (u : UpdIn) : Bool :=
  match assertNotDirty u.statusLines u.paths u.allowDirty with
  | .proceed => false
  | _ => true

/-- the rewrite phase can complete: every configured file exists and every pattern has a match.
    Under `--dry` the DIFF path decides (`v2rewrite.diff`): it reads the version the update starts from as the old
    version and has the extra error "nothing changed although a pattern renders differently". -/
def UpdIn.rewriteOk (u : UpdIn) (d : UpdDecision) : Bool :=
  match d.newV with
  | none => false
  | some v =>
    if u.a.dry then
      match parseVersionInfo d.start u.pat u.today with
      | .error _ => false
      | .ok ov => match diffFiles u.fs ov v u.filePatterns with
        | .ok _ => true
        | .error _ => false
    else match planWrites u.fs v u.filePatterns with
      | .ok _ => true
      | .error _ => false

/-- some step left the modelled language (regex constructs outside the fragment, non-documented parts …): the driver then
    answers `unsupported` instead of an outcome -/
def UpdIn.unsupported (u : UpdIn) : Bool :=
  let e1 := if u.a.ignoreVcsTag then false else
    match startVersion u.scope u.pat u.cfgVersion u.today u.tagsSeen with
    | .error .unsupported => true
    | _ => false
  let e2 := match u.startE, u.setVersion with
    | some start, none => (match incr start u.pat u.fl u.date u.today with | .error .unsupported => true | _ => false)
    | some _, some v => (match normalizeSetVersion u.pat v u.today with | .error .unsupported => true | _ => false)
    | _, _ => false
  let e3 := match u.cand with
    | none => false
    | some new =>
      (match gate u.pat u.start new false [] u.today with | .error .unsupported => true | _ => false) ||
      (match parseVersionTags u.pat u.today u.globalTags with | .error .unsupported => true | _ => false) ||
      (match parseVersionInfo new u.pat u.today with
        | .error .unsupported => true
        | .error _ => false
        | .ok v =>
          (match planWrites u.fs v u.filePatterns with | .error (.crash .unsupported) => true | _ => false) ||
          (match parseVersionInfo u.start u.pat u.today with
            | .ok ov => (match diffFiles u.fs ov v u.filePatterns with | .error (.crash .unsupported) => true | _ => false)
            | .error .unsupported => true
            | .error _ => false))
  e1 || e2 || e3

def UpdIn.env (u : UpdIn) : PlanEnv :=
  let d := u.decide
  { u.baseEnv with dirtyAbort := u.dirtyAbort, gateOk := d.gateOk, uniqueOk := d.uniqueOk,
                   rewriteOk := u.rewriteOk d, startVersion := d.start, announced := d.new.getD [] }

/-- `bumpver update …`: (files afterwards, events in order, exit code) -/
def updateFull (u : UpdIn) : FS × List Ev × Nat :=
  if !validReleaseTag u.fl.tag || (u.dateGiven && u.fl.pinDate) then (u.fs, [], 1)
  else
    let (evs, code) := plan u.c0 u.a u.env
    let fs' :=
      if evs.contains .rewrite then
        match u.decide.newV with
        | some v => (rewriteFiles u.fs u.filePatterns v).1
        | none => u.fs
      else u.fs
    (fs', evs, code)

end BV
