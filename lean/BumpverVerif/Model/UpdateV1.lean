/-
  Model/UpdateV1.lean — the WHOLE `bumpver update` command for a LEGACY configuration
  (`cfg.is_new_pattern == False`: the version pattern contains `{` or `}`), composed the way cli.py
  composes it.  Same shape as Model/Update.lean (which does it for new-style patterns), same `plan`
  (Model/Plan.lean); the branches of cli.py that differ for a legacy configuration are

    cli.get_latest_vcs_version_tag / _parse_version_tags  → `v1version.is_valid`            (`v1ParseVersionTags`)
    cli.incr_dispatch                                     → `v1version.incr` when the pattern has a legacy
                                                            part, `v2version.incr` otherwise  (`dispatchIncr`)
    cli._normalize_set_version                            → v1 parse + v1 format             (`legacyNormalizeSetVersion`)
    cli._is_valid_version                                 → `v1version.parse_version_info`   (`v1Gate`)
    cli._update                                           → v1 parse + `v1rewrite.rewrite_files` (`v1PlanWrites` / `v1RewriteFiles`)
    cli._print_diff / _v1_get_diff (only `--dry`)          → v1 parse of old and new + `v1rewrite.diff` (`v1DiffAll`)

  `_update_cfg_from_vcs` itself does not depend on the engine except through `_parse_version_tags`; Model/Cli.lean
  has it only with the new-style parser inside (`startVersion`), so its legacy instance is defined HERE
  (`v1LatestVersionTag`, `v1StartVersion`; the same `latestOf`, the same scope rule).

  The legacy parser does not look at today's date (`v1ParseVersionInfo` has no `today`).  `today` is still
  an input because `incr_dispatch` picks the engine by "has a legacy PART" (`hasV1Part`), not by "has a
  brace": a pattern with braces but without a legacy part (`{foo}`, `}MAJOR`) is bumped by `v2version.incr`,
  which does read the clock.  Nothing else of this file looks at it.

  The file patterns are what `config._compile_v1_file_patterns` produces: per file, in configuration order,
  `v1patterns.compile_pattern(version_pattern, raw_pattern)` — given here as the (version_pattern,
  raw_pattern) argument pairs and compiled by `v1CPat` (Model/V1Rewrite.lean).

  No Mathlib (linked into the driver).
-/
import BumpverVerif.Model.Plan
import BumpverVerif.Model.Cli
import BumpverVerif.Model.V1
import BumpverVerif.Model.V1Rewrite
import BumpverVerif.Model.Vcs
namespace BV

/-! ### `_update_cfg_from_vcs` with the legacy parser (not in Model/V1.lean: defined here) -/

/-- `get_latest_vcs_version_tag` for `cfg.is_new_pattern == False` -/
def v1LatestVersionTag (pat : Str) (tags : List Str) : Except V1Err (Option Str) :=
  match v1ParseVersionTags pat tags with
  | .error e => .error e
  | .ok vts => .ok (latestOf vts)

/-- `_update_cfg_from_vcs` for a legacy configuration: the version the update starts from -/
def v1StartVersion (scope : TagScope) (pat cfgVersion : Str) (tags : List Str) : Except V1Err Str :=
  match v1LatestVersionTag pat tags with
  | .error e => .error e
  | .ok none => .ok cfgVersion
  | .ok (some t) =>
    match scope with
    | .default => if pepLe t cfgVersion then .ok cfgVersion else .ok t
    | _ => .ok t

/-! ### the composite -/

structure UpdInV1 where
  c0 : PlanCfg                     -- commit/tag/push/hooks/scopeBranch/tagMsgEmpty as configured
  a : PlanCli                      -- the command line
  scope0 : TagScope                -- configured tag_scope
  cliScope : Option TagScope       -- --tag-scope
  kind : VcsKind
  vcsPresent : Bool
  failAt : Option Nat
  branchRemote : Bool
  urlRemote : Bool
  preOk : Bool
  postOk : Bool
  pat : Str                        -- version_pattern (LEGACY: contains a brace)
  cfgVersion : Str                 -- current_version of the config file
  fl : IncrFlags
  dateGiven : Bool
  date : Nat × Nat × Nat
  today : Nat × Nat × Nat          -- only read by `v2version.incr` (brace pattern without a legacy part)
  setVersion : Option Str
  scopeTags : List Str             -- what the tag listing of the scope in force serves
  globalTags : List Str            -- what the listing of all branches serves (uniqueness check)
  statusLines : List Str           -- lines of the status listing
  allowDirty : Bool
  fs : FS                          -- the project files
  filePatterns : List (Str × List (Str × Str))   -- path ↦ (version_pattern, raw_pattern) pairs, configuration order

def UpdInV1.scope (u : UpdInV1) : TagScope := u.cliScope.getD u.scope0

def UpdInV1.paths (u : UpdInV1) : List Str := u.filePatterns.map (·.1)

/-- `config._compile_v1_file_patterns`: every pair through `v1patterns.compile_pattern` -/
def UpdInV1.cpats (u : UpdInV1) : List (Str × List CPat) :=
  u.filePatterns.map (fun fp => (fp.1, fp.2.map (fun pr => v1CPat pr.1 pr.2)))

/-- the environment of the plan, before the decisions are known (the probes only look at these fields) -/
def UpdInV1.baseEnv (u : UpdInV1) : PlanEnv :=
  { kind := u.kind, vcsPresent := u.vcsPresent, failAt := u.failAt, branchRemote := u.branchRemote,
    urlRemote := u.urlRemote, dirtyAbort := false, gateOk := false, uniqueOk := true, rewriteOk := false,
    preOk := u.preOk, postOk := u.postOk, files := u.paths, startVersion := u.cfgVersion, announced := [] }

/-- what the version part of the command decides (the record is the legacy one) -/
structure UpdDecisionV1 where
  start : Str                      -- the version the update starts from (C09)
  new : Option Str                 -- the candidate (bump or --set-version), `none` = "no new version"
  gateOk : Bool                    -- read by the legacy pattern in full and strictly greater (C01 / C20)
  uniqueOk : Bool                  -- the candidate is not among the valid tags of all branches
  newV : Option V1Info             -- the candidate read back through the legacy pattern

/-- tags are only seen when a usable VCS listed them (`get_tags` returns [] otherwise) -/
def UpdInV1.tagsSeen (u : UpdInV1) : List Str :=
  if (isUsable u.baseEnv { evs := [], n := 0 }).2 then u.scopeTags else []

/-- `_update_cfg_from_vcs`: the version the update starts from; `none` = the lookup crashed -/
def UpdInV1.startE (u : UpdInV1) : Option Str :=
  if u.a.ignoreVcsTag then some u.cfgVersion
  else match v1StartVersion u.scope u.pat u.cfgVersion u.tagsSeen with
    | .ok v => some v
    | .error _ => none

def UpdInV1.start (u : UpdInV1) : Str := u.startE.getD u.cfgVersion

/-- `incr_dispatch` (legacy engine iff the pattern has a legacy part) or `--set-version`
    (`_normalize_set_version`, legacy branch): the candidate -/
def UpdInV1.cand (u : UpdInV1) : Option Str :=
  match u.startE with
  | none => none
  | some start =>
    match u.setVersion with
    | some v => (match legacyNormalizeSetVersion u.pat v with
      | .ok s => some s
      | .error _ => none)
    | none => match dispatchIncr start u.pat u.fl u.date u.today with
      | .new s => some s
      | _ => none

/-- the two halves of `_is_valid_version` (legacy branch) and the read-back of the candidate -/
def decideCandV1 (u : UpdInV1) (start : Str) : Option Str → UpdDecisionV1
  | none => { start := start, new := none, gateOk := false, uniqueOk := true, newV := none }
  | some new =>
    { start := start, new := some new,
      gateOk := (match v1Gate u.pat start new false [] with
        | .ok .accept => true
        | _ => false),
      uniqueOk := (match v1ParseVersionTags u.pat u.globalTags with
        | .ok vts => !vts.contains new
        | .error _ => false),
      newV := (match v1ParseVersionInfo new u.pat with
        | .ok v => some v
        | .error _ => none) }

def UpdInV1.decide (u : UpdInV1) : UpdDecisionV1 := decideCandV1 u u.start u.cand

/-- `vcs.assert_not_dirty` on the status listing (engine independent) -/
def UpdInV1.dirtyAbort (u : UpdInV1) : Bool :=
  match assertNotDirty u.statusLines u.paths u.allowDirty with
  | .proceed => false
  | _ => true

/-- the rewrite phase can complete.  Real run: `list(v1rewrite.iter_rewritten(…))` (every configured file
    exists, every pattern has a match, no rendering crashes).  Under `--dry` the DIFF path decides
    (`_v1_get_diff`: the version the update starts from is read as the old record, then `v1rewrite.diff`:
    all files must exist, files in the order of their paths, the `has_updated_version` loop, the extra error
    "nothing changed although a pattern renders differently"). -/
def UpdInV1.rewriteOk (u : UpdInV1) (d : UpdDecisionV1) : Bool :=
  match d.newV with
  | none => false
  | some v =>
    if u.a.dry then
      match v1ParseVersionInfo d.start u.pat with
      | .error _ => false
      | .ok ov => match v1DiffAll u.fs ov v u.cpats with
        | .ok _ => true
        | .error _ => false
    else match v1PlanWrites u.fs v u.cpats with
      | .ok _ => true
      | .error _ => false

/-- some step left the modelled language, or the pattern is not a legacy pattern at all: the driver then
    answers `unsupported` instead of an outcome -/
def UpdInV1.unsupported (u : UpdInV1) : Bool :=
  let e0 := isNewPattern u.pat
  let e1 := if u.a.ignoreVcsTag then false else
    match v1StartVersion u.scope u.pat u.cfgVersion u.tagsSeen with
    | .error .unsupported => true
    | _ => false
  let e2 := match u.startE, u.setVersion with
    | some start, none => (match dispatchIncr start u.pat u.fl u.date u.today with | .unsupported => true | _ => false)
    | some _, some v => (match legacyNormalizeSetVersion u.pat v with | .error .unsupported => true | _ => false)
    | _, _ => false
  let e3 := match u.cand with
    | none => false
    | some new =>
      (match v1Gate u.pat u.start new false [] with | .error .unsupported => true | _ => false) ||
      (match v1ParseVersionTags u.pat u.globalTags with | .error .unsupported => true | _ => false) ||
      (match v1ParseVersionInfo new u.pat with
        | .error .unsupported => true
        | .error _ => false
        | .ok v =>
          (match v1PlanWrites u.fs v u.cpats with | .error (.crash .unsupported) => true | _ => false) ||
          (match v1ParseVersionInfo u.start u.pat with
            | .ok ov => (match v1DiffAll u.fs ov v u.cpats with | .error (.crash .unsupported) => true | _ => false)
            | .error .unsupported => true
            | .error _ => false))
  e0 || e1 || e2 || e3

def UpdInV1.env (u : UpdInV1) : PlanEnv :=
  let d := u.decide
  { u.baseEnv with dirtyAbort := u.dirtyAbort, gateOk := d.gateOk, uniqueOk := d.uniqueOk,
                   rewriteOk := u.rewriteOk d, startVersion := d.start, announced := d.new.getD [] }

/-- `bumpver update …` with a legacy configuration: (files afterwards, events in order, exit code) -/
def updateFullV1 (u : UpdInV1) : FS × List Ev × Nat :=
  if !validReleaseTag u.fl.tag || (u.dateGiven && u.fl.pinDate) then (u.fs, [], 1)
  else
    let (evs, code) := plan u.c0 u.a u.env
    let fs' :=
      if evs.contains .rewrite then
        match u.decide.newV with
        | some v => (v1RewriteFiles u.fs u.cpats v).1
        | none => u.fs
      else u.fs
    (fs', evs, code)

end BV
