/-
  Model/FilePatterns.lean — how the configured `file_patterns` become the map
  (file → compiled patterns): the REFERENCE definitions for the functions of config.py that
  Model/Config.lean keeps as parameters of `CfgEnv` or models only for well-behaved inputs,
  and the Python built-ins the GENERATED translations of these functions are written in
  (harness/translate_filepatterns.py → Gen/F_<name>.lean, group `filepatterns`).

  What Model/Config.lean already has, and what is added here:

  * `iterGlobExpanded glob` (Model/Config.lean) takes a TOTAL `glob : Str → List Str`.  The real
    `list(pl.Path().glob(g))` RAISES for some keys (`""` ValueError, `"."` IndexError, an absolute
    path NotImplementedError — Python 3.12), and `_iter_glob_expanded_file_patterns` is a generator:
    the exception surfaces when the consumer reaches that key, AFTER the patterns of the earlier
    keys have been checked.  `iterGlobExpandedE` is the generator with a raising glob.
  * `compileFilePatterns env isNew vp fps` (Model/Config.lean) works on RAW patterns, first checks
    everything (`checkAllPatterns`), then merges.  `compileFilePatternsE` is the code as it runs:
    lazily, item by item, on COMPILED patterns of an arbitrary type `π`, with the callees
    `compile_pattern` / `compile_patterns` (v2) and `compile_patterns` (v1) as parameters that may
    raise.  `Proofs/FilePatternsLemmas.lean` proves that both agree when glob is total and the
    callees are what `CfgEnv.compileOk` says.
  * `_validate_version_with_pattern` is `CfgEnv.validVersion : Str → Str → Bool → Bool` in
    Model/Config.lean.  `validateVersionE` is the code (callees `v2version.parse_version_info`,
    `v1version.parse_version_info` as parameters), `validVersion` the predicate it decides when
    the callees are the hand model's `parseVersionInfo` / `v1ParseVersionInfo`.
  * `parseRawConfigE`: `_parse_raw_config` as a whole (open the file, dispatch on the format,
    the own-entry rule) over the hand model's `parseTomlPost` / `parseCfgPost` / `addSelfPattern`.

  Exceptions are represented by their CLASS NAME (`Str`), as in Model/ConfigPy.lean.
  No Mathlib.  Structural recursion only.
-/
import BumpverVerif.Model.ConfigPy
import BumpverVerif.Model.Calendar
import BumpverVerif.Model.V2Version
import BumpverVerif.Model.V1
namespace BV.Py

/-! ## trusted primitives of the translator (group `filepatterns`) -/

/-- A Python generator without effects of its own, run to its end: the values it yields, in order,
    and the exception class that ends it (`none`: it returns).  Whoever iterates over it sees the
    items first and the exception afterwards — so an exception the CONSUMER raises while handling
    an earlier item wins. -/
structure PyGen (α : Type) where
  items : List α
  exc : Option Str
  deriving Repr

/-- the end of a generator body (falling off the end, bare `return`) -/
def PyGen.done {α : Type} : PyGen α := ⟨[], none⟩

/-- `raise C(...)` inside a generator body (or an exception of a callee passing through it) -/
def PyGen.raise {α : Type} (cls : Str) : PyGen α := ⟨[], some cls⟩

/-- `yield a`, then the rest of the body -/
def PyGen.yield {α : Type} (a : α) (rest : PyGen α) : PyGen α := ⟨a :: rest.items, rest.exc⟩

/-- sequencing: a part of the body (a loop), then what follows it — unless the part raised -/
def PyGen.andThen {α : Type} (g rest : PyGen α) : PyGen α :=
  match g.exc with
  | none => ⟨g.items ++ rest.items, rest.exc⟩
  | some e => ⟨g.items, some e⟩

/-- the end of the iteration over another generator: its exception (if any) passes through -/
def PyGen.ofExc {α : Type} : Option Str → PyGen α
  | none => PyGen.done
  | some e => PyGen.raise e

/-- `re.search(r"([\s]+)", s)`: the first maximal run of white space (`\s` on a `str` pattern is
    `str.isspace`, the model's `isPySpace`; checked on all code points); `none` = no match -/
def reSearchWs (s : Str) : Option Str :=
  match s.dropWhile (fun c => !isPySpace c) with
  | [] => none
  | t => some (t.takeWhile isPySpace)

end BV.Py

namespace BV

/-! ## `_iter_glob_expanded_file_patterns` with a glob that can raise -/

/-- `_iter_glob_expanded_file_patterns(raw_patterns_by_file)` as a generator.
    `glob g` = `[str(p) for p in pl.Path().glob(g)]` (or the class of the exception it raises).
    NORMALISATION ASSUMPTION: a `pathlib.Path` is represented by its `str()`, which pathlib prints
    normalised and relative to the working directory (no leading `./`, no `//`, no trailing `/`;
    `..` is kept) — so two different keys can yield the SAME path string, and then the entries are
    merged by `_compile_file_patterns`.  The fallback yields the key AS WRITTEN (not normalised). -/
def iterGlobExpandedE (glob : Str → Except Str (List Str)) : FilePatterns → Py.PyGen (Str × List Str)
  | [] => Py.PyGen.done
  | (g, pats) :: rest =>
    match glob g with
    | .error e => Py.PyGen.raise e
    | .ok fs =>
      let r := iterGlobExpandedE glob rest
      ⟨(match fs with
        | [] => [(g, pats)]
        | _ => fs.map (fun f => (f, pats))) ++ r.items, r.exc⟩

/-! ## `_compile_v2_file_patterns`, `_compile_v1_file_patterns`, `_compile_file_patterns` -/

/-- the callees of the compile step.  The version pattern is handed over AS FOUND in the raw dict
    (`RawVal`: the annotation `version_pattern: str` is not checked by Python). -/
structure CompileCallees (π : Type) where
  /-- `v2patterns.compile_pattern(version_pattern, raw_pattern)` -/
  cp2 : RawVal → Str → Except Str π
  /-- `v2patterns.compile_patterns(version_pattern, raw_patterns)` -/
  cps2 : RawVal → List Str → Except Str (List π)
  /-- `v1patterns.compile_patterns(version_pattern, raw_patterns)` -/
  cps1 : RawVal → List Str → Except Str (List π)

/-- the inner loop of `_compile_v2_file_patterns`: the `[` check and the provoked `re.error`
    (`try: compile_pattern(...) except re.error: logger.warning(...); raise` re-raises what it caught) -/
def checkPatternsE {π : Type} (cp2 : RawVal → Str → Except Str π) (vp : RawVal) : List Str → Except Str Unit
  | [] => .ok ()
  | p :: ps =>
    if startsWith p "[".toList then .error "ValueError".toList
    else
      match cp2 vp p with
      | .error e => .error e
      | .ok _ => checkPatternsE cp2 vp ps

/-- one item of `_compile_v2_file_patterns` / `_compile_v1_file_patterns` -/
def compileItemE {π : Type} (c : CompileCallees π) (isNew : Bool) (vp : RawVal) (pats : List Str) :
    Except Str (List π) :=
  if isNew then
    match checkPatternsE c.cp2 vp pats with
    | .error e => .error e
    | .ok () => c.cps2 vp pats
  else c.cps1 vp pats

/-- the generators `_compile_v2_file_patterns` / `_compile_v1_file_patterns` after their two dict
    reads: the items of the glob expansion one by one, the first exception ends it, and the
    exception that ended the glob expansion (if any) comes last -/
def compileItemsE {π : Type} (c : CompileCallees π) (isNew : Bool) (vp : RawVal) :
    List (Str × List Str) → Option Str → Py.PyGen (Str × List π)
  | [], tail => Py.PyGen.ofExc tail
  | (f, pats) :: rest, tail =>
    match compileItemE c isNew vp pats with
    | .error e => Py.PyGen.raise e
    | .ok ps => Py.PyGen.yield (f, ps) (compileItemsE c isNew vp rest tail)

/-- `file_patterns[path].extend(patterns)` or a new entry at the end (`mergeInto` of
    Model/Config.lean for any element type) -/
def mergeIntoG {α : Type} (acc : List (Str × List α)) (item : Str × List α) : List (Str × List α) :=
  match lookup item.1 acc with
  | some old => setOpt item.1 (old ++ item.2) acc
  | .none => acc ++ [item]

/-- the patterns of all items with path `f`, in the order of the items (specification of the merge) -/
def collectFor {α : Type} (f : Str) : List (Str × List α) → List α
  | [] => []
  | (k, ps) :: rest => if k = f then ps ++ collectFor f rest else collectFor f rest

/-- the paths in first-seen order, without repetition (specification of the merge) -/
def firstSeenFrom (seen : List Str) : List Str → List Str
  | [] => seen
  | k :: ks => firstSeenFrom (if k ∈ seen then seen else seen ++ [k]) ks

def firstSeen (ks : List Str) : List Str := firstSeenFrom [] ks

/-- a list comprehension `[f(x) for x in xs]` whose element expression can raise: the first exception
    ends it -/
def mapE {α β : Type} (f : α → Except Str β) : List α → Except Str (List β)
  | [] => .ok []
  | x :: xs =>
    match f x with
    | .error e => .error e
    | .ok y =>
      match mapE f xs with
      | .error e => .error e
      | .ok ys => .ok (y :: ys)

/-- `_compile_file_patterns(raw_cfg, is_new_pattern)` for a raw dict that holds `version_pattern`
    (any value) and `file_patterns` -/
def compileFilePatternsE {π : Type} (glob : Str → Except Str (List Str)) (c : CompileCallees π)
    (isNew : Bool) (vp : RawVal) (fps : FilePatterns) : Except Str (List (Str × List π)) :=
  let g := iterGlobExpandedE glob fps
  let items := compileItemsE c isNew vp g.items g.exc
  match items.exc with
  | some e => .error e
  | .none => .ok (items.items.foldl mergeIntoG [])

/-- the same on the raw dict: `raw_cfg['version_pattern']`, `raw_cfg['file_patterns']` (KeyError) -/
def compileFilePatternsD {π : Type} (glob : Str → Except Str (List Str)) (c : CompileCallees π)
    (d : TomlSection) (isNew : Bool) : Except Str (List (Str × List π)) :=
  match lookup "version_pattern".toList d.opts with
  | .none => .error "KeyError".toList
  | some vp =>
    match d.filePatterns with
    | .none => .error "KeyError".toList
    | some fps => compileFilePatternsE glob c isNew vp fps

/-! ## `_validate_version_with_pattern` -/

/-- `_validate_version_with_pattern(current_version, version_pattern, is_new_pattern)`: the callees
    `v2version.parse_version_info` / `v1version.parse_version_info` are parameters; ONLY
    `version.PatternError` is turned into ValueError, every other exception passes through -/
def validateVersionE {π2 π1 : Type} (parse2 : Str → Str → Except Str π2) (parse1 : Str → Str → Except Str π1)
    (cv vp : Str) (isNew : Bool) : Except Str Unit :=
  let parsed : Except Str Unit :=
    if isNew then (match parse2 cv vp with | .error e => .error e | .ok _ => .ok ())
    else (match parse1 cv vp with | .error e => .error e | .ok _ => .ok ())
  match parsed with
  | .error e => if e == "PatternError".toList then .error "ValueError".toList else .error e
  | .ok () =>
    if isNew then
      if vp.any isPySpace then .error "ValueError".toList
      else if !isValidWeekPattern vp then .error "ValueError".toList
      else .ok ()
    else .ok ()

/-- the Python class of a `PErr` (v2 parser) -/
def PErr.pyClass : PErr → Str
  | .pattern => "PatternError".toList
  | .typeError => "TypeError".toList
  | .valueError => "ValueError".toList
  | .overflow => "OverflowError".toList
  | .keyError => "KeyError".toList
  | .unsupported => "re.error".toList        -- `compileRe = none`: the regex does not compile

/-- the Python class of a `V1Err` (v1 parser) -/
def V1Err.pyClass : V1Err → Str
  | .pattern => "PatternError".toList
  | .typeError => "TypeError".toList
  | .valueError => "ValueError".toList
  | .overflow => "OverflowError".toList
  | .keyError => "KeyError".toList
  | .notImplemented => "NotImplementedError".toList
  | .reError => "re.error".toList
  | .unsupported => "re.error".toList

/-- the configuration's `current_version` is accepted for its `version_pattern` -/
def validVersion (today : Nat × Nat × Nat) (cv vp : Str) (isNew : Bool) : Bool :=
  if isNew then
    (match parseVersionInfo cv vp today with | .ok _ => true | .error _ => false)
      && !vp.any isPySpace && isValidWeekPattern vp
  else (match v1ParseVersionInfo cv vp with | .ok _ => true | .error _ => false)

/-! ## `_parse_raw_config` -/

/-- the reader `_parse_raw_config` chooses by `ctx.config_format` ('toml' / 'cfg'; anything else: RuntimeError) -/
def readRawE (fmt : Str) (ini : IniDoc) (toml : TomlDoc) : Except Str RawCfg :=
  if fmt == "toml".toList then (parseTomlPost toml).mapError CfgErr.pyClass
  else if fmt == "cfg".toList then (parseCfgPost ini).mapError CfgErr.pyClass
  else .error "RuntimeError".toList

/-- `_parse_raw_config(ctx)`: `text` = the content of the config file (`none`: it cannot be opened),
    `fmt` = `ctx.config_format`, `rel` = `ctx.config_rel_path`; `ini` / `toml` = what the third-party
    parser hands over for that content.  The own-entry rule is `addSelfPattern`: when the config
    file is not a key of `file_patterns` AS WRITTEN (`ctx.config_rel_path not in …`, no
    normalisation, no globbing), one entry for it is appended whose only pattern is its own
    `current_version` line. -/
def parseRawConfigE (fmt rel : Str) (text : Option Str) (ini : IniDoc) (toml : TomlDoc) : Except Str RawCfg :=
  match text with
  | .none => .error "FileNotFoundError".toList
  | some t =>
    match readRawE fmt ini toml with
    | .error e => .error e
    | .ok r => (addSelfPattern rel t r).mapError CfgErr.pyClass

end BV
