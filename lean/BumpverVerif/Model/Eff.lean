/-
  Model/Eff.lean — the explicit EFFECT MONAD into which `harness/translate_effects.py` translates the
  effectful step-sequencing functions of bumpver (vcs.py `commit`, `get_tags`, `assert_not_dirty`,
  `get_vcs_api`, the methods of `VCSAPI`; cli.py `_update`, `_try_update`).

      Eff α  :=  EffEnv → PState → PState × Except Stop α

  * `PState` is the running state of the hand model `Model/Plan.lean` (events so far, reversed, and the
    number of VCS invocations made) and every VCS invocation goes through the SAME failure oracle
    `vcsCall` (`failAt` = index of the one invocation that fails), so traces of generated definitions
    and of `commitPhase` / `getTags` / `plan` are directly comparable.
  * `Stop` says why a computation stopped early: `sys.exit(n)` or a Python exception.  `SystemExit`
    is not an `Exception` (so `except Exception:` does not catch it) — `Stop.isA`.
  * `EffEnv` = the model environment `PlanEnv` plus what the Python reads from the outside world and
    the hand model abstracts to Booleans: the text each subcommand prints, the matches of `BRANCH_RE`,
    the text of the `CalledProcessError`.

  The PRIMITIVE EFFECTS (`call`, `spCall`, `hook`, `exit`, `dotDirExists`, `rewriteFiles`,
  `branchMatches`, `excStr`, `excStderr`) are the trusted reading of `VCSAPI.__call__` (subprocess), `sp.call`,
  `hooks.run`, `sys.exit`, `os.path.exists`, `rewrite_files`, `BRANCH_RE.finditer`, `str(ex)`; they are
  listed with their Python counterparts in harness/TRANSLATE_EFFECTS.md.  No Mathlib.
-/
import BumpverVerif.Model.Plan
import BumpverVerif.Model.Vcs
namespace BV

/-- why a computation stopped before its end -/
inductive Stop
  | exit (code : Nat)      -- `sys.exit(code)` : SystemExit, NOT a subclass of Exception
  | called                 -- subprocess.CalledProcessError (a VCS invocation returned non-zero)
  | osError                -- OSError / IOError (`get_vcs_api`: "No such directory .git/ or .hg/")
  | valueError             -- ValueError (tuple unpacking in `VCSAPI.status`)
  | noPatternMatch         -- rewrite.NoPatternMatch
  deriving DecidableEq, Repr

/-- the exception classes that occur in `except` clauses of the translated functions -/
inductive ExcClass
  | baseException | exception | calledProcessError | osError | valueError | noPatternMatch
  deriving DecidableEq, Repr

/-- `isinstance(exc, cls)` -/
def Stop.isA : Stop → ExcClass → Bool
  | _, .baseException => true
  | .exit _, _ => false
  | _, .exception => true
  | .called, .calledProcessError => true
  | .osError, .osError => true
  | .valueError, .valueError => true
  | .noPatternMatch, .noPatternMatch => true
  | _, _ => false

/-- `match.groupdict()` of a `BRANCH_RE` match: group name ↦ text or None -/
abbrev GroupDict := String → Option Str

/-- the `VCSAPI` object: only its `name` is modelled (`subcommands` = the table of that name) -/
structure VcsApi where
  name : Str
  deriving DecidableEq, Repr

def VcsKind.name : VcsKind → Str
  | .git => ['g', 'i', 't']
  | .hg => ['h', 'g']

inductive HookKind | pre | post
  deriving DecidableEq, Repr

structure EffEnv where
  plan : PlanEnv                           -- failure oracle, hook results, rewrite result, probes
  output : String → Str                    -- what subcommand `name` prints when it succeeds
  branchMatches : Str → List GroupDict     -- `[m.groupdict() for m in BRANCH_RE.finditer(text)]`
  excText : Str                            -- `str(ex)` of the CalledProcessError of the failing invocation
  excStderr : Str                          -- its `.stderr` (what the VCS itself wrote; `None` = empty)
  osErrno : Int                            -- `err.errno` of an OSError (none is ever raised by the oracle)

abbrev Eff (α : Type) := EffEnv → PState → PState × Except Stop α

namespace Eff

def pure {α : Type} (a : α) : Eff α := fun _ s => (s, .ok a)

def bind {α β : Type} (m : Eff α) (f : α → Eff β) : Eff β := fun e s =>
  match m e s with
  | (s', .ok a) => f a e s'
  | (s', .error x) => (s', .error x)

/-- `raise` -/
def throw {α : Type} (x : Stop) : Eff α := fun _ s => (s, .error x)

/-- `try: m  except …: h ex` — the handler decides (by `Stop.isA`) whether it handles `ex` and
    re-throws otherwise (generated as `fun ex => if ex.isA C then … else Eff.throw ex`) -/
def tryCatch {α : Type} (m : Eff α) (h : Stop → Eff α) : Eff α := fun e s =>
  match m e s with
  | (s', .ok a) => (s', .ok a)
  | (s', .error x) => h x e s'

/-- `try: m  finally: fin` — `fin` runs whatever happened; an exception of `fin` replaces the result -/
def tryFinally {α : Type} (m : Eff α) (fin : Eff Unit) : Eff α := fun e s =>
  match m e s with
  | (s', r) =>
    match fin e s' with
    | (s'', .ok _) => (s'', r)
    | (s'', .error x) => (s'', .error x)

/-- `for x in xs: body` where the body may `return v` (`some v`) or go on (`none`) -/
def forIn {α ρ : Type} : List α → (α → Eff (Option ρ)) → Eff (Option ρ)
  | [], _ => pure none
  | x :: xs, f => bind (f x) (fun r => match r with | some v => pure (some v) | none => forIn xs f)

/-! ### primitive effects -/

/-- the event a `VCSAPI.__call__` logs: `add_path` is recorded with its path (model `Ev.add`) -/
def callEv (name : String) (kw : List (String × Str)) : Ev :=
  if name == "add_path" then .add ((kw.lookup "path").getD []) else .cmd name

/-- `self(name, **kw)` = `VCSAPI.__call__`: one VCS invocation; CalledProcessError iff it is the
    failing one, otherwise its output -/
def call (name : String) (kw : List (String × Str)) : Eff Str := fun e s =>
  match vcsCall e.plan (callEv name kw) s with
  | (s', .ok) => (s', .ok (e.output name))
  | (s', .failed) => (s', .error .called)

/-- `sp.call(self.subcommands[name].split(), …)`: one VCS invocation, returns the return code -/
def spCall (name : String) : Eff Int := fun e s =>
  match vcsCall e.plan (.cmd name) s with
  | (s', .ok) => (s', .ok 0)
  | (s', .failed) => (s', .ok 1)

/-- `hooks.run(path, old, new)`: runs the script, `sys.exit(1)` when it fails.  Which hook it is
    (`k`) is the config field the path was read from. -/
def hook (k : HookKind) (_path old new : Str) : Eff Unit := fun e s =>
  match k with
  | .pre => ({ s with evs := .preHook old new :: s.evs }, if e.plan.preOk then .ok () else .error (.exit 1))
  | .post => ({ s with evs := .postHook old new :: s.evs }, if e.plan.postOk then .ok () else .error (.exit 1))

/-- `sys.exit(n)` -/
def exit {α : Type} (n : Nat) : Eff α := throw (.exit n)

/-- `os.path.exists(f".{name}")`: the model environment has at most one VCS directory, that of `kind` -/
def dotDirExists (name : Str) : Eff Bool := fun e s =>
  (s, .ok (e.plan.vcsPresent && name == e.plan.kind.name))

/-- `v2rewrite.rewrite_files(…)` / `v1rewrite.rewrite_files(…)`: all files are written, or none and
    NoPatternMatch (C06) -/
def rewriteFiles : Eff Unit := fun e s =>
  if e.plan.rewriteOk then ({ s with evs := .rewrite :: s.evs }, .ok ()) else (s, .error .noPatternMatch)

/-- `[m.groupdict() for m in BRANCH_RE.finditer(text)]` -/
def branchMatches (text : Str) : Eff (List GroupDict) := fun e s => (s, .ok (e.branchMatches text))

/-- `str(ex)` -/
def excStr (_ex : Stop) : Eff Str := fun e s => (s, .ok e.excText)

/-- `ex.stderr` of the caught CalledProcessError: `None` when nothing was captured, else the bytes
    (modelled as `Str`) -/
def excStderr (_ex : Stop) : Eff (Option Str) := fun e s =>
  (s, .ok (if e.excStderr.isEmpty then none else some e.excStderr))

/-- `err.errno` -/
def excErrno (_ex : Stop) : Eff Int := fun e s => (s, .ok e.osErrno)

/-- a failed tuple unpacking raises ValueError -/
def ofOption {α : Type} (x : Stop) : Option α → Eff α
  | some a => pure a
  | none => throw x

end Eff

/-! ### reading a result -/

/-- what the hand model keeps of a result -/
def Eff.outcome {α : Type} : Except Stop α → Outcome
  | .ok _ => .ok
  | .error _ => .failed

/-- the process exit code: `sys.exit(n)` gives `n`, an uncaught exception 1 (traceback), else 0 -/
def Eff.exitCode {α : Type} : Except Stop α → Nat
  | .ok _ => 0
  | .error (.exit n) => n
  | .error _ => 1

/-! ### pure Python primitives used by the translated functions (trusted; shared with Model/Vcs.lean) -/

/-- `s.split(None, 1)`: at most two pieces, split at the first whitespace run; leading whitespace is
    skipped, the remainder keeps its trailing whitespace; `[]` for a blank string -/
def pySplitWs1 (s : Str) : List Str :=
  let s1 := s.dropWhile isPySpace
  if s1.isEmpty then []
  else
    let tok := s1.takeWhile (fun c => !isPySpace c)
    let rest := (s1.dropWhile (fun c => !isPySpace c)).dropWhile isPySpace
    if rest.isEmpty then [tok] else [tok, rest]

/-- `a, b = xs` : ValueError (`none`) unless `xs` has exactly two items -/
def unpack2 {α : Type} : List α → Option (α × α)
  | [a, b] => some (a, b)
  | _ => none

/-- `for a, b in xss`: every item is unpacked (ValueError = `none` at the first that is no pair) -/
def unpackAll {α : Type} : List (List α) → Option (List (α × α))
  | [] => some []
  | xs :: rest =>
    match unpack2 xs with
    | none => none
    | some p => (unpackAll rest).map (p :: ·)

/-- `s.split(" ", 1)[0]`: the text before the first blank (the whole string when there is none) -/
def pyBeforeFirstBlank (s : Str) : Str := s.takeWhile (fun c => c != ' ')

/-- `set(xs) & ys` as a list (only its emptiness and membership are ever observed) -/
def setInter (xs ys : List Str) : List Str := xs.filter (fun x => ys.contains x)

end BV
