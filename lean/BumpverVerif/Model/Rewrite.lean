/-
  Model/Rewrite.lean — rewrite.py, parse.py, v2rewrite.py: finding the configured
  occurrences in a file and splicing the new version in.

  * `detectLineSep`, `splitOn`/`join` (Model/Basic)  : `detect_line_sep`, `content.split(sep)`,
                                                      `sep.join(lines)`
  * `hasOverlap`, `iterForPattern`, `iterMatches`   : parse.py
  * `rewriteLines`                                  : v2rewrite.rewrite_lines — the matches of
      one line are applied right to left onto the CURRENT line (after the C03 repair), so
      several different patterns can be replaced on one line
  * `rewriteContent`                                : rfd_from_content + join
  * `rewriteFiles`                                  : iter_rewritten + rewrite_files over an
      abstract file system — every file is read and validated BEFORE the first one is
      written (after the C06 repair)
-/
import BumpverVerif.Model.V2Version
namespace BV

/-- `rewrite.detect_line_sep` -/
def detectLineSep (content : Str) : Str :=
  if isInfix "\r\n".toList content then "\r\n".toList
  else if isInfix "\r".toList content then "\r".toList
  else "\n".toList

/-- a compiled `patterns.Pattern`: (version_pattern, normalized raw_pattern); the regexp is
    determined by the normalized pattern -/
structure CPat where
  vp : Str
  raw : Str
  deriving DecidableEq, Repr

structure LineSpan where
  lineno : Nat
  start : Nat
  stop : Nat
  deriving DecidableEq, Repr

/-- `parse._has_overlap` (touching spans count as overlapping) -/
def hasOverlap (needle : LineSpan) (haystack : List LineSpan) : Bool :=
  haystack.any (fun s => s.lineno == needle.lineno && needle.start ≤ s.stop && needle.stop ≥ s.start)

structure PMatch where
  lineno : Nat
  pat : CPat
  start : Nat
  stop : Nat
  deriving DecidableEq, Repr

def PMatch.span (m : PMatch) : LineSpan := { lineno := m.lineno, start := m.start, stop := m.stop }

/-- `_iter_for_pattern`: per line the FIRST match of `search`, kept only if non-empty -/
def iterForPatternGo (r : Re) (p : CPat) : Nat → List Str → List PMatch
  | _, [] => []
  | n, line :: rest =>
    match reSearch r line with
    | some m =>
      if m.stop > m.start then
        { lineno := n, pat := p, start := m.start, stop := m.stop } :: iterForPatternGo r p (n + 1) rest
      else iterForPatternGo r p (n + 1) rest
    | none => iterForPatternGo r p (n + 1) rest

/-- `iter_matches`: patterns in order; a match overlapping ANY earlier span (yielded or not)
    is suppressed; every span is recorded.  `none` = a pattern outside the regex fragment. -/
def iterMatchesGo (lines : List Str) : List CPat → List LineSpan → Option (List PMatch)
  | [], _ => some []
  | p :: ps, seen =>
    match compileRe p.raw with
    | none => none
    | some r =>
      let ms := iterForPatternGo r p 0 lines
      -- inner loop: thread `seen` through the matches of this pattern
      let (kept, seen') := ms.foldl (fun (acc : List PMatch × List LineSpan) m =>
        (if hasOverlap m.span acc.2 then acc.1 else acc.1 ++ [m], acc.2 ++ [m.span])) ([], seen)
      (iterMatchesGo lines ps seen').map (kept ++ ·)

def iterMatches (lines : List Str) (pats : List CPat) : Option (List PMatch) :=
  iterMatchesGo lines pats []

inductive RwErr
  | noMatch            -- rewrite.NoPatternMatch
  | missingFile        -- IOError "File does not exist"
  | crash (e : PErr)   -- anything else (format errors, unsupported)
  deriving DecidableEq, Repr

def setLine : List Str → Nat → Str → List Str
  | [], _, _ => []
  | _ :: ls, 0, s => s :: ls
  | l :: ls, n + 1, s => l :: setLine ls n s

def insertMatch (x : PMatch) : List PMatch → List PMatch
  | [] => [x]
  | y :: ys =>
    -- key (lineno, -start): ascending line, descending start; stable
    if x.lineno < y.lineno || (x.lineno == y.lineno && x.start > y.start) then x :: y :: ys
    else y :: insertMatch x ys

/-- stable sort by (lineno, -span[0]) -/
def sortMatches (ms : List PMatch) : List PMatch := ms.foldr insertMatch []

/-- apply the (sorted) matches to the lines -/
def applyMatches (v : VInfo) : List PMatch → List Str → Except RwErr (List Str)
  | [], lines => .ok lines
  | m :: ms, lines =>
    match formatVersion v (normalizePattern m.pat.vp m.pat.raw) with
    | .error e => .error (.crash e)
    | .ok repl =>
      let cur := lines.getD m.lineno []
      applyMatches v ms (setLine lines m.lineno (cur.take m.start ++ repl ++ cur.drop m.stop))

/-- `v2rewrite.rewrite_lines` -/
def rewriteLines (pats : List CPat) (v : VInfo) (oldLines : List Str) : Except RwErr (List Str) :=
  match iterMatches oldLines pats with
  | none => .error (.crash .unsupported)
  | some ms =>
    match applyMatches v (sortMatches ms) oldLines with
    | .error e => .error e
    | .ok newLines =>
      -- `set(patterns) == found_patterns`
      if pats.all (fun p => ms.any (fun m => m.pat == p)) then .ok newLines else .error .noMatch

/-- `rfd_from_content` followed by `line_sep.join(new_lines)` -/
def rewriteContent (pats : List CPat) (v : VInfo) (content : Str) : Except RwErr Str :=
  let sep := detectLineSep content
  match rewriteLines pats v (splitOn sep content) with
  | .error e => .error e
  | .ok newLines => .ok (join sep newLines)

/-- abstract file system: path ↦ decoded text -/
abbrev FS := List (Str × Str)

def FS.write (fs : FS) (path content : Str) : FS :=
  match fs with
  | [] => [(path, content)]
  | (p, c) :: rest => if p == path then (p, content) :: rest else (p, c) :: FS.write rest path content

/-- the read-and-validate phase of `iter_rewritten`, fully materialised -/
def planWrites (fs : FS) (v : VInfo) : List (Str × List CPat) → Except RwErr (List (Str × Str))
  | [] => .ok []
  | (path, pats) :: rest =>
    match lookup path fs with
    | none => .error .missingFile
    | some content =>
      match rewriteContent pats v content with
      | .error e => .error e
      | .ok newContent =>
        match planWrites fs v rest with
        | .error e => .error e
        | .ok ws => .ok ((path, newContent) :: ws)

/-- `rewrite_files`: nothing is written unless every file was read and every pattern matched -/
def rewriteFiles (fs : FS) (filePatterns : List (Str × List CPat)) (v : VInfo) : FS × Except RwErr Unit :=
  match planWrites fs v filePatterns with
  | .error e => (fs, .error e)
  | .ok ws => (ws.foldl (fun acc w => FS.write acc w.1 w.2) fs, .ok ())

/-- the pre-repair, lazy loop (read, validate, WRITE, next file) — kept for the negative witness -/
def rewriteFilesLazy (v : VInfo) : FS → List (Str × List CPat) → FS × Except RwErr Unit
  | fs, [] => (fs, .ok ())
  | fs, (path, pats) :: rest =>
    match lookup path fs with
    | none => (fs, .error .missingFile)
    | some content =>
      match rewriteContent pats v content with
      | .error e => (fs, .error e)
      | .ok newContent => rewriteFilesLazy v (FS.write fs path newContent) rest

end BV
