/-
  Model/Cli.lean — the decision logic of cli.py around a bump (new-style patterns):
  `_parse_version_tags`, `get_latest_vcs_version_tag`, `_update_cfg_from_vcs`,
  `_is_valid_version` (the gate), `_validate_release_tag`, `_validate_flags`,
  `incr_dispatch` (v2 branch), and the outcome of `bumpver test` / the version part of
  `bumpver update`.

  `today` = version.TODAY.  Legacy `{…}` patterns are outside this file (Model/V1.lean).
-/
import BumpverVerif.Model.V2Version
import BumpverVerif.Model.Pep440
namespace BV

/-- `"{" not in p and "}" not in p` -/
def isNewPattern (p : Str) : Bool := !p.contains '{' && !p.contains '}'

/-- `version.parse_version(a) <= version.parse_version(b)` -/
def pepLe (a b : Str) : Bool := verLe (parseVersion a) (parseVersion b)
def pepLt (a b : Str) : Bool := verLt (parseVersion a) (parseVersion b)

/-- `_parse_version_tags`: the tags that are valid versions of the pattern; an error of
    `is_valid` other than PatternError propagates (crash) -/
def parseVersionTags (pat : Str) (today : Nat × Nat × Nat) : List Str → Except PErr (List Str)
  | [] => .ok []
  | t :: ts =>
    match isValid t pat today with
    | .error e => .error e
    | .ok b =>
      match parseVersionTags pat today ts with
      | .error e => .error e
      | .ok rest => .ok (if b then t :: rest else rest)

/-- head of `sorted(tags, key=parse_version, reverse=True)`: the FIRST tag (in listing order)
    among those with a maximal key (Python's sort is stable, also with reverse=True) -/
def latestOf : List Str → Option Str
  | [] => none
  | t :: ts =>
    match latestOf ts with
    | none => some t
    | some u => if pepLt t u then some u else some t

/-- `get_latest_vcs_version_tag` -/
def latestVersionTag (pat : Str) (today : Nat × Nat × Nat) (tags : List Str) : Except PErr (Option Str) :=
  match parseVersionTags pat today tags with
  | .error e => .error e
  | .ok vts => .ok (latestOf vts)

inductive TagScope | default | global | branch
  deriving DecidableEq, Repr

/-- `_update_cfg_from_vcs`: the version an update starts from.  `tags` = the tag listing of
    the scope (all branches for default/global, merged into HEAD for branch). -/
def startVersion (scope : TagScope) (pat cfgVersion : Str) (today : Nat × Nat × Nat) (tags : List Str) :
    Except PErr Str :=
  match latestVersionTag pat today tags with
  | .error e => .error e
  | .ok none => .ok cfgVersion
  | .ok (some t) =>
    match scope with
    | .default => if pepLe t cfgVersion then .ok cfgVersion else .ok t
    | _ => .ok t

inductive GateVerdict | accept | rejectPattern | rejectNotGreater | rejectNotUnique
  deriving DecidableEq, Repr

/-- `_is_valid_version(raw_pattern, old_version, new_version, unique)`; `globalTags` = the
    tags of all branches (only consulted when `unique`) -/
def gate (pat old new : Str) (unique : Bool) (globalTags : List Str) (today : Nat × Nat × Nat) :
    Except PErr GateVerdict :=
  match parseVersionInfo new pat today with
  | .error .pattern => .ok .rejectPattern
  | .error e => .error e
  | .ok _ =>
    if pepLe new old then .ok .rejectNotGreater
    else if unique then
      match parseVersionTags pat today globalTags with
      | .error e => .error e
      | .ok vts => if vts.contains new then .ok .rejectNotUnique else .ok .accept
    else .ok .accept

/-- `_validate_release_tag` -/
def validReleaseTag (tag : Option Str) : Bool :=
  match tag with
  | none => true
  | some t => Gen.validReleaseTagValues.contains t

/-- `_validate_flags` (new-style patterns only) -/
def validFlags (pat : Str) (fl : IncrFlags) : Bool :=
  if pat.contains '{' && pat.contains '}' then true
  else (!fl.major || isInfix "MAJOR".toList pat) && (!fl.minor || isInfix "MINOR".toList pat)
       && (!fl.patch || isInfix "PATCH".toList pat)

/-- `_normalize_set_version` (new-style patterns): a version given with --set-version is spelled the way the pattern renders it
    (`1.02.4` ↦ `1.2.4`); text the pattern does not accept is passed on unchanged (the gate then reports it).  Errors other than
    PatternError propagate. -/
def normalizeSetVersion (pat v : Str) (today : Nat × Nat × Nat) : Except PErr Str :=
  match parseVersionInfo v pat today with
  | .error .pattern => .ok v
  | .error e => .error e
  | .ok vi => formatVersion vi pat

/-- the candidate version of `test` / `update`: `--set-version` (normalised) or the bump -/
def candidateE (old pat : Str) (fl : IncrFlags) (date today : Nat × Nat × Nat) (setVersion : Option Str) :
    Except PErr (Option Str) :=
  match setVersion with
  | some v => (normalizeSetVersion pat v today).map some
  | none => incr old pat fl date today

inductive CliOutcome
  | announce (new : Str) (pep440 : Str)     -- exit 0
  | exit1                                    -- sys.exit(1)
  | crash (e : PErr)                         -- traceback (also a non-zero exit)
  deriving DecidableEq, Repr

/-- `bumpver test OLD PATTERN [flags] [--date D] [--set-version V]` for a new-style pattern.
    `dateGiven` = `--date` was passed (it conflicts with --pin-date). -/
def cliTest (old pat : Str) (fl : IncrFlags) (dateGiven : Bool) (date today : Nat × Nat × Nat)
    (setVersion : Option Str) : CliOutcome :=
  if !validReleaseTag fl.tag then .exit1
  else if !validFlags pat fl then .exit1
  else if dateGiven && fl.pinDate then .exit1
  else
    match candidateE old pat fl date today setVersion with
    | .error e => .crash e
    | .ok none => .exit1
    | .ok (some new) =>
      match gate pat old new false [] today with
      | .error e => .crash e
      | .ok .accept => .announce new (verStr (parseVersion new))
      | .ok _ => .exit1

/-- the version part of `bumpver update`: start version from the scope, bump or --set-version,
    gate with the uniqueness check (branch scope or --set-version) -/
def cliUpdateVersion (scope : TagScope) (ignoreVcsTag : Bool) (pat cfgVersion : Str) (fl : IncrFlags)
    (dateGiven : Bool) (date today : Nat × Nat × Nat) (setVersion : Option Str)
    (scopeTags globalTags : List Str) : CliOutcome × Str :=
  if !validReleaseTag fl.tag then (.exit1, cfgVersion)
  else if dateGiven && fl.pinDate then (.exit1, cfgVersion)
  else
    let startE := if ignoreVcsTag then .ok cfgVersion else startVersion scope pat cfgVersion today scopeTags
    match startE with
    | .error e => (.crash e, cfgVersion)
    | .ok old =>
      match candidateE old pat fl date today setVersion with
      | .error e => (.crash e, old)
      | .ok none => (.exit1, old)
      | .ok (some new) =>
        let unique := scope == .branch || setVersion.isSome
        match gate pat old new unique globalTags today with
        | .error e => (.crash e, old)
        | .ok .accept => (.announce new (verStr (parseVersion new)), old)
        | .ok _ => (.exit1, old)

end BV
