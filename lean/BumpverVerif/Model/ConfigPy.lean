/-
  Model/ConfigPy.lean — the Python built-ins that the GENERATED translations of config.py
  (harness/translate_config.py → Gen/F_<name>.lean, group `config`) are written in.

  These definitions are the TRUSTED PRIMITIVES of that translator (documented one by one in
  harness/TRANSLATE_CONFIG.md): each states what one Python built-in does on the data types of
  Model/Config.lean.  They are deliberately tiny.  The hand model (Model/Config.lean) does not
  use them; the ties (Proofs/Tie_<name>.lean) prove generated definition = hand model.

  Exceptions are represented by their CLASS NAME (`Except Str α`); messages are not modelled.
  The pseudo class `!cast` is not a Python exception: it marks the places where the translator
  relies on a static type annotation (`-> str`) for a dynamically typed value.  Every tie
  proves that `!cast` never occurs (the hand model has no such error).

  No Mathlib.  Structural recursion only.
-/
import BumpverVerif.Model.Config
namespace BV.Py

/-- `isinstance(v, str)` / `isinstance(v, (bytes, str))` on a raw config value -/
def isStr : RawVal → Bool
  | .str _ => true
  | _ => false

/-- the `str` behind a dynamically typed raw config value (`none`: it is a bool or None) -/
def strOf : RawVal → Option Str
  | .str s => some s
  | _ => none

/-- a value annotated `str` in the Python source but dynamically typed for the translator -/
def castStr : RawVal → Except Str Str
  | .str s => .ok s
  | _ => .error "!cast".toList

/-- `dict(pairs)`: a later pair with the same key overwrites the value, the key keeps its place -/
def pyDict {α} (items : List (Str × α)) : List (Str × α) :=
  items.foldl (fun d kv => setOpt kv.1 kv.2 d) []

/-- `s[i]` for a constant index (negative: from the end): a one-character string; `none` = IndexError -/
def strIdx (s : Str) (i : Int) : Option Str :=
  if i ≥ 0 then (s[i.toNat]?).map (fun c => [c])
  else if i.natAbs ≤ s.length then (s[s.length - i.natAbs]?).map (fun c => [c])
  else none

/-- `toml.load(...)['tool']` reduced to the one key bumpver looks at -/
structure TomlTool where
  bumpver : Option TomlSection
  deriving DecidableEq, Repr

/-- `toml.load(...)` reduced to the keys bumpver looks at (`'tool'`, `'bumpver'`, `'pycalver'`);
    `none` = the key is absent -/
structure TomlFull where
  tool : Option TomlTool
  bumpver : Option TomlSection
  pycalver : Option TomlSection
  deriving DecidableEq, Repr

/-- the exception class of a failing `str.format` (`!unsupported`: a template outside the model's
    `str.format` fragment, see Model/Vcs.lean) -/
def fmtErrClass : FmtErr → Str
  | .keyError => "KeyError".toList
  | .valueError => "ValueError".toList
  | .unsupported => "!unsupported".toList

/-- `tmpl.format(**kw)` -/
def format (kw : List (Str × Str)) (tmpl : Str) : Except Str Str :=
  match pyFormat kw tmpl with
  | .ok s => .ok s
  | .error e => .error (fmtErrClass e)

/-- the project directory as a `pathlib.Path`: is it absolute, and `str(dir / name)` for a file name
    (pathlib's joining and normalisation are not modelled: `child` is whatever pathlib answers) -/
structure ProjDir where
  isAbs : Bool
  child : Str → Str

/-- `with p.open(mode="at") as f: f.write(text)`: append, creating the file when needed -/
def fsAppend (fs : ProjFS) (p : Str) (text : Str) : ProjFS :=
  fun f => if f = p then some ((fs p).getD [] ++ text) else fs f

end BV.Py
