/-
  Model/V2Version.lean — v2version.py: reading a version through its pattern
  (`parse_field_values_to_cinfo/_vinfo`, `parse_version_info`, `is_valid`), rendering
  (`_format_part_values`, `_parse_segtree`, `_format_segment(_tree)`, `format_version`),
  and bumping (`_parse_pattern_fields`, `_iter_reset_field_items`, `_reset_rollover_fields`,
  `_incr_numeric`, `_ver_to_cal_info`, `incr`).

  Tables are GENERATED (Gen/V2Tables.lean).  `today` is a parameter (version.TODAY).
-/
import BumpverVerif.Model.V2Patterns
import BumpverVerif.Model.Calendar
import BumpverVerif.Model.LexId
namespace BV

/-- how a call into the real code can end other than with a value -/
inductive PErr
  | pattern          -- version.PatternError
  | typeError        -- TypeError (e.g. int(None) for a calendar part inside an omitted group)
  | valueError       -- ValueError
  | overflow         -- OverflowError
  | keyError
  | unsupported      -- outside the modelled language
  deriving DecidableEq, Repr

/-- `version.V2VersionInfo` (githash / hexhash are outside the documented language) -/
structure VInfo where
  cal : CalOpt
  major : Nat
  minor : Nat
  patch : Nat
  bid : Str
  tag : Str
  pytag : Str
  num : Nat
  inc0 : Nat
  inc1 : Nat
  deriving DecidableEq, Repr

/-- a field value as Python sees it -/
inductive FV
  | none | nat (n : Nat) | str (s : Str)
  deriving DecidableEq, Repr

def optNat : Option Nat → FV
  | some n => .nat n
  | none => .none

/-- `getattr(vinfo, field)` -/
def VInfo.get (v : VInfo) (f : Str) : FV :=
  let f := String.ofList f
  if f == "year_y" then optNat v.cal.yearY else if f == "year_g" then optNat v.cal.yearG
  else if f == "quarter" then optNat v.cal.quarter else if f == "month" then optNat v.cal.month
  else if f == "dom" then optNat v.cal.dom else if f == "doy" then optNat v.cal.doy
  else if f == "week_w" then optNat v.cal.weekW else if f == "week_u" then optNat v.cal.weekU
  else if f == "week_v" then optNat v.cal.weekV
  else if f == "major" then .nat v.major else if f == "minor" then .nat v.minor
  else if f == "patch" then .nat v.patch else if f == "bid" then .str v.bid
  else if f == "tag" then .str v.tag else if f == "pytag" then .str v.pytag
  else if f == "githash" then .str [] else if f == "hexhash" then .str []
  else if f == "num" then .nat v.num else if f == "inc0" then .nat v.inc0
  else if f == "inc1" then .nat v.inc1 else .none

/-! ### reading -/

/-- `match.groupdict()`: every named group of the regex, `none` when it did not participate -/
abbrev FVals := List (Str × Option Str)

def reGroupNames : Re → List Str
  | .seq a b => reGroupNames a ++ reGroupNames b
  | .alt a b => reGroupNames a ++ reGroupNames b
  | .rep r _ _ => reGroupNames r
  | .grp n r => n :: reGroupNames r
  | _ => []

def groupdict (r : Re) (m : Match) : FVals :=
  (reGroupNames r).eraseDups.map (fun n => (n, m.group n))

/-- `int(fvals[k]) if k in fvals else None`.  `parse_version_info` hands over only the groups that took part in
    the match (a part inside an omitted optional group is ABSENT, not None: v2version.py after the C09 repair of
    the `int(None)` TypeError), so a `none` entry reads like a missing key. -/
def intField (fv : FVals) (k : String) : Except PErr (Option Nat) :=
  match lookup k.toList fv with
  | none => .ok none
  | some none => .ok none
  | some (some s) => .ok (some (strToNat s))

def truthy : Option Nat → Bool
  | some n => n != 0
  | none => false

/-- `parse_field_values_to_cinfo`; `today` = (y, m, d) of version.TODAY -/
def parseCinfo (fv : FVals) (today : Nat × Nat × Nat) : Except PErr CalOpt := do
  let yearY0 ← intField fv "year_y"
  let yearG0 ← intField fv "year_g"
  let yearY := yearY0.map (fun y => if y < 1000 then y + 2000 else y)
  let yearG := yearG0.map (fun y => if y < 1000 then y + 2000 else y)
  let month0 ← intField fv "month"
  let doy ← intField fv "doy"
  let dom0 ← intField fv "dom"
  let weekW ← intField fv "week_w"
  let weekU ← intField fv "week_u"
  let weekV ← intField fv "week_v"
  -- `if year_y and doy: date = date_from_doy(...)`
  let fromDoy : Option (Nat × Nat × Nat) ←
    if truthy yearY && truthy doy then
      match dateFromDoy (yearY.getD 0) (doy.getD 0) with
      | some d => pure (some d)
      | none => throw .overflow
    else pure none
  let month := match fromDoy with | some d => some d.2.1 | none => month0
  let dom := match fromDoy with | some d => some d.2.2 | none => dom0
  let date1 : Option (Nat × Nat × Nat) ←
    if truthy yearY && truthy month && truthy dom then
      if validDate (yearY.getD 0) (month.getD 0) (dom.getD 0)
      then pure (some (yearY.getD 0, month.getD 0, dom.getD 0))
      else throw .valueError
    else pure fromDoy
  -- "use of defaults is an all or nothing affair"
  let date : Option (Nat × Nat × Nat) :=
    if date1.isNone && !truthy yearY && !truthy yearG && !truthy month && !truthy dom && !truthy doy
       && !truthy weekW && !truthy weekU && !truthy weekV then some today else date1
  let quarter0 ← intField fv "quarter"
  match date with
  | some (y, m, d) =>
    let c := calInfo y m d
    let quarter := match quarter0 with | some q => some q | none => some (quarterFromMonth m)
    pure { yearY := some c.yearY, yearG := some c.yearG, quarter := quarter, month := some c.month,
           dom := some c.dom, doy := some c.doy, weekW := some c.weekW, weekU := some c.weekU,
           weekV := some c.weekV }
  | none =>
    let quarter := match quarter0 with
      | some q => some q
      | none => if truthy month then some (quarterFromMonth (month.getD 0)) else none
    pure { yearY := yearY, yearG := yearG, quarter := quarter, month := month, dom := dom, doy := doy,
           weekW := weekW, weekU := weekU, weekV := weekV }

/-- `fvals.get(k) or ""` -/
def strField (fv : FVals) (k : String) : Str :=
  match lookup k.toList fv with
  | some (some s) => s
  | _ => []

/-- `int(fvals.get(k) or default)` -/
def intFieldOr (fv : FVals) (k : String) (dflt : Nat) : Nat :=
  let s := strField fv k
  if s.isEmpty then dflt else strToNat s

/-- `parse_field_values_to_vinfo` -/
def parseVinfo (fv : FVals) (today : Nat × Nat × Nat) : Except PErr VInfo := do
  let cal ← parseCinfo fv today
  let tag0 := strField fv "tag"
  let pytag0 := strField fv "pytag"
  let (tag1, pytag1) ←
    if !tag0.isEmpty && pytag0.isEmpty then
      match lookup tag0 Gen.pep440TagByTag with
      | some p => pure (tag0, p)
      | none => throw .keyError
    else if !pytag0.isEmpty && tag0.isEmpty then
      match lookup pytag0 Gen.tagByPep440Tag with
      | some t => pure (t, pytag0)
      | none => throw .keyError
    else pure (tag0, pytag0)
  let tag := if tag1.isEmpty then "final".toList else tag1
  let bid ← match lookup "bid".toList fv with
    | none => pure "1000".toList
    | some (some s) => pure s
    | some none => pure "1000".toList        -- BUILD inside an omitted optional group: absent, hence the default
  pure { cal := cal, major := intFieldOr fv "major" 0, minor := intFieldOr fv "minor" 0,
         patch := intFieldOr fv "patch" 0, bid := bid, tag := tag, pytag := pytag1,
         num := intFieldOr fv "num" 0, inc0 := intFieldOr fv "inc0" 0, inc1 := intFieldOr fv "inc1" 1 }

/-- the part of `parse_version_info` after the pattern is compiled: the first match must consume
    the whole string; an impossible calendar date is a PatternError (v2version.py after the C09 repair) -/
def parseWithRe (r : Re) (versionStr : Str) (today : Nat × Nat × Nat) : Except PErr VInfo :=
  match reMatch r versionStr with
  | none => .error .pattern
  | some m =>
    if m.stop < versionStr.length then .error .pattern
    else match parseVinfo (groupdict r m) today with
      | .error .valueError => .error .pattern
      | .error .overflow => .error .pattern
      | x => x

/-- `parse_version_info(version_str, raw_pattern)` -/
def parseVersionInfo (versionStr rawPattern : Str) (today : Nat × Nat × Nat) : Except PErr VInfo :=
  match compileRe (normalizePattern rawPattern rawPattern) with
  | none => .error .unsupported
  | some r => parseWithRe r versionStr today

/-- `is_valid`: only PatternError is caught -/
def isValid (versionStr rawPattern : Str) (today : Nat × Nat × Nat) : Except PErr Bool :=
  match parseVersionInfo versionStr rawPattern today with
  | .ok _ => .ok true
  | .error .pattern => .ok false
  | .error e => .error e

/-! ### rendering -/

def last2 (s : Str) : Str := s.drop (s.length - 2)

/-- one formatter of `PART_FORMATS`, by its generated kind -/
def fmtValue (k : Gen.FmtKind) (v : FV) : Str :=
  let asStr : Str := match v with | .nat n => natToStr n | .str s => s | .none => "None".toList
  match k with
  | .str => asStr
  | .int => natToStr (strToNat asStr)
  | .pad w => zfill w (natToStr (strToNat asStr))
  | .yy => natToStr (strToNat (last2 asStr))
  | .yypad w => zfill w (natToStr (strToNat (last2 asStr)))

def insertByKeyLenDesc (x : Str × Str) : List (Str × Str) → List (Str × Str)
  | [] => [x]
  | y :: ys => if x.1.length > y.1.length then x :: y :: ys else y :: insertByKeyLenDesc x ys

/-- `_format_part_values`: (part, rendered value) for every part whose field is not None,
    stably sorted by part-name length, longest first -/
def formatPartValues (v : VInfo) : List (Str × Str) :=
  let items := Gen.partFields.filterMap (fun (pf : Str × Str) =>
    match v.get pf.2 with
    | .none => none
    | fvv => match lookup pf.1 Gen.partFormats with
      | some k => some (pf.1, fmtValue k fvv)
      | none => none)
  items.foldl (fun acc x => insertByKeyLenDesc x acc) []

/-- segment tree of a pattern -/
inductive Seg
  | lit (s : Str)
  | grp (items : List Seg)
  deriving Repr

/-- `_parse_segtree`: a stack machine over the characters of `"[" + raw + "]"`.
    `stack` = open branches (innermost first), each a reversed item list; `cur` = reversed
    current segment text; `prev` = previous character. -/
def segtreeGo : List (List Seg) → Str → Option Char → Str → Except PErr (List (List Seg))
  | stack, cur, _, [] =>
    -- flush is done by the closing bracket that the caller appended
    .ok (match stack with
      | top :: rest => (if cur.isEmpty then top else Seg.lit cur.reverse :: top) :: rest
      | [] => [])
  | stack, cur, prev, c :: r =>
    let escaped := prev == some '\\'
    if (c == '[' || c == ']') && !escaped then
      match stack with
      | [] => .error .valueError
      | top :: rest =>
        let top' := if cur.isEmpty then top else Seg.lit cur.reverse :: top
        if c == '[' then segtreeGo ([] :: top' :: rest) [] (some c) r
        else
          match rest with
          | [] => .error .valueError               -- "Unbalanced brace(s)"
          | parent :: rest' => segtreeGo ((Seg.grp top'.reverse :: parent) :: rest') [] (some c) r
    else segtreeGo stack (c :: cur) (some c) r

/-- `_parse_segtree(raw_pattern)`: the root group -/
def parseSegtree (raw : Str) : Except PErr (List Seg) :=
  -- internal_root = [], branch_stack = [internal_root]; the pattern is wrapped in "[" … "]"
  match segtreeGo [[]] [] none ('[' :: raw ++ [']']) with
  | .error e => .error e
  | .ok [root] =>
    match root.reverse with
    | Seg.grp items :: _ => .ok items
    | _ => .error .valueError
  | .ok _ => .error .valueError                    -- "Unclosed brace"

structure FSeg where
  isLiteral : Bool
  isZero : Bool
  result : Str

def isZeroVal (part value : Str) : Bool :=
  match lookup part Gen.partZeroValues with
  | some z => value == z
  | none => false

/-- `_format_segment` -/
def formatSegment (seg : Str) (pvs : List (Str × Str)) : FSeg :=
  let used := pvs.filter (fun pv => isInfix pv.1 seg)
  let zeroCount := (used.filter (fun pv => isZeroVal pv.1 pv.2)).length
  let r0 := replaceAll "^".toList [] seg
  let r1 := replaceAll "$".toList [] r0
  let r2 := replaceAll "\\[".toList "[".toList r1
  let r3 := replaceAll "\\]".toList "]".toList r2
  let r4 := used.foldl (fun acc pv => replaceAll pv.1 pv.2 acc) r3
  if used.isEmpty then { isLiteral := true, isZero := false, result := r4 }
  else if zeroCount > 0 && zeroCount == used.length then { isLiteral := false, isZero := true, result := r4 }
  else { isLiteral := false, isZero := false, result := r4 }

mutual
  /-- `_format_segment_tree` on one item -/
  def formatSeg (pvs : List (Str × Str)) : Seg → FSeg
    | .lit s => formatSegment s pvs
    | .grp items =>
      let (isZero, parts) := formatSegs pvs items
      { isLiteral := false, isZero := isZero, result := if isZero then [] else parts }

  /-- the loop of `_format_segment_tree`: (is_zero, joined result parts) -/
  def formatSegs (pvs : List (Str × Str)) : List Seg → Bool × Str
    | [] => (true, [])
    | s :: rest =>
      let f := formatSeg pvs s
      let (z, out) := formatSegs pvs rest
      (if f.isLiteral then z else (f.isZero && z), f.result ++ out)
end

/-- `format_version(vinfo, raw_pattern)`: only optional groups are omitted; the root of the tree
    (the whole pattern) is rendered even when all its parts are zero (v2version.py after the
    all-zero repair) -/
def formatVersion (v : VInfo) (raw : Str) : Except PErr Str :=
  match parseSegtree raw with
  | .error e => .error e
  | .ok items => .ok (formatSegs (formatPartValues v) items).2

/-! ### bumping -/

def flatSegs : List Seg → List Str
  | [] => []
  | .lit s :: rest => s :: flatSegs rest
  | .grp items :: rest => flatSegs items ++ flatSegs rest

def insertIdx (x : (Nat × Nat) × Str) : List ((Nat × Nat) × Str) → List ((Nat × Nat) × Str)
  | [] => [x]
  | y :: ys =>
    if x.1 == y.1 then x :: ys                                    -- dict: same key, later value
    else if x.1.1 < y.1.1 || (x.1.1 == y.1.1 && x.1.2 < y.1.2) then x :: y :: ys
    else y :: insertIdx x ys

/-- `_parse_pattern_fields`: fields in pattern order (first occurrence of each part per segment) -/
def parsePatternFields (raw : Str) : Except PErr (List Str) :=
  match parseSegtree raw with
  | .error e => .error e
  | .ok items =>
    let parts := sortByLenDesc (Gen.partFields.map (·.1))
    let segs := flatSegs items
    let entries := (segs.zipIdx).flatMap (fun (si : Str × Nat) =>
      parts.filterMap (fun part =>
        match findIdx part si.1 with
        | some i => (lookup part Gen.partFields).map (fun f => ((si.2, i), f))
        | none => none))
    .ok ((entries.foldl (fun acc x => insertIdx x acc) []).map (·.2))

/-- `_iter_reset_field_items` + `dict(...)`: the fields to reset, with their initial values -/
def resetItemsGo (old cur : VInfo) : Bool → List Str → List (Str × Str)
  | _, [] => []
  | hasReset, f :: fs =>
    match lookup f Gen.fieldInitialValues with
    | some init =>
      if hasReset then (f, init) :: resetItemsGo old cur true fs
      else resetItemsGo old cur (old.get f != cur.get f) fs
    | none => resetItemsGo old cur (hasReset || old.get f != cur.get f) fs

def VInfo.setNat (v : VInfo) (f : Str) (n : Nat) : VInfo :=
  let f := String.ofList f
  if f == "major" then { v with major := n } else if f == "minor" then { v with minor := n }
  else if f == "patch" then { v with patch := n } else if f == "num" then { v with num := n }
  else if f == "inc0" then { v with inc0 := n } else if f == "inc1" then { v with inc1 := n }
  else v

/-- `_reset_rollover_fields` -/
def resetRolloverFields (fields : List Str) (old cur : VInfo) : VInfo :=
  let items := resetItemsGo old cur false fields
  let cur1 := items.foldl (fun (v : VInfo) (fi : Str × Str) => v.setNat fi.1 (strToNat fi.2)) cur
  -- the explicit `_replace` calls that follow in the code
  let has (f : String) := items.any (fun fi => fi.1 == f.toList)
  let c2 := if has "major" then { cur1 with major := 0 } else cur1
  let c3 := if has "minor" then { c2 with minor := 0 } else c2
  let c4 := if has "patch" then { c3 with patch := 0 } else c3
  let c5 := if has "inc0" then { c4 with inc0 := 0 } else c4
  let c6 := if has "inc1" then { c5 with inc1 := 1 } else c5
  c6

structure IncrFlags where
  major : Bool := false
  minor : Bool := false
  patch : Bool := false
  tag : Option Str := none
  tagNum : Bool := false
  pinIncrements : Bool := false
  pinDate : Bool := false
  deriving Repr

/-- `_incr_numeric` (a final release carries no release number: v2version.py after the C05 repair) -/
def incrNumeric (fields : List Str) (old cur : VInfo) (fl : IncrFlags) : Except PErr VInfo := do
  let c1 := if fl.major then { cur with major := cur.major + 1 } else cur
  let c2 := if fl.minor then { c1 with minor := c1.minor + 1 } else c1
  let c3 := if fl.patch then { c2 with patch := c2.patch + 1 } else c2
  let c4 := if fl.tagNum then { c3 with num := c3.num + 1 } else c3
  let c5 ← match fl.tag with
    | some t =>
      if t.isEmpty then pure c4
      else
        let c := if t != c4.tag then { c4 with num := 0 } else c4
        match lookup t Gen.pep440TagByTag with
        | some p => pure { c with tag := t, pytag := p }
        | none => throw .keyError
    | none => pure c4
  let c5' := if c5.tag == "final".toList then { c5 with num := 0 } else c5
  let c6 := if !fl.pinIncrements then { c5' with inc0 := c5'.inc0 + 1, inc1 := c5'.inc1 + 1 } else c5'
  if !allDigits c6.bid || c6.bid.isEmpty then throw .valueError
  let c7 := { c6 with bid := padBid c6.bid }
  match nextId c7.bid with
  | none => throw .overflow
  | some b => pure (resetRolloverFields fields old { c7 with bid := b })

/-- `_ver_to_cal_info` (`is None` test: v2version.py after the C05 repair) -/
def verToCalInfo (v : VInfo) (dflt : CalInfo) : CalOpt :=
  let d := dflt.toOpt
  let pick (a b : Option Nat) : Option Nat := match a with | some x => some x | none => b
  { yearY := pick v.cal.yearY d.yearY, yearG := pick v.cal.yearG d.yearG,
    quarter := pick v.cal.quarter d.quarter, month := pick v.cal.month d.month,
    dom := pick v.cal.dom d.dom, doy := pick v.cal.doy d.doy, weekW := pick v.cal.weekW d.weekW,
    weekU := pick v.cal.weekU d.weekU, weekV := pick v.cal.weekV d.weekV }

/-- `incr(old_version, raw_pattern, …)`; `.ok none` = "no new version" (None).
    `date` = the bump date (`maybe_date` or TODAY), `today` = version.TODAY. -/
def incr (oldVersion raw : Str) (fl : IncrFlags) (date today : Nat × Nat × Nat) :
    Except PErr (Option Str) := do
  if !isValidWeekPattern raw then return none
  let old ← match parseVersionInfo oldVersion raw today with
    | .ok v => pure v
    | .error .pattern => return none
    | .error e => throw e
  let curC : CalOpt :=
    if fl.pinDate then verToCalInfo old (calInfo today.1 today.2.1 today.2.2)
    else (calInfo date.1 date.2.1 date.2.2).toOpt
  let cur : VInfo := if isCalGt old.cal curC then old else { old with cal := curC }
  let hasTagPart := cur.tag != "final".toList
  let tagGiven := match fl.tag with | some t => !t.isEmpty | none => false
  if fl.tagNum && !tagGiven && !hasTagPart then return none
  let fields ← parsePatternFields raw
  let new ← incrNumeric fields old cur fl
  let s ← formatVersion new raw
  if s.isEmpty then return none
  else if s == oldVersion then return none
  else return some s

end BV
