/-
  Model/Basic.lean — Python string primitives used by bumpver, over `List Char`.

  Everything is structurally recursive (no well-founded recursion) so that the
  kernel can evaluate it (`decide +kernel`) and the compiled driver runs it.
  No Mathlib import: the driver (`lean_exe`) links this file.
-/
deriving instance DecidableEq for Except

namespace BV

abbrev Str := List Char

/-! ### digits -/

def digitChar (d : Nat) : Char := Char.ofNat (48 + d)

def isDigit (c : Char) : Bool := '0' ≤ c && c ≤ '9'

def digitVal (c : Char) : Nat := c.toNat - 48

/-- `str(n)` for a natural number, by fuel (structural). -/
def natToStrF : Nat → Nat → Str
  | 0, n => [digitChar (n % 10)]
  | f + 1, n => if n < 10 then [digitChar n] else natToStrF f (n / 10) ++ [digitChar (n % 10)]

def natToStr (n : Nat) : Str := natToStrF n n

/-- `int(s)` for a string of ASCII digits (callers check `allDigits`). -/
def strToNat (s : Str) : Nat := s.foldl (fun acc c => acc * 10 + digitVal c) 0

def allDigits (s : Str) : Bool := s.all isDigit

/-- Python `s.isdigit()` restricted to ASCII: non-empty and all digits. -/
def isDigitStr (s : Str) : Bool := !s.isEmpty && allDigits s

/-- `s.zfill(w)` / `f"{n:0w}"` for digit strings. -/
def zfill (w : Nat) (s : Str) : Str := List.replicate (w - s.length) '0' ++ s

/-! ### substring search, replace, split, join -/

/-- index of the first occurrence of `pat` in `s` (Python `s.find(pat)`), `none` = -1. -/
def findIdx : Str → Str → Option Nat
  | pat, [] => if pat.isEmpty then some 0 else none
  | pat, c :: cs =>
    if pat.isPrefixOf (c :: cs) then some 0
    else (findIdx pat cs).map (· + 1)

def isInfix (pat s : Str) : Bool := (findIdx pat s).isSome

/-- Python `s.replace(pat, rep)` for non-empty `pat` (left to right, non-overlapping).
    For empty `pat` the string is returned unchanged (bumpver never does that). -/
def replaceAllF : Nat → Str → Str → Str → Str
  | 0, _, _, s => s
  | _ + 1, _, _, [] => []
  | f + 1, pat, rep, c :: cs =>
    if pat.isEmpty then c :: cs
    else if pat.isPrefixOf (c :: cs) then rep ++ replaceAllF f pat rep ((c :: cs).drop pat.length)
    else c :: replaceAllF f pat rep cs

def replaceAll (pat rep s : Str) : Str := replaceAllF (s.length + 1) pat rep s

/-- Python `s.split(sep)` for non-empty `sep`. `cur` is the reversed current piece. -/
def splitOnF : Nat → Str → Str → Str → List Str
  | 0, _, cur, _ => [cur.reverse]
  | _ + 1, _, cur, [] => [cur.reverse]
  | f + 1, sep, cur, c :: cs =>
    if !sep.isEmpty && sep.isPrefixOf (c :: cs) then
      cur.reverse :: splitOnF f sep [] ((c :: cs).drop sep.length)
    else splitOnF f sep (c :: cur) cs

def splitOn (sep s : Str) : List Str := splitOnF (s.length + 1) sep [] s

/-- Python `sep.join(parts)`. -/
def join (sep : Str) : List Str → Str
  | [] => []
  | [p] => p
  | p :: q :: ps => p ++ sep ++ join sep (q :: ps)

def startsWith (s pre : Str) : Bool := pre.isPrefixOf s

def endsWith (s suf : Str) : Bool := suf.isSuffixOf s

/-- Python `s.strip(chars)`. -/
def lstripChars (chars : Str) (s : Str) : Str := s.dropWhile (fun c => chars.contains c)
def rstripChars (chars : Str) (s : Str) : Str := (lstripChars chars s.reverse).reverse
def stripChars (chars : Str) (s : Str) : Str := rstripChars chars (lstripChars chars s)

/-- Python's `str.isspace` on the ASCII range plus the separators `str.split()`/`strip()` use. -/
def isPySpace (c : Char) : Bool :=
  let n := c.toNat
  (9 ≤ n && n ≤ 13) || (28 ≤ n && n ≤ 32) || n = 133 || n = 160 || n = 5760 ||
  (8192 ≤ n && n ≤ 8202) || n = 8232 || n = 8233 || n = 8239 || n = 8287 || n = 12288

def strip (s : Str) : Str := ((s.dropWhile isPySpace).reverse.dropWhile isPySpace).reverse

def isLower (c : Char) : Bool := 'a' ≤ c && c ≤ 'z'
def isUpper (c : Char) : Bool := 'A' ≤ c && c ≤ 'Z'
def isAlpha (c : Char) : Bool := isLower c || isUpper c
def isAlnum (c : Char) : Bool := isAlpha c || isDigit c

def toLowerAscii (c : Char) : Char := if isUpper c then Char.ofNat (c.toNat + 32) else c

/-- lexicographic `<` on strings by code point (Python `str.__lt__`). -/
def strLt : Str → Str → Bool
  | [], [] => false
  | [], _ :: _ => true
  | _ :: _, [] => false
  | a :: as, b :: bs => if a < b then true else if b < a then false else strLt as bs

/-- association-list lookup -/
def lookup {α} (k : Str) : List (Str × α) → Option α
  | [] => none
  | (k', v) :: rest => if k = k' then some v else lookup k rest

end BV
