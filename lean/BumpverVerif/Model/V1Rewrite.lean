/-
  Model/V1Rewrite.lean — the LEGACY rewrite path, src/bumpver/v1rewrite.py (`rewrite_lines`,
  `rfd_from_content`, `iter_rewritten`, `rewrite_files`, `diff`), used by `bumpver update` when the
  configured patterns are of the `{…}` style.

  v1rewrite.py and v2rewrite.py have the SAME shape (the same `parse.iter_matches`, the same sort of the
  matches by (line, -start), the same right-to-left splice onto the current line, the same
  `detect_line_sep` / `split` / `join`, the same `list(iter_rewritten(…))` before the first write).  They
  differ in
    * how the replacement of a match is rendered
        v2: `v2version.format_version(new_vinfo, normalize_pattern(pattern.version_pattern, pattern.raw_pattern))`
        v1: `v1version.format_version(new_vinfo, pattern.raw_pattern)`          (model `v1FormatVersion`),
    * which compiler made the `regexp` of a `Pattern`
        v2: `v2patterns.compile_pattern` (model `compileRe` of the normalized raw pattern)
        v1: `v1patterns.compile_pattern` (model `v1CompileRe` of the normalized raw pattern; with
            `v1NormalizedPattern` in front this is `v1CompilePattern`),
    * the final test of `rewrite_lines`: v1 raises when `set(patterns) - found_patterns` is not empty, v2
      when `set(patterns) != found_patterns` (with two messages); `found_patterns ⊆ set(patterns)`, so both
      are "some configured pattern has no surviving match" — the same test in the model,
    * `diff`: v1 computes `has_updated_version` (does some pattern render differently for the old and the
      new record) BEFORE `rfd_from_content`, and an exception of `format_version` propagates out of that
      loop; v2 counts the patterns AFTER it (`_patterns_with_change`).

  Therefore this file defines a RENDERING-PARAMETRIC engine `RwEngine V` (the version-record type, the
  regex of a compiled pattern, the replacement text of a match) with the functions of Model/Rewrite.lean
  written once for every engine, `v2Engine` (Proofs/RewriteGeneric.lean proves that its instance IS
  Model/Rewrite.lean, function by function) and `v1Engine`; the legacy functions are the instances at
  `v1Engine`.  Only the dry path `v1DiffFile` / `v1DiffFiles` / `v1DiffAll` is written out for the legacy
  code on its own, because there the two Python functions really differ.

  No Mathlib; all recursion is structural (linked into the driver).
-/
import BumpverVerif.Model.Rewrite
import BumpverVerif.Model.V1
namespace BV

/-! ### the rendering-parametric engine -/

/-- what distinguishes the two rewrite engines: `V` is the version record (`VInfo` / `V1Info`) -/
structure RwEngine (V : Type) where
  /-- the `regexp` of a compiled `patterns.Pattern` (`none`: outside the modelled regex fragment) -/
  compile : CPat → Option Re
  /-- the replacement text of a match of that pattern for the new version record -/
  render : V → CPat → Except PErr Str

namespace RwEngine
variable {V : Type} (E : RwEngine V)

/-- `parse.iter_matches` (engine independent in Python: it uses `pattern.regexp`): patterns in order; a
    match overlapping ANY earlier span (yielded or not) is suppressed; every span is recorded -/
def iterMatchesGo (lines : List Str) : List CPat → List LineSpan → Option (List PMatch)
  | [], _ => some []
  | p :: ps, seen =>
    match E.compile p with
    | none => none
    | some r =>
      let ms := iterForPatternGo r p 0 lines
      let ks := ms.foldl (fun (acc : List PMatch × List LineSpan) m =>
        (if hasOverlap m.span acc.2 then acc.1 else acc.1 ++ [m], acc.2 ++ [m.span])) ([], seen)
      (iterMatchesGo lines ps ks.2).map (ks.1 ++ ·)

def iterMatches (lines : List Str) (pats : List CPat) : Option (List PMatch) :=
  E.iterMatchesGo lines pats []

/-- the loop of `rewrite_lines` over the SORTED matches: the rendered version is spliced into the CURRENT
    line (`cur_line[:span_l] + replacement + cur_line[span_r:]`) -/
def applyMatches (v : V) : List PMatch → List Str → Except RwErr (List Str)
  | [], lines => .ok lines
  | m :: ms, lines =>
    match E.render v m.pat with
    | .error e => .error (.crash e)
    | .ok repl =>
      let cur := lines.getD m.lineno []
      applyMatches v ms (setLine lines m.lineno (cur.take m.start ++ repl ++ cur.drop m.stop))

/-- `rewrite_lines` -/
def rewriteLines (pats : List CPat) (v : V) (oldLines : List Str) : Except RwErr (List Str) :=
  match E.iterMatches oldLines pats with
  | none => .error (.crash .unsupported)
  | some ms =>
    match E.applyMatches v (sortMatches ms) oldLines with
    | .error e => .error e
    | .ok newLines =>
      -- v2: `set(patterns) == found_patterns`;  v1: `not (set(patterns) - found_patterns)`
      if pats.all (fun p => ms.any (fun m => m.pat == p)) then .ok newLines else .error .noMatch

/-- `rfd_from_content` followed by `line_sep.join(new_lines)` -/
def rewriteContent (pats : List CPat) (v : V) (content : Str) : Except RwErr Str :=
  let sep := detectLineSep content
  match E.rewriteLines pats v (splitOn sep content) with
  | .error e => .error e
  | .ok newLines => .ok (join sep newLines)

/-- the read-and-validate phase of `iter_rewritten`, fully materialised -/
def planWrites (fs : FS) (v : V) : List (Str × List CPat) → Except RwErr (List (Str × Str))
  | [] => .ok []
  | (path, pats) :: rest =>
    match lookup path fs with
    | none => .error .missingFile
    | some content =>
      match E.rewriteContent pats v content with
      | .error e => .error e
      | .ok newContent =>
        match planWrites fs v rest with
        | .error e => .error e
        | .ok ws => .ok ((path, newContent) :: ws)

/-- `rewrite_files`: nothing is written unless every file was read and every pattern matched -/
def rewriteFiles (fs : FS) (filePatterns : List (Str × List CPat)) (v : V) : FS × Except RwErr Unit :=
  match E.planWrites fs v filePatterns with
  | .error e => (fs, .error e)
  | .ok ws => (ws.foldl (fun acc w => FS.write acc w.1 w.2) fs, .ok ())

/-- the lazy loop (read, validate, WRITE, next file): what `rewrite_files` is WITHOUT `list(...)` around
    `iter_rewritten(...)` — kept for the negative witness -/
def rewriteFilesLazy (v : V) : FS → List (Str × List CPat) → FS × Except RwErr Unit
  | fs, [] => (fs, .ok ())
  | fs, (path, pats) :: rest =>
    match lookup path fs with
    | none => (fs, .error .missingFile)
    | some content =>
      match E.rewriteContent pats v content with
      | .error e => (fs, .error e)
      | .ok newContent => rewriteFilesLazy v (FS.write fs path newContent) rest

end RwEngine

/-- the engine of v2rewrite.py; `Proofs/RewriteGeneric.lean` proves `v2Engine.rewriteLines = rewriteLines`,
    … `v2Engine.rewriteFiles = rewriteFiles` (Model/Rewrite.lean is the instance of the generic engine) -/
def v2Engine : RwEngine VInfo where
  compile := fun p => compileRe p.raw
  render := fun v p => formatVersion v (normalizePattern p.vp p.raw)

/-! ### the legacy engine -/

/-- the exceptions of the legacy renderer in the error type of the rewrite model.  `format_version` only
    ever ends in KeyError / TypeError / ValueError or leaves the modelled language
    (`v1FormatVersion_errors`, Proofs/V1RewriteLemmas.lean); the two legacy outcomes `PErr` has no name for
    cannot occur there and are classed "outside the model". -/
def v1ErrToPErr : V1Err → PErr
  | .pattern => .pattern
  | .typeError => .typeError
  | .valueError => .valueError
  | .overflow => .overflow
  | .keyError => .keyError
  | .notImplemented => .unsupported
  | .reError => .unsupported
  | .unsupported => .unsupported

/-- `v1version.format_version(new_vinfo, pattern.raw_pattern)` as the replacement of a match -/
def v1Render (v : V1Info) (p : CPat) : Except PErr Str :=
  match v1FormatVersion v p.raw with
  | .ok s => .ok s
  | .error e => .error (v1ErrToPErr e)

/-- the `regexp` of a `Pattern` made by `v1patterns.compile_pattern`: `_compile_pattern_re` of the
    (already normalized) `raw_pattern` -/
def v1RegexOf (p : CPat) : Option Re :=
  match v1CompileRe p.raw with
  | .ok r => some r
  | .error _ => none

def v1Engine : RwEngine V1Info where
  compile := v1RegexOf
  render := v1Render

/-- `v1patterns.compile_pattern(version_pattern, raw_pattern)` as the model's compiled pattern: the
    stored `raw_pattern` is the NORMALIZED one; its regex is `v1RegexOf` = `v1CompilePattern vp raw` -/
def v1CPat (versionPattern raw : Str) : CPat :=
  { vp := versionPattern, raw := v1NormalizedPattern versionPattern raw }

/-- `parse.iter_matches` with patterns of the legacy compiler -/
def v1IterMatches (lines : List Str) (pats : List CPat) : Option (List PMatch) := v1Engine.iterMatches lines pats

/-- `v1rewrite.rewrite_lines` -/
def v1RewriteLines (pats : List CPat) (v : V1Info) (oldLines : List Str) : Except RwErr (List Str) :=
  v1Engine.rewriteLines pats v oldLines

/-- `v1rewrite.rfd_from_content` followed by `line_sep.join(new_lines)` (what `rewrite_files` writes) -/
def v1RewriteContent (pats : List CPat) (v : V1Info) (content : Str) : Except RwErr Str :=
  v1Engine.rewriteContent pats v content

/-- the read-and-validate phase: `list(v1rewrite.iter_rewritten(file_patterns, new_vinfo))` -/
def v1PlanWrites (fs : FS) (v : V1Info) (fps : List (Str × List CPat)) : Except RwErr (List (Str × Str)) :=
  v1Engine.planWrites fs v fps

/-- `v1rewrite.rewrite_files` -/
def v1RewriteFiles (fs : FS) (fps : List (Str × List CPat)) (v : V1Info) : FS × Except RwErr Unit :=
  v1Engine.rewriteFiles fs fps v

/-- `v1rewrite.rewrite_files` without the `list(...)` (negative witness) -/
def v1RewriteFilesLazy (v : V1Info) (fs : FS) (fps : List (Str × List CPat)) : FS × Except RwErr Unit :=
  v1Engine.rewriteFilesLazy v fs fps

/-- FOR THE DRIVER: "rewrite this content with these legacy patterns and this record".  `pairs` are the
    (version_pattern, raw_pattern) arguments of `v1patterns.compile_pattern`, in configuration order. -/
def v1RewriteContentOfPairs (pairs : List (Str × Str)) (v : V1Info) (content : Str) : Except RwErr Str :=
  v1RewriteContent (pairs.map (fun pr => v1CPat pr.1 pr.2)) v content

/-! ### the dry path: `v1rewrite.diff` -/

/-- the loop that computes `has_updated_version`: for every pattern `format_version` of the old and then
    of the new record (an exception of either propagates), `True` as soon as one pair differs -/
def v1HasUpdatedVersion (old new : V1Info) : List CPat → Except RwErr Bool
  | [] => .ok false
  | p :: ps =>
    match v1Render old p with
    | .error e => .error (.crash e)
    | .ok a =>
      match v1Render new p with
      | .error e => .error (.crash e)
      | .ok b =>
        match v1HasUpdatedVersion old new ps with
        | .error e => .error e
        | .ok r => .ok (a != b || r)

/-- one file of `v1rewrite.diff`: (old_lines, new_lines).  The order of the source: read, the
    `has_updated_version` loop, `rfd_from_content` (a NoPatternMatch is re-raised as a NoPatternMatch with
    another message), then the extra error when nothing changed although some rendering changed. -/
def v1DiffFile (fs : FS) (old new : V1Info) (path : Str) (pats : List CPat) :
    Except RwErr (List Str × List Str) :=
  match lookup path fs with
  | none => .error .missingFile
  | some content =>
    match v1HasUpdatedVersion old new pats with
    | .error e => .error e
    | .ok upd =>
      let sep := detectLineSep content
      let oldLines := splitOn sep content
      match v1RewriteLines pats new oldLines with
      | .error e => .error e
      | .ok newLines =>
        if oldLines == newLines && upd then .error .noMatch else .ok (oldLines, newLines)

/-- the files in the given order; the first failing file decides -/
def v1DiffFiles (fs : FS) (old new : V1Info) : List (Str × List CPat) →
    Except RwErr (List (Str × List Str × List Str))
  | [] => .ok []
  | (path, pats) :: rest =>
    match v1DiffFile fs old new path pats with
    | .error e => .error e
    | .ok r =>
      match v1DiffFiles fs old new rest with
      | .error e => .error e
      | .ok rs => .ok ((path, r) :: rs)

/-- stable insertion by path (`sorted(...)` of (path, patterns) pairs: the paths are dict keys) -/
def insertByPath {α : Type} (x : Str × α) : List (Str × α) → List (Str × α)
  | [] => [x]
  | y :: ys => if strLt y.1 x.1 then y :: insertByPath x ys else x :: y :: ys

def sortByPath {α : Type} (l : List (Str × α)) : List (Str × α) := l.foldr insertByPath []

/-- `v1rewrite.diff` up to `difflib`: `sorted(rewrite.iter_path_patterns_items(...))` first checks that
    EVERY configured file exists (IOError otherwise), then the files are diffed in the order of their paths -/
def v1DiffAll (fs : FS) (old new : V1Info) (fps : List (Str × List CPat)) :
    Except RwErr (List (Str × List Str × List Str)) :=
  if fps.all (fun it => (lookup it.1 fs).isSome) then v1DiffFiles fs old new (sortByPath fps)
  else .error .missingFile

end BV
