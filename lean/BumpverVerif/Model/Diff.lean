/-
  Model/Diff.lean — the dry-run path of `bumpver update` (v2rewrite.diff) and a STRICT
  unified-diff parser/applier.

  `difflib.unified_diff` itself is not modelled.  The check validates it per instance: the
  text the real `update --dry` printed is parsed and applied by `applyUnifiedText` to the old
  lines, and the result must equal the files a real run produced.  The applier is strict:
  every context and deletion line is compared with the old text, hunk headers are checked
  against the hunk bodies, positions must be exact.
-/
import BumpverVerif.Model.Rewrite
namespace BV

/-! ### the diff path of `update --dry` -/

/-- `_patterns_with_change`: number of patterns whose rendering differs between old and new -/
def patternsWithChange (old new : VInfo) (pats : List CPat) : Nat :=
  (pats.filter (fun p => formatVersion old p.raw != formatVersion new p.raw)).length

/-- one file of `v2rewrite.diff`: (old_lines, new_lines); the extra error when nothing
    changed although some pattern's rendering changed -/
def diffFile (fs : FS) (old new : VInfo) (path : Str) (pats : List CPat) :
    Except RwErr (List Str × List Str) :=
  match lookup path fs with
  | none => .error .missingFile
  | some content =>
    let sep := detectLineSep content
    let oldLines := splitOn sep content
    match rewriteLines pats new oldLines with
    | .error e => .error e
    | .ok newLines =>
      if oldLines == newLines && patternsWithChange old new pats > 0 then .error .noMatch
      else .ok (oldLines, newLines)

/-- `v2rewrite.diff` over all configured files (the code sorts them by path; the order does not
    matter for success) -/
def diffFiles (fs : FS) (old new : VInfo) : List (Str × List CPat) →
    Except RwErr (List (Str × List Str × List Str))
  | [] => .ok []
  | (path, pats) :: rest =>
    match diffFile fs old new path pats with
    | .error e => .error e
    | .ok r =>
      match diffFiles fs old new rest with
      | .error e => .error e
      | .ok rs => .ok ((path, r) :: rs)

/-! ### strict unified diff -/

inductive DLine
  | ctx (s : Str) | del (s : Str) | add (s : Str)
  deriving DecidableEq, Repr

structure Hunk where
  oldStart : Nat          -- as printed: 1-based first old line (or the line BEFORE for an empty old side)
  oldLen : Nat
  newStart : Nat
  newLen : Nat
  lines : List DLine
  deriving DecidableEq, Repr

def Hunk.oldSide (h : Hunk) : List Str :=
  h.lines.filterMap (fun l => match l with | .ctx s => some s | .del s => some s | .add _ => none)

def Hunk.newSide (h : Hunk) : List Str :=
  h.lines.filterMap (fun l => match l with | .ctx s => some s | .add s => some s | .del _ => none)

/-- 0-based index of the first old line the hunk covers -/
def Hunk.oldPos (h : Hunk) : Nat := if h.oldLen == 0 then h.oldStart else h.oldStart - 1

/-- apply hunks in order; `pos` = number of old lines already consumed.  Strict: positions
    must not go backwards, the old side must be found verbatim, the counts must agree. -/
def applyHunks : List Hunk → Nat → List Str → Option (List Str)
  | [], _, old => some old
  | h :: hs, pos, old =>
    let skip := h.oldPos - pos
    if h.oldPos < pos then none
    else if h.oldSide.length != h.oldLen || h.newSide.length != h.newLen then none
    else if h.oldLen != 0 && h.oldStart == 0 then none
    else if old.length < skip + h.oldLen then none
    else if (old.drop skip).take h.oldLen != h.oldSide then none
    else
      match applyHunks hs (h.oldPos + h.oldLen) (old.drop (skip + h.oldLen)) with
      | none => none
      | some rest => some (old.take skip ++ h.newSide ++ rest)

/-- `a` or `a,b` -/
def parseRange (s : Str) : Option (Nat × Nat) :=
  let (a, r) := takeDigits s
  if a.isEmpty then none
  else match r with
    | [] => some (strToNat a, 1)
    | ',' :: r2 =>
      let (b, r3) := takeDigits r2
      if b.isEmpty || !r3.isEmpty then none else some (strToNat a, strToNat b)
    | _ => none

/-- `@@ -a,b +c,d @@` -/
def parseHunkHeader (l : Str) : Option (Nat × Nat × Nat × Nat) :=
  if !startsWith l "@@ -".toList || !endsWith l " @@".toList then none
  else
    let body := (l.drop 4).take (l.length - 4 - 3)
    match splitOn " +".toList body with
    | [o, n] =>
      match parseRange o, parseRange n with
      | some (a, b), some (c, d) => some (a, b, c, d)
      | _, _ => none
    | _ => none

/-- read exactly the body of a hunk: lines are consumed until both counts are exhausted -/
def readHunkBody : List Str → Nat → Nat → Option (List DLine × List Str)
  | [], o, n => if o == 0 && n == 0 then some ([], []) else none
  | l :: rest, o, n =>
    if o == 0 && n == 0 then some ([], l :: rest)
    else match l with
    | ' ' :: s => if o == 0 || n == 0 then none
                  else (readHunkBody rest (o - 1) (n - 1)).map (fun (ls, r) => (.ctx s :: ls, r))
    | '-' :: s => if o == 0 then none
                  else (readHunkBody rest (o - 1) n).map (fun (ls, r) => (.del s :: ls, r))
    | '+' :: s => if n == 0 then none
                  else (readHunkBody rest o (n - 1)).map (fun (ls, r) => (.add s :: ls, r))
    | _ => none

/-- hunks of one file (until the next `--- ` header or the end) -/
def readHunks : Nat → List Str → Option (List Hunk × List Str)
  | 0, _ => none
  | _ + 1, [] => some ([], [])
  | f + 1, l :: rest =>
    if startsWith l "@@ ".toList then
      match parseHunkHeader l with
      | none => none
      | some (a, b, c, d) =>
        match readHunkBody rest b d with
        | none => none
        | some (ls, rest') =>
          (readHunks f rest').map (fun (hs, r) =>
            ({ oldStart := a, oldLen := b, newStart := c, newLen := d, lines := ls } :: hs, r))
    else some ([], l :: rest)

/-- the whole text: per file `--- path`, `+++ path`, hunks; blank lines between files are
    skipped (files without change contribute an empty line) -/
def parseUnified : Nat → List Str → Option (List (Str × List Hunk))
  | 0, _ => none
  | _ + 1, [] => some []
  | f + 1, l :: rest =>
    if l.isEmpty then parseUnified f rest
    else if startsWith l "--- ".toList then
      match rest with
      | l2 :: rest2 =>
        if l2 != "+++ ".toList ++ l.drop 4 then none
        else match readHunks (rest2.length + 1) rest2 with
          | none => none
          | some (hs, rest3) =>
            if hs.isEmpty then none
            else if rest3.length ≥ (l :: rest).length then none
            else (parseUnified f rest3).map (fun fs => (l.drop 4, hs) :: fs)
      | [] => none
    else none

/-- parse the printed diff and apply it to the old lines of every file; files the diff does
    not mention are unchanged -/
def applyUnifiedText (diffLines : List Str) (oldFiles : List (Str × List Str)) :
    Option (List (Str × List Str)) :=
  match parseUnified (diffLines.length + 1) diffLines with
  | none => none
  | some fileHunks =>
    if fileHunks.any (fun fh => (lookup fh.1 oldFiles).isNone) then none
    else oldFiles.mapM (fun (path, lines) =>
      match lookup path fileHunks with
      | none => some (path, lines)
      | some hs => (applyHunks hs 0 lines).map (fun nl => (path, nl)))

end BV
