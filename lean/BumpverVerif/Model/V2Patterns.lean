/-
  Model/V2Patterns.lean — v2patterns.py: compiling a search pattern to a regex (string
  surgery, faithful), `normalize_pattern`, `_convert_to_pep440`.

  The tables (`PART_PATTERNS`, `PATTERN_PART_FIELDS`, `RE_PATTERN_ESCAPES`,
  `PEP440_PART_SUBSTITUTIONS`) are GENERATED (Gen/V2Tables.lean).
-/
import BumpverVerif.Model.Regex
import BumpverVerif.Gen.V2Tables
namespace BV

/-! ### `_compile_pattern_re`: escaping -/

/-- the loop over `RE_PATTERN_ESCAPES`: sequential `str.replace`, skipping the semantic
    characters `[`, `]` and backslash -/
def escapePattern (table : List (Str × Str)) (p : Str) : Str :=
  table.foldl (fun acc (ce : Str × Str) =>
    if ce.1.all (fun c => "[]\\".toList.contains c) && !ce.1.isEmpty then acc
    else replaceAll ce.1 ce.2 acc) p

/-! ### `_replace_pattern_parts`: brackets to optional groups -/

/-- one `re.subn(r"([^\\]|^)B", r"\1REPL", s)` pass for a bracket character `B`;
    returns the new string and the number of substitutions.  `atStart` = position 0. -/
def subBracketGo (b : Char) (repl : Str) : Bool → Str → Str × Nat
  | _, [] => ([], 0)
  | atStart, [c] => if atStart && c == b then (repl, 1) else ([c], 0)
  | atStart, c :: c2 :: rest2 =>
    if c != '\\' && c2 == b then
      -- alternative 1: `[^\\]` (any character but a backslash) followed by the bracket
      let (out, n) := subBracketGo b repl false rest2
      (c :: repl ++ out, n + 1)
    else if atStart && c == b then
      -- alternative 2: `^` followed by the bracket
      let (out, n) := subBracketGo b repl false (c2 :: rest2)
      (repl ++ out, n + 1)
    else
      let (out, n) := subBracketGo b repl false (c2 :: rest2)
      (c :: out, n)

def subBracket (b : Char) (repl : Str) (s : Str) : Str × Nat := subBracketGo b repl true s

/-- the `while True` loop: both substitutions until neither changes anything -/
def bracketsToGroups : Nat → Str → Str
  | 0, s => s
  | fuel + 1, s =>
    let (s1, n) := subBracket '[' "(?:".toList s
    let (s2, m) := subBracket ']' ")?".toList s1
    if n + m == 0 then s2 else bracketsToGroups fuel s2

/-! ### `_iter_part_patterns` and the right-to-left substitution -/

structure PosPart where
  start : Nat
  stop : Nat
  name : Str           -- part name (its length is the second sort key)
  text : Str           -- `(?P<field>regex)`
  deriving Repr

/-- all non-overlapping occurrences of `name` in `p` from offset `from_` (the `while True` /
    `pattern.find(part_name, end_idx)` loop); `off` = absolute index of `s`'s head -/
def findAllFrom (name : Str) : Nat → Nat → Str → List Nat
  | 0, _, _ => []
  | fuel + 1, off, s =>
    match findIdx name s with
    | none => []
    | some i =>
      if name.isEmpty then []
      else (off + i) :: findAllFrom name fuel (off + i + name.length) (s.drop (i + name.length))

def memStr (x : Str) (l : List Str) : Bool := l.contains x

/-- `_iter_part_patterns`: threads `used_fields` (as a list without duplicates) -/
def iterPartPatterns (partPatterns partFields : List (Str × Str)) (p : Str) : List PosPart :=
  let step (acc : List PosPart × List Str) (pp : Str × Str) : List PosPart × List Str :=
    let name := pp.1
    let rx := pp.2
    let field := (lookup name partFields).getD []
    (findAllFrom name (p.length + 1) 0 p).foldl (fun (acc : List PosPart × List Str) start =>
      let used := acc.2
      let gname := if memStr field used then field ++ ['_'] ++ natToStr used.length else field
      let text := "(?P<".toList ++ gname ++ ">".toList ++ rx ++ ")".toList
      let used' := if memStr field used then used else used ++ [field]
      (acc.1 ++ [{ start := start, stop := start + name.length, name := name, text := text }], used')) acc
  (partPatterns.foldl step ([], [])).1

/-- sort key `(-end_idx, -len(part_name))` ascending = larger end first, then longer name first;
    later entries with an equal key replace earlier ones (dict semantics) -/
def keyLt (a b : PosPart) : Bool :=
  a.stop > b.stop || (a.stop == b.stop && a.name.length > b.name.length)

def keyEq (a b : PosPart) : Bool := a.stop == b.stop && a.name.length == b.name.length

def insertSorted (x : PosPart) : List PosPart → List PosPart
  | [] => [x]
  | y :: ys =>
    if keyEq x y then x :: ys                 -- same dict key: the later value wins
    else if keyLt x y then x :: y :: ys
    else y :: insertSorted x ys

def sortParts (l : List PosPart) : List PosPart := l.foldl (fun acc x => insertSorted x acc) []

/-- the substitution loop over the sorted items -/
def substParts (pattern : Str) (items : List PosPart) : Str :=
  (items.foldl (fun (acc : Str × Nat) it =>
    if it.stop ≤ acc.2 then (acc.1.take it.start ++ it.text ++ acc.1.drop it.stop, it.start)
    else acc) (pattern, pattern.length + 1)).1

def replacePatternParts (partPatterns partFields : List (Str × Str)) (p : Str) : Str :=
  let p1 := bracketsToGroups (p.length + 1) p
  substParts p1 (sortParts (iterPartPatterns partPatterns partFields p1))

/-- the regex SOURCE `_compile_pattern_re` hands to `re.compile` -/
def compileStrWith (escapes partPatterns partFields : List (Str × Str)) (normalized : Str) : Str :=
  replacePatternParts partPatterns partFields (escapePattern escapes normalized)

def compileStr (normalized : Str) : Str :=
  compileStrWith Gen.rePatternEscapes Gen.partPatterns Gen.partFields normalized

/-- `_compile_pattern_re`; `none` = outside the regex fragment / `re.error` -/
def compileRe (normalized : Str) : Option Re := parseRe (compileStr normalized)

/-! ### `_convert_to_pep440` and `normalize_pattern` -/

/-- `re.subn(r"[^a-zA-Z0-9\.\!\[\]]", "", s)` -/
def keepPep440Chars (s : Str) : Str :=
  s.filter (fun c => isAlnum c || c == '.' || c == '!' || c == '[' || c == ']')

/-- stable sort of part names by length, longest first (`sort(key=len, reverse=True)`:
    Python's reverse sort keeps the original order of equal elements) -/
def insertByLenDesc (x : Str) : List Str → List Str
  | [] => [x]
  | y :: ys => if x.length > y.length then x :: y :: ys else y :: insertByLenDesc x ys

/-- insertion from the left with `>` keeps earlier elements before later ones of equal length -/
def sortByLenDesc (l : List Str) : List Str := l.foldl (fun acc x => insertByLenDesc x acc) []

def convertToPep440With (partFields subst : List (Str × Str)) (versionPattern : Str) : Str :=
  let p0 := if startsWith versionPattern ['v'] then versionPattern.drop 1 else versionPattern
  let p1 := replaceAll "\\[".toList [] p0
  let p2 := replaceAll "\\]".toList [] p1
  let p3 := keepPep440Chars p2
  let names := sortByLenDesc (partFields.map (·.1))
  let p4 := names.foldl (fun (acc : Str) name =>
    if !isInfix name versionPattern then acc
    else match lookup name subst with
      | none => acc
      | some sub =>
        if isInfix sub acc then acc
        else if name != "TAG".toList && name != "PYTAG".toList then
          -- numerical part: only directly after a dot or at index 0
          match findIdx name acc with
          | none =>
            -- `find` = -1: `part_index == 0` is false and `pattern[-2]`… Python indexes from the end
            let ch := if acc.length ≥ 2 then acc[acc.length - 2]? else none
            if ch == some '.' then replaceAll name sub acc else acc
          | some i =>
            if i == 0 || acc[i - 1]? == some '.' then replaceAll name sub acc else acc
        else replaceAll name sub acc) p3
  if !isInfix "PYTAGNUM".toList p4 then
    let q1 := replaceAll "PYTAG".toList [] p4
    let q2 := replaceAll "NUM".toList [] q1
    let q3 := replaceAll "[]".toList [] q2
    q3 ++ "[PYTAGNUM]".toList
  else p4

def convertToPep440 (versionPattern : Str) : Str :=
  convertToPep440With Gen.partFields Gen.pep440PartSubstitutions versionPattern

/-- `normalize_pattern(version_pattern, raw_pattern)` -/
def normalizePattern (versionPattern rawPattern : Str) : Str :=
  let n1 := if isInfix "{version}".toList rawPattern
            then replaceAll "{version}".toList versionPattern rawPattern else rawPattern
  if isInfix "{pep440_version}".toList n1
  then replaceAll "{pep440_version}".toList (convertToPep440 versionPattern) n1 else n1

end BV
