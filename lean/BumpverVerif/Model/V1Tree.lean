/-
  Model/V1Tree.lean — the STRUCTURE of a LEGACY (`{…}` brace style) version pattern: literal
  characters, primitive `{part}` items, composites (`{pycalver}`, `{semver}`, `{calver}`, `{build}`,
  `{release}`, `{release_tag}`: a NAMED GROUP around a sub-pattern) and the one optional sub-group the
  legacy tables contain (`(?:-{tag})?`, the body of `{release}` and the tail of `{pycalver}`), with a
  structural compiler, a structural renderer and the decidable side conditions of the composition /
  round-trip theorems of Props/C20.lean.  Executable definitions only (no proofs, no Mathlib).

  bumpver itself never builds this tree: the legacy engine compiles by `str.replace` over
  `PART_PATTERNS` and renders by `str.replace` over `FULL_PART_FORMATS` followed by `str.format`
  (Model/V1.lean models that faithfully).  That the tree and the string pipeline agree is checked by
  kernel evaluation for the documented composites and a set of combinations (`C20_tree_tie`,
  `C20_tree_render_tie` in Props/C20.lean).

  OUTSIDE `wf` / `vok` (KNOWN FINDINGS, renderer and recogniser do not agree — see
  `C20_rough_edge_witnesses`): `{dom_short}`, `{doy_short}`, the padded ids `{BB}`…`{BBBBBBB}`,
  `{iso_week}` / `{us_week}` (never read back), and `{pep440_tag}` (`a0`/`b0`… is not a key of
  `TAG_BY_PEP440_TAG`, so the tag does not read back).  These primitive parts tokenise and compile (the
  tie covers them) but no theorem speaks of them.  The derived search patterns `{pep440_pycalver}` /
  `{pep440_version}` (the only composites with the `pep440_tag` sub-group) and `{version}` (a key of
  FULL_PART_FORMATS only) are outside the language of the tree: `tokenize` answers `none`.
-/
import BumpverVerif.Model.V1
import BumpverVerif.Model.PatWf
namespace BV

inductive V1Pat
  | done
  | lit (c : Char) (rest : V1Pat)
  | part (name : Str) (rest : V1Pat)                  -- `(?P<name>rx)`, `rx` from PART_PATTERNS
  | comp (name : Str) (body : V1Pat) (rest : V1Pat)   -- composite: `(?P<name>body)`
  | rel (rest : V1Pat)                                -- `(?:-(?P<tag>…))?`
  deriving Repr

/-- the composites of `COMPOSITE_PART_PATTERNS` as trees (the pep440 search patterns are absent:
    outside the language of the tree) -/
def v1c_composites : List (Str × V1Pat) := [
  ("pycalver".toList,
    .lit 'v' (.part "year".toList (.part "month".toList (.lit '.' (.part "bid".toList (.rel .done)))))),
  ("calver".toList, .lit 'v' (.part "year".toList (.part "month".toList .done))),
  ("semver".toList,
    .part "MAJOR".toList (.lit '.' (.part "MINOR".toList (.lit '.' (.part "PATCH".toList .done))))),
  ("release_tag".toList, .part "tag".toList .done),
  ("build".toList, .lit '.' (.part "bid".toList .done)),
  ("release".toList, .rel .done)]

/-- a primitive part: a key of `PART_PATTERNS` that is not a composite -/
def v1c_isPrim (n : Str) : Bool :=
  v1HasKey n Gen.v1PartPatterns && !v1HasKey n Gen.v1CompositePartPatterns

/-- tokenise legacy pattern text.  `none` = outside the language of the tree: an unknown `{name}`
    (a KeyError of `str.format`), a lone brace, `^` / `$` (which `RE_PATTERN_ESCAPES` leaves
    unescaped, so they are anchors for `re`) -/
def V1Pat.tokenizeGo : Nat → Str → Option V1Pat
  | 0, _ => none
  | _ + 1, [] => some .done
  | f + 1, c :: r =>
    if c == '{' then
      match v1TakeField r with
      | none => none
      | some (name, rest) =>
        match lookup name v1c_composites with
        | some body => (V1Pat.tokenizeGo f rest).map (.comp name body)
        | none =>
          if v1c_isPrim name then (V1Pat.tokenizeGo f rest).map (.part name) else none
    else if c == '}' || c == '^' || c == '$' then none
    else (V1Pat.tokenizeGo f r).map (.lit c)

def V1Pat.tokenize (s : Str) : Option V1Pat := V1Pat.tokenizeGo (s.length + 1) s

/-- the compiled recogniser of a part, from the generated table -/
def v1c_partRe (n : Str) : Option Re := (lookup n Gen.v1PartPatterns).bind parseRe

/-- structural compilation, mirroring `_compile_pattern_re` + `re.compile` (`parseRe`): a part is a
    named group around its table regex, a composite a named group around its compiled body -/
def V1Pat.compile : V1Pat → Option Re
  | .done => some .eps
  | .lit c rest => (V1Pat.compile rest).map (seqR (.chr c))
  | .part n rest =>
    match v1c_partRe n, V1Pat.compile rest with
    | some rx, some r => some (seqR (.grp n rx) r)
    | _, _ => none
  | .comp n body rest =>
    match V1Pat.compile body, V1Pat.compile rest with
    | some b, some r => some (seqR (.grp n b) r)
    | _, _ => none
  | .rel rest =>
    match v1c_partRe "tag".toList, V1Pat.compile rest with
    | some rx, some r => some (seqR (.rep (.seq (.chr '-') (.grp "tag".toList rx)) 0 (some 1)) r)
    | _, _ => none

/-- all named groups, in the order of their opening parenthesis (= `reGroupNames` of the compiled regex) -/
def V1Pat.groups : V1Pat → List Str
  | .done => []
  | .lit _ rest => V1Pat.groups rest
  | .part n rest => n :: V1Pat.groups rest
  | .comp n body rest => n :: (V1Pat.groups body ++ V1Pat.groups rest)
  | .rel rest => "tag".toList :: V1Pat.groups rest

/-- the primitive parts, left to right (`{release}` contributes its `tag`) -/
def V1Pat.parts : V1Pat → List Str
  | .done => []
  | .lit _ rest => V1Pat.parts rest
  | .part n rest => n :: V1Pat.parts rest
  | .comp _ body rest => V1Pat.parts body ++ V1Pat.parts rest
  | .rel rest => "tag".toList :: V1Pat.parts rest

/-- `re.compile` of the whole pattern: a group name defined twice is a `re.error` -/
def V1Pat.compileTop (p : V1Pat) : Except V1Err Re :=
  match p.compile with
  | none => .error .unsupported
  | some r => if v1HasDup p.groups then .error .reError else .ok r

/-! ### rendering -/

def v1c_tags : List Str := ["alpha", "beta", "dev", "rc", "post", "final"].map String.toList

def v1c_isFinal (v : V1Info) : Bool := v.tag == "final".toList

/-- `kwargs["release"]`: nothing for `final`, `-tag` otherwise -/
def v1c_relText (v : V1Info) : Str := if v1c_isFinal v then [] else '-' :: v.tag

def v1c_bidOk (v : V1Info) : Bool := allDigits v.bid && decide (4 ≤ v.bid.length)

/-- one supported primitive part: what it renders to (FULL_PART_FORMATS + the kwargs of
    `format_version` + `str.format`; `none` = the field is None), the domain on which renderer and
    recogniser agree, and whether the recogniser is variable-width (then the next rendered character
    must not be a digit) -/
structure V1PartSpec where
  text : V1Info → Option Str
  dom : V1Info → Bool
  needND : Bool

def v1c_natSpec (get : V1Info → Nat) : V1PartSpec :=
  { text := fun v => some (natToStr (get v)), dom := fun _ => true, needND := true }

def v1c_padSpec (w : Nat) (get : V1Info → Nat) : V1PartSpec :=
  { text := fun v => some (zfill w (natToStr (get v))), dom := fun _ => true, needND := true }

/-- THE SUPPORTED PARTS.  Fixed-width recognisers (`\d{4}`, `\d{2}`, the calendar alternations) and
    the tag words need nothing of what follows; `{month_short}` and the unbounded digit runs do. -/
def v1c_partSpecs : List (Str × V1PartSpec) := [
  ("year".toList, { text := fun v => v.year.map natToStr, dom := fun v => optIn v.year 1000 9999, needND := false }),
  ("yyyy".toList, { text := fun v => v.year.map natToStr, dom := fun v => optIn v.year 1000 9999, needND := false }),
  ("yy".toList, { text := fun v => v.year.map (fun y => last2 (natToStr y)), dom := fun v => optIn v.year 2000 2099,
                  needND := false }),
  ("quarter".toList, { text := fun v => v.quarter.map natToStr, dom := fun v => optIn v.quarter 1 4, needND := false }),
  ("month".toList, { text := fun v => v.month.map (fun m => zfill 2 (natToStr m)), dom := fun v => optIn v.month 1 12,
                     needND := false }),
  ("month_short".toList, { text := fun v => v.month.map natToStr, dom := fun v => optIn v.month 1 12, needND := true }),
  ("dom".toList, { text := fun v => v.dom.map (fun d => zfill 2 (natToStr d)), dom := fun v => optIn v.dom 1 31,
                   needND := false }),
  ("doy".toList, { text := fun v => v.doy.map (fun d => zfill 3 (natToStr d)), dom := fun v => optIn v.doy 1 366,
                   needND := false }),
  ("MAJOR".toList, v1c_natSpec (·.major)),
  ("MINOR".toList, v1c_natSpec (·.minor)),
  ("PATCH".toList, v1c_natSpec (·.patch)),
  ("MM".toList, v1c_padSpec 2 (·.minor)),
  ("MMM".toList, v1c_padSpec 3 (·.minor)),
  ("MMMM".toList, v1c_padSpec 4 (·.minor)),
  ("MMMMM".toList, v1c_padSpec 5 (·.minor)),
  ("PP".toList, v1c_padSpec 2 (·.patch)),
  ("PPP".toList, v1c_padSpec 3 (·.patch)),
  ("PPPP".toList, v1c_padSpec 4 (·.patch)),
  ("PPPPP".toList, v1c_padSpec 5 (·.patch)),
  ("build_no".toList, { text := fun v => some v.bid, dom := v1c_bidOk, needND := true }),
  ("bid".toList, { text := fun v => some v.bid, dom := v1c_bidOk, needND := true }),
  ("BID".toList, { text := fun v => some (natToStr (strToNat v.bid)),
                   dom := fun v => isDigitStr v.bid && decide (1 ≤ strToNat v.bid), needND := true }),
  ("tag".toList, { text := fun v => some v.tag, dom := fun v => v1c_tags.contains v.tag, needND := false })]

def v1c_partText (v : V1Info) (n : Str) : Option Str :=
  match lookup n v1c_partSpecs with
  | some s => s.text v
  | none => none

def v1c_partOk (v : V1Info) (n : Str) : Bool :=
  match lookup n v1c_partSpecs with
  | some s => s.dom v
  | none => false

def v1c_needND (n : Str) : Bool :=
  match lookup n v1c_partSpecs with
  | some s => s.needND
  | none => true

/-- structural rendering (`str(None)` for a field that is None, as `str.format` writes it) -/
def V1Pat.render (v : V1Info) : V1Pat → Str
  | .done => []
  | .lit c rest => c :: V1Pat.render v rest
  | .part n rest => (v1c_partText v n).getD "None".toList ++ V1Pat.render v rest
  | .comp _ body rest => V1Pat.render v body ++ V1Pat.render v rest
  | .rel rest => v1c_relText v ++ V1Pat.render v rest

/-! ### well-formedness, domain, captures -/

def v1c_isTag (n : Str) : Bool := n == "tag".toList

/-- the first characters of what `p` followed by a continuation in `F` can render to -/
def V1Pat.first : V1Pat → FSet → FSet
  | .done, F => F
  | .lit c _, _ => ⟨false, false, [c], false⟩
  | .part n _, _ => if v1c_isTag n then ⟨false, true, [], false⟩ else ⟨true, false, [], false⟩
  | .comp _ body rest, F => V1Pat.first body (V1Pat.first rest F)
  | .rel rest, F => (⟨false, false, ['-'], false⟩ : FSet).union (V1Pat.first rest F)

/-- static well-formedness ("uniquely readable"): every part is a supported one, a composite carries the
    name of a composite, a variable-width numeric part is followed by something that cannot start with a
    digit, and what follows the optional `-tag` group cannot start with `-` -/
def V1Pat.wf : V1Pat → FSet → Bool
  | .done, _ => true
  | .lit _ rest, F => V1Pat.wf rest F
  | .part n rest, F =>
    (lookup n v1c_partSpecs).isSome && V1Pat.wf rest F && (!v1c_needND n || (V1Pat.first rest F).noDigit)
  | .comp n body rest, F =>
    v1HasKey n Gen.v1CompositePartPatterns && V1Pat.wf body (V1Pat.first rest F) && V1Pat.wf rest F
  | .rel rest, F => V1Pat.wf rest F && !(V1Pat.first rest F).hasChar '-'

/-- the record lies in the domain of every part (`{release}`: any of the six tag values) -/
def V1Pat.vok (v : V1Info) : V1Pat → Bool
  | .done => true
  | .lit _ rest => V1Pat.vok v rest
  | .part n rest => v1c_partOk v n && V1Pat.vok v rest
  | .comp _ body rest => V1Pat.vok v body && V1Pat.vok v rest
  | .rel rest => v1c_tags.contains v.tag && V1Pat.vok v rest

/-- (group name, text) of every group that takes part in the match, in the order the groups CLOSE
    (a composite closes after the parts inside it) -/
def V1Pat.caps (v : V1Info) : V1Pat → List (Str × Str)
  | .done => []
  | .lit _ rest => V1Pat.caps v rest
  | .part n rest =>
    match v1c_partText v n with
    | some t => (n, t) :: V1Pat.caps v rest
    | none => V1Pat.caps v rest
  | .comp n body rest => V1Pat.caps v body ++ (n, V1Pat.render v body) :: V1Pat.caps v rest
  | .rel rest => (if v1c_isFinal v then [] else [("tag".toList, v.tag)]) ++ V1Pat.caps v rest

/-- the two checks of `_parse_pattern_groups` (they look at the group NAMES only): every group is a
    composite or a part with a field, and no field is named by two groups -/
def v1c_groupsOk (G : List Str) : Bool :=
  let all := (Gen.v1PatternPartFields.filter (fun pf => G.contains pf.1)).map (·.2)
  !(G.any (fun g => !(v1HasKey g Gen.v1CompositePartPatterns || v1HasKey g Gen.v1PatternPartFields))) &&
  !(all.any (fun f => all.count f > 1))

/-- the part `_parse_pattern_groups` reads field `f` from: the first entry of `PATTERN_PART_FIELDS`
    for `f` whose part is a group of the pattern -/
def V1Pat.fieldPart (p : V1Pat) (f : Str) : Option Str :=
  ((Gen.v1PatternPartFields.filter (fun pf => p.groups.contains pf.1)).find? (fun pf => pf.2 == f)).map (·.1)

def V1Pat.hasField (p : V1Pat) (f : String) : Bool := (p.fieldPart f.toList).isSome

/-- a supported whole pattern: well-formed before the end of the input, no group name twice
    (`re.error`), every group a part or a composite and no field twice (`_parse_pattern_groups`) -/
def V1Pat.wfTop (p : V1Pat) : Bool :=
  V1Pat.wf p FSet.endOnly && nodupStr p.groups && v1c_groupsOk p.groups

/-- the calendar fields of the pattern read back: `_parse_field_values` REPLACES month and day by
    `date_from_doy(year, doy)` when year and day-of-year are both shown, checks the date when year,
    month and day are known, and recomputes the day of year from them -/
def V1Pat.calOk (v : V1Info) (p : V1Pat) : Bool :=
  if p.hasField "year" && p.hasField "doy" then
    match v.year, v.doy with
    | some y, some j =>
      match dateFromDoy y j with
      | some d =>
        (!p.hasField "month" || v.month == some d.2.1) && (!p.hasField "dom" || v.dom == some d.2.2) &&
        validDate y d.2.1 d.2.2 && dayOfYear y d.2.1 d.2.2 == j
      | none => false
    | _, _ => false
  else if p.hasField "year" && p.hasField "month" && p.hasField "dom" then
    match v.year, v.month, v.dom with
    | some y, some m, some d => validDate y m d
    | _, _, _ => false
  else true

/-- every part of the pattern renders the same for `v'` as for `v` -/
def V1Pat.agree (v v' : V1Info) (p : V1Pat) : Bool :=
  p.parts.all (fun n => v1c_partText v' n == v1c_partText v n)

/-- the part of `parse_version_info` after the pattern is compiled (`v1ParseVersionInfo` is this after
    `v1CompilePattern`, by `rfl`: `v1c_parseVersionInfo_eq`) -/
def v1c_parseWithRe (r : Re) (versionStr : Str) : Except V1Err V1Info :=
  match reMatch r versionStr with
  | none => .error .pattern
  | some m =>
    if m.stop < versionStr.length then .error .pattern
    else match v1ParseGroups (groupdict r m) with
      | .error .valueError => .error .pattern
      | x => x

/-! ### the tie with the string pipeline (evaluated in Props/C20.lean and by the driver) -/

def v1c_exceptOk {α} : Except V1Err α → Option α
  | .ok a => some a
  | .error _ => none

/-- the tree of `s` compiles to EXACTLY the regex `compile_pattern(s, s)` — `_normalized_pattern` and the
    string surgery of `_compile_pattern_re` — produces (with the same verdict on duplicate group names) -/
def v1c_compileTie (s : Str) : Bool :=
  match V1Pat.tokenize s with
  | some p =>
    (match p.compileTop, v1CompilePattern s s with
     | .ok a, .ok b => Re.beq a b
     | .error .reError, .error .reError => true
     | _, _ => false)
  | none => false

/-- the tree of `s` renders `v` to EXACTLY the text `format_version` writes -/
def v1c_renderTie (s : Str) (v : V1Info) : Bool :=
  match V1Pat.tokenize s with
  | some p => v1c_exceptOk (v1FormatVersion v s) == some (p.render v)
  | none => false

end BV
