/-
  Model/Cmd.lean — the COMMAND MONAD into which `harness/translate_commands.py` translates the top-level
  glue of the two commands, cli.py `test(...)` and `update(...)`, and the three decision functions that call
  `vcs.get_tags` (`_is_valid_version`, `get_latest_vcs_version_tag`, `_update_cfg_from_vcs`) plus
  `_normalize_set_version`.

      Cmd α  :=  CmdEnv → CState → CState × Except CStop α

  It is the union of the two monads the earlier translators use, so that the already translated pieces
  can be CALLED from the glue without being re-translated:

  * `Eff` (Model/Eff.lean, translate_effects.py): state = the plan model's `PState` (VCS events so far,
    number of VCS invocations), failure oracle `vcsCall`; its results are embedded with `Cmd.liftEff`
    (`vcs.get_tags`, `cli._try_update`);
  * `Except Exc` (Model/CliPrims.lean, translate_cli.py): the decision functions that only compute or
    raise; embedded with `Cmd.liftExc` (`_validate_release_tag`, `_validate_flags`, `_validate_date`,
    `incr_dispatch`, `_parse_version_tags`, the model callees `v2version.parse_version_info` …);
  * `Option` with `none` = ValueError (translate_funcs.py `_parse_vcs_options`): `Cmd.ofOption`.

  New here: the OUTPUT of `click.echo` (`CState.out`, one entry per call), and three primitive effects
  that stand for what the hand model abstracts (documented in harness/TRANSLATE_COMMANDS.md):
  `printDiff` (`cli._print_diff`), `format` (`str.format(**kwargs)`), and `echo`.

  No Mathlib.  Nothing in the hand model uses this file.
-/
import BumpverVerif.Model.Eff
import BumpverVerif.Model.CliPrims
namespace BV

/-- why a command stopped before its end: what either layer can raise -/
inductive CStop
  | eff (x : Stop)         -- raised in the effect layer: `sys.exit(n)`, CalledProcessError, OSError, …
  | exc (x : Exc)          -- raised by a decision function: PatternError & co. of either engine, `sys.exit(n)`, ValueError, IndexError
  | keyError               -- `str.format(**kwargs)` on a template that names an unknown field (or is malformed)
  deriving DecidableEq, Repr

/-- the exception classes that occur in `except` clauses of the translated functions -/
inductive CClass
  | baseException | exception | calledProcessError | osError | valueError | noPatternMatch | patternError
  deriving DecidableEq, Repr

def CClass.toEff : CClass → Option ExcClass
  | .baseException => some .baseException
  | .exception => some .exception
  | .calledProcessError => some .calledProcessError
  | .osError => some .osError
  | .valueError => some .valueError
  | .noPatternMatch => some .noPatternMatch
  | .patternError => none

/-- `isinstance(exc, cls)`.  `SystemExit` (both spellings: `Stop.exit`, `Exc.sysExit`) is only a
    `BaseException`; `version.PatternError` derives from `Exception` and from nothing else. -/
def CStop.isA : CStop → CClass → Bool
  | .eff x, c => (match c.toEff with | some c' => x.isA c' | none => false)
  | .exc (.sysExit _), c => c == .baseException
  | .exc _, .baseException => true
  | .exc _, .exception => true
  | .exc x, .valueError => x.isValueError
  | .exc x, .patternError => x.isPatternError
  | .exc _, _ => false
  | .keyError, c => c == .baseException || c == .exception

structure CmdEnv where
  eff : EffEnv
  /-- `cli._print_diff(cfg, new_version)` completes (no OSError / NoPatternMatch from `get_diff`), as a
      function of `cfg.current_version`, `cfg.version_pattern` and the new version -/
  diffOk : Str → Str → Str → Bool
  /-- `template.format(**kwargs)`; `none` = KeyError / IndexError / ValueError (unknown field, bad syntax) -/
  fmt : Str → List (Str × Str) → Option Str

structure CState where
  p : PState                -- VCS events so far (reversed) and number of invocations (Model/Plan.lean)
  out : List Str            -- the arguments of the `click.echo` calls so far (reversed)

abbrev Cmd (α : Type) := CmdEnv → CState → CState × Except CStop α

namespace Cmd

def pure {α : Type} (a : α) : Cmd α := fun _ s => (s, .ok a)

def bind {α β : Type} (m : Cmd α) (f : α → Cmd β) : Cmd β := fun e s =>
  match m e s with
  | (s', .ok a) => f a e s'
  | (s', .error x) => (s', .error x)

def throw {α : Type} (x : CStop) : Cmd α := fun _ s => (s, .error x)

/-- `try: m  except …: h ex` (the handler re-throws what it does not handle) -/
def tryCatch {α : Type} (m : Cmd α) (h : CStop → Cmd α) : Cmd α := fun e s =>
  match m e s with
  | (s', .ok a) => (s', .ok a)
  | (s', .error x) => h x e s'

/-- `sys.exit(n)` -/
def exit {α : Type} (n : Nat) : Cmd α := throw (.eff (.exit n))

/-- a function translated by translate_effects.py, run on the VCS part of the state -/
def liftEff {α : Type} (m : Eff α) : Cmd α := fun e s =>
  match m e.eff s.p with
  | (p', .ok a) => ({ s with p := p' }, .ok a)
  | (p', .error x) => ({ s with p := p' }, .error (.eff x))

/-- a function translated by translate_cli.py (or a model callee behind a CliPrims wrapper): no effect but
    its result / exception -/
def liftExc {α : Type} (r : Except Exc α) : Cmd α := fun _ s =>
  match r with
  | .ok a => (s, .ok a)
  | .error x => (s, .error (.exc x))

/-- an `Option`-valued translation (translate_funcs.py: `none` = the exception `x`) -/
def ofOption {α : Type} (x : CStop) : Option α → Cmd α
  | some a => pure a
  | none => throw x

/-- `click.echo(text)` -/
def echo (text : Str) : Cmd Unit := fun _ s => ({ s with out := text :: s.out }, .ok ())

/-- `cli._print_diff(cfg, new_version)`: prints the diff (the text is not modelled) or, when `get_diff`
    raises OSError / NoPatternMatch, `sys.exit(1)` -/
def printDiff (old pat new : Str) : Cmd Unit := fun e s =>
  if e.diffOk old pat new then (s, .ok ()) else (s, .error (.eff (.exit 1)))

/-- `template.format(**kwargs)` -/
def format (template : Str) (kwargs : List (Str × Str)) : Cmd Str := fun e s =>
  match e.fmt template kwargs with
  | some r => (s, .ok r)
  | none => (s, .error .keyError)

end Cmd

/-- the process exit code: `sys.exit(n)` gives `n`, an uncaught exception 1 (traceback), else 0 -/
def CStop.code : CStop → Nat
  | .eff (.exit n) => n
  | .exc (.sysExit n) => n.toNat
  | _ => 1

def Cmd.exitCode {α : Type} : Except CStop α → Nat
  | .ok _ => 0
  | .error x => x.code

/-- `max(a, b)` on Python ints -/
def pyMaxInt (a b : Int) : Int := if a < b then b else a

/-- `v2version.format_version(vinfo, raw_pattern)` -/
def pyV2FormatVersion (vinfo : VInfo) (raw_pattern : Str) : Except Exc Str :=
  liftV2 (formatVersion vinfo raw_pattern)

/-- `v1version.format_version(vinfo, raw_pattern)` -/
def pyV1FormatVersion (vinfo : V1Info) (raw_pattern : Str) : Except Exc Str :=
  liftV1 (v1FormatVersion vinfo raw_pattern)

end BV
