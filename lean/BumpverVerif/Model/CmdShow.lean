/-
  Model/CmdShow.lean — one more primitive of the command monad (Model/Cmd.lean), used by the translation of `cli.show`
  (harness/translate_commands.py): several `click.echo` calls in a row.  No Mathlib.
-/
import BumpverVerif.Model.Cmd
namespace BV

/-- `for line in lines: click.echo(line)` -/
def Cmd.echoAll (lines : List Str) : Cmd Unit := fun _ s => ({ s with out := lines.reverse ++ s.out }, .ok ())

end BV
