/-
  Model/PatAst.lean — the STRUCTURE of a version pattern: literal characters, parts and
  (nested) optional groups, with a structural compiler and a structural renderer.

  bumpver itself never builds this tree: it compiles and renders patterns by string surgery
  (Model/V2Patterns.lean, Model/V2Version.lean model that faithfully).  The tree is the level at
  which the round-trip theorem (Props/C02.lean, `C02_roundtrip_ast`) is stated and proved; that
  the string pipeline and the tree agree on a pattern (`tokenize`, `Pat.compile` vs `compileRe`,
  `Pat.render` vs `formatVersion`) is checked by the driver op `ast_tie` on every generated
  pattern of the check, and proved for literal patterns (C07).
-/
import BumpverVerif.Model.V2Version
namespace BV

inductive Pat
  | done
  | lit (c : Char) (rest : Pat)
  | part (name : Str) (rest : Pat)
  | opt (body : Pat) (rest : Pat)
  deriving Repr

/-- the documented part names, longest first (as every scan in the code does) -/
def partNamesLongestFirst : List Str := sortByLenDesc (Gen.partFields.map (·.1))

def firstPartName (s : Str) : Option Str := partNamesLongestFirst.find? (fun n => startsWith s n)

/-- tokenise pattern text: `\[` `\]` are literal brackets, `[`…`]` groups, part names by
    longest match.  Returns the tree and the unread rest (at a closing bracket or the end). -/
def tokenizeGo : Nat → Str → Option (Pat × Str)
  | 0, _ => none
  | _ + 1, [] => some (.done, [])
  | f + 1, c :: r =>
    if c == ']' then some (.done, c :: r)
    else if c == '\\' then
      match r with
      | '[' :: r' => (tokenizeGo f r').map (fun (p, u) => (.lit '[' p, u))
      | ']' :: r' => (tokenizeGo f r').map (fun (p, u) => (.lit ']' p, u))
      | _ => none                                   -- a bare backslash is outside the supported language
    else if c == '[' then
      match tokenizeGo f r with
      | some (body, ']' :: r') => (tokenizeGo f r').map (fun (p, u) => (.opt body p, u))
      | _ => none
    else
      match firstPartName (c :: r) with
      | some n => (tokenizeGo f ((c :: r).drop n.length)).map (fun (p, u) => (.part n p, u))
      | none => (tokenizeGo f r).map (fun (p, u) => (.lit c p, u))

def tokenize (s : Str) : Option Pat :=
  match tokenizeGo (s.length + 1) s with
  | some (p, []) => some p
  | _ => none

/-- sequencing as `parseRe` builds it: a trailing `eps` is dropped -/
def seqR (a b : Re) : Re := match b with | .eps => a | _ => .seq a b

def partReOf (name : Str) : Option Re := (lookup name Gen.partPatterns).bind parseRe

/-- structural compilation (fields occur at most once, so no `_N` suffixes) -/
def Pat.compile : Pat → Option Re
  | .done => some .eps
  | .lit c rest => (Pat.compile rest).map (seqR (.chr c))
  | .part n rest =>
    match partReOf n, lookup n Gen.partFields, Pat.compile rest with
    | some rx, some f, some r => some (seqR (.grp f rx) r)
    | _, _, _ => none
  | .opt body rest =>
    match Pat.compile body, Pat.compile rest with
    | some b, some r => some (seqR (.rep b 0 (some 1)) r)
    | _, _ => none

/-- rendered text of one part for a version record (`none`: the field is None) -/
def partText (v : VInfo) (name : Str) : Option Str :=
  match lookup name Gen.partFields, lookup name Gen.partFormats with
  | some f, some k => (match v.get f with | .none => none | fv => some (fmtValue k fv))
  | _, _ => none

def partIsZero (v : VInfo) (name : Str) : Bool :=
  match partText v name with
  | some t => isZeroVal name t
  | none => false

/-- all parts of a tree have their zero value (a tree without parts counts as zero: a group
    without parts renders empty) -/
def Pat.allZero (v : VInfo) : Pat → Bool
  | .done => true
  | .lit _ rest => Pat.allZero v rest
  | .part n rest => partIsZero v n && Pat.allZero v rest
  | .opt body rest => Pat.allZero v body && Pat.allZero v rest

/-- structural rendering: an optional group is omitted exactly when all its parts are zero -/
def Pat.render (v : VInfo) : Pat → Str
  | .done => []
  | .lit c rest => c :: Pat.render v rest
  | .part n rest => (partText v n).getD n ++ Pat.render v rest
  | .opt body rest => (if Pat.allZero v body then [] else Pat.render v body) ++ Pat.render v rest

/-- the parts of a tree, left to right -/
def Pat.parts : Pat → List Str
  | .done => []
  | .lit _ rest => Pat.parts rest
  | .part n rest => n :: Pat.parts rest
  | .opt body rest => Pat.parts body ++ Pat.parts rest

/-- structural equality of regexes (for the driver's tie check) -/
def Re.beq : Re → Re → Bool
  | .eps, .eps => true
  | .chr a, .chr b => a == b
  | .any, .any => true
  | .cls n1 i1, .cls n2 i2 => n1 == n2 && i1 == i2
  | .seq a1 b1, .seq a2 b2 => Re.beq a1 a2 && Re.beq b1 b2
  | .alt a1 b1, .alt a2 b2 => Re.beq a1 a2 && Re.beq b1 b2
  | .rep r1 m1 x1, .rep r2 m2 x2 => Re.beq r1 r2 && m1 == m2 && x1 == x2
  | .grp n1 r1, .grp n2 r2 => n1 == n2 && Re.beq r1 r2
  | .bol, .bol => true
  | .eol, .eol => true
  | _, _ => false

end BV
