/-
  Model/PepOfRecord.lean — the PEP 440 version a version record DENOTES under a pattern tree (C15).

  `pepOfRecord q v`   : for a DERIVED tree `q` (`Pat.toPep`, Model/PepTree.lean): release = the numbers of the
                        dot-separated components of the rendered text (the first component may be several adjacent
                        parts: `YYYY0M` -> 202403), pre / post / dev from `v.pytag` / `v.num` when a tag part is
                        rendered, none of them for a final release; epoch 0, no local part.
  `pepOfVersion p v`  : the same for a VERSION pattern `p` (optional literal `v`, long tag names, `-` before the
                        tag, a release number that may be absent: implicit 0).
  `Pat.pepParseable`  : the decidable shape both readings need: a first component made of numeric parts, then
                        `.PART` components and optional groups, the tag sequence last.
  `Pat.pepShaped`     : the shape of a version pattern whose derived tree denotes the same version (C15, G3).

  Executable definitions only (no proofs): the compiled driver may link this file.
-/
import BumpverVerif.Model.PepTree
import BumpverVerif.Model.Pep440
namespace BV

/-- a part that renders as a number of the release segment: every supported part except TAG, PYTAG, NUM -/
def isRelPart (n : Str) : Bool := (lookup n partDoms).isSome && !isTailPart n

def Pat.isDone : Pat → Bool
  | .done => true
  | _ => false

/-- a TAG / PYTAG / NUM part occurs -/
def Pat.hasTailPart (p : Pat) : Bool := p.parts.any isTailPart

/-! ### what a tree renders for a record, component by component -/

/-- the texts of the rendered release parts (every part other than TAG / PYTAG / NUM), left to right -/
def Pat.relComps (v : VInfo) : Pat → List Str
  | .done => []
  | .lit _ rest => Pat.relComps v rest
  | .part n rest =>
    if isRelPart n then (partText v n).getD n :: Pat.relComps v rest else Pat.relComps v rest
  | .opt body rest => (if Pat.allZero v body then [] else Pat.relComps v body) ++ Pat.relComps v rest

/-- the names of the rendered release parts, left to right (`Pat.relComps` is their texts) -/
def Pat.relNames (v : VInfo) : Pat → List Str
  | .done => []
  | .lit _ rest => Pat.relNames v rest
  | .part n rest => if isRelPart n then n :: Pat.relNames v rest else Pat.relNames v rest
  | .opt body rest => (if Pat.allZero v body then [] else Pat.relNames v body) ++ Pat.relNames v rest

/-- the number in the record's field of a part (`bid`: the number the build id denotes) -/
def partNum (v : VInfo) (n : Str) : Nat :=
  match lookup n Gen.partFields with
  | some f =>
    match v.get f with
    | .nat x => x
    | .str s => strToNat s
    | .none => 0
  | none => 0

/-- the text of the first rendered TAG / PYTAG part (`none`: no tag is rendered) -/
def Pat.tagText (v : VInfo) : Pat → Option Str
  | .done => none
  | .lit _ rest => Pat.tagText v rest
  | .part n rest => if isTagPart n then partText v n else Pat.tagText v rest
  | .opt body rest =>
    match (if Pat.allZero v body then none else Pat.tagText v body) with
    | some t => some t
    | none => Pat.tagText v rest

def Pat.tagShown (v : VInfo) (p : Pat) : Bool := (Pat.tagText v p).isSome

/-- a NUM part is rendered -/
def Pat.numShown (v : VInfo) : Pat → Bool
  | .done => false
  | .lit _ rest => Pat.numShown v rest
  | .part n rest => n == "NUM".toList || Pat.numShown v rest
  | .opt body rest => (!Pat.allZero v body && Pat.numShown v body) || Pat.numShown v rest

/-! ### the denoted version -/

/-- the pre / post / dev segments a short tag with its number stands for -/
def pepSegOf (short : Str) (k : Nat) : Option (Option (Str × Nat) × Option Nat × Option Nat) :=
  if short == "a".toList || short == "b".toList || short == "rc".toList then some (some (short, k), none, none)
  else if short == "post".toList then some (none, some k, none)
  else if short == "dev".toList then some (none, none, some k)
  else none

/-- the release numbers: the first dot-separated component as ONE number (it may be several adjacent parts),
    then one number per rendered release part -/
def pepRelease (v : VInfo) (t : Pat) : List Nat :=
  (Pat.render v t.headComp :: Pat.relComps v t.afterHead).map strToNat

def pepMk (rel : List Nat) (s : Option (Str × Nat) × Option Nat × Option Nat) : PepVersion :=
  { epoch := 0, release := rel, pre := s.1, post := s.2.1, dev := s.2.2, loc := none }

/-- the version a record denotes under a DERIVED tree: pre / post / dev from `pytag` / `num` when the tag is
    rendered, a final release otherwise -/
def pepOfRecord (q : Pat) (v : VInfo) : Option PepVersion :=
  if q.afterHead.tagShown v then (pepSegOf v.pytag v.num).map (pepMk (pepRelease v q))
  else some (pepMk (pepRelease v q) (none, none, none))

/-- the version a record denotes under a VERSION pattern: a leading literal `v` does not count, the rendered tag
    (long or short) in its short form, the release number when it is rendered and 0 otherwise -/
def pepOfVersion (p : Pat) (v : VInfo) : Option PepVersion :=
  let t := p.dropV
  match t.afterHead.tagText v with
  | none => some (pepMk (pepRelease v t) (none, none, none))
  | some tg =>
    match lookup tg Gen.pep440TagByTag with
    | none => none
    | some short =>
      (pepSegOf short (if t.afterHead.numShown v then v.num else 0)).map (pepMk (pepRelease v t))

/-! ### the shape -/

/-- what may follow the tag part: nothing, `NUM`, `[NUM]` -/
def Pat.isNumTail : Pat → Bool
  | .done => true
  | .part m .done => m == "NUM".toList
  | .opt (.part m .done) .done => m == "NUM".toList
  | _ => false

/-- the text after the first component: `.PART` components, optional groups, and LAST the tag sequence
    (`-`? TAG|PYTAG, then nothing / `NUM` / `[NUM]`); a group that contains a tag or number part ends its level -/
def Pat.pepTailShape : Pat → Bool
  | .done => true
  | .lit c (.part n rest) =>
    if c == '.' then isRelPart n && Pat.pepTailShape rest
    else c == '-' && isTagPart n && rest.isNumTail
  | .part n rest => isTagPart n && rest.isNumTail
  | .opt body rest => Pat.pepTailShape body && Pat.pepTailShape rest && (!body.hasTailPart || rest.isDone)
  | _ => false

/-- the first component: one or more release parts, nothing else -/
def Pat.pepHead : Pat → Bool
  | .part n .done => isRelPart n
  | .part n rest => isRelPart n && Pat.pepHead rest
  | _ => false

/-- THE SHAPE CONDITION of `C15_derived_parses` -/
def Pat.pepParseable (q : Pat) : Bool := q.headComp.pepHead && q.afterHead.pepTailShape

/-! ### the version pattern and its derived tree denote the same version: the static relation between the two -/

/-- the tree without its literals -/
def Pat.skelIn : Pat → Pat
  | .done => .done
  | .lit _ rest => Pat.skelIn rest
  | .part n rest => .part n (Pat.skelIn rest)
  | .opt body rest => .opt (Pat.skelIn body) (Pat.skelIn rest)

/-- the tree without its literals and without the TOP-LEVEL optional groups made of tag / number parts only
    (`[-TAG]`, `[-TAGNUM]`, `[-TAG[NUM]]`, `[PYTAGNUM]`, `[]`): the skeleton of the release segment -/
def Pat.skelTop : Pat → Pat
  | .done => .done
  | .lit _ rest => Pat.skelTop rest
  | .part n rest => .part n (Pat.skelTop rest)
  | .opt body rest =>
    if body.parts.all isTailPart then Pat.skelTop rest else .opt (Pat.skelIn body) (Pat.skelTop rest)

/-- the same part, or its substitute in `PEP440_PART_SUBSTITUTIONS` (same field, unpadded; TAG -> PYTAG) -/
def pepSimName (n m : Str) : Bool := n == m || lookup n Gen.pep440PartSubstitutions == some m

/-- the same skeleton up to substituted part names -/
def Pat.pepSim : Pat → Pat → Bool
  | .done, .done => true
  | .part n r1, .part m r2 => pepSimName n m && Pat.pepSim r1 r2
  | .opt b1 r1, .opt b2 r2 => Pat.pepSim b1 b2 && Pat.pepSim r1 r2
  | _, _ => false

/-- the parts of the first component: the first one the same or substituted, the others THE SAME (a substituted
    part after the first would change the digits of the component: `YYYY0M` = 202403, `YYYYMM` = 20243) -/
def pepHeadAligned : List Str → List Str → Bool
  | n :: ns, m :: ms => pepSimName n m && ns == ms
  | _, _ => false

/-- THE SHAPE CONDITION of `C15_version_parses_equal`: the version pattern (without a leading `v`) and its derived
    tree both have the parseable shape, every TAG sits in a group of tag / number parts, and the derived tree has
    the same release skeleton -/
def Pat.pepShaped (p : Pat) : Bool :=
  p.dropV.pepParseable && p.tagGuarded && p.toPep.pepParseable && p.toPep.pepNormal &&
  pepHeadAligned p.dropV.headComp.parts p.toPep.headComp.parts &&
  Pat.pepSim p.dropV.afterHead.skelTop p.toPep.afterHead.skelTop &&
  p.toPep.afterHead.parts.contains "PYTAG".toList

/-- the fields the version string does not show have their default values: without a tag part the release is
    final, without a NUM part the release number is 0 (what parsing the version string yields) -/
def pepCoherent (p : Pat) (v : VInfo) : Bool :=
  (p.parts.any isTagPart || v.tag == "final".toList) && (p.parts.contains "NUM".toList || v.num == 0)

end BV
