/-
  Model/LexId.lean — `lexid.next_id` (third-party, lexid 2021.1006) and the
  `< 1000 → + 1000` padding of `v2version._incr_numeric` (L713-717).
  Tied to the code by correspondence op `nextid` / `bumpbid`.
-/
import BumpverVerif.Model.Basic
namespace BV

/-- `lexid.next_id(prev_id)`; `none` = `OverflowError`. -/
def nextId (prev : Str) : Option Str :=
  if prev.all (· == '9') then none
  else
    let v := strToNat prev + 1
    let s := zfill prev.length (natToStr v)
    if prev.head? == s.head? then some s else some (natToStr (v * 11))

/-- the BUILD step of `_incr_numeric`: pad below 1000, then `next_id`. -/
def padBid (b : Str) : Str :=
  if strToNat b < 1000 then natToStr (strToNat b + 1000) else b

def bumpBid (b : Str) : Option Str := nextId (padBid b)

end BV
