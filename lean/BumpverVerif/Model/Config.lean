/-
  Model/Config.lean — bumpver's configuration layer (config.py) and `bumpver init` (cli.py).

  The third-party parsers `configparser` and `toml` are NOT modelled.  The model starts from
  the raw data they hand to bumpver:

  * `IniDoc`  = what `_ConfigParser` (a `RawConfigParser` with a case-preserving
                `optionxform`) answers to `has_section` / `items(section)`: sections with
                their (option, string value) pairs, multi-line values joined by "\n";
  * `TomlDoc` = the nested dict of `toml.load`, reduced to the three tables bumpver looks at.

  C18:  `parseCfgPost` / `parseTomlPost` (the parts of `_parse_cfg` / `_parse_toml` after the
        parser), `setRawConfigDefaults`, `addSelfPattern` (`_parse_raw_config`),
        `parseCurrentVersionDefaultPattern`, `iterGlobExpanded`, `parseConfig`
        (`_parse_config`).  Version validation, pattern compilation, path existence and glob
        results are parameters (`CfgEnv`).
  C19:  `pickConfigFile` (`_pick_config_filepath`), `configFormat`, `defaultConfigText`
        (`default_config`), `writeContent`, `cliInit` (cli.py `init`).

  All recursion is structural.  No Mathlib.
-/
import BumpverVerif.Model.Basic
import BumpverVerif.Model.Vcs
import BumpverVerif.Gen.ConfigTables
namespace BV

/-! ## raw values -/

/-- a scalar value of the raw config dict: Python `str`, `bool` or `None` -/
inductive RawVal
  | str (s : Str)
  | bool (b : Bool)
  | none
  deriving DecidableEq, Repr

/-- Python truthiness -/
def RawVal.truthy : RawVal → Bool
  | .str s => !s.isEmpty
  | .bool b => b
  | .none => false

/-- `file_patterns`: an ordered dict file name (or glob) → list of raw patterns -/
abbrev FilePatterns := List (Str × List Str)

/-- the raw config dict of bumpver (`RawConfig`) once `file_patterns` is set -/
structure RawCfg where
  opts : List (Str × RawVal)
  filePatterns : FilePatterns
  deriving DecidableEq, Repr

/-- what configparser hands over: sections in file order with their items.  Section names
    and the option names within a section are unique (configparser is strict: duplicates are a
    parse error), so `dict(items)` is the item list itself and `lookup` is `dict.get`. -/
structure IniDoc where
  sections : List (Str × List (Str × Str))
  deriving DecidableEq, Repr

/-- one table of a TOML document: scalar keys and the `file_patterns` sub-table (if any) -/
structure TomlSection where
  opts : List (Str × RawVal)
  filePatterns : Option FilePatterns
  deriving DecidableEq, Repr

/-- `toml.load(...)` reduced to `['tool']['bumpver']`, `['bumpver']`, `['pycalver']` -/
structure TomlDoc where
  toolBumpver : Option TomlSection
  bumpver : Option TomlSection
  pycalver : Option TomlSection
  deriving DecidableEq, Repr

/-- every way reading a configuration can fail, with the Python exception class -/
inductive CfgErr
  | missingSection       -- ValueError("Missing [bumpver] section.")
  | missingPattern       -- TypeError("Missing version_pattern")
  | patternType          -- TypeError("Invalid type for version_pattern")
  | missingVersion       -- ValueError("Missing 'current_version' configuration")
  | versionType          -- TypeError("Invalid type for current_version")
  | noVersionLine        -- ValueError("Could not parse 'current_version'")
  | notAString           -- AttributeError: `.strip` on a value that is not a str
  | keyError             -- KeyError (unreachable after `setRawConfigDefaults`)
  | invalidVersion       -- ValueError of `_validate_version_with_pattern`
  | bracketPattern       -- ValueError("Invalid pattern … Character not valid in this position '['")
  | reError              -- re.error from compiling a search pattern
  | tagScope             -- ValueError of `TagScope(…)`
  | tagRequiresCommit    -- ValueError("commit=True required if tag=True")
  | pushRequiresCommit   -- ValueError("commit=True required if push=True")
  | preHookMissing       -- ValueError("Invalid value for pre_commit_hook …")
  | postHookMissing      -- ValueError("Invalid value for post_commit_hook …")
  deriving DecidableEq, Repr

def CfgErr.pyClass : CfgErr → Str
  | .missingPattern | .patternType | .versionType => "TypeError".toList
  | .notAString => "AttributeError".toList
  | .keyError => "KeyError".toList
  | .reError => "re.error".toList
  | _ => "ValueError".toList

/-- `config.parse` catches TypeError and ValueError only -/
def CfgErr.caughtByParse (e : CfgErr) : Bool :=
  e.pyClass == "TypeError".toList || e.pyClass == "ValueError".toList

/-- `d[k] = v` on an ordered dict: in place when the key exists, appended otherwise -/
def setOpt {α} (k : Str) (v : α) : List (Str × α) → List (Str × α)
  | [] => [(k, v)]
  | (k', v') :: rest => if k = k' then (k, v) :: rest else (k', v') :: setOpt k v rest

def cfgHasKey {α} (k : Str) (l : List (Str × α)) : Bool := (lookup k l).isSome

/-- ASCII `.lower()`.  (`str.lower` maps two non-ASCII code points to text containing ASCII
    letters: U+212A → `k`, U+0130 → `i` + U+0307; no generated true spelling contains `k`
    or `i`, so membership in the spelling list is the same.) -/
def lowerAscii (s : Str) : Str := s.map toLowerAscii

/-! ## the INI reader after configparser (`_parse_cfg`) -/

def boolDefault : Option Bool → RawVal
  | some b => .bool b
  | .none => .none

/-- `if isinstance(val, (bytes, str)): val = val.lower() in ("yes", "true", "1", "on")` -/
def iniBoolConv : RawVal → RawVal
  | .str s => .bool (Gen.trueSpellings.contains (lowerAscii s))
  | v => v

/-- one round of the BOOL_OPTIONS loop of `_parse_cfg` -/
def iniBoolStep (acc : List (Str × RawVal)) (od : Str × Option Bool) : List (Str × RawVal) :=
  setOpt od.1 (iniBoolConv ((lookup od.1 acc).getD (boolDefault od.2))) acc

def iniBoolLoop (opts : List (Str × RawVal)) : List (Str × RawVal) :=
  Gen.boolOptions.foldl iniBoolStep opts

/-- `[p for p in (line.strip() for line in patterns_str.splitlines()) if p]` -/
def iniPatternLines (v : Str) : List Str :=
  ((pySplitlines v).map strip).filter (fun p => !p.isEmpty)

/-- `_parse_cfg_file_patterns` -/
def iniFilePatterns (d : IniDoc) : FilePatterns :=
  match lookup "pycalver:file_patterns".toList d.sections with
  | some items => items.map (fun kv => (kv.1, iniPatternLines kv.2))
  | .none =>
    match lookup "bumpver:file_patterns".toList d.sections with
    | some items => items.map (fun kv => (kv.1, iniPatternLines kv.2))
    | .none => []

/-- `_set_raw_config_defaults` (the `file_patterns` default is applied by the callers) -/
def setRawConfigDefaults (opts : List (Str × RawVal)) : Except CfgErr Unit :=
  match lookup "version_pattern".toList opts with
  | .none => .error .missingPattern
  | some (.str _) =>
    match lookup "current_version".toList opts with
    | .none => .error .missingVersion
    | some (.str _) => .ok ()
    | some _ => .error .versionType
  | some _ => .error .patternType

/-- `has_section("pycalver")` first, then `has_section("bumpver")` -/
def iniMainSection (d : IniDoc) : Option (List (Str × Str)) :=
  match lookup "pycalver".toList d.sections with
  | some items => some items
  | .none => lookup "bumpver".toList d.sections

/-- `_parse_cfg` after `cfg_parser.read_file` -/
def parseCfgPost (d : IniDoc) : Except CfgErr RawCfg :=
  match iniMainSection d with
  | .none => .error .missingSection
  | some items =>
    let opts := iniBoolLoop (items.map (fun kv => (kv.1, RawVal.str kv.2)))
    match setRawConfigDefaults opts with
    | .error e => .error e
    | .ok () => .ok { opts := opts, filePatterns := iniFilePatterns d }

/-! ## the TOML reader after `toml.load` (`_parse_toml`) -/

def tomlBoolStep (acc : List (Str × RawVal)) (od : Str × Option Bool) : List (Str × RawVal) :=
  setOpt od.1 ((lookup od.1 acc).getD (boolDefault od.2)) acc

def tomlBoolLoop (opts : List (Str × RawVal)) : List (Str × RawVal) :=
  Gen.boolOptions.foldl tomlBoolStep opts

/-- `['tool']['bumpver']`, else `['bumpver']`, else `['pycalver']`, else `{}` -/
def tomlMainSection (d : TomlDoc) : TomlSection :=
  match d.toolBumpver with
  | some s => s
  | .none =>
    match d.bumpver with
    | some s => s
    | .none =>
      match d.pycalver with
      | some s => s
      | .none => { opts := [], filePatterns := .none }

def parseTomlPost (d : TomlDoc) : Except CfgErr RawCfg :=
  let sec := tomlMainSection d
  let opts := tomlBoolLoop sec.opts
  match setRawConfigDefaults opts with
  | .error e => .error e
  | .ok () => .ok { opts := opts, filePatterns := sec.filePatterns.getD [] }

/-! ## `_parse_raw_config`: the config file is always among the files -/

/-- Python `s.replace(old, new)` including the empty `old` (insert between all characters) -/
def pyReplace (old new s : Str) : Str :=
  if old.isEmpty then new ++ s.flatMap (fun c => c :: new) else replaceAll old new s

def isConfigHeader (line : Str) : Bool :=
  let l := strip line
  l == "[pycalver]".toList || l == "[bumpver]".toList || l == "[tool.bumpver]".toList

def isAnyHeader (line : Str) : Bool :=
  match line with
  | [] => false
  | c :: _ => c == '[' && line.getLast? == some ']'

/-- the line scan of `_parse_current_version_default_pattern`: the first line starting with
    `current_version` while inside a config section -/
def curVersionScan : Bool → List Str → Option Str
  | _, [] => .none
  | inSec, line :: rest =>
    if inSec && startsWith line "current_version".toList then some line
    else if isConfigHeader line then curVersionScan true rest
    else if isAnyHeader line then curVersionScan false rest
    else curVersionScan inSec rest

def curVersionLine (text : Str) : Option Str := curVersionScan false (pySplitlines text)

/-- `.strip("'\" ")` -/
def stripQuotes (s : Str) : Str := stripChars "'\" ".toList s

/-- `_parse_current_version_default_pattern`: the raw values are stripped of quotes and blanks
    before the replacement, so the pattern keeps the quoting of the current_version line itself
    (config.py after the C18 repair) -/
def parseCurrentVersionDefaultPattern (currentVersion versionPattern text : Str) : Except CfgErr Str :=
  match curVersionLine text with
  | .none => .error .noVersionLine
  | some line => .ok (pyReplace (stripQuotes currentVersion) (stripQuotes versionPattern) line)

def rawStr (k : Str) (opts : List (Str × RawVal)) : Except CfgErr Str :=
  match lookup k opts with
  | .none => .error .keyError
  | some (.str s) => .ok s
  | some _ => .error .notAString

/-- the second half of `_parse_raw_config` -/
def addSelfPattern (relPath text : Str) (raw : RawCfg) : Except CfgErr RawCfg :=
  if cfgHasKey relPath raw.filePatterns then .ok raw
  else
    match rawStr "current_version".toList raw.opts, rawStr "version_pattern".toList raw.opts with
    | .ok cv, .ok vp =>
      match parseCurrentVersionDefaultPattern cv vp text with
      | .error e => .error e
      | .ok p => .ok { raw with filePatterns := raw.filePatterns ++ [(relPath, [p])] }
    | .error e, _ => .error e
    | _, .error e => .error e

/-! ## `_parse_config` -/

/-- what `_parse_config` asks of the rest of bumpver and of the file system -/
structure CfgEnv where
  /-- `_validate_version_with_pattern(current_version, version_pattern, is_new_pattern)` returns -/
  validVersion : Str → Str → Bool → Bool
  /-- `compile_pattern(version_pattern, raw_pattern)` (v2 or v1 by `is_new_pattern`) returns -/
  compileOk : Bool → Str → Str → Bool
  /-- `pl.Path(p).exists()` -/
  pathExists : Str → Bool
  /-- `[str(p) for p in pl.Path().glob(g)]` -/
  glob : Str → List Str

/-- the settings bumpver works with (`config.Config` without the derived `pep440_version`;
    the search patterns in their raw form) -/
structure EffectiveConfig where
  currentVersion : Str
  versionPattern : Str
  commitMessage : Str
  tagMessage : Str
  tagScope : Str
  preCommitHook : Str
  postCommitHook : Str
  commit : Bool
  tag : Bool
  push : Bool
  isNewPattern : Bool
  filePatterns : FilePatterns
  deriving DecidableEq, Repr


/-- `raw_cfg.get(key, default).strip("'\" ")` -/
def strOptDefault (k : Str) (dflt : Str) (opts : List (Str × RawVal)) : Except CfgErr Str :=
  match lookup k opts with
  | .none => .ok (stripQuotes dflt)
  | some (.str s) => .ok (stripQuotes s)
  | some _ => .error .notAString

/-- `raw_cfg[key].strip("'\" ")` -/
def strReq (k : Str) (opts : List (Str × RawVal)) : Except CfgErr Str :=
  match lookup k opts with
  | .none => .error .keyError
  | some (.str s) => .ok (stripQuotes s)
  | some _ => .error .notAString

/-- `_parse_cfg_strings(raw_cfg, key, default)` (the default is NOT stripped) -/
def parseCfgStrings (k : Str) (dflt : Str) (opts : List (Str × RawVal)) : Except CfgErr Str :=
  match lookup k opts with
  | .none => .ok dflt
  | some (.str s) => .ok (stripQuotes s)
  | some _ => .error .notAString

/-- `"{" not in p and "}" not in p` -/
def cfgIsNewPattern (p : Str) : Bool := !p.contains '{' && !p.contains '}'

/-- `_iter_glob_expanded_file_patterns` -/
def iterGlobExpanded (glob : Str → List Str) : FilePatterns → FilePatterns
  | [] => []
  | (g, pats) :: rest =>
    (match glob g with
     | [] => [(g, pats)]
     | fs => fs.map (fun f => (f, pats))) ++ iterGlobExpanded glob rest

/-- the per-pattern checks of `_compile_v2_file_patterns` / `_compile_v1_file_patterns` -/
def checkPatterns (env : CfgEnv) (isNew : Bool) (vp : Str) : List Str → Except CfgErr Unit
  | [] => .ok ()
  | p :: ps =>
    if isNew && startsWith p "[".toList then .error .bracketPattern
    else if !env.compileOk isNew vp p then .error .reError
    else checkPatterns env isNew vp ps

def checkAllPatterns (env : CfgEnv) (isNew : Bool) (vp : Str) : FilePatterns → Except CfgErr Unit
  | [] => .ok ()
  | (_, pats) :: rest =>
    match checkPatterns env isNew vp pats with
    | .error e => .error e
    | .ok () => checkAllPatterns env isNew vp rest

/-- `file_patterns[path].extend(patterns)` or a new entry at the end -/
def mergeInto (acc : FilePatterns) (item : Str × List Str) : FilePatterns :=
  match lookup item.1 acc with
  | some old => setOpt item.1 (old ++ item.2) acc
  | .none => acc ++ [item]

/-- `_compile_file_patterns` on raw patterns -/
def compileFilePatterns (env : CfgEnv) (isNew : Bool) (vp : Str) (fps : FilePatterns) :
    Except CfgErr FilePatterns :=
  let items := iterGlobExpanded env.glob fps
  match checkAllPatterns env isNew vp items with
  | .error e => .error e
  | .ok () => .ok (items.foldl mergeInto [])

def optVal (k : Str) (opts : List (Str × RawVal)) : Except CfgErr RawVal :=
  match lookup k opts with
  | .none => .error .keyError
  | some v => .ok v

/-- `ok` or the given error -/
def require (b : Bool) (e : CfgErr) : Except CfgErr Unit := if b then .ok () else .error e

/-- the checks at the end of `_parse_config`, in its order -/
def checkFlags (env : CfgEnv) (commit tag push : RawVal) (preHook postHook : Str) : Except CfgErr Unit :=
  if tag.truthy && !commit.truthy then .error .tagRequiresCommit
  else if push.truthy && !commit.truthy then .error .pushRequiresCommit
  else if !preHook.isEmpty && !env.pathExists preHook then .error .preHookMissing
  else if !postHook.isEmpty && !env.pathExists postHook then .error .postHookMissing
  else .ok ()

/-- `_parse_config` -/
def parseConfig (env : CfgEnv) (raw : RawCfg) : Except CfgErr EffectiveConfig := do
  let commitMessage ← strOptDefault "commit_message".toList Gen.defaultCommitMessage raw.opts
  let tagMessage ← strOptDefault "tag_message".toList Gen.defaultTagMessage raw.opts
  let currentVersion ← strReq "current_version".toList raw.opts
  let versionPattern ← strReq "version_pattern".toList raw.opts
  let isNew := cfgIsNewPattern versionPattern
  let _ ← require (env.validVersion currentVersion versionPattern isNew) .invalidVersion
  let filePatterns ← compileFilePatterns env isNew versionPattern raw.filePatterns
  let tagScope ← parseCfgStrings "tag_scope".toList Gen.defaultTagScope raw.opts
  let _ ← require (Gen.tagScopes.contains tagScope) .tagScope
  let preHook ← parseCfgStrings "pre_commit_hook".toList [] raw.opts
  let postHook ← parseCfgStrings "post_commit_hook".toList [] raw.opts
  let commit ← optVal "commit".toList raw.opts
  let tag ← optVal "tag".toList raw.opts
  let push ← optVal "push".toList raw.opts
  let _ ← checkFlags env commit tag push preHook postHook
  pure {
    currentVersion := currentVersion, versionPattern := versionPattern,
    commitMessage := commitMessage, tagMessage := tagMessage, tagScope := tagScope,
    preCommitHook := preHook, postCommitHook := postHook,
    commit := commit.truthy, tag := tag.truthy, push := push.truthy,
    isNewPattern := isNew, filePatterns := filePatterns }

/-- `config.parse` for an existing setup.cfg: `_parse_raw_config` then `_parse_config` -/
def readIni (env : CfgEnv) (relPath text : Str) (d : IniDoc) : Except CfgErr EffectiveConfig :=
  match parseCfgPost d with
  | .error e => .error e
  | .ok raw =>
    match addSelfPattern relPath text raw with
    | .error e => .error e
    | .ok raw' => parseConfig env raw'

/-- `config.parse` for an existing *.toml -/
def readToml (env : CfgEnv) (relPath text : Str) (d : TomlDoc) : Except CfgErr EffectiveConfig :=
  match parseTomlPost d with
  | .error e => .error e
  | .ok raw =>
    match addSelfPattern relPath text raw with
    | .error e => .error e
    | .ok raw' => parseConfig env raw'

/-! ## C18: an abstract configuration and the raw data its two renderings produce

  `AbsCfg` is a configuration together with the spelling choices the INI syntax leaves open
  (quoting of strings, spelling of booleans, first pattern on the key's line or not).
  `iniRaw` / `tomlRaw` are what `configparser` / `toml` hand to bumpver for the INI / TOML
  rendering of it; the harness checks this claim against the real parsers on every generated
  configuration (op `abs_raw`). -/

inductive Quote
  | bare          -- key = value
  | dq            -- key = "value"
  | sq            -- key = 'value'
  deriving DecidableEq, Repr

def Quote.wrap : Quote → Str → Str
  | .bare, s => s
  | .dq, s => '"' :: (s ++ ['"'])
  | .sq, s => '\'' :: (s ++ ['\''])

/-- a string setting: its value (the content of the TOML string) and the INI quoting -/
structure AbsStr where
  s : Str
  q : Quote
  deriving DecidableEq, Repr

/-- a boolean setting: its value, its INI spelling, and whether it is written as a QUOTED
    string (`commit = "true"`, in both syntaxes) -/
structure AbsBool where
  b : Bool
  spelling : Str
  quoted : Bool
  deriving DecidableEq, Repr

/-- one `file_patterns` entry; `inline` = the first pattern stands on the key's line -/
structure AbsFile where
  name : Str
  patterns : List Str
  inline : Bool
  deriving DecidableEq, Repr

structure AbsCfg where
  currentVersion : AbsStr
  versionPattern : AbsStr
  commitMessage : Option AbsStr
  tagMessage : Option AbsStr
  tagScope : Option AbsStr
  preHook : Option AbsStr
  postHook : Option AbsStr
  commit : Option AbsBool
  tag : Option AbsBool
  push : Option AbsBool
  files : List AbsFile
  deriving DecidableEq, Repr

/-- `[(k, f v)]` when the setting is present -/
def optEntry {α β} (k : Str) (f : α → β) : Option α → List (Str × β)
  | some v => [(k, f v)]
  | .none => []

def AbsStr.ini (a : AbsStr) : Str := a.q.wrap a.s
def AbsBool.ini (a : AbsBool) : Str := if a.quoted then Quote.dq.wrap a.spelling else a.spelling
def AbsBool.toml (a : AbsBool) : RawVal := if a.quoted then .str a.spelling else .bool a.b

/-- configparser's value of a multi-line option: the lines joined by "\n", the first one empty
    unless a pattern stands on the key's line -/
def AbsFile.iniValue (f : AbsFile) : Str :=
  if f.inline then join "\n".toList f.patterns else join "\n".toList ([] :: f.patterns)

def AbsCfg.iniOpts (c : AbsCfg) : List (Str × Str) :=
  [("current_version".toList, c.currentVersion.ini), ("version_pattern".toList, c.versionPattern.ini)]
  ++ optEntry "commit_message".toList AbsStr.ini c.commitMessage
  ++ optEntry "tag_message".toList AbsStr.ini c.tagMessage
  ++ optEntry "tag_scope".toList AbsStr.ini c.tagScope
  ++ optEntry "pre_commit_hook".toList AbsStr.ini c.preHook
  ++ optEntry "post_commit_hook".toList AbsStr.ini c.postHook
  ++ optEntry "commit".toList AbsBool.ini c.commit
  ++ optEntry "tag".toList AbsBool.ini c.tag
  ++ optEntry "push".toList AbsBool.ini c.push

def AbsCfg.tomlOpts (c : AbsCfg) : List (Str × RawVal) :=
  [("current_version".toList, RawVal.str c.currentVersion.s), ("version_pattern".toList, RawVal.str c.versionPattern.s)]
  ++ optEntry "commit_message".toList (fun a => RawVal.str a.s) c.commitMessage
  ++ optEntry "tag_message".toList (fun a => RawVal.str a.s) c.tagMessage
  ++ optEntry "tag_scope".toList (fun a => RawVal.str a.s) c.tagScope
  ++ optEntry "pre_commit_hook".toList (fun a => RawVal.str a.s) c.preHook
  ++ optEntry "post_commit_hook".toList (fun a => RawVal.str a.s) c.postHook
  ++ optEntry "commit".toList AbsBool.toml c.commit
  ++ optEntry "tag".toList AbsBool.toml c.tag
  ++ optEntry "push".toList AbsBool.toml c.push

/-- the INI rendering as configparser reads it: `[bumpver]` + `[bumpver:file_patterns]`, or the
    legacy `[pycalver]` + `[pycalver:file_patterns]`; the file_patterns section is written when
    there are files -/
def iniRaw (legacy : Bool) (c : AbsCfg) : IniDoc :=
  let name := if legacy then "pycalver".toList else "bumpver".toList
  { sections := (name, c.iniOpts) ::
      (if c.files.isEmpty then []
       else [(name ++ ":file_patterns".toList, c.files.map (fun f => (f.name, f.iniValue)))]) }

/-- where a TOML file keeps the configuration -/
inductive TomlPlace
  | tool          -- [tool.bumpver]     (pyproject.toml)
  | plain         -- [bumpver]          (bumpver.toml, .bumpver.toml)
  | legacy        -- [pycalver]         (pycalver.toml)
  deriving DecidableEq, Repr

def tomlRaw (place : TomlPlace) (c : AbsCfg) : TomlDoc :=
  let sec : TomlSection := {
    opts := c.tomlOpts,
    filePatterns := if c.files.isEmpty then .none else some (c.files.map (fun f => (f.name, f.patterns))) }
  match place with
  | .tool => { toolBumpver := some sec, bumpver := .none, pycalver := .none }
  | .plain => { toolBumpver := .none, bumpver := some sec, pycalver := .none }
  | .legacy => { toolBumpver := .none, bumpver := .none, pycalver := some sec }

/-- the spellings of False that the INI convention (configparser.BOOLEAN_STATES) knows; bumpver
    itself reads everything that is not a true spelling as False -/
def falseSpellings : List Str := ["no".toList, "false".toList, "0".toList, "off".toList]

def AbsBool.ok (a : AbsBool) : Bool :=
  !a.quoted &&
  (if a.b then Gen.trueSpellings.contains (lowerAscii a.spelling)
   else falseSpellings.contains (lowerAscii a.spelling))

def hasLineBreak (s : Str) : Bool := s.any isLineBreak

/-- a string value both syntaxes can carry: one line; written bare it has no blanks at its ends -/
def AbsStr.ok (a : AbsStr) : Bool :=
  !hasLineBreak a.s && (a.q != .bare || strip a.s == a.s)

/-- a search pattern an INI continuation line can carry -/
def patternOk (p : Str) : Bool :=
  !p.isEmpty && strip p == p && !hasLineBreak p && !startsWith p "#".toList && !startsWith p ";".toList

/-- a file name an INI option name can carry -/
def fileNameOk (n : Str) : Bool :=
  !n.isEmpty && strip n == n && !hasLineBreak n && !n.contains '=' && !n.contains ':' &&
  !startsWith n "#".toList && !startsWith n ";".toList && !startsWith n "[".toList

def optOk {α} (f : α → Bool) : Option α → Bool
  | some a => f a
  | .none => true

def namesDistinct : List Str → Bool
  | [] => true
  | n :: ns => !ns.contains n && namesDistinct ns

/-- "expressible in both syntaxes" -/
def AbsCfg.expressible (c : AbsCfg) : Bool :=
  c.currentVersion.ok && c.versionPattern.ok &&
  optOk AbsStr.ok c.commitMessage && optOk AbsStr.ok c.tagMessage && optOk AbsStr.ok c.tagScope &&
  optOk AbsStr.ok c.preHook && optOk AbsStr.ok c.postHook &&
  optOk AbsBool.ok c.commit && optOk AbsBool.ok c.tag && optOk AbsBool.ok c.push &&
  c.files.all (fun f => fileNameOk f.name && f.patterns.all patternOk) &&
  namesDistinct (c.files.map (·.name))

/-! ## C19: `bumpver init` -/

/-- the project directory: file name → content (`none` = no such file) -/
abbrev ProjFS := Str → Option Str

inductive FileState
  | absent
  | empty
  | unrelated
  | hasSection
  deriving DecidableEq, Repr

/-- how `_pick_config_filepath` sees a file: `(b"bumpver]" in data or b"pycalver]" in data)
    and b"current_version" in data`.  (Substring tests on UTF-8 bytes and on code points agree
    for ASCII needles.) -/
def classify : Option Str → FileState
  | .none => .absent
  | some [] => .empty
  | some d =>
    if (isInfix "bumpver]".toList d || isInfix "pycalver]".toList d) && isInfix "current_version".toList d
    then .hasSection else .unrelated

abbrev World := Str → FileState

def worldOf (fs : ProjFS) : World := fun f => classify (fs f)

def World.exists_ (w : World) (f : Str) : Bool := w f != .absent

/-- `_pick_config_filepath`: two passes over the generated candidate list, then the fallback -/
def pickConfigFile (w : World) : Str :=
  match Gen.configCandidates.find? (fun f => w f == .hasSection) with
  | some f => f
  | .none =>
    match Gen.configCandidates.find? (fun f => w.exists_ f) with
    | some f => f
    | .none => Gen.configFallback

/-- `pathlib.PurePath.suffix`: from the last dot of the name, unless that dot is the first or
    the last character -/
def pySuffix (name : Str) : Str :=
  let r := name.reverse
  let ext := (r.takeWhile (· != '.')).reverse          -- text after the last dot
  let before := (r.dropWhile (· != '.')).drop 1         -- reversed text before the last dot
  if !r.contains '.' || ext.isEmpty || before.isEmpty then [] else '.' :: ext

/-- `config_filepath.suffix[1:]` -/
def configFormat (name : Str) : Str := (pySuffix name).drop 1

inductive InitErr
  | badFormat                 -- ValueError("Invalid config_format=…")
  | fmt (e : FmtErr)          -- str.format failed on the template
  deriving DecidableEq, Repr

/-- `_initial_version()` for the year `utils.now().year` (`%Y`, four digits for years ≥ 1000) -/
def initialVersion (year : Nat) : Str := natToStr year ++ Gen.initialVersionSuffix

def appendExisting (w : World) : List (Str × Str) → Str
  | [] => []
  | (f, s) :: rest => (if w.exists_ f then s else []) ++ appendExisting w rest

/-- `default_config(ctx)` for the picked file `name` -/
def defaultConfigText (w : World) (name : Str) (initVersion : Str) : Except InitErr Str :=
  let fmt := configFormat name
  let isCfg := fmt == "cfg".toList
  let isToml := fmt == "toml".toList
  if !isCfg && !isToml then .error .badFormat
  else
    let base :=
      if isCfg then Gen.baseTmplCfg
      else if name == "pyproject.toml".toList then Gen.baseTmplPyproject
      else Gen.baseTmplToml
    let table := if isCfg then Gen.defaultPatternStrsCfg else Gen.defaultPatternStrsToml
    match pyFormat [("initial_version".toList, initVersion),
                    ("default_tag_scope".toList, Gen.defaultTagScope)] base with
    | .error e => .error (.fmt e)
    | .ok head =>
      let hasConfigFile := Gen.supportedConfigs.any (fun f => w.exists_ f)
      let fallback :=
        if hasConfigFile then []
        else if isCfg then Gen.fallbackStrCfg else Gen.fallbackStrToml
      .ok (head ++ appendExisting w table ++ fallback ++ "\n".toList)

/-- `write_content`: append, with a leading "\n" when the file exists -/
def writeContent (fs : ProjFS) (name : Str) (text : Str) : ProjFS :=
  let new :=
    match fs name with
    | some old => old ++ "\n".toList ++ text
    | .none => text
  fun f => if f = name then some new else fs f

inductive InitOutcome
  | refused                   -- "Configuration already initialized", exit 1
  | dry (text : Str)          -- text shown, nothing written, exit 0
  | written (file : Str)      -- "Updated <file>", exit 0
  | crashed (e : InitErr)
  deriving DecidableEq, Repr

def InitOutcome.exitCode : InitOutcome → Nat
  | .refused => 1
  | .dry _ => 0
  | .written _ => 0
  | .crashed _ => 1

/-- cli.py `init`.  `parses` = `config.parse` succeeds on the picked file (only asked when the
    file exists). -/
def cliInit (fs : ProjFS) (dry : Bool) (parses : Bool) (year : Nat) : InitOutcome × ProjFS :=
  let w := worldOf fs
  let name := pickConfigFile w
  if w.exists_ name && parses then (.refused, fs)
  else
    match defaultConfigText w name (initialVersion year) with
    | .error e => (.crashed e, fs)
    | .ok text =>
      if dry then (.dry text, fs)
      else (.written name, writeContent fs name text)

end BV
