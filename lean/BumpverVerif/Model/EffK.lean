/-
  Model/EffK.lean — the effect monad of the ARGV-LEVEL ties (builder K, `harness/translate_argv.py`).

  `Model/Eff.lean` (builder B) treats `VCSAPI.__call__` and `hooks.run` as primitive effects that only record
  WHICH subcommand / hook ran.  The ties of this group open those primitives up: what is recorded here is what
  the operating system sees —

      Eff α  :=  World → List KEv → List KEv × Except Stop α

  * `KEv` : the externally visible actions, newest first: a VCS process with its complete ARGV and environment
    (`sp.check_output(cmd_parts, env=env, stderr=sp.PIPE)`), the temporary log file of `hg commit` (created,
    written, closed, unlinked), the hook script (`sp.Popen(path, env=env, …)`, `proc.wait()`).
  * `World` : the oracle — everything the Python reads from outside: `os.environ`, what a process prints / whether
    it fails, the name `tempfile` picks, `Path.absolute()`, the return code of the hook, the Unicode table behind
    the regex escape `\b` (`isWord`), the answer of `VCSAPI.get_remote` (an abstracted callee, tied by builder B).
    Results may depend on the whole history (`List KEv`), so nothing is assumed about the outside world.
  * `Stop` : why a computation stopped early (`sys.exit`, CalledProcessError with the captured stderr, OSError,
    KeyError, ValueError, `unsupported` = a `str.format` feature outside the model's `pyFormat`).

  The pure trusted primitives are the hand model's own: `pyFormat` (`str.format(**kw)`), `shlexSplit`
  (`shlex.split`) of Model/Vcs.lean.  New here: a small generic `re.sub` (`reSub`) for regexes built from literal
  characters, groups, alternation and `\b` / `\B`, so that `cli._sub_msg_template` is translated from its regex
  LITERALS and proved equal to the hand-written state machine `subMsgTemplate`.

  Everything lives in the namespace `BV.TieK`; the generated definitions (namespace `BV.TieK.Gen`) are the
  output of builder B's statement translator, read in THIS monad (`Eff.bind` resolves to `BV.TieK.Eff.bind`).
  No Mathlib.
-/
import BumpverVerif.Model.Vcs
namespace BV.TieK

/-- a process environment / a `Dict[str, str]`: association list, first binding of a key counts -/
abbrev EnvMap := List (Str × Str)

/-- `d[k] = v` on an insertion-ordered dict: an existing key keeps its position -/
def dictSet {α : Type} (k : Str) (v : α) : List (Str × α) → List (Str × α)
  | [] => [(k, v)]
  | (k', v') :: r => if k' == k then (k', v) :: r else (k', v') :: dictSet k v r

/-- `dict(base, k1=v1, …)` / a dict display `{k1: v1, …}` (base `[]`): the items are set in order -/
def dictUpdate {α : Type} (base : List (Str × α)) (items : List (Str × α)) : List (Str × α) :=
  items.foldl (fun d kv => dictSet kv.1 kv.2 d) base

/-- `s.encode("utf-8")` / `b.decode("utf-8")`: bytes are modelled as the text they encode (trusted; a
    `UnicodeDecodeError` on undecodable output is not modelled) -/
def utf8Encode (s : Str) : Str := s
def utf8Decode (b : Str) : Str := b

/-- what the outside world sees, in order (the trace is kept newest first) -/
inductive KEv
  | proc (argv : List Str) (env : Option EnvMap) (stderrPiped : Bool)
  | tmpCreate (path : Str)
  | tmpWrite (path : Str) (data : Str)
  | tmpClose (path : Str)
  | unlink (path : Str)
  | popen (cmd : Str) (env : Option EnvMap)
  | wait (pid : Nat)
  deriving DecidableEq, Repr

inductive Stop
  | exit (code : Nat)                  -- `sys.exit(code)` (SystemExit is not an Exception)
  | called (stderr : Option Str)       -- subprocess.CalledProcessError; `.stderr` (None unless piped)
  | osError                            -- OSError / IOError (`sp.Popen` cannot start the script)
  | keyError                           -- `d[k]` with a missing key; `str.format` with a missing name
  | valueError                         -- `str.format` on a malformed template; `shlex.split` without a closing quote
  | unsupported                        -- a `str.format` feature outside the model's `pyFormat` (positional / attribute fields)
  deriving DecidableEq, Repr

/-- the exception classes of `except` clauses (same constructor names as `BV.ExcClass`, plus KeyError) -/
inductive ExcClass
  | baseException | exception | calledProcessError | osError | valueError | noPatternMatch | keyError
  deriving DecidableEq, Repr

/-- `isinstance(exc, cls)` -/
def Stop.isA : Stop → ExcClass → Bool
  | _, .baseException => true
  | .exit _, _ => false
  | _, .exception => true
  | .called _, .calledProcessError => true
  | .osError, .osError => true
  | .valueError, .valueError => true
  | .keyError, .keyError => true
  | _, _ => false

/-- the exception a failing `str.format` raises -/
def stopOfFmt : FmtErr → Stop
  | .keyError => .keyError
  | .valueError => .valueError
  | .unsupported => .unsupported

/-- … and a failing argv construction (`shlex.split` raises ValueError) -/
def stopOfArgv : ArgvErr → Stop
  | .fmt e => stopOfFmt e
  | .shlex => .valueError

/-- the `VCSAPI` object: its name and its table of command templates -/
structure VcsApi where
  name : Str
  subcommands : List (Str × Str)
  deriving DecidableEq, Repr

/-- a running / finished child process (`sp.Popen`): `pid` = position of its `popen` event in the trace,
    `rc` = the return code `proc.wait()` will find (negative: killed by a signal) -/
structure Proc where
  pid : Nat
  rc : Int
  deriving DecidableEq, Repr

/-- `tempfile.NamedTemporaryFile("wb", delete=False)` -/
structure TmpFile where
  name : Str
  deriving DecidableEq, Repr

/-- `match.groupdict()` of a `BRANCH_RE` match (not used by the translated functions; kept for the type table) -/
abbrev GroupDict := String → Option Str

structure World where
  environ : EnvMap                                                    -- `os.environ`
  absolute : Str → Str                                                -- `str(pl.Path(p).absolute())` (depends on the cwd)
  isWord : Char → Bool                                                -- the character class behind `\w` / `\b` (Unicode)
  tmpName : List KEv → Str                                            -- the name `NamedTemporaryFile` picks
  procOut : List KEv → List Str → Option EnvMap → Except Str Str      -- stdout, or non-zero exit with this stderr
  popenRc : List KEv → Str → Option EnvMap → Option Int               -- `none` = OSError, else the return code
  remote : List KEv → Option Str                                      -- the answer of `VCSAPI.get_remote`

abbrev Eff (α : Type) := World → List KEv → List KEv × Except Stop α

namespace Eff

def pure {α : Type} (a : α) : Eff α := fun _ s => (s, .ok a)

def bind {α β : Type} (m : Eff α) (f : α → Eff β) : Eff β := fun w s =>
  match m w s with
  | (s', .ok a) => f a w s'
  | (s', .error x) => (s', .error x)

def throw {α : Type} (x : Stop) : Eff α := fun _ s => (s, .error x)

def tryCatch {α : Type} (m : Eff α) (h : Stop → Eff α) : Eff α := fun w s =>
  match m w s with
  | (s', .ok a) => (s', .ok a)
  | (s', .error x) => h x w s'

def tryFinally {α : Type} (m : Eff α) (fin : Eff Unit) : Eff α := fun w s =>
  match m w s with
  | (s', r) =>
    match fin w s' with
    | (s'', .ok _) => (s'', r)
    | (s'', .error x) => (s'', .error x)

def forIn {α ρ : Type} : List α → (α → Eff (Option ρ)) → Eff (Option ρ)
  | [], _ => pure none
  | x :: xs, f => bind (f x) (fun r => match r with | some v => pure (some v) | none => forIn xs f)

/-- `[f(x) for x in xs]` where `f` can raise: left to right, the first exception ends it -/
def mapM {α β : Type} (f : α → Eff β) : List α → Eff (List β)
  | [] => pure []
  | x :: xs => bind (f x) (fun y => bind (mapM f xs) (fun ys => pure (y :: ys)))

def exit {α : Type} (n : Nat) : Eff α := throw (.exit n)

def ofOption {α : Type} (x : Stop) : Option α → Eff α
  | some a => pure a
  | none => throw x

/-! ### raising pure primitives -/

/-- `d[k]` : KeyError -/
def dictGet {α : Type} (d : List (Str × α)) (k : Str) : Eff α := ofOption .keyError (lookup k d)

/-- `tmpl.format(**kw)` -/
def format (tmpl : Str) (kw : List (Str × Str)) : Eff Str :=
  match pyFormat kw tmpl with
  | .ok r => pure r
  | .error e => throw (stopOfFmt e)

/-- `shlex.split(s)` : ValueError ("No closing quotation" / "No escaped character") -/
def shlexSplit (s : Str) : Eff (List Str) := ofOption .valueError (BV.shlexSplit s)

/-! ### processes, files, the environment -/

/-- `sp.check_output(argv, env=env, stderr=sp.PIPE)` (`piped` = the `stderr=sp.PIPE` argument is there):
    ONE process with exactly this argument vector; CalledProcessError when it exits non-zero -/
def checkOutput (argv : List Str) (env : Option EnvMap) (piped : Bool) : Eff Str := fun w s =>
  match w.procOut s argv env with
  | .ok out => (.proc argv env piped :: s, .ok out)
  | .error se => (.proc argv env piped :: s, .error (.called (if piped then some se else none)))

/-- `os.environ` (read) -/
def environ : Eff EnvMap := fun w s => (s, .ok w.environ)

/-- `tempfile.NamedTemporaryFile("wb", delete=False)` -/
def mkTemp : Eff TmpFile := fun w s => (.tmpCreate (w.tmpName s) :: s, .ok ⟨w.tmpName s⟩)

/-- `fobj.write(data)` -/
def tmpWrite (f : TmpFile) (data : Str) : Eff Unit := fun _ s => (.tmpWrite f.name data :: s, .ok ())

/-- leaving `with tmp_file as fobj:` — the file is flushed and closed -/
def tmpClose (f : TmpFile) : Eff Unit := fun _ s => (.tmpClose f.name :: s, .ok ())

/-- `os.unlink(path)` -/
def unlink (path : Str) : Eff Unit := fun _ s => (.unlink path :: s, .ok ())

/-- `str(pl.Path(path).absolute())` -/
def absolute (path : Str) : Eff Str := fun w s => (s, .ok (w.absolute path))

/-- `sp.Popen(cmd, env=env, stdout=sp.PIPE, stderr=sp.PIPE)` with `cmd` a string and no shell: the program at
    that path is started without arguments; OSError (= IOError) when it cannot be started -/
def popen (cmd : Str) (env : Option EnvMap) : Eff Proc := fun w s =>
  match w.popenRc s cmd env with
  | none => (.popen cmd env :: s, .error .osError)
  | some rc => (.popen cmd env :: s, .ok ⟨s.length, rc⟩)

/-- `proc.wait()` -/
def wait (p : Proc) : Eff Unit := fun _ s => (.wait p.pid :: s, .ok ())

/-- `proc.returncode`: None until the process has been waited for -/
def returncode (p : Proc) : Eff (Option Int) := fun _ s =>
  (s, .ok (if s.contains (.wait p.pid) then some p.rc else none))

/-- `self.get_remote()` — an ABSTRACTED CALLEE (its VCS invocations are not recorded here; tied to the plan
    model by builder B's `tie_apiGetRemote`) -/
def getRemote (_self : VcsApi) : Eff (Option Str) := fun w s => (s, .ok (w.remote s))

/-- `ex.stderr` of a caught CalledProcessError -/
def excStderr (ex : Stop) : Eff (Option Str) := fun _ s =>
  (s, .ok (match ex with | .called se => se | _ => none))

end Eff

/-- the process exit code of a result: `sys.exit(n)` gives `n`, an uncaught exception 1, else 0 -/
def Eff.exitCode {α : Type} : Except Stop α → Nat
  | .ok _ => 0
  | .error (.exit n) => n
  | .error _ => 1

/-! ### a small generic `re.sub`

  Regex fragment: literal characters, `\b`, `\B`, escaped punctuation, capturing groups `( … )`, `(?: … )`,
  alternation.  No quantifiers, classes, anchors (`parseRx` answers `none`).  Semantics: priority-ordered list
  of successes (as Model/Regex.lean), with the PREVIOUS character in the state so that `\b` can be decided.
  `isWord` is Python's `\w` (Unicode aware for `str` patterns) — a parameter. -/

inductive Rx
  | eps
  | chr (c : Char)
  | seq (a b : Rx)
  | alt (a b : Rx)
  | grp (idx : Nat) (r : Rx)
  | wordB
  | notWordB
  deriving DecidableEq, Repr

structure RSt where
  prev : Option Char
  rest : Str
  caps : List (Nat × Str)
  deriving DecidableEq, Repr

def atBoundary (isWord : Char → Bool) (s : RSt) : Bool :=
  ((s.prev.map isWord).getD false) != ((s.rest.head?.map isWord).getD false)

def Rx.m (isWord : Char → Bool) : Rx → RSt → List RSt
  | .eps, s => [s]
  | .chr c, s => match s.rest with
    | x :: r => if x == c then [{ prev := some x, rest := r, caps := s.caps }] else []
    | [] => []
  | .seq a b, s => (a.m isWord s).flatMap (b.m isWord)
  | .alt a b, s => a.m isWord s ++ b.m isWord s
  | .grp i r, s =>
    (r.m isWord s).map (fun s' =>
      { s' with caps := (i, s.rest.take (s.rest.length - s'.rest.length)) :: s'.caps })
  | .wordB, s => if atBoundary isWord s then [s] else []
  | .notWordB, s => if atBoundary isWord s then [] else [s]

/-- can the regex match the empty string somewhere?  (`re.sub` has special rules for empty matches, which are
    not modelled: such regexes are refused) -/
def Rx.nullable : Rx → Bool
  | .eps => true
  | .chr _ => false
  | .seq a b => a.nullable && b.nullable
  | .alt a b => a.nullable || b.nullable
  | .grp _ r => r.nullable
  | .wordB => true
  | .notWordB => true

def Rx.groups : Rx → Nat
  | .seq a b => a.groups + b.groups
  | .alt a b => a.groups + b.groups
  | .grp _ r => 1 + r.groups
  | _ => 0

/-- a literal word as a regex (right-nested sequence ending in `eps`, the shape `parseRx` produces) -/
def Rx.lit : Str → Rx
  | [] => .eps
  | c :: r => .seq (.chr c) (Rx.lit r)

inductive PMode | alt | sq

def rxSpecial (c : Char) : Bool :=
  c == '*' || c == '+' || c == '?' || c == '{' || c == '}' || c == '[' || c == ']' || c == '.' || c == '^' || c == '$'

/-- recursive-descent parser with fuel; the `Nat` is the number of capturing groups opened so far -/
def parseRxGo : Nat → PMode → Nat → Str → Option (Rx × Nat × Str)
  | 0, _, _, _ => none
  | f + 1, .alt, idx, s =>
    match parseRxGo f .sq idx s with
    | none => none
    | some (a, idx1, '|' :: r) =>
      (match parseRxGo f .alt idx1 r with
       | some (b, idx2, r2) => some (.alt a b, idx2, r2)
       | none => none)
    | some (a, idx1, r) => some (a, idx1, r)
  | f + 1, .sq, idx, s =>
    match s with
    | [] => some (.eps, idx, [])
    | '|' :: _ => some (.eps, idx, s)
    | ')' :: _ => some (.eps, idx, s)
    | '(' :: '?' :: ':' :: r =>
      (match parseRxGo f .alt idx r with
       | some (a, idx1, ')' :: r1) =>
         (match parseRxGo f .sq idx1 r1 with
          | some (b, idx2, r2) => some (.seq a b, idx2, r2)
          | none => none)
       | _ => none)
    | '(' :: '?' :: _ => none
    | '(' :: r =>
      (match parseRxGo f .alt (idx + 1) r with
       | some (a, idx1, ')' :: r1) =>
         (match parseRxGo f .sq idx1 r1 with
          | some (b, idx2, r2) => some (.seq (.grp (idx + 1) a) b, idx2, r2)
          | none => none)
       | _ => none)
    | '\\' :: c :: r =>
      let atom : Option Rx :=
        if c == 'b' then some .wordB else if c == 'B' then some .notWordB
        else if isAlnum c then none else some (.chr c)
      (match atom with
       | none => none
       | some a =>
         (match parseRxGo f .sq idx r with
          | some (b, idx2, r2) => some (.seq a b, idx2, r2)
          | none => none))
    | ['\\'] => none
    | c :: r =>
      if rxSpecial c then none
      else
        (match parseRxGo f .sq idx r with
         | some (b, idx2, r2) => some (.seq (.chr c) b, idx2, r2)
         | none => none)

def parseRx (src : Str) : Option Rx :=
  match parseRxGo (2 * src.length + 2) .alt 0 src with
  | some (r, _, []) => some r
  | _ => none

/-- replacement template: literal characters and group references `\1` … `\9` -/
inductive RPiece
  | lit (c : Char)
  | ref (n : Nat)
  deriving DecidableEq, Repr

def parseRepl : Str → Option (List RPiece)
  | [] => some []
  | '\\' :: c :: r =>
    if isDigit c && c != '0' && !((r.head?.map isDigit).getD false) then (parseRepl r).map (.ref (digitVal c) :: ·)
    else if c == '\\' then (parseRepl r).map (.lit '\\' :: ·)
    else none                                   -- other escapes: outside the fragment
  | ['\\'] => none
  | c :: r => (parseRepl r).map (.lit c :: ·)

def expandRepl (caps : List (Nat × Str)) : List RPiece → Str
  | [] => []
  | .lit c :: r => c :: expandRepl caps r
  | .ref n :: r => ((caps.lookup n).getD []) ++ expandRepl caps r     -- a group that did not take part: ""

def RPiece.maxRef : List RPiece → Nat
  | [] => 0
  | .lit _ :: r => RPiece.maxRef r
  | .ref n :: r => max n (RPiece.maxRef r)

/-- the scanning loop of `re.sub`: at every position the first match (in backtracking order) is replaced and
    the scan goes on behind it; `skip` = characters of the current match still to be passed over -/
def reSubGo (isWord : Char → Bool) (rx : Rx) (repl : List RPiece) : Nat → Option Char → Str → Str
  | _, _, [] => []
  | skip + 1, _, c :: r => reSubGo isWord rx repl skip (some c) r
  | 0, prev, c :: r =>
    match (rx.m isWord { prev := prev, rest := c :: r, caps := [] }).head? with
    | some st =>
      expandRepl st.caps repl ++ reSubGo isWord rx repl ((c :: r).length - st.rest.length - 1) (some c) r
    | none => c :: reSubGo isWord rx repl 0 (some c) r

/-- `re.sub(pattern, repl, s)` for pattern / template LITERALS of the fragment; `none` = outside it -/
def reSub (isWord : Char → Bool) (pattern repl s : Str) : Option Str :=
  match parseRx pattern, parseRepl repl with
  | some rx, some rp =>
    if rx.nullable || decide (rx.groups < RPiece.maxRef rp) then none
    else some (reSubGo isWord rx rp 0 none s)
  | _, _ => none

/-- `re.sub(pattern, repl, s)` as an effect: the Unicode word table is the world's -/
def Eff.reSub (pattern repl s : Str) : Eff Str := fun w st =>
  match BV.TieK.reSub w.isWord pattern repl s with
  | some r => (st, .ok r)
  | none => (st, .error .unsupported)

end BV.TieK
