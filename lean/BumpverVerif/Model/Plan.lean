/-
  Model/Plan.lean — the step sequencing of `bumpver update` with respect to the VCS,
  the hooks and the file rewrite (cli.py `update`, `_parse_vcs_options`, `_update`,
  `_try_update`, `_update_cfg_from_vcs`; vcs.py `get_tags`, `get_remote`, `fetch`,
  `assert_not_dirty`, `commit`; hooks.py `run`).

  The model is a function from (config, command line, environment) to the trace of
  externally visible events and the exit code.  External actions are parameters: the
  environment says which VCS invocation (counted from 0, probes included) fails, what
  the probes answer, whether the dirty check aborts, whether the version gate / rewrite
  succeed and what the hooks return.
-/
import BumpverVerif.Model.Basic
namespace BV

inductive VcsKind | git | hg
  deriving DecidableEq, Repr

/-- externally visible events, in order -/
inductive Ev
  | cmd (name : String)          -- one VCS invocation (name = key of VCS_SUBCOMMANDS_BY_NAME)
  | add (path : Str)             -- `add_path` for one configured file
  | preHook (old new : Str)      -- hook executions with BUMPVER_OLD_VERSION / BUMPVER_NEW_VERSION
  | postHook (old new : Str)
  | rewrite                      -- the project files are written
  deriving DecidableEq, Repr

structure PlanCfg where          -- from the config file
  commit : Bool
  tag : Bool
  push : Bool
  preHook : Bool                 -- a pre_commit_hook is configured
  postHook : Bool
  scopeBranch : Bool             -- tag_scope = branch
  tagMsgEmpty : Bool             -- rendered tag message is empty (lightweight tag)

structure PlanCli where
  commit : Option Bool           -- --commit / --no-commit / absent
  tagCommit : Option Bool
  push : Option Bool
  preHook : Bool                 -- --pre-commit-hook given
  postHook : Bool
  scopeBranch : Option Bool      -- --tag-scope given (some true = branch)
  dry : Bool
  fetch : Bool
  ignoreVcsTag : Bool
  setVersion : Bool

structure PlanEnv where
  kind : VcsKind
  vcsPresent : Bool              -- a .git/.hg directory exists
  failAt : Option Nat            -- index (0-based, over ALL VCS invocations) of the one that fails
  branchRemote : Bool            -- `git branch -vv` shows a remote for the current branch
  urlRemote : Bool               -- `show_remotes` prints a non-empty answer
  dirtyAbort : Bool              -- assert_not_dirty would abort (C11)
  gateOk : Bool                  -- a new version was computed, matches the pattern and is greater (C01)
  uniqueOk : Bool                -- the new version is not an existing tag (checked for branch scope / --set-version)
  rewriteOk : Bool               -- every pattern matched (C06)
  preOk : Bool                   -- pre-commit hook exits 0
  postOk : Bool
  files : List Str               -- configured files (order of `add` is unspecified: a set)
  startVersion : Str             -- the version the update starts from (C09)
  announced : Str                -- the new version

/-- `_parse_vcs_options`: `none` = rejected (ValueError → exit 1 before anything happens) -/
def parseVcsOptions (c : PlanCfg) (a : PlanCli) : Option PlanCfg :=
  if a.commit == some false && a.tagCommit == some true then none
  else if a.commit == some false && a.push == some true then none
  else
    let c1 := match a.commit with | some b => { c with commit := b } | none => c
    if !c1.commit && a.tagCommit == some true then none
    else if !c1.commit && a.push == some true then none
    else
      let c2 := match a.tagCommit with | some b => { c1 with tag := b } | none => c1
      let c3 := match a.push with | some b => { c2 with push := b } | none => c2
      let c4 := match a.scopeBranch with | some b => { c3 with scopeBranch := b } | none => c3
      some { c4 with preHook := c4.preHook || a.preHook, postHook := c4.postHook || a.postHook }

/-- running state: events so far (reversed) and number of VCS invocations made -/
structure PState where
  evs : List Ev
  n : Nat

inductive Outcome | ok | failed
  deriving DecidableEq

/-- one VCS invocation: logs the event; fails iff its index is `failAt` -/
def vcsCall (e : PlanEnv) (ev : Ev) (s : PState) : PState × Outcome :=
  ({ evs := ev :: s.evs, n := s.n + 1 }, if e.failAt == some s.n then .failed else .ok)

/-- `VCSAPI.is_usable` (only when the directory exists): a failing probe means "not usable" -/
def isUsable (e : PlanEnv) (s : PState) : PState × Bool :=
  if !e.vcsPresent then (s, false)
  else
    let (s', o) := vcsCall e (.cmd "is_usable") s
    (s', o == .ok)

/-- `VCSAPI.get_remote`: exceptions are swallowed (→ no remote) -/
def getRemote (e : PlanEnv) (s : PState) : PState × Bool :=
  match e.kind with
  | .git =>
    let (s1, o1) := vcsCall e (.cmd "ls_branches") s
    if o1 == .failed then (s1, false)
    else if e.branchRemote then (s1, true)
    else
      let (s2, o2) := vcsCall e (.cmd "show_remotes") s1
      (s2, o2 == .ok && e.urlRemote)
  | .hg =>
    let (s2, o2) := vcsCall e (.cmd "show_remotes") s
    (s2, o2 == .ok && e.urlRemote)

/-- `vcs.get_tags(fetch, scope)`; `failed` = uncaught CalledProcessError (exit 1) -/
def getTags (e : PlanEnv) (fetch branch : Bool) (s : PState) : PState × Outcome :=
  let (s1, usable) := isUsable e s
  if !usable then (s1, .ok)
  else
    let (s2, o2) :=
      if fetch then
        let (sa, remote) := getRemote e s1
        if remote then vcsCall e (.cmd "fetch") sa else (sa, .ok)
      else (s1, .ok)
    if o2 == .failed then (s2, .failed)
    else vcsCall e (.cmd (if branch then "ls_tags_branch" else "ls_tags")) s2

/-- were the tags actually listed by `getTags e false false s`?  Without a usable VCS (no VCS directory, or the
    probe failing) `get_tags` returns the empty list, and an empty list cannot contain the new version. -/
def tagsListed (e : PlanEnv) (s : PState) : Bool := (isUsable e s).2

/-- `add` for every configured file, stopping at the first failure -/
def addAll (e : PlanEnv) : List Str → PState → PState × Outcome
  | [], s => (s, .ok)
  | p :: ps, s =>
    let (s1, o) := vcsCall e (.add p) s
    if o == .failed then (s1, .failed) else addAll e ps s1

/-- `vcs.commit(cfg, …)` -/
def commitPhase (e : PlanEnv) (c : PlanCfg) (s : PState) : PState × Outcome :=
  -- cfg.commit is true here
  let s0 := if c.preHook then { s with evs := .preHook e.startVersion e.announced :: s.evs } else s
  if c.preHook && !e.preOk then (s0, .failed)
  else
    let (s1, o1) := addAll e e.files s0
    if o1 == .failed then (s1, .failed)
    else
      let (s2, o2) := vcsCall e (.cmd "commit") s1
      if o2 == .failed then (s2, .failed)
      else
        let s3 := if c.postHook then { s2 with evs := .postHook e.startVersion e.announced :: s2.evs } else s2
        if c.postHook && !e.postOk then (s3, .failed)
        else
          let (s4, o4) :=
            if c.tag then vcsCall e (.cmd (if c.tagMsgEmpty then "tag_light" else "tag")) s3 else (s3, .ok)
          if o4 == .failed then (s4, .failed)
          else if c.push then
            let (s5, remote) := getRemote e s4
            if remote then vcsCall e (.cmd (if c.tag then "push_tag" else "push")) s5 else (s5, .ok)
          else (s4, .ok)

/-- the whole `update` command: (events in order, exit code) -/
def plan (c0 : PlanCfg) (a : PlanCli) (e : PlanEnv) : List Ev × Nat :=
  match parseVcsOptions c0 a with
  | none => ([], 1)
  | some c =>
    let s0 : PState := { evs := [], n := 0 }
    let (s1, o1) := if a.ignoreVcsTag then (s0, Outcome.ok) else getTags e a.fetch c.scopeBranch s0
    if o1 == .failed then (s1.evs.reverse, 1)
    else if !e.gateOk then
      -- no new version / gate rejects (the uniqueness probe, when it runs, lists tags first)
      (s1.evs.reverse, 1)
    else
      let (s2, o2) :=
        if c.scopeBranch || a.setVersion then getTags e false false s1 else (s1, Outcome.ok)
      if o2 == .failed then (s2.evs.reverse, 1)
      else if (c.scopeBranch || a.setVersion) && tagsListed e s1 && !e.uniqueOk then (s2.evs.reverse, 1)
      else if a.dry then (s2.evs.reverse, if e.rewriteOk then 0 else 1)
      else
        let (s3, usable) := if c.commit then isUsable e s2 else (s2, false)
        let (s4, o4) := if usable then vcsCall e (.cmd "status") s3 else (s3, Outcome.ok)
        if o4 == .failed then (s4.evs.reverse, 1)
        else if usable && e.dirtyAbort then (s4.evs.reverse, 1)
        else
          if !e.rewriteOk then (s4.evs.reverse, 1)       -- nothing is written (C06)
          else
          let s5 := { s4 with evs := .rewrite :: s4.evs }
          if !usable then (s5.evs.reverse, 0)
          else
            let (s6, o6) := commitPhase e c s5
            (s6.evs.reverse, if o6 == .ok then 0 else 1)

end BV
