/-
  Model/History.lean — sequences of `bumpver update` invocations at the level of the version
  state: the config's current_version and the VCS tags (cli.py `update`, `_update_cfg_from_vcs`,
  `_is_valid_version`, vcs.commit's tagging).  Files are handled by Model/Rewrite.lean (C03):
  a successful update writes the new version to every configured occurrence.
-/
import BumpverVerif.Model.Cli
namespace BV

/-- version state of a project: config value and the tags of the repository -/
structure HState where
  cfg : Str
  tags : List Str
  deriving Repr, DecidableEq

/-- one invocation: the candidate new version (produced by the bump rules or --set-version; `none` =
    no version was produced), whether a commit is made and whether it is tagged.  Tag scope default. -/
structure HOp where
  candidate : Option Str
  commit : Bool
  tag : Bool
  deriving Repr

/-- outcome of one `update`: the new state; `ok` = exit 0 -/
def hstep (pat : Str) (today : Nat × Nat × Nat) (s : HState) (op : HOp) : HState × Bool :=
  match startVersion .default pat s.cfg today s.tags with
  | .error _ => (s, false)
  | .ok start =>
    match op.candidate with
    | none => (s, false)
    | some new =>
      match gate pat start new false [] today with
      | .ok .accept =>
        -- rewrite: the config's current_version becomes `new`; tag only together with a commit
        ({ cfg := new, tags := if op.commit && op.tag then new :: s.tags else s.tags }, true)
      | _ => (s, false)

def hrun (pat : Str) (today : Nat × Nat × Nat) : HState → List HOp → HState
  | s, [] => s
  | s, op :: ops => hrun pat today (hstep pat today s op).1 ops

/-- a consistent project: the config value is a valid version of the pattern, every tag is a valid
    version of the pattern and none is greater than the config value -/
def Consistent (pat : Str) (today : Nat × Nat × Nat) (s : HState) : Prop :=
  isValid s.cfg pat today = .ok true ∧
  ∀ t ∈ s.tags, isValid t pat today = .ok true ∧ pepLe t s.cfg = true

end BV
