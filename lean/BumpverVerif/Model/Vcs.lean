/-
  Model/Vcs.lean — the VCS command layer of bumpver (vcs.py).

  * `pyFormat`   : the fragment of `str.format(**kwargs)` the command and message
                   templates use (`{name}`, `{{`, `}}`).
  * `shlexSplit` : `shlex.split` (POSIX mode, whitespace_split, no comments).
  * `argv`       : `VCSAPI.__call__` — the template is split first and every token is
                   formatted on its own (vcs.py after the C12 repair), so a value can never
                   add, remove or alter arguments.
  * `argvLegacy` : the pre-repair behaviour (format first, then split) — kept for the
                   negative witness theorems.
  * `pySplitlines`, `statusParse`, `assertNotDirty` : `VCSAPI.status`, `assert_not_dirty` (C11).

  All recursion is structural (state machines over the character list).
-/
import BumpverVerif.Model.Basic
namespace BV

/-! ### str.format -/

inductive FmtErr | keyError | valueError | unsupported
  deriving DecidableEq, Repr

inductive FState
  | text | open_ | close_ | field (acc : Str)

def simpleName (n : Str) : Bool :=
  !n.isEmpty && n.all (fun c => isAlnum c || c == '_') && !(n.head?.map isDigit).getD false

/-- `tmpl.format(**kw)`; errors surface left to right as in CPython. -/
def fmtGo (kw : List (Str × Str)) : FState → Str → Except FmtErr Str
  | .text, [] => .ok []
  | .text, c :: r =>
    if c == '{' then fmtGo kw .open_ r
    else if c == '}' then fmtGo kw .close_ r
    else (fmtGo kw .text r).map (c :: ·)
  | .open_, [] => .error .valueError
  | .open_, c :: r =>
    if c == '{' then (fmtGo kw .text r).map ('{' :: ·)
    else if c == '}' then .error .unsupported         -- positional `{}`
    else fmtGo kw (.field [c]) r
  | .close_, [] => .error .valueError
  | .close_, c :: r =>
    if c == '}' then (fmtGo kw .text r).map ('}' :: ·) else .error .valueError
  | .field _, [] => .error .valueError
  | .field acc, c :: r =>
    if c == '}' then
      let name := acc.reverse
      if !simpleName name then .error .unsupported
      else match lookup name kw with
        | none => .error .keyError
        | some v => (fmtGo kw .text r).map (v ++ ·)
    else fmtGo kw (.field (c :: acc)) r

def pyFormat (kw : List (Str × Str)) (tmpl : Str) : Except FmtErr Str := fmtGo kw .text tmpl

/-! ### shlex.split (posix) -/

inductive ShSt | ws | word | sq | dq | escWord | escDq

def isShWs (c : Char) : Bool := c == ' ' || c == '\t' || c == '\r' || c == '\n'

/-- `none` = `ValueError` (no closing quotation / no escaped character).
    `tok` is the current token, reversed. -/
def shGo : ShSt → Str → Bool → Str → Option (List Str)
  | .ws, _, _, [] => some []
  | .ws, _, _, c :: r =>
    if isShWs c then shGo .ws [] false r
    else if c == '\\' then shGo .escWord [] false r
    else if c == '\'' then shGo .sq [] true r
    else if c == '"' then shGo .dq [] true r
    else shGo .word [c] false r
  | .word, tok, q, [] => if !tok.isEmpty || q then some [tok.reverse] else some []
  | .word, tok, q, c :: r =>
    if isShWs c then
      if !tok.isEmpty || q then (shGo .ws [] false r).map (tok.reverse :: ·) else shGo .ws [] false r
    else if c == '\'' then shGo .sq tok true r
    else if c == '"' then shGo .dq tok true r
    else if c == '\\' then shGo .escWord tok q r
    else shGo .word (c :: tok) q r
  | .sq, _, _, [] => none
  | .sq, tok, q, c :: r => if c == '\'' then shGo .word tok q r else shGo .sq (c :: tok) q r
  | .dq, _, _, [] => none
  | .dq, tok, q, c :: r =>
    if c == '"' then shGo .word tok q r
    else if c == '\\' then shGo .escDq tok q r
    else shGo .dq (c :: tok) q r
  | .escWord, _, _, [] => none
  | .escWord, tok, q, c :: r => shGo .word (c :: tok) q r
  | .escDq, _, _, [] => none
  | .escDq, tok, q, c :: r =>
    if c != '\\' && c != '"' then shGo .dq (c :: '\\' :: tok) q r else shGo .dq (c :: tok) q r

def shlexSplit (s : Str) : Option (List Str) := shGo .ws [] false s

/-! ### argv construction -/

inductive ArgvErr | fmt (e : FmtErr) | shlex
  deriving DecidableEq, Repr

def mapFormat (kw : List (Str × Str)) : List Str → Except ArgvErr (List Str)
  | [] => .ok []
  | t :: ts =>
    match pyFormat kw t with
    | .error e => .error (.fmt e)
    | .ok a => (mapFormat kw ts).map (a :: ·)

/-- `VCSAPI.__call__`: `[part.format(**kwargs) for part in shlex.split(cmd_tmpl)]` -/
def argv (tmpl : Str) (kw : List (Str × Str)) : Except ArgvErr (List Str) :=
  match shlexSplit tmpl with
  | none => .error .shlex
  | some toks => mapFormat kw toks

/-- the pre-repair construction: `shlex.split(cmd_tmpl.format(**kwargs))` -/
def argvLegacy (tmpl : Str) (kw : List (Str × Str)) : Except ArgvErr (List Str) :=
  match pyFormat kw tmpl with
  | .error e => .error (.fmt e)
  | .ok s => match shlexSplit s with
    | none => .error .shlex
    | some toks => .ok toks

/-! ### message templates (cli.py `_sub_msg_template`) -/

def isWordChar (c : Char) : Bool := isAlnum c || c == '_'

/-- `re.sub(r"\b(OLD|NEW)\b", r"{\1_VERSION}", message)` for ASCII word characters
    (the driver answers `unsupported` for messages with non-ASCII characters).
    `skip` = remaining characters of a word just replaced; `prevWord` = the previous
    character was a word character. -/
def subMsgGo : Nat → Bool → Str → Str
  | _, _, [] => []
  | skip + 1, _, _ :: r => subMsgGo skip true r
  | 0, prevWord, c :: r =>
    let s := c :: r
    let hit (w : Str) : Bool :=
      !prevWord && w.isPrefixOf s && !((s.drop w.length).head?.map isWordChar).getD false
    if hit "OLD".toList then "{OLD_VERSION}".toList ++ subMsgGo 2 true r
    else if hit "NEW".toList then "{NEW_VERSION}".toList ++ subMsgGo 2 true r
    else c :: subMsgGo 0 (isWordChar c) r

def subMsgTemplate (m : Str) : Str := subMsgGo 0 false m

/-! ### status parsing and the dirty check (C11) -/

def isLineBreak (c : Char) : Bool :=
  let n := c.toNat
  n = 10 || n = 13 || n = 11 || n = 12 || n = 28 || n = 29 || n = 30 || n = 133 || n = 8232 || n = 8233

/-- Python `str.splitlines()`; `cur` reversed current line, `prevCR` = the previous
    character was a `\r` that already ended a line (so a directly following `\n` is swallowed) -/
def splitlinesGo : Bool → Str → Str → List Str
  | _, cur, [] => if cur.isEmpty then [] else [cur.reverse]
  | prevCR, cur, c :: r =>
    if c == '\n' && prevCR then splitlinesGo false cur r
    else if c == '\r' then cur.reverse :: splitlinesGo true [] r
    else if isLineBreak c then cur.reverse :: splitlinesGo false [] r
    else splitlinesGo false (c :: cur) r

def pySplitlines (s : Str) : List Str := splitlinesGo false [] s

/-- `line.split(None, 1)` on a stripped, non-empty line: (first token, remainder) -/
def splitFirstWs (line : Str) : Option (Str × Str) :=
  let tok := line.takeWhile (fun c => !isPySpace c)
  let rest := (line.dropWhile (fun c => !isPySpace c)).dropWhile isPySpace
  if rest.isEmpty then none else some (tok, rest)

/-- `VCSAPI.status(required_files)`: the dirty paths; `none` = unpack `ValueError` -/
def statusParse (required : List Str) : List Str → Option (List Str)
  | [] => some []
  | line :: rest =>
    let l := strip line
    if l.isEmpty then statusParse required rest
    else match splitFirstWs l with
      | none => none
      | some (st, path) =>
        let p := strip path
        (statusParse required rest).map (fun ps =>
          if required.contains p || st != "??".toList then p :: ps else ps)

inductive DirtyVerdict | proceed | abort | crash
  deriving DecidableEq, Repr

/-- `assert_not_dirty` -/
def assertNotDirty (lines : List Str) (filepaths : List Str) (allowDirty : Bool) : DirtyVerdict :=
  match statusParse filepaths lines with
  | none => .crash
  | some dirty =>
    if !allowDirty && !dirty.isEmpty then .abort
    else if dirty.any (fun d => filepaths.contains d) then .abort
    else .proceed

end BV
