/-
  Model/Calendar.lean — the proleptic Gregorian calendar of Python's `datetime.date`
  and the calendar parts bumpver derives from it.

  * `ordinal` / `fromOrdinal` / `weekday`        = `date.toordinal`, `date.fromordinal`, `date.weekday`
  * `weekW` `weekU` `isoWeek` `isoYear` `dayOfYear` = C `strftime` `%W %U %V %G %j`
  * `calInfo y m d`                               = `v2version.cal_info(date(y, m, d))`  (L38-74)
  * `isValidWeekPattern`                          = `v2version.is_valid_week_pattern`    (L721-737)
  * `quarterFromMonth`, `dateFromDoy`             = `version.quarter_from_month`, `version.date_from_doy`
  * `isCalGt`                                     = `v2version._is_cal_gt`               (L23-35)

  Tied to the code by the correspondence ops `calinfo`, `ordinal`, `fromordinal`, `weekpat`
  (harness/dev/calendar_difftest.py compares `calinfo` on EVERY date 1000-01-01 … 9999-12-31).

  Only `Nat` arithmetic and structural recursion; no Mathlib (linked into the driver).
-/
import BumpverVerif.Model.Basic
namespace BV

/-! ### years, months, ordinals -/

def isLeap (y : Nat) : Bool := y % 4 == 0 && (y % 100 != 0 || y % 400 == 0)

def yearLen (y : Nat) : Nat := if isLeap y then 366 else 365

/-- `datetime._days_before_year`: days before 1 January of year `y` (year 1 ↦ 0). -/
def daysBeforeYear (y : Nat) : Nat := (y - 1) * 365 + (y - 1) / 4 - (y - 1) / 100 + (y - 1) / 400

def daysInMonthL (leap : Bool) (m : Nat) : Nat :=
  if m = 2 then (if leap then 29 else 28)
  else if m = 4 ∨ m = 6 ∨ m = 9 ∨ m = 11 then 30
  else if 1 ≤ m ∧ m ≤ 12 then 31 else 0

/-- `datetime._days_before_month` (0 outside 1..12). -/
def daysBeforeMonthL (leap : Bool) (m : Nat) : Nat :=
  let f := if leap then 1 else 0
  if m = 1 then 0 else if m = 2 then 31 else if m = 3 then 59 + f else if m = 4 then 90 + f
  else if m = 5 then 120 + f else if m = 6 then 151 + f else if m = 7 then 181 + f
  else if m = 8 then 212 + f else if m = 9 then 243 + f else if m = 10 then 273 + f
  else if m = 11 then 304 + f else if m = 12 then 334 + f else 0

def daysInMonth (y m : Nat) : Nat := daysInMonthL (isLeap y) m

/-- the argument check of `datetime.date(y, m, d)` (`ValueError` otherwise) -/
def validDate (y m d : Nat) : Bool :=
  1 ≤ y && y ≤ 9999 && 1 ≤ m && m ≤ 12 && 1 ≤ d && d ≤ daysInMonth y m

/-- `date(y, m, d).toordinal()`; 0001-01-01 ↦ 1, 9999-12-31 ↦ 3652059. -/
def ordinal (y m d : Nat) : Nat := daysBeforeYear y + daysBeforeMonthL (isLeap y) m + d

def maxOrdinal : Nat := 3652059

/-- month and day of month of the `j`-th day (0-based) of a year -/
def monthDayOfYday (leap : Bool) (j : Nat) : Nat × Nat :=
  let f := if leap then 1 else 0
  if j < 31 then (1, j + 1) else if j < 59 + f then (2, j - 30)
  else if j < 90 + f then (3, j - (58 + f)) else if j < 120 + f then (4, j - (89 + f))
  else if j < 151 + f then (5, j - (119 + f)) else if j < 181 + f then (6, j - (150 + f))
  else if j < 212 + f then (7, j - (180 + f)) else if j < 243 + f then (8, j - (211 + f))
  else if j < 273 + f then (9, j - (242 + f)) else if j < 304 + f then (10, j - (272 + f))
  else if j < 334 + f then (11, j - (303 + f)) else (12, j - (333 + f))

/-- `date.fromordinal(n)` as `(year, month, day)`, following `datetime._ord2ymd`
    (cycles of 400, 100, 4 and 1 years); the inverse of `ordinal` on `1 … 3652059`. -/
def fromOrdinal (n : Nat) : Nat × Nat × Nat :=
  let n0 := n - 1
  let n400 := n0 / 146097
  let r := n0 % 146097
  let n100 := r / 36524
  let r1 := r % 36524
  let n4 := r1 / 1461
  let r2 := r1 % 1461
  let n1 := r2 / 365
  let r3 := r2 % 365
  let year := n400 * 400 + n100 * 100 + n4 * 4 + n1 + 1
  if n1 = 4 ∨ n100 = 4 then (year - 1, 12, 31)
  else
    let md := monthDayOfYday (isLeap year) r3
    (year, md.1, md.2)

/-- `date.weekday()`: Monday = 0 … Sunday = 6 -/
def weekday (y m d : Nat) : Nat := (ordinal y m d + 6) % 7

/-- `%j` -/
def dayOfYear (y m d : Nat) : Nat := daysBeforeMonthL (isLeap y) m + d

/-- `%W`: Monday-based week of the year; days before the first Monday are week 0.
    C: `(tm_yday + 7 - (tm_wday + 6) % 7) / 7` with `tm_yday` 0-based, `(tm_wday + 6) % 7` = Monday-0 weekday. -/
def weekW (y m d : Nat) : Nat := (dayOfYear y m d - 1 + 7 - weekday y m d) / 7

/-- `%U`: Sunday-based week of the year; C: `(tm_yday + 7 - tm_wday) / 7`, `tm_wday` Sunday = 0. -/
def weekU (y m d : Nat) : Nat := (dayOfYear y m d - 1 + 7 - (weekday y m d + 1) % 7) / 7

/-- number of ISO 8601 weeks of ISO year `y`: 53 iff 1 January is a Thursday,
    or a Wednesday in a leap year. -/
def isoWeeksInYear (y : Nat) : Nat :=
  let w1 := weekday y 1 1
  if w1 = 3 ∨ (w1 = 2 ∧ isLeap y = true) then 53 else 52

/-- ISO 8601 `(year, week)` = (`%G`, `%V`): week = (doy − isoweekday + 10) / 7; week 0 is the last
    week of the previous ISO year, a week beyond the year's last is week 1 of the next. -/
def isoCal (y m d : Nat) : Nat × Nat :=
  let w := (dayOfYear y m d + 9 - weekday y m d) / 7
  if w = 0 then (y - 1, isoWeeksInYear (y - 1))
  else if isoWeeksInYear y < w then (y + 1, 1)
  else (y, w)

def isoYear (y m d : Nat) : Nat := (isoCal y m d).1
def isoWeek (y m d : Nat) : Nat := (isoCal y m d).2

/-- `version.quarter_from_month` -/
def quarterFromMonth (m : Nat) : Nat := (m - 1) / 3 + 1

/-- `version.date_from_doy(y, doy)` = `date(y, 1, 1) + timedelta(days=doy - 1)`;
    `none` = `OverflowError` (result outside 0001-01-01 … 9999-12-31). Runs into the next
    year for `doy = 366` in a non-leap year, into the previous for `doy = 0`. -/
def dateFromDoy (y doy : Nat) : Option (Nat × Nat × Nat) :=
  let n := ordinal y 1 1 + doy - 1
  if 1 ≤ n ∧ n ≤ maxOrdinal then some (fromOrdinal n) else none

/-! ### `cal_info` -/

/-- `version.V2CalendarInfo` (all fields present), in field order -/
structure CalInfo where
  yearY : Nat
  yearG : Nat
  quarter : Nat
  month : Nat
  dom : Nat
  doy : Nat
  weekW : Nat
  weekU : Nat
  weekV : Nat
deriving DecidableEq, Repr

/-- `v2version.cal_info(date(y, m, d))` -/
def calInfo (y m d : Nat) : CalInfo :=
  { yearY := y, yearG := isoYear y m d, quarter := quarterFromMonth m, month := m, dom := d,
    doy := dayOfYear y m d, weekW := weekW y m d, weekU := weekU y m d, weekV := isoWeek y m d }

/-- `cal_info(date.fromordinal(n))` -/
def calInfoOrd (n : Nat) : CalInfo :=
  let t := fromOrdinal n
  calInfo t.1 t.2.1 t.2.2

def CalInfo.toList (c : CalInfo) : List Nat :=
  [c.yearY, c.yearG, c.quarter, c.month, c.dom, c.doy, c.weekW, c.weekU, c.weekV]

/-! ### `is_valid_week_pattern` -/

def hasYPart (p : Str) : Bool :=
  isInfix "YYYY".toList p || isInfix "YY".toList p || isInfix "0Y".toList p
def hasWUPart (p : Str) : Bool :=
  isInfix "WW".toList p || isInfix "0W".toList p || isInfix "UU".toList p || isInfix "0U".toList p
def hasGPart (p : Str) : Bool :=
  isInfix "GGGG".toList p || isInfix "GG".toList p || isInfix "0G".toList p
def hasVPart (p : Str) : Bool :=
  isInfix "VV".toList p || isInfix "0V".toList p

def isValidWeekPattern (p : Str) : Bool :=
  if hasYPart p && hasVPart p then false
  else if hasGPart p && hasWUPart p then false
  else true

/-! ### calendar parts of a pattern and their ordering -/

/-- the calendar parts a version pattern can show; `yearY2`/`yearG2` are the two-digit
    year parts `YY`/`0Y` and `GG`/`0G` (`int(str(year)[-2:])` = year mod 100). -/
inductive CalField
  | yearY | yearY2 | yearG | yearG2 | quarter | month | dom | doy | weekW | weekU | weekV
deriving DecidableEq, Repr

def CalField.get : CalField → CalInfo → Nat
  | .yearY, c => c.yearY
  | .yearY2, c => c.yearY % 100
  | .yearG, c => c.yearG
  | .yearG2, c => c.yearG % 100
  | .quarter, c => c.quarter
  | .month, c => c.month
  | .dom, c => c.dom
  | .doy, c => c.doy
  | .weekW, c => c.weekW
  | .weekU, c => c.weekU
  | .weekV, c => c.weekV

/-- the numeric values of the calendar parts, most significant first -/
def calKey (fs : List CalField) (c : CalInfo) : List Nat := fs.map (fun f => f.get c)

/-- shapes led by a calendar year part `y` -/
def yShapes (y : CalField) : List (List CalField) :=
  [[y], [y, .month], [y, .month, .dom], [y, .doy], [y, .quarter], [y, .quarter, .month],
   [y, .quarter, .month, .dom], [y, .weekW], [y, .weekU]]

/-- shapes led by an ISO year part `g` -/
def gShapes (g : CalField) : List (List CalField) := [[g], [g, .weekV]]

def coherentShapes : List (List CalField) :=
  yShapes .yearY ++ yShapes .yearY2 ++ gShapes .yearG ++ gShapes .yearG2

/-- the coherent shapes whose year part is the four-digit one; `V2CalendarInfo` only has the
    full years `year_y`/`year_g` (`YY`/`0Y`/`GG`/`0G` are parsed back to a full year), so these are
    the shapes `_is_cal_gt` sees -/
def fullYearShapes : List (List CalField) := yShapes .yearY ++ gShapes .yearG

/-- the documented coherent calendar shapes -/
def coherent (fs : List CalField) : Bool := coherentShapes.contains fs

/-- Python list comparison `a <= b` on lists of ints -/
def lexLe : List Nat → List Nat → Bool
  | [], _ => true
  | _ :: _, [] => false
  | a :: as, b :: bs => decide (a < b) || (a == b && lexLe as bs)

/-- Python list comparison `a < b` -/
def lexLt : List Nat → List Nat → Bool
  | [], [] => false
  | [], _ :: _ => true
  | _ :: _, [] => false
  | a :: as, b :: bs => decide (a < b) || (a == b && lexLt as bs)

/-! ### `_is_cal_gt` -/

/-- the nine `V2CalendarInfo` fields of a `V2CalendarInfo`/`V2VersionInfo`, each possibly `None` -/
structure CalOpt where
  yearY : Option Nat
  yearG : Option Nat
  quarter : Option Nat
  month : Option Nat
  dom : Option Nat
  doy : Option Nat
  weekW : Option Nat
  weekU : Option Nat
  weekV : Option Nat
deriving DecidableEq, Repr

def CalOpt.toList (c : CalOpt) : List (Option Nat) :=
  [c.yearY, c.yearG, c.quarter, c.month, c.dom, c.doy, c.weekW, c.weekU, c.weekV]

/-- the `(lval, rval)` pairs of the positions where neither side is `None` -/
def presentPairs : List (Option Nat) → List (Option Nat) → List (Nat × Nat)
  | some a :: l, some b :: r => (a, b) :: presentPairs l r
  | _ :: l, _ :: r => presentPairs l r
  | _, _ => []

/-- `_is_cal_gt(left, right)`: `lvals > rvals` on the positions present on both sides -/
def isCalGt (l r : CalOpt) : Bool :=
  let ps := presentPairs l.toList r.toList
  lexLt (ps.map (·.2)) (ps.map (·.1))

/-- a `cal_info` result: every field present -/
def CalInfo.toOpt (c : CalInfo) : CalOpt :=
  { yearY := some c.yearY, yearG := some c.yearG, quarter := some c.quarter, month := some c.month,
    dom := some c.dom, doy := some c.doy, weekW := some c.weekW, weekU := some c.weekU,
    weekV := some c.weekV }

/-- a version parsed from a pattern showing exactly the parts `fs`: the other fields are `None` -/
def CalInfo.mask (fs : List CalField) (c : CalInfo) : CalOpt :=
  let pick (f : CalField) (v : Nat) : Option Nat := if fs.contains f then some v else none
  { yearY := pick .yearY c.yearY, yearG := pick .yearG c.yearG, quarter := pick .quarter c.quarter,
    month := pick .month c.month, dom := pick .dom c.dom, doy := pick .doy c.doy,
    weekW := pick .weekW c.weekW, weekU := pick .weekU c.weekU, weekV := pick .weekV c.weekV }

end BV
