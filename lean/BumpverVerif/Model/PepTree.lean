/-
  Model/PepTree.lean — `_convert_to_pep440` on the pattern TREE (C15).

  bumpver derives the search pattern of `{pep440_version}` from the version pattern by string surgery
  (`convertToPep440`, Model/V2Patterns.lean, the faithful model).  `Pat.toPep` is the same conversion on the
  tree of Model/PatAst.lean, step by step:

    1. `Pat.dropV`        `if version_pattern.startswith("v"): pattern = pattern[1:]`
    2. `Pat.keepPepLits`  `.replace("\\[", "").replace("\\]", "")` and `re.sub(r"[^a-zA-Z0-9\.\!\[\]]", "", …)`:
                          literal characters other than letters, digits, `.`, `!` go (escaped brackets too);
                          the brackets of optional groups stay
    3. `Pat.mapParts (pepSubstName q)`   the loop over `PEP440_PART_SUBSTITUTIONS`: TAG -> PYTAG always, a
                          numerical part only if its FIRST occurrence is at index 0 of the filtered text or
                          directly after a `.`; nothing if the substitute is already in the pattern
    4. `Pat.relocateTail` `if "PYTAGNUM" not in pattern`: PYTAG and NUM parts go, ONE pass of `replace("[]", "")`,
                          `[PYTAGNUM]` is appended

  That the tree conversion and the string conversion agree on a pattern is `pepTie` (a Bool: the driver can
  evaluate it per generated pattern; proved for the README's patterns in Props/C15.lean).  They do NOT agree on
  patterns where deleting a separator glues characters into a new part name (`MA-JOR`), which the tree does
  not re-tokenise.

  Executable definitions only (no proofs): the compiled driver may link this file.
-/
import BumpverVerif.Model.PatWf
namespace BV

/-! ### structural equality, text, append -/

def Pat.beq : Pat → Pat → Bool
  | .done, .done => true
  | .lit a r1, .lit b r2 => a == b && Pat.beq r1 r2
  | .part n r1, .part m r2 => n == m && Pat.beq r1 r2
  | .opt b1 r1, .opt b2 r2 => Pat.beq b1 b2 && Pat.beq r1 r2
  | _, _ => false

/-- the pattern text of a tree (inverse of `tokenize`) -/
def Pat.text : Pat → Str
  | .done => []
  | .lit c rest => (if c == '[' || c == ']' then ['\\', c] else [c]) ++ Pat.text rest
  | .part n rest => n ++ Pat.text rest
  | .opt body rest => '[' :: Pat.text body ++ ']' :: Pat.text rest

def Pat.append : Pat → Pat → Pat
  | .done, q => q
  | .lit c rest, q => .lit c (Pat.append rest q)
  | .part n rest, q => .part n (Pat.append rest q)
  | .opt body rest, q => .opt body (Pat.append rest q)

/-! ### steps 1 and 2 -/

/-- `if version_pattern.startswith("v"): pep440_pattern = version_pattern[1:]` -/
def Pat.dropV : Pat → Pat
  | .lit c rest => if c == 'v' then rest else .lit c rest
  | p => p

/-- the characters `[^a-zA-Z0-9\.\!\[\]]` deletes — for a LITERAL: escaped brackets were deleted before -/
def keepPepLit (c : Char) : Bool := isAlnum c || c == '.' || c == '!'

def Pat.keepPepLits : Pat → Pat
  | .done => .done
  | .lit c rest => if keepPepLit c then .lit c (Pat.keepPepLits rest) else Pat.keepPepLits rest
  | .part n rest => .part n (Pat.keepPepLits rest)
  | .opt body rest => .opt (Pat.keepPepLits body) (Pat.keepPepLits rest)

/-! ### step 3: the part substitutions -/

/-- the first part `name` in text order: `some prev` with the character directly before it in the pattern
    TEXT (`none` inside: index 0).  `[` and `]` of optional groups ARE characters of the text; after a part
    the previous character is the last letter of its name. -/
def Pat.prevOfFirst (name : Str) : Pat → Option Char → Option (Option Char)
  | .done, _ => none
  | .lit c rest, _ => Pat.prevOfFirst name rest (some c)
  | .part n rest, prev => if n == name then some prev else Pat.prevOfFirst name rest n.getLast?
  | .opt body rest, _ =>
    match Pat.prevOfFirst name body (some '[') with
    | some r => some r
    | none => Pat.prevOfFirst name rest (some ']')

/-- what the loop over `PEP440_PART_SUBSTITUTIONS` turns part `name` of the (filtered) tree `q` into.
    The decision is GLOBAL, as in the string code: `if substitution in pep440_pattern: continue` (a substring
    test on the text of the filtered pattern), then the position of the FIRST occurrence decides for all
    occurrences (`str.replace`). -/
def pepSubstName (q : Pat) (name : Str) : Str :=
  match lookup name Gen.pep440PartSubstitutions with
  | none => name
  | some sub =>
    if isInfix sub q.text then name          -- a test on the pattern TEXT: `0M-MAJOR` -> "0MMAJOR" contains "MM"
    else if isTagPart name then sub
    else match Pat.prevOfFirst name q none with
      | some none => sub                       -- `part_index == 0`
      | some (some c) => if c == '.' then sub else name
      | none => name

def Pat.mapParts (f : Str → Str) : Pat → Pat
  | .done => .done
  | .lit c rest => .lit c (Pat.mapParts f rest)
  | .part n rest => .part (f n) (Pat.mapParts f rest)
  | .opt body rest => .opt (Pat.mapParts f body) (Pat.mapParts f rest)

def Pat.pepSubst (q : Pat) : Pat := Pat.mapParts (pepSubstName q) q

/-! ### step 4: the release tail -/

/-- `"PYTAGNUM" in pep440_pattern`: a PYTAG part immediately followed by a NUM part -/
def Pat.hasPytagNum : Pat → Bool
  | .done => false
  | .lit _ rest => Pat.hasPytagNum rest
  | .part n rest =>
    (n == "PYTAG".toList && (match rest with | .part m _ => m == "NUM".toList | _ => false)) || Pat.hasPytagNum rest
  | .opt body rest => Pat.hasPytagNum body || Pat.hasPytagNum rest

/-- `.replace("PYTAG", "").replace("NUM", "")` -/
def Pat.dropTagNum : Pat → Pat
  | .done => .done
  | .lit c rest => .lit c (Pat.dropTagNum rest)
  | .part n rest =>
    if n == "PYTAG".toList || n == "NUM".toList then Pat.dropTagNum rest else .part n (Pat.dropTagNum rest)
  | .opt body rest => .opt (Pat.dropTagNum body) (Pat.dropTagNum rest)

/-- ONE pass of `.replace("[]", "")`: a group that is empty NOW goes; a group that becomes empty by this
    (`[[]]` -> `[]`) stays, as in the string code -/
def Pat.dropEmptyOpt : Pat → Pat
  | .done => .done
  | .lit c rest => .lit c (Pat.dropEmptyOpt rest)
  | .part n rest => .part n (Pat.dropEmptyOpt rest)
  | .opt .done rest => Pat.dropEmptyOpt rest
  | .opt body rest => .opt (Pat.dropEmptyOpt body) (Pat.dropEmptyOpt rest)

/-- the appended `[PYTAGNUM]` -/
def pepTail : Pat := .opt (.part "PYTAG".toList (.part "NUM".toList .done)) .done

def Pat.relocateTail (q : Pat) : Pat :=
  if q.hasPytagNum then q else Pat.append (Pat.dropEmptyOpt (Pat.dropTagNum q)) pepTail

/-- the tree BEFORE the release tail is looked at (steps 1 to 3) -/
def Pat.toPepPre (p : Pat) : Pat := p.dropV.keepPepLits.pepSubst

/-- `_convert_to_pep440` on the tree -/
def Pat.toPep (p : Pat) : Pat := p.toPepPre.relocateTail

/-- THE TIE for one pattern: the string conversion of the pattern text tokenises to the tree conversion
    of the pattern's tree -/
def pepTie (s : Str) : Bool :=
  match tokenize s, tokenize (convertToPep440 s) with
  | some p, some q => Pat.beq p.toPep q
  | _, _ => false

/-! ### what the record and the pattern must satisfy for the derived pattern (see Props/C15.lean, `C15_vok_transfer`) -/

/-- * `pytag` is the image of `tag` under `PEP440_TAG_BY_TAG` (TAG -> PYTAG keeps "is rendered / is zero"),
    * `tag` is a release tag of the CLI (the domain of PYTAG, needed for the appended `[PYTAGNUM]` even when the
      version pattern has no tag part),
    * the BUILD value is a non-zero number (BUILD -> BLD: `[1-9][0-9]*`),
    * a final release has release number 0 (the relocated `[PYTAGNUM]` is omitted exactly for a final release;
      `_incr_numeric` establishes this). -/
def pepReady (v : VInfo) : Bool :=
  (lookup v.tag Gen.pep440TagByTag == some v.pytag) && tagOk v && decide (1 ≤ strToNat v.bid) &&
  (v.tag != "final".toList || v.num == 0)

def isTailPart (n : Str) : Bool := n == "TAG".toList || n == "PYTAG".toList || n == "NUM".toList

/-- TAG occurs only inside optional groups made of tag / release-number parts (`[-TAG]`, `[-TAGNUM]`,
    `[PYTAGNUM]`): such a group is omitted for a final release.  A TAG that is rendered for a final release
    ("1.2.3-final") becomes a PYTAG that cannot be (its text would be empty). -/
def Pat.tagGuarded : Pat → Bool
  | .done => true
  | .lit _ rest => Pat.tagGuarded rest
  | .part n rest => n != "TAG".toList && Pat.tagGuarded rest
  | .opt body rest => (body.parts.all isTailPart || Pat.tagGuarded body) && Pat.tagGuarded rest

/-! ### the normal form of the derived pattern -/

/-- a part whose rendering is `str(n)` of a number (no padding, not the verbatim BUILD string, not the long tag) -/
def pepNormalPart (n : Str) : Bool :=
  n != "BUILD".toList && n != "TAG".toList &&
  (match lookup n Gen.partFormats with
   | some .str => true
   | some .int => true
   | _ => false)

/-- the first dot-separated component: everything before the first top-level `.` or optional group -/
def Pat.headComp : Pat → Pat
  | .lit c rest => if c == '.' then .done else .lit c (Pat.headComp rest)
  | .part n rest => .part n (Pat.headComp rest)
  | _ => .done

/-- the rest of the tree, from the first top-level `.` or optional group on -/
def Pat.afterHead : Pat → Pat
  | .lit c rest => if c == '.' then .lit c rest else Pat.afterHead rest
  | .part _ rest => Pat.afterHead rest
  | p => p

/-- every PYTAG part is immediately followed by a NUM part -/
def Pat.pytagNumbered : Pat → Bool
  | .done => true
  | .lit _ rest => Pat.pytagNumbered rest
  | .part n rest =>
    (n != "PYTAG".toList || (match rest with | .part m _ => m == "NUM".toList | _ => false)) && Pat.pytagNumbered rest
  | .opt body rest => Pat.pytagNumbered body && Pat.pytagNumbered rest

/-- no literal `v` at the start; every part after the first dot-separated component is unpadded; no long tag;
    every short tag is followed by its number -/
def Pat.pepNormal (q : Pat) : Bool :=
  (match q with | .lit c _ => c != 'v' | _ => true) &&
  q.afterHead.parts.all pepNormalPart && q.parts.all (fun n => n != "TAG".toList) && q.pytagNumbered

def pepShortTags : List Str := ["a", "b", "rc", "post", "dev"].map String.toList

end BV
