/- root of the library: every claimed property's theorem module (so that `lake build BumpverVerif` builds all proofs) -/
import BumpverVerif.Props.C01
import BumpverVerif.Props.C02
import BumpverVerif.Props.C03
import BumpverVerif.Props.C04
import BumpverVerif.Props.C05
import BumpverVerif.Props.C06
import BumpverVerif.Props.C07
import BumpverVerif.Props.C08
import BumpverVerif.Props.C09
import BumpverVerif.Props.C10
import BumpverVerif.Props.C11
import BumpverVerif.Props.C12
import BumpverVerif.Props.C13
import BumpverVerif.Props.C14
import BumpverVerif.Props.C15
import BumpverVerif.Props.C16
import BumpverVerif.Props.C17
