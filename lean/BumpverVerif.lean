import BumpverVerif.Model.Basic
import BumpverVerif.Model.LexId
