#!/venv/bin/python
"""Python -> Lean FUNCTION translator for a handful of small pure bumpver functions.

For every function of the signature table `FUNCS` the Python source is read with `ast`
(never imported) from $VERIF_REPO/src/bumpver (default /repo), its BODY is translated
statement by statement into a plain structural Lean definition, and the result is
written to lean/BumpverVerif/Gen/F_<name>.lean (namespace BV.GenF).  The theorems
`BV.tie_<name>` (lean/BumpverVerif/Proofs/Tie_<name>.lean) prove the generated definition
equal to the hand-written model, so that an edit of the Python function breaks a proof
obligation deterministically.

Functions whose signature-table entry has `exc=True` (the bump core of v2version.py:
_iter_reset_field_items, _reset_rollover_fields, _incr_numeric, incr) return `Except PErr T`
and may use generators, dicts, run-time field names, try/except, keyword-only parameters,
calls of other translated functions and calls abstracted as model functions.  Two support
files are generated besides (list `SUPPORT`): Gen/F_PyPrelude.lean and Gen/F_VInfoDyn.lean.

The supported subset, the typing and truthiness rules and the signature table are
documented in harness/TRANSLATE_FUNCS.md.  Anything outside the subset raises
`Untranslatable(function, node, reason)`; the output file is then written with a comment
only (so that exactly the tie theorem of that function stops compiling).
"""
import ast
import hashlib
import os
import sys

HERE = os.path.dirname(os.path.abspath(__file__))


def repo_src():
    return os.path.join(os.environ.get("VERIF_REPO", "/repo"), "src", "bumpver")


class Untranslatable(Exception):
    def __init__(self, function, node, reason):
        self.function = function
        self.node = node
        self.reason = reason
        where = ""
        if node is not None and hasattr(node, "lineno"):
            where = " (line %d: `%s`)" % (node.lineno, _short(node))
        Exception.__init__(self, "%s%s: %s" % (function, where, reason))


def _short(node):
    try:
        s = ast.unparse(node)
    except Exception:  # pragma: no cover
        s = type(node).__name__
    s = " ".join(s.split())
    return s if len(s) <= 70 else s[:67] + "..."


# ----------------------------------------------------------------------------------
# static types
# ----------------------------------------------------------------------------------
BOOL = ("bool",)
INT = ("int",)        # Python int, Lean `Int`
NAT = ("nat",)        # Python int known to be >= 0 (signature table), Lean `Nat`
LIT = ("intlit",)     # a non-negative integer literal: fits Nat and Int
STR = ("str",)        # Lean `Str` = `List Char`
NONE = ("none",)      # the type of the constant `None`


def OPT(t):
    return ("opt", t)


def LIST(t):          # t may be None: element type not known yet (`[]`)
    return ("list", t)


def TUP(*ts):
    return ("tuple", tuple(ts))


def REC(name):
    return ("rec", name)


def ENUM(name):
    return ("enum", name)


def PROJ(rec, t):     # loop variable ranging over the field tuple of a record
    return ("proj", rec, t)


def OPAQUE(lean):     # a type the functions never look into
    return ("opaque", lean)


DYN = ("dyn",)        # a value whose type is only known at run time: None | int >= 0 | str (model `FV`)


def DICT(k, v):       # insertion-ordered dict, Lean association list `List (K × V)` with distinct keys
    return ("dict", k, v)


def EXC(t):           # the value of an abstracted expression that may raise: `Except PErr T`
    return ("exc", t)


DATE = TUP(NAT, NAT, NAT)   # datetime.date as (year, month, day), as in the model


def is_intlike(t):
    return t in (INT, NAT, LIT)


LEAN_KEYWORDS = {
    "end", "from", "at", "open", "in", "then", "do", "fun", "let", "have", "show", "match",
    "with", "if", "else", "def", "namespace", "section", "instance", "structure", "class",
    "where", "import", "local", "private", "protected", "theorem", "example", "variable",
    "universe", "mutual", "deriving", "macro", "syntax", "notation", "prefix", "infix",
    "return", "for", "unless", "try", "catch", "finally", "by", "using", "calc", "this",
    "Type", "Prop", "Sort", "abbrev", "axiom", "opaque", "export", "attribute", "set_option",
    "nomatch", "nofun", "mut", "continue", "break", "forall", "exists", "suffices", "obtain",
    "λ", "inductive", "extends", "omit", "include",
}


def lean_ident(name):
    if name == "yield":      # not a Python identifier: the translator's key for a generator's accumulator
        return YIELD_ACC
    return name + "_" if name in LEAN_KEYWORDS else name


YIELD_ACC = "yielded"


def lean_str(s):
    """a Lean `Str` (List Char) literal"""
    out = []
    for ch in s:
        o = ord(ch)
        if ch == "\\":
            out.append("\\\\")
        elif ch == '"':
            out.append('\\"')
        elif ch == "\n":
            out.append("\\n")
        elif ch == "\t":
            out.append("\\t")
        elif ch == "\r":
            out.append("\\r")
        elif 32 <= o < 127:
            out.append(ch)
        else:
            out.append("\\u{%x}" % o)
    return '"' + "".join(out) + '".toList'


def indent(s, n=2):
    pad = " " * n
    return "\n".join((pad + ln) if ln else ln for ln in s.split("\n"))


# ----------------------------------------------------------------------------------
# the type environment: records, enums, field tuples (checked against / read from the AST)
# ----------------------------------------------------------------------------------
CAL_FIELDS = ["year_y", "year_g", "quarter", "month", "dom", "doy", "week_w", "week_u", "week_v"]
CAL_LEAN = ["yearY", "yearG", "quarter", "month", "dom", "doy", "weekW", "weekU", "weekV"]

# record name -> description.
#   lean    : Lean type (may mention the implicit parameters of `params`)
#   source  : (file, class) of the NamedTuple it stands for
#   fields  : python field -> (lean projection path, type); for `generated` records the
#             fields are read from the class definition and typed through ANNOTATIONS
#   exact   : the python class must have exactly these fields in this order
RECORDS = {
    "LineSpan": dict(
        lean="LineSpan", source=("parse.py", "LineSpan"), exact=True,
        fields=[("lineno", "lineno", NAT), ("start", "start", NAT), ("end", "stop", NAT)]),
    # version.V2CalendarInfo with every field possibly None (model: CalOpt)
    "CalOpt": dict(
        lean="CalOpt", source=("version.py", "V2CalendarInfo"), exact=True,
        fields=[(p, l, OPT(NAT)) for p, l in zip(CAL_FIELDS, CAL_LEAN)]),
    # version.V2CalendarInfo as `cal_info` builds it: every field an int (model: CalInfo)
    "CalInfo": dict(
        lean="CalInfo", source=("version.py", "V2CalendarInfo"), exact=True,
        fields=[(p, l, NAT) for p, l in zip(CAL_FIELDS, CAL_LEAN)]),
    # version.V2VersionInfo (model: VInfo; githash/hexhash are not modelled)
    "VInfo": dict(
        lean="VInfo", source=("version.py", "V2VersionInfo"), exact=False,
        fields=[(p, "cal." + l, OPT(NAT)) for p, l in zip(CAL_FIELDS, CAL_LEAN)]
        + [("major", "major", NAT), ("minor", "minor", NAT), ("patch", "patch", NAT),
           ("bid", "bid", STR), ("tag", "tag", STR), ("pytag", "pytag", STR),
           ("num", "num", NAT), ("inc0", "inc0", NAT), ("inc1", "inc1", NAT)],
        # THE ABSTRACTION's restriction, used only by the run-time views (getattr by a run-time name,
        # `_asdict()`, `V2VersionInfo(**d)`): a Lean `VInfo` stands for the V2VersionInfo values whose
        # unmodelled fields hold these constants (model: `VInfo.get` returns `.str []` for them)
        consts={"githash": (STR, ""), "hexhash": (STR, "")},
        dyn="F_VInfoDyn"),
    # config.Config: GENERATED structure (all fields of the class, in order)
    "Config": dict(
        lean="Config α", source=("config.py", "Config"), generated=True, params="(α : Type)",
        leanname="Config"),
}

# annotation text -> type, for generated structures
ANNOTATIONS = {
    "str": STR, "bool": BOOL, "int": INT, "TagScope": ENUM("TagScope"),
    "PatternsByFile": OPAQUE("α"),
}

# str-valued enums, GENERATED from the class definition
ENUMS = {
    "TagScope": dict(source=("config.py", "TagScope")),
}

# dotted python name of a constructor -> what it builds
CONSTRUCTORS = {
    "version.V2CalendarInfo": ("rec", "CalOpt"),
    "V2CalendarInfo": ("rec", "CalOpt"),
    "config.TagScope": ("enum", "TagScope"),      # by value; ValueError when no member has it
    "TagScope": ("enum", "TagScope"),
    "version.V2VersionInfo": ("rec", "VInfo"),    # not `exact`: only the `V2VersionInfo(**d)` form
    "V2VersionInfo": ("rec", "VInfo"),
}

# python exception class -> constructor of the model's `PErr` (functions with `exc=True` return
# `Except PErr T`).  AttributeError has no constructor of its own in the model: `.unsupported`.
EXCEPTIONS = {
    "KeyError": "PErr.keyError", "TypeError": "PErr.typeError", "ValueError": "PErr.valueError",
    "OverflowError": "PErr.overflow", "version.PatternError": "PErr.pattern", "PatternError": "PErr.pattern",
    "AttributeError": "PErr.unsupported",
}

# record -> record coercions by a MODEL function (Python has one class for both)
REC_COERCIONS = {
    ("CalInfo", "CalOpt"): "%s.toOpt",
}

# Calls that are NOT translated but abstracted as a model function / a trusted primitive.  A function may
# only use the entries its signature-table entry lists under `abstract`.  `{0}`, `{1}` = the (atomic)
# arguments; `{ext:<expr>}` = the caller's extern parameter for that expression.
#   exc    : the call returns `Except PErr T`
#   option : the call returns `Option T`; `none` is the named exception
ABSTRACT_CALLS = {
    "lexid.next_id": dict(lean="(BV.nextId {0})", params=[STR], ret=STR, option="OverflowError"),
    "parse_version_info": dict(lean="(BV.parseVersionInfo {0} {1} {ext:version.TODAY})", params=[STR, STR],
                               ret=REC("VInfo"), exc=True),
    "cal_info": dict(lean="(BV.calInfo {0}.1 {0}.2.1 {0}.2.2)", params=[DATE], ret=REC("CalInfo")),
    "format_version": dict(lean="(BV.formatVersion {0} {1})", params=[REC("VInfo"), STR], ret=STR, exc=True),
    "_parse_pattern_fields": dict(lean="(BV.parsePatternFields {0})", params=[STR], ret=LIST(STR), exc=True),
}


def generated_tables():
    """python dotted name -> Lean name of the str->str tables that harness/gen_tables.py GENERATES
    (read from the `lean_pairs("<lean name>", "`<python name>` ...", ...)` calls of its source, so the
    pairing is the table generator's, not repeated here)"""
    out = {}
    try:
        with open(os.path.join(HERE, "gen_tables.py"), encoding="utf-8") as f:
            tree = ast.parse(f.read())
    except (OSError, SyntaxError):
        return out
    for n in ast.walk(tree):
        if (isinstance(n, ast.Call) and isinstance(n.func, ast.Name) and n.func.id == "lean_pairs"
                and len(n.args) >= 2 and all(isinstance(a, ast.Constant) and isinstance(a.value, str) for a in n.args[:2])):
            doc = n.args[1].value
            if doc.startswith("`") and "`" in doc[1:]:
                out[doc[1:doc.index("`", 1)]] = "Gen." + n.args[0].value
    return out


TABLES = generated_tables()

# dotted python expression -> (file, class, record) : the `_fields` tuple of a NamedTuple
FIELD_TUPLES = {
    "version.V2CalendarInfo._fields": ("version.py", "V2CalendarInfo", "CalOpt"),
    "V2CalendarInfo._fields": ("version.py", "V2CalendarInfo", "CalOpt"),
}

# ----------------------------------------------------------------------------------
# the signature table
# ----------------------------------------------------------------------------------
FUNCS = [
    dict(name="hasOverlap", file="parse.py", func="_has_overlap",
         params=[("needle", REC("LineSpan")), ("haystack", LIST(REC("LineSpan")))],
         ret=BOOL, imports=["BumpverVerif.Model.Rewrite"]),
    dict(name="detectLineSep", file="rewrite.py", func="detect_line_sep",
         params=[("content", STR)], ret=STR, imports=["BumpverVerif.Model.Basic"]),
    dict(name="quarterFromMonth", file="version.py", func="quarter_from_month",
         params=[("month", INT)], ret=INT, imports=["BumpverVerif.Model.Basic"]),
    dict(name="isCalGt", file="v2version.py", func="_is_cal_gt",
         params=[("left", REC("CalOpt")), ("right", REC("CalOpt"))],
         ret=BOOL, imports=["BumpverVerif.Model.Calendar"]),
    dict(name="isValidWeekPattern", file="v2version.py", func="is_valid_week_pattern",
         params=[("raw_pattern", STR)], ret=BOOL, imports=["BumpverVerif.Model.Basic"]),
    dict(name="verToCalInfo", file="v2version.py", func="_ver_to_cal_info",
         params=[("vinfo", REC("VInfo"))], ret=REC("CalOpt"),
         # free expressions abstracted as extra parameters
         externs={"cal_info(version.TODAY)": ("dflt", REC("CalInfo"))},
         imports=["BumpverVerif.Model.V2Version"]),
    dict(name="parseVcsOptions", file="cli.py", func="_parse_vcs_options",
         params=[("cfg", REC("Config")), ("commit", OPT(BOOL)), ("tag_commit", OPT(BOOL)),
                 ("push", OPT(BOOL)), ("tag_scope", OPT(STR)), ("pre_commit_hook", OPT(STR)),
                 ("post_commit_hook", OPT(STR))],
         ret=REC("Config"), implicit="{α : Type}",
         decls=[("enum", "TagScope"), ("rec", "Config")],
         imports=["BumpverVerif.Model.Basic"]),
    dict(name="parseLetterVersion", file="setuptools_v65_version.py",
         func="_parse_letter_version",
         # the callers pass `match.group(...)`: both arguments are Optional[str]
         params=[("letter", OPT(STR)), ("number", OPT(STR))],
         ret=OPT(TUP(STR, NAT)), imports=["BumpverVerif.Model.Pep440"]),
    # ---- the bump core of v2version.py (functions with `exc=True` return `Except PErr T`) ----
    dict(name="iterResetFieldItems", file="v2version.py", func="_iter_reset_field_items", exc=True,
         params=[("fields", LIST(STR)), ("old_vinfo", REC("VInfo")), ("cur_vinfo", REC("VInfo"))],
         ret=LIST(TUP(STR, STR)),                                 # a generator: the list it yields
         imports=["BumpverVerif.Model.V2Version"]),
    dict(name="resetRolloverFields", file="v2version.py", func="_reset_rollover_fields", exc=True,
         params=[("raw_pattern", STR), ("old_vinfo", REC("VInfo")), ("cur_vinfo", REC("VInfo"))],
         ret=REC("VInfo"),
         externs={"_parse_pattern_fields(raw_pattern)": ("fields", EXC(LIST(STR)))},
         imports=["BumpverVerif.Model.V2Version"]),
    dict(name="incrNumeric", file="v2version.py", func="_incr_numeric", exc=True,
         params=[("raw_pattern", STR), ("old_vinfo", REC("VInfo")), ("cur_vinfo", REC("VInfo")),
                 ("major", BOOL), ("minor", BOOL), ("patch", BOOL), ("tag", OPT(STR)),
                 ("tag_num", BOOL), ("pin_increments", BOOL)],
         ret=REC("VInfo"),
         externs={"_parse_pattern_fields(raw_pattern)": ("fields", EXC(LIST(STR)))},
         abstract=["lexid.next_id"],
         imports=["BumpverVerif.Model.V2Version"]),
    dict(name="incr", file="v2version.py", func="incr", exc=True,
         params=[("old_version", STR), ("raw_pattern", STR), ("major", BOOL), ("minor", BOOL),
                 ("patch", BOOL), ("tag", OPT(STR)), ("tag_num", BOOL), ("pin_increments", BOOL),
                 ("pin_date", BOOL), ("maybe_date", OPT(DATE))],
         ret=OPT(STR),
         externs={"version.TODAY": ("today", DATE)},
         abstract=["parse_version_info", "cal_info", "format_version", "_parse_pattern_fields"],
         imports=["BumpverVerif.Model.V2Version"]),
]


# support files that are not the translation of one function (rendered before FUNCS by `generate`)
SUPPORT = [
    dict(name="PyPrelude", kind="prelude"),                      # Gen/F_PyPrelude.lean (fixed text)
    dict(name="VInfoDyn", kind="recdyn", record="VInfo"),        # Gen/F_VInfoDyn.lean (from the class definition)
]


# ----------------------------------------------------------------------------------
# source access
# ----------------------------------------------------------------------------------
class Sources:
    def __init__(self):
        self.cache = {}

    def module(self, fname):
        if fname not in self.cache:
            path = os.path.join(repo_src(), fname)
            with open(path, encoding="utf-8") as f:
                src = f.read()
            self.cache[fname] = (src, ast.parse(src))
        return self.cache[fname]

    def find(self, fname, kind, name):
        src, tree = self.module(fname)
        for node in tree.body:
            if isinstance(node, kind) and node.name == name:
                return src, node
        return src, None

    def class_fields(self, fname, cls, fn):
        """[(field, annotation text)] of a NamedTuple class; assignments for enums"""
        _, node = self.find(fname, ast.ClassDef, cls)
        if node is None:
            raise Untranslatable(fn, None, "class %s not found in %s" % (cls, fname))
        out = []
        for st in node.body:
            if isinstance(st, ast.AnnAssign) and isinstance(st.target, ast.Name) and st.value is None:
                out.append((st.target.id, ast.unparse(st.annotation)))
            elif isinstance(st, ast.Expr) and isinstance(st.value, ast.Constant) and isinstance(st.value.value, str):
                continue
            elif isinstance(st, ast.Pass):
                continue
            else:
                raise Untranslatable(fn, st, "unsupported statement in NamedTuple class %s" % cls)
        return out

    def enum_members(self, fname, cls, fn):
        _, node = self.find(fname, ast.ClassDef, cls)
        if node is None:
            raise Untranslatable(fn, None, "class %s not found in %s" % (cls, fname))
        out = []
        for st in node.body:
            if (isinstance(st, ast.Assign) and len(st.targets) == 1 and isinstance(st.targets[0], ast.Name)
                    and isinstance(st.value, ast.Constant) and isinstance(st.value.value, str)):
                out.append((st.targets[0].id, st.value.value))
            elif isinstance(st, ast.Expr) and isinstance(st.value, ast.Constant) and isinstance(st.value.value, str):
                continue
            else:
                raise Untranslatable(fn, st, "unsupported statement in enum class %s" % cls)
        return out


class Var:
    def __init__(self, lean, type_, narrowed_from=None, digits=False):
        self.lean = lean
        self.type = type_
        self.narrowed_from = narrowed_from
        self.digits = digits      # a str known to be a non-empty digit string (inside `if x.isdigit():`)

    def root(self):
        v = self
        while v.narrowed_from is not None:
            v = v.narrowed_from
        return v


# ----------------------------------------------------------------------------------
# the translator of one function
# ----------------------------------------------------------------------------------
class FuncTranslator:
    def __init__(self, spec, sources):
        self.spec = spec
        self.fn = spec["func"]
        self.src = sources
        self.counter = 0
        self.hoists = None        # list of (lean name, Option-valued lean expr) while inside a statement
        self.records = {}
        self.enums = {}
        self.raises = False
        self.loop_k = []          # continuations of the enclosing accumulation loops (`continue`)
        self.exc = bool(spec.get("exc"))   # the function returns `Except PErr T`
        self.events = 0           # number of raising calls / raise statements seen so far (for probes)
        self.extra_imports = []   # Gen files of translated callees / run-time views
        self.generator = False    # the function contains `yield`
        self.params = {}          # python parameter name -> its (never reassigned?) Var

    # -- errors ---------------------------------------------------------------------
    def bad(self, node, reason):
        raise Untranslatable(self.fn, node, reason)

    # -- type environment -------------------------------------------------------------
    def record(self, name):
        if name in self.records:
            return self.records[name]
        d = RECORDS[name]
        fname, cls = d["source"]
        pyfields = self.src.class_fields(fname, cls, self.fn)
        if d.get("generated"):
            fields = []
            for f, ann in pyfields:
                if ann not in ANNOTATIONS:
                    self.bad(None, "field %s.%s: annotation %s has no type mapping" % (cls, f, ann))
                fields.append((f, lean_ident(f), ANNOTATIONS[ann]))
        else:
            fields = d["fields"]
            names = [f for f, _ in pyfields]
            mine = [f for f, _, _ in fields]
            if d.get("exact"):
                if names != mine:
                    self.bad(None, "fields of %s.%s are %s, the signature table expects %s"
                             % (fname, cls, names, mine))
            else:
                # the modelled fields must exist, in the same relative order
                sub = [f for f in names if f in mine]
                if sub != mine:
                    self.bad(None, "fields of %s.%s are %s, the signature table expects the subsequence %s"
                             % (fname, cls, names, mine))
        r = dict(d)
        r["fields"] = fields
        r["pyorder"] = [f for f, _ in pyfields]
        self.records[name] = r
        return r

    def enum(self, name):
        if name in self.enums:
            return self.enums[name]
        fname, cls = ENUMS[name]["source"]
        members = self.src.enum_members(fname, cls, self.fn)
        if not members:
            self.bad(None, "enum %s has no members" % cls)
        self.enums[name] = members
        return members

    def lean_type(self, t):
        k = t[0]
        if k == "bool":
            return "Bool"
        if k in ("int", "intlit"):
            return "Int"
        if k == "nat":
            return "Nat"
        if k == "str":
            return "Str"
        if k == "opt":
            return "Option (%s)" % self.lean_type(t[1]) if " " in self.lean_type(t[1]) else "Option " + self.lean_type(t[1])
        if k == "list":
            if t[1] is None:
                return "List _"
            inner = self.lean_type(t[1])
            return "List (%s)" % inner if " " in inner else "List " + inner
        if k == "tuple":
            return "(" + " × ".join(self.lean_type(x) for x in t[1]) + ")"
        if k == "rec":
            r = RECORDS[t[1]]["lean"]
            return r
        if k == "enum":
            return t[1]
        if k == "opaque":
            return t[1]
        if k == "proj":
            return "%s → %s" % (RECORDS[t[1]]["lean"], self.lean_type(t[2]))
        if k == "dyn":
            return "FV"
        if k == "dict":
            return "List (%s × %s)" % (self.lean_type(t[1]), self.lean_type(t[2]))
        if k == "exc":
            return "Except PErr %s" % self.paren_type(t[1])
        self.bad(None, "no Lean type for %r" % (t,))

    def paren_type(self, t):
        s = self.lean_type(t)
        return "(%s)" % s if (" " in s and not s.startswith("(")) else s

    # -- unification / coercion --------------------------------------------------------
    def unify(self, a, b):
        """least common type of two static types, or None"""
        if a == b:
            return a
        if a == LIT and b in (INT, NAT):
            return b
        if b == LIT and a in (INT, NAT):
            return a
        if (a, b) in ((NAT, INT), (INT, NAT)):
            return INT
        if a == NONE:
            return b if b[0] == "opt" else OPT(b)
        if b == NONE:
            return a if a[0] == "opt" else OPT(a)
        if a[0] == "opt" and b[0] == "opt":
            u = self.unify(a[1], b[1])
            return OPT(u) if u else None
        if a[0] == "opt":
            u = self.unify(a[1], b)
            return OPT(u) if u else None
        if b[0] == "opt":
            u = self.unify(a, b[1])
            return OPT(u) if u else None
        if a[0] == "list" and b[0] == "list":
            if a[1] is None:
                return b
            if b[1] is None:
                return a
            u = self.unify(a[1], b[1])
            return LIST(u) if u else None
        if a[0] == "tuple" and b[0] == "tuple" and len(a[1]) == len(b[1]):
            us = [self.unify(x, y) for x, y in zip(a[1], b[1])]
            return TUP(*us) if all(us) else None
        if a[0] == "rec" and b[0] == "rec":
            if (a[1], b[1]) in REC_COERCIONS:
                return b
            if (b[1], a[1]) in REC_COERCIONS:
                return a
        return None

    def coerce(self, lean, frm, to, node=None):
        if frm == to:
            return lean
        if frm == LIT and to in (INT, NAT):
            return lean
        if frm == NAT and to == INT:
            return "(Int.ofNat %s)" % lean
        if frm == NONE and to[0] == "opt":
            return "none"
        if to[0] == "opt" and frm[0] != "opt":
            return "(some %s)" % self.coerce(lean, frm, to[1], node)
        if to[0] == "opt" and frm[0] == "opt":
            if self.unify(frm[1], to[1]) == to[1] and frm[1] in (LIT,):
                return lean
            if frm[1] == NAT and to[1] == INT:
                return "(%s.map Int.ofNat)" % lean
        if to[0] == "list" and frm[0] == "list" and (frm[1] is None or frm[1] == to[1]):
            return lean
        if to == DYN:
            # a statically typed value stored where only the run-time type is known
            if frm in (NAT, LIT):
                return "(FV.nat %s)" % lean
            if frm == STR:
                return "(FV.str %s)" % lean
            if frm == NONE:
                return "FV.none"
            if frm == OPT(NAT):
                return "(match %s with | some n => FV.nat n | none => FV.none)" % lean
        if to[0] == "rec" and frm[0] == "rec":
            if (frm[1], to[1]) in REC_COERCIONS:
                return "(" + REC_COERCIONS[(frm[1], to[1])] % lean + ")"
            return self.project_record(lean, frm[1], to[1], node)
        if to[0] == "tuple" and frm[0] == "tuple" and len(to[1]) == len(frm[1]):
            n = len(to[1])
            projs = ["p" + ".2" * i + (".1" if i < n - 1 else "") for i in range(n)]
            parts = [self.coerce(p, a, b, node) for p, a, b in zip(projs, frm[1], to[1])]
            if parts == projs:
                return lean          # every component is used as it is
            return "(let p := %s; (%s))" % (lean, ", ".join(parts))
        self.bad(node, "cannot use a value of type %r where %r is expected" % (frm, to))

    def project_record(self, lean, frm, to, node):
        """duck typing: a record with (at least) the python fields of `to`, of the same types, used where
        `to` is expected (e.g. a V2VersionInfo passed to `_is_cal_gt`): projected field by field"""
        rf, rt = self.record(frm), self.record(to)
        items = []
        for f, path, ft in rt["fields"]:
            hit = [x for x in rf["fields"] if x[0] == f]
            if not hit or hit[0][2] != ft:
                self.bad(node, "a %s cannot be used as a %s: field `%s` is missing or has another type" % (frm, to, f))
            items.append("%s := %s.%s" % (path, lean, hit[0][1]))
        return "({ " + ", ".join(items) + " } : %s)" % rt["lean"]

    # -- names --------------------------------------------------------------------------
    def fresh(self, base):
        self.counter += 1
        return "%s_%d" % (lean_ident(base).rstrip("_") if base in LEAN_KEYWORDS else base, self.counter)

    # -- expressions ----------------------------------------------------------------------
    def expr(self, node, env):
        """-> (lean text, static type)"""
        spec = self.spec
        # free expressions abstracted as parameters
        ext = spec.get("externs", {})
        if isinstance(node, (ast.Call, ast.Attribute, ast.Name)):
            key = ast.unparse(node)
            if key in ext and not (isinstance(node, ast.Name) and node.id in env):
                if ext[key][1][0] == "exc":
                    # the abstracted expression may raise: its value is an `Except`, evaluated here
                    return self.add_hoist(node, "v", ext[key][0]), ext[key][1][1]
                return ext[key][0], ext[key][1]

        if isinstance(node, ast.Constant):
            v = node.value
            if v is None:
                return "none", NONE
            if isinstance(v, bool):
                return ("true" if v else "false"), BOOL
            if isinstance(v, int):
                if v < 0:
                    return "(%d)" % v, INT
                return str(v), LIT
            if isinstance(v, str):
                return lean_str(v), STR
            self.bad(node, "constant of type %s" % type(v).__name__)

        if isinstance(node, ast.Name):
            if node.id not in env:
                self.bad(node, "unknown name `%s`" % node.id)
            v = env[node.id]
            return v.lean, v.type

        if isinstance(node, ast.Attribute):
            val, t = self.expr(node.value, env)
            if t[0] != "rec":
                self.bad(node, "attribute access on a value of type %r" % (t,))
            r = self.record(t[1])
            for f, path, ft in r["fields"]:
                if f == node.attr:
                    return "%s.%s" % (val, path), ft
            self.bad(node, "record %s has no (modelled) field `%s`" % (t[1], node.attr))

        if isinstance(node, ast.Subscript):
            if ast.unparse(node.value) in TABLES and not self.shadowed(node.value, env):
                # GENERATED table[key]: KeyError when the key is missing
                k, tk = self.expr(node.slice, env)
                if tk != STR:
                    self.bad(node, "table subscript with a key of type %r" % (tk,))
                if not self.exc:
                    self.bad(node, "a KeyError needs a function with `exc`")
                v = self.add_hoist(node, "v", "(lookup %s %s)" % (k, TABLES[ast.unparse(node.value)]),
                                   ("option", EXCEPTIONS["KeyError"]))
                return v, STR
            val, t = self.expr(node.value, env)
            if t[0] == "dict":
                k, tk = self.expr(node.slice, env)
                if tk != t[1]:
                    self.bad(node, "dict subscript with a key of type %r" % (tk,))
                if not self.exc:
                    self.bad(node, "a KeyError needs a function with `exc`")
                v = self.add_hoist(node, "v", "(lookup %s %s)" % (k, val), ("option", EXCEPTIONS["KeyError"]))
                return v, t[2]
            if t[0] != "tuple" or not (isinstance(node.slice, ast.Constant) and isinstance(node.slice.value, int)):
                self.bad(node, "only constant subscripts of known tuples are supported")
            i, n = node.slice.value, len(t[1])
            if i < 0:
                i += n
            if not 0 <= i < n:
                self.bad(node, "tuple index out of range")
            path = ".2" * i + (".1" if i < n - 1 else "")
            return "%s%s" % (val, path), t[1][i]

        if isinstance(node, ast.Tuple):
            parts = [self.expr(e, env) for e in node.elts]
            if len(parts) < 2:
                self.bad(node, "tuples of fewer than two elements")
            return "(" + ", ".join(p for p, _ in parts) + ")", TUP(*[t for _, t in parts])

        if isinstance(node, ast.List):
            return self.list_literal(node, env)

        if isinstance(node, ast.Compare):
            return self.compare(node, env), BOOL

        if isinstance(node, ast.BoolOp):
            parts = [self.expr(node.values[0], env)] + [self.no_hoists(lambda v=v: self.expr(v, env)) for v in node.values[1:]]
            if any(t != BOOL for _, t in parts):
                self.bad(node, "`and`/`or` used as a VALUE needs bool operands (in a test position any type is fine)")
            op = " && " if isinstance(node.op, ast.And) else " || "
            return "(" + op.join(p for p, _ in parts) + ")", BOOL

        if isinstance(node, ast.UnaryOp):
            if isinstance(node.op, ast.Not):
                return "(!%s)" % self.truthy(node.operand, env), BOOL
            if isinstance(node.op, ast.USub):
                val, t = self.expr(node.operand, env)
                if not is_intlike(t):
                    self.bad(node, "unary minus on %r" % (t,))
                return "(-%s)" % self.coerce(val, t, INT), INT
            self.bad(node, "unary operator %s" % type(node.op).__name__)

        if isinstance(node, ast.BinOp):
            return self.binop(node, env)

        if isinstance(node, ast.IfExp):
            return self.ifexp(node, env)

        if isinstance(node, ast.Call):
            return self.call(node, env)

        self.bad(node, "expression form %s is outside the subset" % type(node).__name__)

    def shadowed(self, node, env):
        """the head name of a dotted expression is a local variable (then it is not the module / table)"""
        while isinstance(node, ast.Attribute):
            node = node.value
        return isinstance(node, ast.Name) and node.id in env

    def need_import(self, mod):
        if mod not in self.spec.get("imports", []) and mod not in self.extra_imports:
            self.extra_imports.append(mod)

    def dyn_view(self, t, node, what):
        """the generated run-time views (getattr by name / _asdict / Rec(**d)) of a record type"""
        if t[0] != "rec" or not RECORDS[t[1]].get("dyn"):
            self.bad(node, "%s needs a record with generated run-time views, not %r" % (what, t))
        if not self.exc:
            self.bad(node, "%s needs a function with `exc`" % what)
        self.record(t[1])
        self.need_import("BumpverVerif.Gen.%s" % RECORDS[t[1]]["dyn"])
        return t[1]

    def list_literal(self, node, env):
        parts = [self.expr(e, env) for e in node.elts]
        if not parts:
            return "[]", LIST(None)
        t = parts[0][1]
        for _, t2 in parts[1:]:
            t = self.unify(t, t2)
            if t is None:
                self.bad(node, "list literal with elements of different types")
        if t == LIT:
            t = INT
        return "[" + ", ".join(self.coerce(p, pt, t, node) for p, pt in parts) + "]", LIST(t)

    def binop(self, node, env):
        a, ta = self.expr(node.left, env)
        b, tb = self.expr(node.right, env)
        op = node.op
        if isinstance(op, ast.Add) and ta == STR and tb == STR:
            return "(%s ++ %s)" % (a, b), STR
        if isinstance(op, ast.Add) and ta[0] == "list" and tb[0] == "list":
            u = self.unify(ta, tb)
            if u is None:
                self.bad(node, "concatenation of lists of different types")
            return "(%s ++ %s)" % (a, b), u
        if not (is_intlike(ta) and is_intlike(tb)):
            self.bad(node, "arithmetic on %r and %r" % (ta, tb))
        t = self.unify(ta, tb)
        if isinstance(op, ast.Sub):
            # Nat subtraction truncates: only Int is faithful
            t = INT
        if t == LIT and not isinstance(op, ast.Sub):
            t = LIT
        a, b = self.coerce(a, ta, t if t != LIT else LIT), self.coerce(b, tb, t if t != LIT else LIT)
        if isinstance(op, ast.Add):
            return "(%s + %s)" % (a, b), t
        if isinstance(op, ast.Sub):
            return "(%s - %s)" % (a, b), INT
        if isinstance(op, ast.Mult):
            return "(%s * %s)" % (a, b), t
        if isinstance(op, ast.FloorDiv):
            if t == INT:
                return "(Int.fdiv %s %s)" % (a, b), INT      # Python floor division
            return "(%s / %s)" % (a, b), t                    # Nat: floor = truncation
        self.bad(node, "binary operator %s" % type(op).__name__)

    def ifexp(self, node, env):
        # a call that can raise must not be hoisted out of a branch (it would be evaluated eagerly)
        saved_h, self.hoists = self.hoists, None
        try:
            return self.ifexp1(node, env)
        finally:
            self.hoists = saved_h

    def ifexp1(self, node, env):
        # probe the two branches for their types
        saved = self.counter
        types = []

        def probe(n):
            def k(e):
                _, t = self.expr(n, e)
                types.append(t)
                return "?"
            return k
        self.cond(node.test, env, probe(node.body), probe(node.orelse))
        self.counter = saved
        t = types[0]
        for t2 in types[1:]:
            t = self.unify(t, t2) if t is not None else None
        if t is None:
            # the branches have different static types: fine where the CONTEXT fixes the type and each branch can
            # be used there (`d[k] = int(v) if v.isdigit() else v` with a dict of run-time values)
            exp = getattr(self, "expect_type", None)
            if exp is None:
                self.bad(node, "the branches of the conditional expression have different types")
            t = exp
        if t == LIT:
            t = INT

        def branch(n):
            def k(e):
                v, vt = self.expr(n, e)
                return self.coerce(v, vt, t, n)
            return k
        return self.cond(node.test, env, branch(node.body), branch(node.orelse)), t

    def compare(self, node, env):
        operands = [node.left] + list(node.comparators)
        parts = []
        for i, op in enumerate(node.ops):
            if i == 0:
                parts.append(self.compare1(op, operands[i], operands[i + 1], env, node))
            else:       # `a < b < c` evaluates c only when a < b
                parts.append(self.no_hoists(lambda i=i, op=op: self.compare1(op, operands[i], operands[i + 1], env, node)))
        if len(parts) == 1:
            return parts[0]
        return "(" + " && ".join(parts) + ")"

    def compare1(self, op, ln, rn, env, node):
        if isinstance(op, (ast.Is, ast.IsNot)):
            if not (isinstance(rn, ast.Constant) and (rn.value is None or isinstance(rn.value, bool))):
                self.bad(node, "`is` is supported against None/True/False only")
            a, ta = self.expr(ln, env)
            neg = isinstance(op, ast.IsNot)
            if rn.value is None:
                if ta == NONE:
                    return "false" if neg else "true"
                if ta[0] != "opt":
                    return "true" if neg else "false"
                return "(%s %s none)" % (a, "!=" if neg else "==")
            c = "true" if rn.value else "false"
            if ta == BOOL:
                return "(%s %s %s)" % (a, "!=" if neg else "==", c)
            if ta == OPT(BOOL):
                return "(%s %s some %s)" % (a, "!=" if neg else "==", c)
            self.bad(node, "`is %s` on a value of type %r" % (rn.value, ta))

        if isinstance(op, (ast.In, ast.NotIn)):
            a, ta = self.expr(ln, env)
            neg = "!" if isinstance(op, ast.NotIn) else ""
            if ast.unparse(rn) in TABLES and not self.shadowed(rn, env):
                if ta != STR:
                    self.bad(node, "`in` on %r and a str table" % (ta,))
                return "(%s(lookup %s %s).isSome)" % (neg, a, TABLES[ast.unparse(rn)])
            if isinstance(rn, ast.Tuple):
                # membership in a tuple LITERAL: the same as in the list literal of its elements
                b, tb = self.list_literal(rn, env)
            else:
                b, tb = self.expr(rn, env)
            if tb[0] == "dict":
                if ta != tb[1]:
                    self.bad(node, "`in` on %r and %r" % (ta, tb))
                self.need_import("BumpverVerif.Gen.F_PyPrelude")
                return "(%sBV.GenF.dictHas %s %s)" % (neg, a, b)
            if ta == STR and tb == STR:
                return "(%sisInfix %s %s)" % (neg, a, b)
            if tb[0] == "list":
                et = tb[1]
                if et is None:
                    return "true" if neg else "false"
                return "(%sList.elem %s %s)" % (neg, self.coerce(a, ta, et, node), b)
            self.bad(node, "`in` on %r and %r" % (ta, tb))

        a, ta = self.expr(ln, env)
        b, tb = self.expr(rn, env)
        if isinstance(op, (ast.Eq, ast.NotEq)):
            t = self.unify(ta, tb)
            if t is None:
                self.bad(node, "`==` on values of different types %r and %r" % (ta, tb))
            if t == LIT:
                t = INT
            if t[0] in ("opaque", "proj"):
                self.bad(node, "`==` on opaque values")
            return "(%s %s %s)" % (self.coerce(a, ta, t, node), "!=" if isinstance(op, ast.NotEq) else "==",
                                   self.coerce(b, tb, t, node))
        sym = {ast.Lt: "<", ast.LtE: "≤", ast.Gt: ">", ast.GtE: "≥"}.get(type(op))
        if sym is None:
            self.bad(node, "comparison operator %s" % type(op).__name__)
        t = self.unify(ta, tb)
        if t is not None and is_intlike(t):
            if t == LIT:
                t = INT
            return "(decide (%s %s %s))" % (self.coerce(a, ta, t, node), sym, self.coerce(b, tb, t, node))
        if t == STR:
            return {"<": "(strLt %s %s)" % (a, b), ">": "(strLt %s %s)" % (b, a),
                    "≤": "(!strLt %s %s)" % (b, a), "≥": "(!strLt %s %s)" % (a, b)}[sym]
        if t is not None and t[0] == "list" and t[1] in (NAT, None):
            # Python's lexicographic list comparison (model primitives lexLt / lexLe)
            return {"<": "(lexLt %s %s)" % (a, b), ">": "(lexLt %s %s)" % (b, a),
                    "≤": "(lexLe %s %s)" % (a, b), "≥": "(lexLe %s %s)" % (b, a)}[sym]
        self.bad(node, "ordering comparison on %r and %r" % (ta, tb))

    def callee_spec(self, fname):
        """the signature-table entry of a TRANSLATED function called as `name(...)` (same file) or
        `module.name(...)`"""
        for cs in FUNCS:
            if cs is self.spec or cs.get("name") == self.spec.get("name"):
                continue
            if (fname == cs["func"] and cs["file"] == self.spec.get("file")) or fname == cs["file"][:-3] + "." + cs["func"]:
                return cs
        return None

    def expand_star_kwargs(self, node, env):
        """`f(**r._asdict())` with `r` a variable holding a record all of whose fields are modelled is
        `f(k1=r.k1, ..., kn=r.kn)` (the fields in class order); other `**` arguments are left alone"""
        kws = []
        for kw in node.keywords:
            v = kw.value
            if (kw.arg is None and isinstance(v, ast.Call) and isinstance(v.func, ast.Attribute)
                    and v.func.attr == "_asdict" and not v.args and not v.keywords
                    and isinstance(v.func.value, ast.Name) and v.func.value.id in env
                    and env[v.func.value.id].type[0] == "rec"):
                r = self.record(env[v.func.value.id].type[1])
                modelled = [x[0] for x in r["fields"]]
                if r["pyorder"] != modelled:
                    continue      # unmodelled fields: no static expansion
                for f_ in r["pyorder"]:
                    a = ast.Attribute(value=ast.Name(id=v.func.value.id, ctx=ast.Load()), attr=f_, ctx=ast.Load())
                    kws.append(ast.copy_location(ast.keyword(arg=f_, value=a), kw))
            else:
                kws.append(kw)
        new = ast.Call(func=node.func, args=node.args, keywords=kws)
        ast.copy_location(new, node)
        ast.fix_missing_locations(new)
        return new

    def bind_arguments(self, node, pnames, what):
        """{parameter: argument node} of a call with positional and keyword arguments"""
        if any(isinstance(a, ast.Starred) for a in node.args) or any(kw.arg is None for kw in node.keywords):
            self.bad(node, "`*`/`**` arguments in a call of %s" % what)
        if len(node.args) > len(pnames):
            self.bad(node, "too many arguments for %s" % what)
        actual = dict(zip(pnames, node.args))
        for kw in node.keywords:
            if kw.arg not in pnames or kw.arg in actual:
                self.bad(node, "bad keyword argument `%s` for %s" % (kw.arg, what))
            actual[kw.arg] = kw.value
        missing = [p_ for p_ in pnames if p_ not in actual]
        if missing:
            self.bad(node, "no argument for %s of %s (defaults of a callee are not applied)" % (missing, what))
        return actual

    def spec_raises(self, cs):
        """does a translated callee WITHOUT `exc` return an Option (`none` = ValueError)?"""
        _, n = self.src.find(cs["file"], ast.FunctionDef, cs["func"])
        if n is None:
            self.bad(None, "callee %s not found" % cs["func"])
        return any(isinstance(x, ast.Raise) for x in ast.walk(n)) or self.contains_exit_calls(n)

    def extern_value(self, sub, et, env, node):
        """the value, in the caller, of an expression that the CALLEE abstracts as a parameter (the callee's
        parameters are already replaced by the actual arguments in `sub`)"""
        key = ast.unparse(sub)
        for n in ast.walk(sub):
            if isinstance(n, ast.Name) and n.id in env and self.params.get(n.id) is not env[n.id]:
                self.bad(node, "the abstracted expression `%s` of the callee mentions `%s`, which is not an "
                               "unmodified parameter here" % (key, n.id))
        mine = self.spec.get("externs", {})
        if key in mine:
            ln, t = mine[key]
            if t == et:
                return ln
            if et[0] == "exc" and t == et[1]:
                return "(Except.ok %s)" % ln
            self.bad(node, "the abstracted expression `%s` has type %r here and %r in the callee" % (key, t, et))
        if et[0] == "exc":
            # handed over UNEVALUATED (as the `Except` value): the callee decides when it is evaluated
            if isinstance(sub, ast.Call) and ast.unparse(sub.func) in self.spec.get("abstract", []):
                v, t = self.call_abstract(sub, ast.unparse(sub.func), env, as_value=True)
                if t != et[1]:
                    self.bad(node, "the abstracted expression `%s` has type %r, the callee expects %r" % (key, t, et[1]))
                return v
            v, t = self.no_hoists(lambda: self.expr(sub, env))
            return "(Except.ok %s)" % self.coerce(v, t, et[1], node)
        v, t = self.no_hoists(lambda: self.expr(sub, env))
        return self.coerce(v, t, et, node)

    def call_translated(self, node, cs, env):
        what = "`%s`" % cs["func"]
        actual = self.bind_arguments(node, [p_ for p_, _ in cs["params"]], what)
        args = []
        for p_, pt in cs["params"]:
            v, vt = self.expr(actual[p_], env)
            args.append(self.coerce(v, vt, pt, actual[p_]))
        for key, (ln, et) in cs.get("externs", {}).items():
            tree = ast.parse(key, mode="eval").body

            class Subst(ast.NodeTransformer):
                def visit_Name(self_, n):
                    return actual[n.id] if n.id in actual else n
            sub = Subst().visit(tree)
            ast.copy_location(sub, node)
            ast.fix_missing_locations(sub)
            args.append(self.extern_value(sub, et, env, node))
        self.need_import("BumpverVerif.Gen.F_%s" % cs["name"])
        app = "(BV.GenF.%s %s)" % (cs["name"], " ".join(args))
        if cs.get("exc"):
            if not self.exc:
                self.bad(node, "%s can raise: the caller needs `exc`" % what)
            return self.add_hoist(node, "v", app), cs["ret"]
        if self.spec_raises(cs):
            return self.add_hoist(node, "v", app, ("option", EXCEPTIONS["ValueError"]) if self.exc else None), cs["ret"]
        return app, cs["ret"]

    def call_abstract(self, node, fname, env, as_value=False):
        """a call abstracted as a MODEL function / trusted primitive (`ABSTRACT_CALLS`)"""
        d = ABSTRACT_CALLS[fname]
        if node.keywords or len(node.args) != len(d["params"]) or any(isinstance(a, ast.Starred) for a in node.args):
            self.bad(node, "`%s` is abstracted with exactly %d positional argument(s)" % (fname, len(d["params"])))
        args = []
        for a, pt in zip(node.args, d["params"]):
            v, vt = self.expr(a, env)
            args.append(self.coerce(v, vt, pt, a))
        tmpl = d["lean"]
        while "{ext:" in tmpl:
            i = tmpl.index("{ext:")
            j = tmpl.index("}", i)
            key = tmpl[i + 5:j]
            if key not in self.spec.get("externs", {}):
                self.bad(node, "the abstraction of `%s` needs `%s` as a parameter" % (fname, key))
            tmpl = tmpl[:i] + self.spec["externs"][key][0] + tmpl[j + 1:]
        lets = []
        for i, v in enumerate(args):
            if tmpl.count("{%d}" % i) > 1 and not v.replace("_", "a").isalnum():
                n = self.fresh("a")
                lets.append((n, v))
                args[i] = n
        app = tmpl.format(*args)
        for n, v in reversed(lets):
            app = "(let %s := %s; %s)" % (n, v, app)
        if d.get("exc"):
            if not self.exc:
                self.bad(node, "`%s` can raise: the caller needs `exc`" % fname)
            if as_value:
                return app, d["ret"]
            return self.add_hoist(node, "v", app), d["ret"]
        if d.get("option"):
            if not self.exc:
                self.bad(node, "`%s` can raise: the caller needs `exc`" % fname)
            if as_value:
                return "(match %s with | none => Except.error %s | some x => Except.ok x)" % (app, EXCEPTIONS[d["option"]]), d["ret"]
            return self.add_hoist(node, "v", app, ("option", EXCEPTIONS[d["option"]])), d["ret"]
        if as_value:
            return "(Except.ok %s)" % app, d["ret"]
        return app, d["ret"]

    def call(self, node, env):
        f = node.func
        fname = ast.unparse(f)
        if any(kw.arg is None for kw in node.keywords):
            node = self.expand_star_kwargs(node, env)
        head_free = not self.shadowed(f, env)
        cs = self.callee_spec(fname) if head_free else None
        if cs is not None:
            return self.call_translated(node, cs, env)
        if head_free and fname in ABSTRACT_CALLS and fname in self.spec.get("abstract", []):
            return self.call_abstract(node, fname, env)
        if node.keywords and not (isinstance(f, ast.Attribute) and f.attr == "_replace") \
                and fname not in CONSTRUCTORS:
            self.bad(node, "keyword arguments")
        # any / all over a generator
        if fname in ("any", "all") and len(node.args) == 1 and isinstance(node.args[0], (ast.GeneratorExp, ast.ListComp)):
            g = node.args[0]
            if len(g.generators) != 1 or g.generators[0].ifs or g.generators[0].is_async:
                self.bad(node, "only `any(e for x in xs)` with one plain generator")
            gen = g.generators[0]
            if not isinstance(gen.target, ast.Name):
                self.bad(node, "generator target must be a name")
            if isinstance(gen.iter, ast.Tuple):
                xs, txs = self.list_literal(gen.iter, env)     # iterating a tuple LITERAL = the list of its elements
            else:
                xs, txs = self.expr(gen.iter, env)
            if txs[0] != "list" or txs[1] is None:
                self.bad(node, "generator over a value of type %r" % (txs,))
            x = lean_ident(gen.target.id)
            env2 = dict(env)
            env2[gen.target.id] = Var(x, txs[1])
            saved_h, self.hoists = self.hoists, None     # nothing is hoisted out of the generator
            try:
                body = self.cond(g.elt, env2, lambda e: "true", lambda e: "false", as_bool=True)
            finally:
                self.hoists = saved_h
            return "(List.%s %s (fun %s => %s))" % (fname, xs, x, body), BOOL
        if fname == "int" and len(node.args) == 1:
            a, ta = self.expr(node.args[0], env)
            if is_intlike(ta):
                return a, ta
            if ta == STR and self.exc:
                arg = node.args[0]
                if isinstance(arg, ast.Name) and arg.id in env and env[arg.id].digits:
                    return "(strToNat %s)" % a, NAT          # inside `if s.isdigit():` int(s) cannot raise
                # ValueError unless `s` is a non-empty string of ASCII digits (F_PyPrelude.pyInt)
                self.need_import("BumpverVerif.Gen.F_PyPrelude")
                return self.add_hoist(node, "v", "(BV.GenF.pyInt %s)" % a), NAT
            if ta == STR:
                # int(s) for a string of ASCII digits (the callers' regexes guarantee that)
                return "(strToNat %s)" % a, NAT
            self.bad(node, "int() of a value of type %r (would raise TypeError for None)" % (ta,))
        if fname == "str" and len(node.args) == 1 and not node.keywords and "str" not in env:
            a, ta = self.expr(node.args[0], env)
            if ta == STR:
                return a, STR
            if ta in (NAT, LIT):
                return "(natToStr %s)" % a, STR              # decimal digits, no sign (model `natToStr`)
            self.bad(node, "str() of a value of type %r" % (ta,))
        if fname == "dict" and len(node.args) == 1 and not node.keywords and "dict" not in env:
            a, ta = self.expr(node.args[0], env)
            if ta[0] == "list" and ta[1] is not None and ta[1][0] == "tuple" and len(ta[1][1]) == 2 and ta[1][1][0] == STR:
                self.need_import("BumpverVerif.Gen.F_PyPrelude")
                return "(BV.GenF.dictOfList %s)" % a, DICT(STR, ta[1][1][1])
            if ta[0] == "dict":
                return a, ta                                  # a copy of an immutable value
            self.bad(node, "dict() of a value of type %r (only a list / generator of (str, value) pairs)" % (ta,))
        if fname == "len" and len(node.args) == 1:
            a, ta = self.expr(node.args[0], env)
            if ta == STR or ta[0] == "list":
                return "%s.length" % a, NAT
            self.bad(node, "len() of %r" % (ta,))
        if fname == "getattr" and len(node.args) == 2:
            a, ta = self.expr(node.args[0], env)
            if isinstance(node.args[1], ast.Constant) and isinstance(node.args[1].value, str):
                return self.expr(ast.copy_location(ast.Attribute(value=node.args[0], attr=node.args[1].value, ctx=ast.Load()), node), env)
            fld, tf = self.expr(node.args[1], env)
            if tf[0] == "proj" and ta == REC(tf[1]):
                return "(%s %s)" % (fld, a), tf[2]
            if tf == STR and ta[0] == "rec" and RECORDS[ta[1]].get("dyn") and self.exc:
                # the field NAME is a run-time string: the generated `getattr<Rec>` (AttributeError for an
                # unknown name); the value's type is only known at run time
                rn = self.dyn_view(ta, node, "getattr with a run-time name")
                return self.add_hoist(node, "v", "(BV.GenF.getattr%s %s %s)" % (rn, a, fld)), DYN
            self.bad(node, "getattr needs a constant field name or the loop variable of a loop over the record's `_fields`")
        if fname in CONSTRUCTORS:
            kind, name = CONSTRUCTORS[fname]
            if kind == "rec" and len(node.keywords) == 1 and node.keywords[0].arg is None and not node.args:
                # Rec(**d) with a run-time dict: the generated `ofdict<Rec>` (TypeError for a missing or
                # unexpected key)
                d_, td = self.expr(node.keywords[0].value, env)
                if td != DICT(STR, DYN):
                    self.bad(node, "`%s(**d)` needs a dict of run-time values, not %r" % (fname, td))
                rn = self.dyn_view(REC(name), node, "`%s(**d)`" % fname)
                return self.add_hoist(node, "v", "(BV.GenF.ofdict%s %s)" % (rn, d_)), REC(name)
            if kind == "rec":
                r = self.record(name)
                fields = r["fields"]
                if not r.get("exact"):
                    self.bad(node, "the constructor of a record with unmodelled fields")
                if len(node.args) + len(node.keywords) != len(fields):
                    self.bad(node, "constructor needs all %d fields" % len(fields))
                vals = {}
                for (f_, path, ft), a in zip(fields, node.args):
                    vals[f_] = a
                for kw in node.keywords:
                    if kw.arg is None or kw.arg in vals or kw.arg not in [x for x, _, _ in fields]:
                        self.bad(node, "bad keyword `%s`" % kw.arg)
                    vals[kw.arg] = kw.value
                items = []
                for f_, path, ft in fields:
                    v, vt = self.expr(vals[f_], env)
                    items.append("%s := %s" % (path, self.coerce(v, vt, ft, vals[f_])))
                return "({ " + ", ".join(items) + " } : %s)" % r["lean"], REC(name)
            if kind == "enum":
                self.enum(name)
                if len(node.args) != 1:
                    self.bad(node, "enum constructor takes one value")
                a, ta = self.expr(node.args[0], env)
                if ta != STR:
                    self.bad(node, "enum constructor on a value of type %r" % (ta,))
                v = self.add_hoist(node, "v", "(%s.ofValue %s)" % (name, a),
                                   ("option", EXCEPTIONS["ValueError"]) if self.exc else None)
                return v, ENUM(name)
        if isinstance(f, ast.Attribute) and ast.unparse(f.value) in TABLES and not self.shadowed(f.value, env):
            # a GENERATED str -> str table
            tb = TABLES[ast.unparse(f.value)]
            if f.attr == "get" and len(node.args) == 1 and not node.keywords:
                k_, tk_ = self.expr(node.args[0], env)
                if tk_ != STR:
                    self.bad(node, "table lookup with a key of type %r" % (tk_,))
                return "(lookup %s %s)" % (k_, tb), OPT(STR)
            self.bad(node, "method `%s` of a generated table (only `.get(key)`, `[key]`, `key in`)" % f.attr)
        if isinstance(f, ast.Attribute):
            recv, tr = self.expr(f.value, env)
            m = f.attr
            if tr[0] == "dict" and not node.keywords:
                if m == "items" and not node.args:
                    return recv, LIST(TUP(tr[1], tr[2]))      # insertion order
                if m == "keys" and not node.args:
                    return "(List.map Prod.fst %s)" % recv, LIST(tr[1])
                if m == "values" and not node.args:
                    return "(List.map Prod.snd %s)" % recv, LIST(tr[2])
                if m == "get" and len(node.args) == 1:
                    k_, tk_ = self.expr(node.args[0], env)
                    if tk_ != tr[1]:
                        self.bad(node, "dict lookup with a key of type %r" % (tk_,))
                    return "(lookup %s %s)" % (k_, recv), OPT(tr[2])
                self.bad(node, "dict method `%s`" % m)
            if m == "_asdict" and tr[0] == "rec" and not node.args and not node.keywords:
                rn = self.dyn_view(tr, node, "`_asdict()` (other than `f(**r._asdict())`)")
                return "(BV.GenF.asdict%s %s)" % (rn, recv), DICT(STR, DYN)
            if m == "isdigit" and tr == STR and not node.args and not node.keywords:
                return "(isDigitStr %s)" % recv, BOOL        # ASCII digits only (model `isDigitStr`)
            if m == "lower" and tr == STR and not node.args:
                return "(lowerStr %s)" % recv, STR          # ASCII lower-casing (Model/Pep440.lowerStr)
            if m == "replace" and tr == STR and len(node.args) == 2:
                a, ta = self.expr(node.args[0], env)
                b, tb = self.expr(node.args[1], env)
                if ta != STR or tb != STR:
                    self.bad(node, "str.replace with non-str arguments")
                if not (isinstance(node.args[0], ast.Constant) and node.args[0].value != ""):
                    self.bad(node, "str.replace needs a non-empty literal pattern")
                return "(replaceAll %s %s %s)" % (a, b, recv), STR
            if m == "_replace" and tr[0] == "rec" and not node.args:
                r = self.record(tr[1])
                items = []
                for kw in node.keywords:
                    if kw.arg is None:
                        self.bad(node, "`_replace(**d)` (only `_replace(**r._asdict())` with `r` a record variable)")
                    hit = [x for x in r["fields"] if x[0] == kw.arg]
                    if not hit:
                        self.bad(node, "_replace of unknown field `%s`" % kw.arg)
                    v, vt = self.expr(kw.value, env)
                    items.append("%s := %s" % (hit[0][1], self.coerce(v, vt, hit[0][2], kw.value)))
                return "{ %s with %s }" % (recv, ", ".join(items)), tr
            self.bad(node, "method `%s` on a value of type %r" % (m, tr))
        self.bad(node, "call of `%s` is not in the whitelist" % fname)

    # -- truthiness ------------------------------------------------------------------------
    def truthy_of(self, lean, t, node):
        k = t[0]
        if t == BOOL:
            return lean
        if t == NONE:
            return "false"
        if t == STR or k == "list":
            return "(!%s.isEmpty)" % lean
        if is_intlike(t):
            return "(%s != 0)" % lean
        if k == "opt":
            inner = t[1]
            if inner == BOOL:
                return "(%s == some true)" % lean
            if inner == STR or inner[0] == "list":
                return "(%s != none && %s != some [])" % (lean, lean)
            if is_intlike(inner):
                return "(%s != none && %s != some 0)" % (lean, lean)
            if inner[0] in ("rec", "tuple"):
                return "(%s != none)" % lean
        if k in ("rec", "tuple"):
            return "true"
        self.bad(node, "truthiness of a value of type %r is not defined in the subset" % (t,))

    def truthy(self, node, env):
        """a Lean Bool: the Python truth value of `node` (no narrowing)"""
        if isinstance(node, ast.BoolOp):
            op = " && " if isinstance(node.op, ast.And) else " || "
            return "(" + op.join([self.truthy(node.values[0], env)]
                                 + [self.no_hoists(lambda v=v: self.truthy(v, env)) for v in node.values[1:]]) + ")"
        if isinstance(node, ast.UnaryOp) and isinstance(node.op, ast.Not):
            return "(!%s)" % self.truthy(node.operand, env)
        v, t = self.expr(node, env)
        return self.truthy_of(v, t, node)

    # -- conditions with narrowing --------------------------------------------------------
    def narrowing_atom(self, node, env, top=False):
        """`x is None` / `x is not None` / bare `x` on an Optional variable (a bare Optional[bool]
        only when it is the WHOLE test: inside and/or it is rendered as `x == some true`)"""
        if isinstance(node, ast.Compare) and len(node.ops) == 1 and isinstance(node.ops[0], (ast.Is, ast.IsNot)):
            c = node.comparators[0]
            if (isinstance(c, ast.Constant) and c.value is None and isinstance(node.left, ast.Name)
                    and node.left.id in env and env[node.left.id].type[0] == "opt"):
                return "isnot" if isinstance(node.ops[0], ast.IsNot) else "is"
        if isinstance(node, ast.Name) and node.id in env:
            t = env[node.id].type
            if t[0] == "opt" and (t[1] != BOOL or top):
                return "truthy"
        if (self.exc and isinstance(node, ast.Call) and isinstance(node.func, ast.Attribute) and node.func.attr == "isdigit"
                and not node.args and not node.keywords and isinstance(node.func.value, ast.Name)
                and node.func.value.id in env and env[node.func.value.id].type == STR):
            return "isdigit"          # `s.isdigit()` on a str VARIABLE: int(s) cannot raise where it holds
        return None

    def needs_split(self, node, env):
        if isinstance(node, ast.BoolOp):
            return any(self.needs_split(v, env) for v in node.values)
        if isinstance(node, ast.UnaryOp) and isinstance(node.op, ast.Not):
            return self.needs_split(node.operand, env)
        return self.narrowing_atom(node, env) is not None

    def cond(self, test, env, tk, ek, as_bool=False, top=True):
        """Lean term: `tk(env')` when `test` is truthy, else `ek(env')`; the environments carry the
        narrowing (`x is not None` => x : T) into the continuations."""
        if isinstance(test, ast.UnaryOp) and isinstance(test.op, ast.Not):
            if as_bool and not self.needs_split(test, env):
                return self.truthy(test, env)
            return self.cond(test.operand, env, ek, tk, top=top)
        if isinstance(test, ast.BoolOp) and self.needs_split(test, env):
            first, rest = test.values[0], test.values[1:]
            more = rest[0] if len(rest) == 1 else ast.copy_location(ast.BoolOp(op=test.op, values=rest), test)
            # (the statements inside tk/ek open their own hoisting scopes; a raising call in `more` itself
            #  must not be hoisted above the test of `first`)
            def more_k(e):
                saved, self.hoists = self.hoists, None
                try:
                    return self.cond(more, e, tk, ek, top=False)
                finally:
                    self.hoists = saved
            if isinstance(test.op, ast.And):
                return self.cond(first, env, more_k, ek, top=False)
            return self.cond(first, env, tk, more_k, top=False)
        atom = self.narrowing_atom(test, env, top=top and not as_bool)
        if atom == "isdigit":
            var = env[test.func.value.id]
            b = "(isDigitStr %s)" % var.lean
            if as_bool:
                return b
            env2 = dict(env)
            env2[test.func.value.id] = Var(var.lean, STR, narrowed_from=var, digits=True)
            return "(if %s then %s else %s)" % (b, _nl(tk(env2)), _nl(ek(env)))
        if atom is not None:
            name = test.id if atom == "truthy" else test.left.id
            var = env[name]
            nv = self.fresh(name)
            env2 = dict(env)
            env2[name] = Var(nv, var.type[1], narrowed_from=var)
            if atom == "truthy":
                inner = "(if %s then %s else %s)" % (self.truthy_of(nv, var.type[1], test), _nl(tk(env2)), _nl(ek(env)))
                return "(match %s with\n  | none => %s\n  | some %s => %s)" % (
                    var.lean, _arm(ek(env)), nv, _arm(inner))
            none_k, some_k = (tk, ek) if atom == "is" else (ek, tk)
            return "(match %s with\n  | none => %s\n  | some %s => %s)" % (
                var.lean, _arm(none_k(env)), nv, _arm(some_k(env2)))
        b = self.truthy(test, env)
        if as_bool:
            return b
        return "(if %s then %s else %s)" % (b, _nl(tk(env)), _nl(ek(env)))

    # -- statements ---------------------------------------------------------------------------
    def contains_exit(self, stmts, allow_continue=False):
        for st in stmts:
            for n in ast.walk(st):
                if isinstance(n, ast.Continue) and allow_continue:
                    continue
                if isinstance(n, (ast.Return, ast.Raise, ast.Break, ast.Continue)):
                    return True
                if isinstance(n, ast.Call) and CONSTRUCTORS.get(ast.unparse(n.func), ("", ""))[0] == "enum":
                    return True
        return False

    def with_hoists(self, compute, cont):
        saved = self.hoists
        self.hoists = []
        try:
            val = compute()
            hs = self.hoists
        finally:
            self.hoists = saved
        body = cont(val)
        for h in reversed(hs):
            name, e = h[0], h[1]
            kind = h[2] if len(h) > 2 else None
            if kind is None and not self.exc:
                body = "(match %s with\n  | none => none\n  | some %s => %s)" % (e, name, _arm(body))
            elif kind is None:
                body = "(match %s with\n  | .error err => Except.error err\n  | .ok %s => %s)" % (e, name, _arm(body))
            elif self.exc:
                # an Option-valued primitive; `none` stands for the exception `kind[1]`
                body = "(match %s with\n  | none => Except.error %s\n  | some %s => %s)" % (e, kind[1], name, _arm(body))
            else:
                body = "(match %s with\n  | none => none\n  | some %s => %s)" % (e, name, _arm(body))
        return body

    def add_hoist(self, node, base, e, kind=None):
        """a call that can raise: it is evaluated BEFORE the statement (or test) it occurs in, in source
        order; -> the Lean name of its value.  kind None: `e` has the function's own error type (Option in
        the `none = ValueError` functions, `Except PErr` with `exc`); ("option", ctor): `e` is an Option
        whose `none` is the exception `ctor`."""
        if self.hoists is None:
            self.bad(node, "a call that can raise is only supported inside an assignment or return")
        self.events += 1
        v = self.fresh(base)
        self.hoists.append((v, e) if kind is None else (v, e, kind))
        return v

    def no_hoists(self, thunk):
        """evaluate a sub-expression that Python may skip (right operand of and/or, branch of a
        conditional expression): a raising call must not be hoisted out of it"""
        saved, self.hoists = self.hoists, None
        try:
            return thunk()
        finally:
            self.hoists = saved

    def probe(self, thunk):
        """run a translation step for its side information only: names, hoists and the event counter are
        restored; -> number of raising calls / raise statements it met"""
        saved_c, saved_e = self.counter, self.events
        saved_h = None if self.hoists is None else list(self.hoists)
        saved_i = list(self.extra_imports)
        try:
            thunk()
            return self.events - saved_e
        finally:
            self.counter, self.events = saved_c, saved_e
            self.extra_imports = saved_i
            if saved_h is not None and self.hoists is not None:
                self.hoists[:] = saved_h

    def ret(self, node, env, at):
        rt = self.spec["ret"]

        def compute():
            if self.generator:
                # the end of a generator: the list of everything it yielded
                if node is not None:
                    self.bad(at, "`return value` inside a generator")
                return env["yield"].lean, env["yield"].type
            if node is None:
                return "none", NONE
            return self.expr(node, env)

        def cont(vt):
            v, t = vt
            out = self.coerce(v, t, rt, at)
            if self.exc:
                return "(Except.ok %s)" % out
            return "(some %s)" % out if self.raises else out
        return self.with_hoists(compute, cont)

    def assign(self, name, compute, env, kr, at):
        def cont(vt):
            v, t = vt
            ln = lean_ident(name)
            env2 = dict(env)
            env2[name] = Var(ln, t)
            return "let %s := %s;\n%s" % (ln, v, kr(env2))
        return self.with_hoists(compute, cont)

    def is_dropped(self, st):
        if isinstance(st, ast.Expr):
            if isinstance(st.value, ast.Constant) and isinstance(st.value.value, str):
                return True                                    # docstring
            if isinstance(st.value, ast.Call):
                f = st.value.func
                if isinstance(f, ast.Attribute) and isinstance(f.value, ast.Name) and f.value.id == "logger":
                    return True                                # logger.* has no effect on the result
        return isinstance(st, ast.Pass)

    def as_assignment(self, st, env):
        """(target name, compute thunk) for the assignment-like statements, else None"""
        if (isinstance(st, ast.Assign) and len(st.targets) == 1 and isinstance(st.targets[0], ast.Subscript)
                and isinstance(st.targets[0].value, ast.Name) and st.targets[0].value.id in env
                and env[st.targets[0].value.id].type[0] == "dict"):
            # d[k] = v on a dict variable: the variable is rebound to the updated association list
            dname = st.targets[0].value.id

            def compute_set(e):
                d = e[dname]
                if d.type[0] != "dict":
                    self.bad(st, "`%s` is not a dict here" % dname)
                k_, tk_ = self.expr(st.targets[0].slice, e)
                saved_exp, self.expect_type = getattr(self, "expect_type", None), d.type[2]
                try:
                    v_, tv_ = self.expr(st.value, e)
                finally:
                    self.expect_type = saved_exp
                if tk_ != d.type[1]:
                    self.bad(st, "dict key of type %r in a dict with keys %r" % (tk_, d.type[1]))
                self.need_import("BumpverVerif.Gen.F_PyPrelude")
                return "(BV.GenF.dictSet %s %s %s)" % (k_, self.coerce(v_, tv_, d.type[2], st), d.lean), d.type
            return dname, compute_set
        if isinstance(st, ast.Expr) and isinstance(st.value, ast.Yield):
            # `yield e` = append to the list of yielded values (the generator is translated as that list)
            if not self.generator or st.value.value is None:
                self.bad(st, "`yield` without a value")

            def compute_yield(e):
                acc = e["yield"]
                v_, tv_ = self.expr(st.value.value, e)
                return "(%s ++ [%s])" % (acc.lean, self.coerce(v_, tv_, acc.type[1], st)), acc.type
            return "yield", compute_yield
        if isinstance(st, ast.Assign):
            if len(st.targets) != 1 or not isinstance(st.targets[0], ast.Name):
                self.bad(st, "only `name = expr` assignments")
            return st.targets[0].id, (lambda e: self.expr(st.value, e))
        if isinstance(st, ast.AnnAssign):
            if not isinstance(st.target, ast.Name) or st.value is None:
                self.bad(st, "only `name: T = expr` assignments")
            return st.target.id, (lambda e: self.expr(st.value, e))
        if isinstance(st, ast.AugAssign):
            if not isinstance(st.target, ast.Name):
                self.bad(st, "only `name op= expr`")
            b = ast.copy_location(ast.BinOp(left=ast.Name(id=st.target.id, ctx=ast.Load()), op=st.op, right=st.value), st)
            ast.fix_missing_locations(b)
            return st.target.id, (lambda e: self.expr(b, e))
        if (isinstance(st, ast.Expr) and isinstance(st.value, ast.Call) and isinstance(st.value.func, ast.Attribute)
                and st.value.func.attr == "append" and isinstance(st.value.func.value, ast.Name)
                and len(st.value.args) == 1 and not st.value.keywords):
            name = st.value.func.value.id

            def compute(e):
                if name not in e or e[name].type[0] != "list":
                    self.bad(st, "`.append` on something that is not a list variable")
                lst = e[name]
                v, t = self.expr(st.value.args[0], e)
                et = t if lst.type[1] is None else self.unify(lst.type[1], t)
                if et is None or (lst.type[1] is not None and et != lst.type[1]):
                    self.bad(st, "append of a %r to a list of %r" % (t, lst.type[1]))
                if et == LIT:
                    et = INT
                return "(%s ++ [%s])" % (lst.lean, self.coerce(v, t, et, st)), LIST(et)
            return name, compute
        return None

    def block(self, stmts, env, k):
        if not stmts:
            return k(env)
        st, rest = stmts[0], stmts[1:]

        def kr(e):
            return self.block(rest, e, k)
        if self.is_dropped(st):
            return kr(env)
        if isinstance(st, ast.Return) and getattr(self, "search_ret", None):
            # inside a searching loop in general form: this iteration FOUND it
            v = st.value
            if not (isinstance(v, ast.Constant) and v.value is self.search_ret[-1]):
                self.bad(st, "inside a searching loop every `return` must return the same Bool constant")
            return "true"
        if isinstance(st, ast.Return):
            return self.ret(st.value, env, st)
        if isinstance(st, ast.Raise):
            exc = st.exc
            name = ast.unparse(exc.func) if isinstance(exc, ast.Call) else (ast.unparse(exc) if exc is not None else "")
            self.events += 1
            if self.exc:
                if name not in EXCEPTIONS or st.cause is not None:
                    self.bad(st, "only `raise E(...)` with E one of %s" % sorted(EXCEPTIONS))
                return "(Except.error %s)" % EXCEPTIONS[name]
            if name != "ValueError":
                self.bad(st, "only `raise ValueError(...)` is supported")
            return "none"
        if isinstance(st, ast.Continue):
            if not self.loop_k:
                self.bad(st, "`continue` outside an accumulation loop")
            return self.loop_k[-1](env)       # next iteration: hand over the loop-carried state
        a = self.as_assignment(st, env)
        if a is not None:
            name, compute = a
            return self.assign(name, lambda: compute(env), env, kr, st)
        if isinstance(st, ast.If):
            return self.if_stmt(st, rest, env, k)
        if isinstance(st, ast.For):
            return self.for_stmt(st, rest, env, k)
        if isinstance(st, ast.Try):
            return self.try_stmt(st, rest, env, k)
        self.bad(st, "statement form %s is outside the subset" % type(st).__name__)

    def changed_vars(self, env, probes):
        """names assigned on some path: {name: [Var on each path]}; a mere narrowing is not a change"""
        names = []
        for pe in probes:
            for n, v in pe.items():
                if n not in env:
                    if n not in names:
                        names.append(n)
                elif v is not env[n] and v.root() is not env[n].root():
                    if n not in names:
                        names.append(n)
        return names

    def if_stmt(self, st, rest, env, k):
        if self.exc:
            # a raising call in the TEST is evaluated before the statement
            return self.with_hoists(lambda: self.if_stmt0(st, rest, env, k), lambda s: s)
        return self.if_stmt0(st, rest, env, k)

    def if_stmt0(self, st, rest, env, k):
        def kr(e):
            return self.block(rest, e, k)
        if not self.contains_exit(st.body) and not self.contains_exit(st.orelse):
            # try the JOIN form: let (changed vars) := if .. then .. else ..; rest
            probes = []
            branch_events = [0]

            def pk(e):
                probes.append(e)
                return "?"

            def pbranch(stmts):
                def run(e):
                    before = self.events
                    out = self.block(stmts, e, pk)
                    branch_events[0] += self.events - before
                    return out
                return run
            self.probe(lambda: self.cond(st.test, env, pbranch(st.body), pbranch(st.orelse)))
            monadic = self.exc and branch_events[0] > 0      # a branch can raise: the join is a bind
            names = self.changed_vars(env, probes)
            # variables first defined inside a branch are only usable afterwards if every path defines them
            names = [n for n in names if all(n in pe for pe in probes)]
            jt = {}
            ok = True
            for n in names:
                t = probes[0][n].type
                for pe in probes[1:]:
                    t = self.unify(t, pe[n].type) if t is not None else None
                if t is None or t[0] == "none":
                    ok = False
                    break
                if t == LIT:
                    t = INT
                # do not silently wrap into Option at a join: Optional[T] vs T stays Optional
                jt[n] = t
            if ok and names:
                def tup(e):
                    vals = [self.coerce(e[n].lean, e[n].type, jt[n], st) for n in names]
                    out = vals[0] if len(vals) == 1 else "(" + ", ".join(vals) + ")"
                    return "(Except.ok %s)" % out if monadic else out
                body = self.cond(st.test, env, lambda e: self.block(st.body, e, tup),
                                 lambda e: self.block(st.orelse, e, tup))
                env2 = dict(env)
                for n in names:
                    env2[n] = Var(lean_ident(n), jt[n])
                pat = lean_ident(names[0]) if len(names) == 1 else "(" + ", ".join(lean_ident(n) for n in names) + ")"
                if monadic:
                    sty = " × ".join(self.lean_type(jt[n]) for n in names)
                    return "(match (%s : Except PErr (%s)) with\n  | .error err => Except.error err\n  | .ok %s => %s)" % (
                        body, sty, pat, _arm(kr(env2)))
                if len(names) == 1:
                    return "let %s := %s;\n%s" % (lean_ident(names[0]), body, kr(env2))
                return "(match %s with\n  | %s => %s)" % (body, pat, _arm(kr(env2)))
            if ok and not names and not monadic:
                return kr(env)       # no effect (e.g. only dropped statements)
        # DUPLICATION form: the rest of the block is continued inside both branches
        return self.cond(st.test, env, lambda e: self.block(st.body, e, kr), lambda e: self.block(st.orelse, e, kr))

    def iterable(self, node, env):
        """-> (lean list, element type)"""
        key = ast.unparse(node)
        if key in FIELD_TUPLES:
            fname, cls, recname = FIELD_TUPLES[key]
            r = self.record(recname)
            pyfields = [f for f, _ in self.src.class_fields(fname, cls, self.fn)]
            items = []
            ft0 = None
            for f in pyfields:
                hit = [x for x in r["fields"] if x[0] == f]
                if not hit:
                    self.bad(node, "field `%s` of %s is not modelled" % (f, cls))
                _, path, ft = hit[0]
                if ft0 is None:
                    ft0 = ft
                elif ft != ft0:
                    self.bad(node, "a loop over `_fields` needs fields of one type")
                items.append("%s.%s" % (r["lean"], path) if "." not in path and " " not in r["lean"]
                             else "(fun (r : %s) => r.%s)" % (r["lean"], path))
            return "[" + ", ".join(items) + "]", PROJ(recname, ft0)
        if isinstance(node, ast.Tuple):
            xs, t = self.list_literal(node, env)             # iterating a tuple LITERAL = the list of its elements
        else:
            xs, t = self.expr(node, env)
        if t[0] == "dict":
            return "(List.map Prod.fst %s)" % xs, t[1]       # iterating a dict = its keys, insertion order
        if t[0] != "list" or t[1] is None:
            self.bad(node, "loop over a value of type %r" % (t,))
        return xs, t[1]

    def for_stmt(self, st, rest, env, k):
        if self.exc:
            # a raising call in the iterable is evaluated before the loop
            return self.with_hoists(lambda: self.for_stmt0(st, rest, env, k), lambda s: s)
        return self.for_stmt0(st, rest, env, k)

    def search_constant(self, body):
        """the Bool constant `c` when the loop body is a search: it contains `return`, every `return` is
        `return c`, there is no raise/break/yield and no `return` inside a nested loop; else None"""
        rets = []
        for s_ in body:
            for n in ast.walk(s_):
                if isinstance(n, (ast.Raise, ast.Break, ast.Yield, ast.YieldFrom)):
                    return None
                if isinstance(n, (ast.For, ast.While)) and any(isinstance(m, ast.Return) for m in ast.walk(n)):
                    return None
                if isinstance(n, ast.Return):
                    rets.append(n)
        if not rets:
            return None
        vals = set()
        for r in rets:
            if not (isinstance(r.value, ast.Constant) and isinstance(r.value.value, bool)):
                return None
            vals.add(r.value.value)
        return vals.pop() if len(vals) == 1 else None

    def for_stmt0(self, st, rest, env, k):
        tuple_target = (isinstance(st.target, ast.Tuple) and len(st.target.elts) >= 2
                        and all(isinstance(e_, ast.Name) for e_ in st.target.elts))
        if st.orelse or not (isinstance(st.target, ast.Name) or tuple_target):
            self.bad(st, "only `for name in xs:` / `for a, b in xs:` without else")
        xs, et = self.iterable(st.iter, env)
        env_in = dict(env)
        unpack = ""
        if tuple_target:
            # `for a, b in xs`: the elements are tuples of that length
            if et[0] != "tuple" or len(et[1]) != len(st.target.elts):
                self.bad(st, "cannot unpack loop elements of type %r into %d names" % (et, len(st.target.elts)))
            x = self.fresh("it")
            n_ = len(et[1])
            for i, (e_, t_) in enumerate(zip(st.target.elts, et[1])):
                path = ".2" * i + (".1" if i < n_ - 1 else "")
                env_in[e_.id] = Var(lean_ident(e_.id), t_)
                unpack += "let %s := %s%s;\n" % (lean_ident(e_.id), x, path)
        else:
            x = lean_ident(st.target.id)
            env_in[st.target.id] = Var(x, et)
        body = [s for s in st.body if not self.is_dropped(s)]
        # idiom 1: for x in xs: [assignments]; if c: return True/False  ...  return False/True
        last = body[-1] if body else None
        if (not tuple_target and isinstance(last, ast.If) and not last.orelse and len(last.body) == 1
                and isinstance(last.body[0], ast.Return) and isinstance(last.body[0].value, ast.Constant)
                and isinstance(last.body[0].value.value, bool)
                and not self.contains_exit(body[:-1])):
            found = last.body[0].value.value
            rest2 = [s for s in rest if not self.is_dropped(s)]
            if not (rest2 and isinstance(rest2[0], ast.Return) and isinstance(rest2[0].value, ast.Constant)
                    and rest2[0].value.value is (not found)):
                self.bad(st, "a searching loop must be followed by `return %s`" % (not found))

            def test_k(e):
                if found:
                    return self.cond(last.test, e, lambda _: "true", lambda _: "false", as_bool=True)
                return "(!%s)" % self.cond(last.test, e, lambda _: "true", lambda _: "false", as_bool=True)
            inner = self.block(body[:-1], env_in, test_k)
            v = "(List.%s %s (fun %s =>\n%s))" % ("any" if found else "all", xs, x, indent(inner, 2))
            out = self.coerce(v, BOOL, self.spec["ret"], st)
            return "(some %s)" % out if self.raises else out
        # idiom 1b: the searching loop in GENERAL form: every `return` of the body returns the same Bool constant,
        # every other path `continue`s or falls through, nothing is carried from one iteration to the next
        found = self.search_constant(body)
        if found is not None:
            rest2 = [s for s in rest if not self.is_dropped(s)]
            if not (rest2 and isinstance(rest2[0], ast.Return) and isinstance(rest2[0].value, ast.Constant)
                    and rest2[0].value.value is (not found)):
                self.bad(st, "a searching loop must be followed by `return %s`" % (not found))
            if not hasattr(self, "search_ret"):
                self.search_ret = []

            def run_search(kk):
                self.loop_k.append(kk)
                self.search_ret.append(found)
                try:
                    # (the body becomes a lambda: a raising call cannot be hoisted out of it)
                    return self.no_hoists(lambda: self.block(body, env_in, kk))
                finally:
                    self.loop_k.pop()
                    self.search_ret.pop()
            sprobes = []
            self.probe(lambda: run_search(lambda e: (sprobes.append(e), "false")[1]))
            carried = [n for n in self.changed_vars(env_in, sprobes) if n in env]
            if carried:
                self.bad(st, "a searching loop that carries %s from one iteration to the next" % carried)
            inner = unpack + run_search(lambda e: "false")
            v = "(List.any %s (fun %s =>\n%s))" % (xs, x, indent(inner, 2))
            if not found:
                v = "(!%s)" % v
            out = self.coerce(v, BOOL, self.spec["ret"], st)
            if self.exc:
                return "(Except.ok %s)" % out
            return "(some %s)" % out if self.raises else out
        # idiom 2: accumulation -> List.foldl over the loop-carried variables
        if self.contains_exit(body, allow_continue=True):
            self.bad(st, "a loop body with return/raise/break (other than the searching idiom)")

        def run_body(e, kk):
            self.loop_k.append(kk)
            try:
                return self.block(body, e, kk)
            finally:
                self.loop_k.pop()
        probes = []

        def pk(e):
            probes.append(e)
            return "?"
        body_events = self.probe(lambda: run_body(env_in, pk))
        monadic = self.exc and body_events > 0        # the body can raise: the state is an `Except`
        names = [n for n in self.changed_vars(env_in, probes) if n in env]
        if not names and not monadic:
            return self.block(rest, env, k)
        if not names:
            self.bad(st, "a loop whose body can raise but assigns nothing")
        # the state types after one iteration (refines `[]` : list of unknown)
        st_types = {}
        for n in names:
            t = env[n].type
            for pe in probes:
                t = self.unify(t, pe[n].type) if t is not None else None
            if t is None or (t[0] == "list" and t[1] is None):
                self.bad(st, "cannot type the loop-carried variable `%s`" % n)
            st_types[n] = t
        env_body = dict(env_in)
        for n in names:
            env_body[n] = Var(lean_ident(n), st_types[n])
        # second probe with the refined types must be stable
        probes2 = []
        self.probe(lambda: run_body(env_body, lambda e: (probes2.append(e), "?")[1]))
        for pe in probes2:
            for n in names:
                if self.unify(pe[n].type, st_types[n]) != st_types[n]:
                    self.bad(st, "the type of `%s` changes from iteration to iteration" % n)

        def tup(e):
            vals = [self.coerce(e[n].lean, e[n].type, st_types[n], st) for n in names]
            return vals[0] if len(vals) == 1 else "(" + ", ".join(vals) + ")"

        def tup_ok(e):
            return "(Except.ok %s)" % tup(e)
        step = unpack + run_body(env_body, tup_ok if monadic else tup)
        tys = [self.lean_type(st_types[n]) for n in names]
        sty = tys[0] if len(tys) == 1 else " × ".join(tys)
        pat = lean_ident(names[0]) if len(names) == 1 else "(" + ", ".join(lean_ident(n) for n in names) + ")"
        init = tup(env)
        env2 = dict(env)
        for n in names:
            env2[n] = Var(lean_ident(n), st_types[n])
        if monadic:
            # an exception ends the loop: the error state is passed through the remaining elements
            fold = ("(List.foldl (fun (st : Except PErr (%s)) (%s : %s) =>\n    (match st with\n      | .error err => Except.error err\n"
                    "      | .ok %s =>\n%s))\n  (.ok %s)\n  %s)") % (
                sty, x, self.lean_type(et), pat, indent(step, 8), init, xs)
            return "(match %s with\n  | .error err => Except.error err\n  | .ok %s => %s)" % (
                fold, pat, _arm(self.block(rest, env2, k)))
        fold = "(List.foldl (fun (st : %s) (%s : %s) =>\n    (match st with\n      | %s =>\n%s))\n  %s\n  %s)" % (
            sty, x, self.lean_type(et), pat, indent(step, 8), init, xs)
        if len(names) == 1:
            return "let %s := %s;\n%s" % (pat, fold, self.block(rest, env2, k))
        return "(match %s with\n  | %s => %s)" % (fold, pat, _arm(self.block(rest, env2, k)))

    def try_stmt(self, st, rest, env, k):
        """try: BODY / except E [as ex]: HANDLER — BODY is translated to an `Except PErr (assigned vars)`; the
        handler of E continues with the variables as they were BEFORE the try (BODY's assignments are lost
        when it raises: BODY may only assign, so this is exact), every other error is passed on"""
        if not self.exc:
            self.bad(st, "`try` needs a function with `exc`")
        if st.orelse or st.finalbody:
            self.bad(st, "try/else and try/finally")
        body = [s_ for s_ in st.body if not self.is_dropped(s_)]
        if self.contains_exit(body) or any(isinstance(n, (ast.Yield, ast.YieldFrom)) for s_ in body for n in ast.walk(s_)):
            self.bad(st, "return/raise/continue/yield inside a `try` body")
        arms, seen = [], set()
        for h in st.handlers:
            name = ast.unparse(h.type) if h.type is not None else None
            if name not in EXCEPTIONS or name == "AttributeError":
                self.bad(h, "only `except E [as name]:` with E one of %s"
                         % sorted(x for x in EXCEPTIONS if x != "AttributeError"))
            ctor = EXCEPTIONS[name]
            if ctor in seen:
                continue            # an earlier handler of the same exception wins
            seen.add(ctor)
            # `as ex` binds nothing here: `ex` may only occur in dropped logger calls
            arms.append((ctor, h))
        probes = []
        self.probe(lambda: self.block(body, env, lambda e: (probes.append(e), "?")[1]))
        names = [n for n in self.changed_vars(env, probes) if all(n in pe for pe in probes)]
        jt = {}
        for n in names:
            t = probes[0][n].type
            for pe in probes[1:]:
                t = self.unify(t, pe[n].type) if t is not None else None
            if t is None or t[0] == "none":
                self.bad(st, "cannot type `%s` after the try body" % n)
            jt[n] = INT if t == LIT else t

        def tup_ok(e):
            vals = [self.coerce(e[n].lean, e[n].type, jt[n], st) for n in names]
            return "(Except.ok %s)" % ("()" if not vals else vals[0] if len(vals) == 1 else "(" + ", ".join(vals) + ")")
        b = self.block(body, env, tup_ok)
        env2 = dict(env)
        for n in names:
            env2[n] = Var(lean_ident(n), jt[n])
        pat = "()" if not names else lean_ident(names[0]) if len(names) == 1 else "(" + ", ".join(lean_ident(n) for n in names) + ")"
        sty = " × ".join(self.lean_type(jt[n]) for n in names) if names else "Unit"
        out = "(match (%s : Except PErr (%s)) with\n  | .ok %s => %s" % (b, sty, pat, _arm(self.block(rest, env2, k)))
        for ctor, h in arms:
            out += "\n  | .error %s => %s" % (ctor, _arm(self.block(list(h.body) + list(rest), env, k)))
        out += "\n  | .error err => Except.error err)"
        return out

    # -- declarations generated from class definitions --------------------------------------------
    def decl(self, kind, name):
        if kind == "enum":
            members = self.enum(name)
            fname, cls = ENUMS[name]["source"]
            out = ["/-- `%s.%s` (a str-valued enum), generated from the class definition -/" % (fname[:-3], cls)]
            out.append("inductive %s\n%s\n  deriving DecidableEq, Repr" % (name, "\n".join("  | %s" % lean_ident(m) for m, _ in members)))
            out.append("")
            out.append("/-- `member.value` -/")
            out.append("def %s.value : %s → Str\n%s" % (name, name, "\n".join("  | .%s => %s" % (lean_ident(m), lean_str(v)) for m, v in members)))
            out.append("")
            out.append("/-- `%s(value)`: `none` = ValueError (no member has this value) -/" % cls)
            chain = "none"
            for m, v in reversed(members):
                chain = "if s == %s then some .%s\n  else %s" % (lean_str(v), lean_ident(m), chain)
            out.append("def %s.ofValue (s : Str) : Option %s :=\n  %s" % (name, name, chain))
            return "\n".join(out) + "\n"
        if kind == "rec":
            r = self.record(name)
            fname, cls = r["source"]
            out = ["/-- `%s.%s` (NamedTuple), generated from the class definition -/" % (fname[:-3], cls)]
            out.append("structure %s %s where" % (r["leanname"], r.get("params", "")))
            for f, path, ft in r["fields"]:
                out.append("  %s : %s" % (path, self.lean_type(ft)))
            return "\n".join(out) + "\n"
        raise AssertionError(kind)

    # -- the whole function ------------------------------------------------------------------------
    def translate(self):
        spec = self.spec
        src, node = self.src.find(spec["file"], ast.FunctionDef, spec["func"])
        if node is None:
            raise Untranslatable(self.fn, None, "function not found in %s" % spec["file"])
        self.source_text = ast.get_source_segment(src, node)
        a = node.args
        if a.vararg or a.kwarg or a.posonlyargs or (a.kwonlyargs and not self.exc):
            self.bad(node, "only plain positional parameters")
        # keyword-only parameters (functions with `exc`) are ordinary parameters of the Lean definition, in
        # source order after the positional ones; calls from translated callers bind them by name
        pynames = [x.arg for x in a.args] + [x.arg for x in a.kwonlyargs]
        if pynames != [p for p, _ in spec["params"]]:
            self.bad(node, "parameters are %s, the signature table expects %s" % (pynames, [p for p, _ in spec["params"]]))
        defaults = {}
        for x, d in zip(a.args[len(a.args) - len(a.defaults):], a.defaults):
            defaults[x.arg] = d
        for x, d in zip(a.kwonlyargs, a.kw_defaults):
            if d is not None:
                defaults[x.arg] = d
        if not self.exc:
            for d in defaults.values():
                if not (isinstance(d, ast.Constant) and d.value is None):
                    self.bad(node, "only `= None` parameter defaults")
        self.raises = any(isinstance(n, ast.Raise) for n in ast.walk(node)) or self.contains_exit_calls(node)
        self.generator = any(isinstance(n, (ast.Yield, ast.YieldFrom)) for n in ast.walk(node))
        if self.generator:
            if not self.exc or spec["ret"][0] != "list" or spec["ret"][1] is None:
                self.bad(node, "a generator needs `exc` and a list result type in the signature table")
            if any(isinstance(n, ast.YieldFrom) for n in ast.walk(node)):
                self.bad(node, "`yield from`")
            if any(isinstance(n, ast.Name) and n.id == YIELD_ACC for n in ast.walk(node)) or YIELD_ACC in pynames:
                self.bad(node, "the name `%s` is reserved for the list of yielded values" % YIELD_ACC)
        decls = [self.decl(kind, name) for kind, name in spec.get("decls", [])]
        env = {}
        params = []
        for p, t in spec["params"]:
            if t[0] == "rec":
                self.record(t[1])
            env[p] = Var(lean_ident(p), t)
            self.params[p] = env[p]
            dflt = ""
            if self.exc and p in defaults:
                # a constant default becomes the default value of the Lean parameter
                d = defaults[p]
                if not isinstance(d, ast.Constant):
                    self.bad(d, "only constant parameter defaults")
                dv, dt = self.expr(d, {})
                dflt = " := %s" % self.coerce(dv, dt, t, d)
            params.append("(%s : %s%s)" % (lean_ident(p), self.lean_type(t), dflt))
        for key, (ln, t) in spec.get("externs", {}).items():
            params.append("(%s : %s)" % (ln, self.lean_type(t)))
        rt = self.lean_type(spec["ret"])
        if self.exc:
            rt = "Except PErr %s" % self.paren_type(spec["ret"])
        elif self.raises:
            rt = "Option (%s)" % rt if " " in rt else "Option " + rt

        def fall_off(e):
            # falling off the end of a Python function returns None
            return self.ret(None, e, node)
        if self.generator:
            env["yield"] = Var(YIELD_ACC, spec["ret"])
            body = "let %s : %s := [];\n%s" % (YIELD_ACC, self.lean_type(spec["ret"]), self.block(list(node.body), env, fall_off))
        else:
            body = self.block(list(node.body), env, fall_off)
        used_externs = spec.get("externs", {})
        for key, (ln, _) in used_externs.items():
            if ln not in body:
                self.bad(node, "the expression `%s` (abstracted as parameter `%s`) does not occur" % (key, ln))
        head = "def %s %s%s : %s :=" % (spec["name"], (spec["implicit"] + " ") if spec.get("implicit") else "",
                                       " ".join(params), rt)
        return decls, head + "\n" + indent(body, 2) + "\n"

    def contains_exit_calls(self, node):
        for n in ast.walk(node):
            if isinstance(n, ast.Call) and CONSTRUCTORS.get(ast.unparse(n.func), ("", ""))[0] == "enum":
                return True
        return False


def _nl(s):
    """a branch of an if: on its own lines when it is multi-line"""
    if "\n" in s:
        return "\n" + indent(s, 2) + "\n"
    return s


def _arm(s):
    if "\n" in s:
        return "\n" + indent(s, 6)
    return s


# ----------------------------------------------------------------------------------
# file generation
# ----------------------------------------------------------------------------------
def sha256(text):
    return hashlib.sha256(text.encode("utf-8")).hexdigest()


def render(spec, sources):
    fname = "F_%s.lean" % spec["name"]
    tr = FuncTranslator(spec, sources)
    where = "src/bumpver/%s" % spec["file"]
    try:
        decls, body = tr.translate()
    except Untranslatable as ex:
        text = getattr(tr, "source_text", None)
        lines = [
            "/- GENERATED by harness/translate_funcs.py. Do not edit.",
            "   source   : %s" % where,
            "   function : %s" % spec["func"],
            "   sha256   : %s" % (sha256(text) if text else "(function not found)"),
            "",
            "   UNTRANSLATABLE: %s" % str(ex).replace("-/", "- /"),
            "   (no definition is generated; BV.tie_%s cannot compile until this is resolved) -/" % spec["name"],
            "",
        ]
        return fname, "\n".join(lines), ex
    except Exception as ex:  # unreadable / unparsable source, or an internal error: never a silent success
        lines = [
            "/- GENERATED by harness/translate_funcs.py. Do not edit.",
            "   source   : %s" % where,
            "   function : %s" % spec["func"],
            "",
            "   UNTRANSLATABLE: the source could not be read/parsed/translated: %s: %s -/"
            % (type(ex).__name__, str(ex).replace("-/", "- /")),
            "",
        ]
        return fname, "\n".join(lines), ex
    lines = [
        "/- GENERATED by harness/translate_funcs.py from the Python AST. Do not edit.",
        "   source   : %s" % where,
        "   function : %s" % spec["func"],
        "   sha256   : %s  (of the function's source text) -/" % sha256(tr.source_text),
    ]
    for imp in list(spec["imports"]) + [i for i in tr.extra_imports if i not in spec["imports"]]:
        lines.append("import %s" % imp)
    lines.append("set_option linter.unusedVariables false")
    lines.append("namespace BV.GenF")
    lines.append("")
    for d in decls:
        lines.append(d)
    lines.append("/-- `%s.%s` -/" % (spec["file"][:-3], spec["func"]))
    lines.append(body)
    lines.append("end BV.GenF")
    lines.append("")
    return fname, "\n".join(lines), None


PRELUDE = """/- GENERATED by harness/translate_funcs.py (fixed text). Do not edit.
   The Python built-ins that the translated functions of the bump core use and that the model has no name
   for: insertion-ordered dicts as association lists with distinct keys, and `int(str)` with its ValueError.
   They are TRUSTED (documented in harness/TRANSLATE_FUNCS.md), like `replaceAll`/`strToNat` in Model/Basic. -/
import BumpverVerif.Model.V2Version
namespace BV.GenF

/-- `d[k] = v`: an existing key keeps its position and gets the new value, a new key is appended -/
def dictSet {α : Type} (k : Str) (v : α) : List (Str × α) → List (Str × α)
  | [] => [(k, v)]
  | (k', v') :: rest => if k = k' then (k', v) :: rest else (k', v') :: dictSet k v rest

/-- `dict(pairs)`: later pairs overwrite earlier ones with the same key -/
def dictOfList {α : Type} (xs : List (Str × α)) : List (Str × α) :=
  xs.foldl (fun d kv => dictSet kv.1 kv.2 d) []

/-- `k in d` -/
def dictHas {α : Type} (k : Str) (d : List (Str × α)) : Bool := (lookup k d).isSome

/-- `int(s)`: ValueError unless `s` is a non-empty string of ASCII digits.  (Python also accepts
    surrounding whitespace, a sign, `_` between digits and non-ASCII digits: outside the modelled language,
    the same restriction as the hand model's.) -/
def pyInt (s : Str) : Except PErr Nat :=
  if isDigitStr s then .ok (strToNat s) else .error .valueError

end BV.GenF
"""


def render_recdyn(sup, sources):
    """Gen/F_<Rec>Dyn.lean: the run-time views of a NamedTuple (getattr by a run-time name, `_asdict()`,
    `Rec(**d)`), generated from the class definition and the field map of the signature table"""
    fname = "F_%s.lean" % sup["name"]
    rec = sup["record"]
    d = RECORDS[rec]
    tr = FuncTranslator(dict(name=sup["name"], func="class " + d["source"][1], file=d["source"][0],
                             params=[], ret=NONE, imports=[]), sources)
    where = "src/bumpver/%s" % d["source"][0]
    try:
        r = tr.record(rec)
        src, node = sources.find(d["source"][0], ast.ClassDef, d["source"][1])
        text = ast.get_source_segment(src, node)
        by_name = {f: (path, t) for f, path, t in r["fields"]}
        consts = d.get("consts", {})
        rows = []       # (python field, Lean value of type FV as a function of `v`, how to read it back)
        for f in r["pyorder"]:
            if f in by_name:
                path, t = by_name[f]
                if t == NAT:
                    rows.append((f, "FV.nat v.%s" % path, "nat", path))
                elif t == STR:
                    rows.append((f, "FV.str v.%s" % path, "str", path))
                elif t == OPT(NAT):
                    rows.append((f, "optNat v.%s" % path, "optnat", path))
                else:
                    tr.bad(None, "field `%s` of type %r has no run-time view" % (f, t))
            elif f in consts and consts[f][0] == STR:
                rows.append((f, "FV.str %s" % lean_str(consts[f][1]), "const", lean_str(consts[f][1])))
            else:
                tr.bad(None, "field `%s` of %s is neither modelled nor declared constant" % (f, d["source"][1]))
    except Untranslatable as ex:
        return fname, "\n".join([
            "/- GENERATED by harness/translate_funcs.py. Do not edit.",
            "   source   : %s" % where,
            "   class    : %s" % d["source"][1],
            "",
            "   UNTRANSLATABLE: %s" % str(ex).replace("-/", "- /"),
            "   (no run-time views are generated; the functions that use them cannot compile) -/",
            ""]), ex
    L = d["lean"]
    out = [
        "/- GENERATED by harness/translate_funcs.py from the class definition. Do not edit.",
        "   source   : %s" % where,
        "   class    : %s" % d["source"][1],
        "   sha256   : %s  (of the class's source text)" % sha256(text),
        "",
        "   The run-time views of the NamedTuple, for code that uses field NAMES as data.  A Lean `%s` stands for" % L,
        "   the Python values whose unmodelled fields are the constants %s." % (
            ", ".join("%s = %r" % (f, c[1]) for f, c in consts.items()) or "(none)"),
        "   A value whose type is only known at run time is an `FV` (None | int >= 0 | str). -/",
        "import BumpverVerif.Model.V2Version",
        "import BumpverVerif.Gen.F_PyPrelude",
        "set_option linter.unusedVariables false",
        "namespace BV.GenF",
        "",
        "/-- `getattr(v, f)` with `f` a run-time string; AttributeError (`.unsupported`) for any other name -/",
        "def getattr%s (v : %s) (f : Str) : Except PErr FV :=" % (rec, L),
    ]
    for i, (f, val, _, _) in enumerate(rows):
        out.append("  %sif f = %s then .ok (%s)" % ("" if i == 0 else "else ", lean_str(f), val))
    out.append("  else .error .unsupported")
    out.append("")
    out.append("/-- `v._asdict()`: every field in class order -/")
    out.append("def asdict%s (v : %s) : List (Str × FV) :=" % (rec, L))
    out.append("  [" + ",\n   ".join("(%s, %s)" % (lean_str(f), val) for f, val, _, _ in rows) + "]")
    out.append("")
    out.append("/-- the field names of the class, in order -/")
    out.append("def fieldNames%s : List Str :=" % rec)
    out.append("  [" + ", ".join(lean_str(f) for f, _, _, _ in rows) + "]")
    out.append("")
    out.append("/-- keyword argument `k` of `%s(**d)`: TypeError when it is missing -/" % d["source"][1])
    out.append("def kwarg%s (d : List (Str × FV)) (k : Str) : Except PErr FV :=" % rec)
    out.append("  match lookup k d with")
    out.append("  | none => .error .typeError")
    out.append("  | some x => .ok x")
    out.append("")
    out.append("/-- a run-time value used as an `int` field / an `Optional[int]` field / a `str` field / an unmodelled")
    out.append("    constant field; a value of another type has no counterpart in `%s`: `.unsupported` -/" % L)
    out.append("def asNat%s : FV → Except PErr Nat" % rec)
    out.append("  | .nat n => .ok n")
    out.append("  | _ => .error .unsupported")
    out.append("def asOptNat%s : FV → Except PErr (Option Nat)" % rec)
    out.append("  | .nat n => .ok (some n)")
    out.append("  | .none => .ok none")
    out.append("  | _ => .error .unsupported")
    out.append("def asStr%s : FV → Except PErr Str" % rec)
    out.append("  | .str s => .ok s")
    out.append("  | _ => .error .unsupported")
    out.append("def asConst%s (c : Str) : FV → Except PErr Unit" % rec)
    out.append("  | .str s => if s = c then .ok () else .error .unsupported")
    out.append("  | _ => .error .unsupported")
    out.append("")
    out.append("/-- `%s(**d)`: TypeError for an unexpected or a missing keyword -/" % d["source"][1])
    out.append("def ofdict%s (d : List (Str × FV)) : Except PErr %s :=" % (rec, L))
    out.append("  if !(d.all (fun kv => fieldNames%s.elem kv.1)) then .error .typeError else" % rec)
    conv = {"nat": "asNat", "str": "asStr", "optnat": "asOptNat"}
    for f, _, kind, path in rows:
        x = "x_" + f
        if kind == "const":
            out.append("  match (kwarg%s d %s).bind (asConst%s %s) with" % (rec, lean_str(f), rec, path))
            out.append("  | .error err => Except.error err")
            out.append("  | .ok _ =>")
        else:
            out.append("  match (kwarg%s d %s).bind %s%s with" % (rec, lean_str(f), conv[kind], rec))
            out.append("  | .error err => Except.error err")
            out.append("  | .ok %s =>" % x)
    # the structure instance, nested by path prefix
    groups = {}
    order = []
    for f, _, kind, path in rows:
        if kind == "const":
            continue
        if "." in path:
            g, leaf = path.split(".", 1)
            if g not in groups:
                groups[g] = []
                order.append(("group", g))
            groups[g].append("%s := x_%s" % (leaf, f))
        else:
            order.append(("field", "%s := x_%s" % (path, f)))
    items = []
    for kind, x in order:
        items.append("%s := { %s }" % (x, ", ".join(groups[x])) if kind == "group" else x)
    out.append("  .ok { " + ", ".join(items) + " }")
    out.append("")
    out.append("end BV.GenF")
    out.append("")
    return fname, "\n".join(out), None


def generate(report=None):
    """{filename: content} for lean/BumpverVerif/Gen/"""
    sources = Sources()
    out = {}
    for sup in SUPPORT:
        if sup["kind"] == "prelude":
            out["F_%s.lean" % sup["name"]] = PRELUDE
        elif sup["kind"] == "recdyn":
            fname, content, err = render_recdyn(sup, sources)
            out[fname] = content
            if report is not None:
                report.append(("class " + RECORDS[sup["record"]]["source"][1], fname, err))
    for spec in FUNCS:
        fname, content, err = render(spec, sources)
        out[fname] = content
        if report is not None:
            report.append((spec["func"], fname, err))
    return out


def main():
    rep = []
    files = generate(rep)
    gen = os.path.join(os.path.dirname(HERE), "lean", "BumpverVerif", "Gen")
    if "--write" in sys.argv:
        for name, content in files.items():
            path = os.path.join(gen, name)
            old = open(path, encoding="utf-8").read() if os.path.exists(path) else None
            if old != content:
                with open(path, "w", encoding="utf-8") as f:
                    f.write(content)
                print("wrote", name)
    for func, fname, err in rep:
        print("%-28s %-28s %s" % (func, fname, "ok" if err is None else "UNTRANSLATABLE: %s" % err))
    if "--show" in sys.argv:
        for name, content in files.items():
            print("=" * 20, name)
            print(content)
    return 0


if __name__ == "__main__":
    sys.exit(main())
