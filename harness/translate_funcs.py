#!/venv/bin/python
"""Python -> Lean FUNCTION translator for a handful of small pure bumpver functions.

For every function of the signature table `FUNCS` the Python source is read with `ast`
(never imported) from $VERIF_REPO/src/bumpver (default /repo), its BODY is translated
statement by statement into a plain structural Lean definition, and the result is
written to lean/BumpverVerif/Gen/F_<name>.lean (namespace BV.GenF).  The theorems
`BV.tie_<name>` (lean/BumpverVerif/Proofs/Tie_<name>.lean) prove the generated definition
equal to the hand-written model, so that an edit of the Python function breaks a proof
obligation deterministically.

The supported subset, the typing and truthiness rules and the signature table are
documented in harness/TRANSLATE_FUNCS.md.  Anything outside the subset raises
`Untranslatable(function, node, reason)`; the output file is then written with a comment
only (so that exactly the tie theorem of that function stops compiling).
"""
import ast
import hashlib
import os
import sys

HERE = os.path.dirname(os.path.abspath(__file__))


def repo_src():
    return os.path.join(os.environ.get("VERIF_REPO", "/repo"), "src", "bumpver")


class Untranslatable(Exception):
    def __init__(self, function, node, reason):
        self.function = function
        self.node = node
        self.reason = reason
        where = ""
        if node is not None and hasattr(node, "lineno"):
            where = " (line %d: `%s`)" % (node.lineno, _short(node))
        Exception.__init__(self, "%s%s: %s" % (function, where, reason))


def _short(node):
    try:
        s = ast.unparse(node)
    except Exception:  # pragma: no cover
        s = type(node).__name__
    s = " ".join(s.split())
    return s if len(s) <= 70 else s[:67] + "..."


# ----------------------------------------------------------------------------------
# static types
# ----------------------------------------------------------------------------------
BOOL = ("bool",)
INT = ("int",)        # Python int, Lean `Int`
NAT = ("nat",)        # Python int known to be >= 0 (signature table), Lean `Nat`
LIT = ("intlit",)     # a non-negative integer literal: fits Nat and Int
STR = ("str",)        # Lean `Str` = `List Char`
NONE = ("none",)      # the type of the constant `None`


def OPT(t):
    return ("opt", t)


def LIST(t):          # t may be None: element type not known yet (`[]`)
    return ("list", t)


def TUP(*ts):
    return ("tuple", tuple(ts))


def REC(name):
    return ("rec", name)


def ENUM(name):
    return ("enum", name)


def PROJ(rec, t):     # loop variable ranging over the field tuple of a record
    return ("proj", rec, t)


def OPAQUE(lean):     # a type the functions never look into
    return ("opaque", lean)


def is_intlike(t):
    return t in (INT, NAT, LIT)


LEAN_KEYWORDS = {
    "end", "from", "at", "open", "in", "then", "do", "fun", "let", "have", "show", "match",
    "with", "if", "else", "def", "namespace", "section", "instance", "structure", "class",
    "where", "import", "local", "private", "protected", "theorem", "example", "variable",
    "universe", "mutual", "deriving", "macro", "syntax", "notation", "prefix", "infix",
    "return", "for", "unless", "try", "catch", "finally", "by", "using", "calc", "this",
    "Type", "Prop", "Sort", "abbrev", "axiom", "opaque", "export", "attribute", "set_option",
    "nomatch", "nofun", "mut", "continue", "break", "forall", "exists", "suffices", "obtain",
    "λ", "inductive", "extends", "omit", "include",
}


def lean_ident(name):
    return name + "_" if name in LEAN_KEYWORDS else name


def lean_str(s):
    """a Lean `Str` (List Char) literal"""
    out = []
    for ch in s:
        o = ord(ch)
        if ch == "\\":
            out.append("\\\\")
        elif ch == '"':
            out.append('\\"')
        elif ch == "\n":
            out.append("\\n")
        elif ch == "\t":
            out.append("\\t")
        elif ch == "\r":
            out.append("\\r")
        elif 32 <= o < 127:
            out.append(ch)
        else:
            out.append("\\u{%x}" % o)
    return '"' + "".join(out) + '".toList'


def indent(s, n=2):
    pad = " " * n
    return "\n".join((pad + ln) if ln else ln for ln in s.split("\n"))


# ----------------------------------------------------------------------------------
# the type environment: records, enums, field tuples (checked against / read from the AST)
# ----------------------------------------------------------------------------------
CAL_FIELDS = ["year_y", "year_g", "quarter", "month", "dom", "doy", "week_w", "week_u", "week_v"]
CAL_LEAN = ["yearY", "yearG", "quarter", "month", "dom", "doy", "weekW", "weekU", "weekV"]

# record name -> description.
#   lean    : Lean type (may mention the implicit parameters of `params`)
#   source  : (file, class) of the NamedTuple it stands for
#   fields  : python field -> (lean projection path, type); for `generated` records the
#             fields are read from the class definition and typed through ANNOTATIONS
#   exact   : the python class must have exactly these fields in this order
RECORDS = {
    "LineSpan": dict(
        lean="LineSpan", source=("parse.py", "LineSpan"), exact=True,
        fields=[("lineno", "lineno", NAT), ("start", "start", NAT), ("end", "stop", NAT)]),
    # version.V2CalendarInfo with every field possibly None (model: CalOpt)
    "CalOpt": dict(
        lean="CalOpt", source=("version.py", "V2CalendarInfo"), exact=True,
        fields=[(p, l, OPT(NAT)) for p, l in zip(CAL_FIELDS, CAL_LEAN)]),
    # version.V2CalendarInfo as `cal_info` builds it: every field an int (model: CalInfo)
    "CalInfo": dict(
        lean="CalInfo", source=("version.py", "V2CalendarInfo"), exact=True,
        fields=[(p, l, NAT) for p, l in zip(CAL_FIELDS, CAL_LEAN)]),
    # version.V2VersionInfo (model: VInfo; githash/hexhash are not modelled)
    "VInfo": dict(
        lean="VInfo", source=("version.py", "V2VersionInfo"), exact=False,
        fields=[(p, "cal." + l, OPT(NAT)) for p, l in zip(CAL_FIELDS, CAL_LEAN)]
        + [("major", "major", NAT), ("minor", "minor", NAT), ("patch", "patch", NAT),
           ("bid", "bid", STR), ("tag", "tag", STR), ("pytag", "pytag", STR),
           ("num", "num", NAT), ("inc0", "inc0", NAT), ("inc1", "inc1", NAT)]),
    # config.Config: GENERATED structure (all fields of the class, in order)
    "Config": dict(
        lean="Config α", source=("config.py", "Config"), generated=True, params="(α : Type)",
        leanname="Config"),
}

# annotation text -> type, for generated structures
ANNOTATIONS = {
    "str": STR, "bool": BOOL, "int": INT, "TagScope": ENUM("TagScope"),
    "PatternsByFile": OPAQUE("α"),
}

# str-valued enums, GENERATED from the class definition
ENUMS = {
    "TagScope": dict(source=("config.py", "TagScope")),
}

# dotted python name of a constructor -> what it builds
CONSTRUCTORS = {
    "version.V2CalendarInfo": ("rec", "CalOpt"),
    "V2CalendarInfo": ("rec", "CalOpt"),
    "config.TagScope": ("enum", "TagScope"),      # by value; ValueError when no member has it
    "TagScope": ("enum", "TagScope"),
}

# dotted python expression -> (file, class, record) : the `_fields` tuple of a NamedTuple
FIELD_TUPLES = {
    "version.V2CalendarInfo._fields": ("version.py", "V2CalendarInfo", "CalOpt"),
    "V2CalendarInfo._fields": ("version.py", "V2CalendarInfo", "CalOpt"),
}

# ----------------------------------------------------------------------------------
# the signature table
# ----------------------------------------------------------------------------------
FUNCS = [
    dict(name="hasOverlap", file="parse.py", func="_has_overlap",
         params=[("needle", REC("LineSpan")), ("haystack", LIST(REC("LineSpan")))],
         ret=BOOL, imports=["BumpverVerif.Model.Rewrite"]),
    dict(name="detectLineSep", file="rewrite.py", func="detect_line_sep",
         params=[("content", STR)], ret=STR, imports=["BumpverVerif.Model.Basic"]),
    dict(name="quarterFromMonth", file="version.py", func="quarter_from_month",
         params=[("month", INT)], ret=INT, imports=["BumpverVerif.Model.Basic"]),
    dict(name="isCalGt", file="v2version.py", func="_is_cal_gt",
         params=[("left", REC("CalOpt")), ("right", REC("CalOpt"))],
         ret=BOOL, imports=["BumpverVerif.Model.Calendar"]),
    dict(name="isValidWeekPattern", file="v2version.py", func="is_valid_week_pattern",
         params=[("raw_pattern", STR)], ret=BOOL, imports=["BumpverVerif.Model.Basic"]),
    dict(name="verToCalInfo", file="v2version.py", func="_ver_to_cal_info",
         params=[("vinfo", REC("VInfo"))], ret=REC("CalOpt"),
         # free expressions abstracted as extra parameters
         externs={"cal_info(version.TODAY)": ("dflt", REC("CalInfo"))},
         imports=["BumpverVerif.Model.V2Version"]),
    dict(name="parseVcsOptions", file="cli.py", func="_parse_vcs_options",
         params=[("cfg", REC("Config")), ("commit", OPT(BOOL)), ("tag_commit", OPT(BOOL)),
                 ("push", OPT(BOOL)), ("tag_scope", OPT(STR)), ("pre_commit_hook", OPT(STR)),
                 ("post_commit_hook", OPT(STR))],
         ret=REC("Config"), implicit="{α : Type}",
         decls=[("enum", "TagScope"), ("rec", "Config")],
         imports=["BumpverVerif.Model.Basic"]),
    dict(name="parseLetterVersion", file="setuptools_v65_version.py",
         func="_parse_letter_version",
         # the callers pass `match.group(...)`: both arguments are Optional[str]
         params=[("letter", OPT(STR)), ("number", OPT(STR))],
         ret=OPT(TUP(STR, NAT)), imports=["BumpverVerif.Model.Pep440"]),
]


# ----------------------------------------------------------------------------------
# source access
# ----------------------------------------------------------------------------------
class Sources:
    def __init__(self):
        self.cache = {}

    def module(self, fname):
        if fname not in self.cache:
            path = os.path.join(repo_src(), fname)
            with open(path, encoding="utf-8") as f:
                src = f.read()
            self.cache[fname] = (src, ast.parse(src))
        return self.cache[fname]

    def find(self, fname, kind, name):
        src, tree = self.module(fname)
        for node in tree.body:
            if isinstance(node, kind) and node.name == name:
                return src, node
        return src, None

    def class_fields(self, fname, cls, fn):
        """[(field, annotation text)] of a NamedTuple class; assignments for enums"""
        _, node = self.find(fname, ast.ClassDef, cls)
        if node is None:
            raise Untranslatable(fn, None, "class %s not found in %s" % (cls, fname))
        out = []
        for st in node.body:
            if isinstance(st, ast.AnnAssign) and isinstance(st.target, ast.Name) and st.value is None:
                out.append((st.target.id, ast.unparse(st.annotation)))
            elif isinstance(st, ast.Expr) and isinstance(st.value, ast.Constant) and isinstance(st.value.value, str):
                continue
            elif isinstance(st, ast.Pass):
                continue
            else:
                raise Untranslatable(fn, st, "unsupported statement in NamedTuple class %s" % cls)
        return out

    def enum_members(self, fname, cls, fn):
        _, node = self.find(fname, ast.ClassDef, cls)
        if node is None:
            raise Untranslatable(fn, None, "class %s not found in %s" % (cls, fname))
        out = []
        for st in node.body:
            if (isinstance(st, ast.Assign) and len(st.targets) == 1 and isinstance(st.targets[0], ast.Name)
                    and isinstance(st.value, ast.Constant) and isinstance(st.value.value, str)):
                out.append((st.targets[0].id, st.value.value))
            elif isinstance(st, ast.Expr) and isinstance(st.value, ast.Constant) and isinstance(st.value.value, str):
                continue
            else:
                raise Untranslatable(fn, st, "unsupported statement in enum class %s" % cls)
        return out


class Var:
    def __init__(self, lean, type_, narrowed_from=None):
        self.lean = lean
        self.type = type_
        self.narrowed_from = narrowed_from

    def root(self):
        v = self
        while v.narrowed_from is not None:
            v = v.narrowed_from
        return v


# ----------------------------------------------------------------------------------
# the translator of one function
# ----------------------------------------------------------------------------------
class FuncTranslator:
    def __init__(self, spec, sources):
        self.spec = spec
        self.fn = spec["func"]
        self.src = sources
        self.counter = 0
        self.hoists = None        # list of (lean name, Option-valued lean expr) while inside a statement
        self.records = {}
        self.enums = {}
        self.raises = False
        self.loop_k = []          # continuations of the enclosing accumulation loops (`continue`)

    # -- errors ---------------------------------------------------------------------
    def bad(self, node, reason):
        raise Untranslatable(self.fn, node, reason)

    # -- type environment -------------------------------------------------------------
    def record(self, name):
        if name in self.records:
            return self.records[name]
        d = RECORDS[name]
        fname, cls = d["source"]
        pyfields = self.src.class_fields(fname, cls, self.fn)
        if d.get("generated"):
            fields = []
            for f, ann in pyfields:
                if ann not in ANNOTATIONS:
                    self.bad(None, "field %s.%s: annotation %s has no type mapping" % (cls, f, ann))
                fields.append((f, lean_ident(f), ANNOTATIONS[ann]))
        else:
            fields = d["fields"]
            names = [f for f, _ in pyfields]
            mine = [f for f, _, _ in fields]
            if d.get("exact"):
                if names != mine:
                    self.bad(None, "fields of %s.%s are %s, the signature table expects %s"
                             % (fname, cls, names, mine))
            else:
                # the modelled fields must exist, in the same relative order
                sub = [f for f in names if f in mine]
                if sub != mine:
                    self.bad(None, "fields of %s.%s are %s, the signature table expects the subsequence %s"
                             % (fname, cls, names, mine))
        r = dict(d)
        r["fields"] = fields
        r["pyorder"] = [f for f, _ in pyfields]
        self.records[name] = r
        return r

    def enum(self, name):
        if name in self.enums:
            return self.enums[name]
        fname, cls = ENUMS[name]["source"]
        members = self.src.enum_members(fname, cls, self.fn)
        if not members:
            self.bad(None, "enum %s has no members" % cls)
        self.enums[name] = members
        return members

    def lean_type(self, t):
        k = t[0]
        if k == "bool":
            return "Bool"
        if k in ("int", "intlit"):
            return "Int"
        if k == "nat":
            return "Nat"
        if k == "str":
            return "Str"
        if k == "opt":
            return "Option (%s)" % self.lean_type(t[1]) if " " in self.lean_type(t[1]) else "Option " + self.lean_type(t[1])
        if k == "list":
            if t[1] is None:
                return "List _"
            inner = self.lean_type(t[1])
            return "List (%s)" % inner if " " in inner else "List " + inner
        if k == "tuple":
            return "(" + " × ".join(self.lean_type(x) for x in t[1]) + ")"
        if k == "rec":
            r = RECORDS[t[1]]["lean"]
            return r
        if k == "enum":
            return t[1]
        if k == "opaque":
            return t[1]
        if k == "proj":
            return "%s → %s" % (RECORDS[t[1]]["lean"], self.lean_type(t[2]))
        self.bad(None, "no Lean type for %r" % (t,))

    def paren_type(self, t):
        s = self.lean_type(t)
        return "(%s)" % s if (" " in s and not s.startswith("(")) else s

    # -- unification / coercion --------------------------------------------------------
    def unify(self, a, b):
        """least common type of two static types, or None"""
        if a == b:
            return a
        if a == LIT and b in (INT, NAT):
            return b
        if b == LIT and a in (INT, NAT):
            return a
        if (a, b) in ((NAT, INT), (INT, NAT)):
            return INT
        if a == NONE:
            return b if b[0] == "opt" else OPT(b)
        if b == NONE:
            return a if a[0] == "opt" else OPT(a)
        if a[0] == "opt" and b[0] == "opt":
            u = self.unify(a[1], b[1])
            return OPT(u) if u else None
        if a[0] == "opt":
            u = self.unify(a[1], b)
            return OPT(u) if u else None
        if b[0] == "opt":
            u = self.unify(a, b[1])
            return OPT(u) if u else None
        if a[0] == "list" and b[0] == "list":
            if a[1] is None:
                return b
            if b[1] is None:
                return a
            u = self.unify(a[1], b[1])
            return LIST(u) if u else None
        if a[0] == "tuple" and b[0] == "tuple" and len(a[1]) == len(b[1]):
            us = [self.unify(x, y) for x, y in zip(a[1], b[1])]
            return TUP(*us) if all(us) else None
        return None

    def coerce(self, lean, frm, to, node=None):
        if frm == to:
            return lean
        if frm == LIT and to in (INT, NAT):
            return lean
        if frm == NAT and to == INT:
            return "(Int.ofNat %s)" % lean
        if frm == NONE and to[0] == "opt":
            return "none"
        if to[0] == "opt" and frm[0] != "opt":
            return "(some %s)" % self.coerce(lean, frm, to[1], node)
        if to[0] == "opt" and frm[0] == "opt":
            if self.unify(frm[1], to[1]) == to[1] and frm[1] in (LIT,):
                return lean
            if frm[1] == NAT and to[1] == INT:
                return "(%s.map Int.ofNat)" % lean
        if to[0] == "list" and frm[0] == "list" and (frm[1] is None or frm[1] == to[1]):
            return lean
        if to[0] == "tuple" and frm[0] == "tuple" and len(to[1]) == len(frm[1]):
            n = len(to[1])
            projs = ["p" + ".2" * i + (".1" if i < n - 1 else "") for i in range(n)]
            parts = [self.coerce(p, a, b, node) for p, a, b in zip(projs, frm[1], to[1])]
            if parts == projs:
                return lean          # every component is used as it is
            return "(let p := %s; (%s))" % (lean, ", ".join(parts))
        self.bad(node, "cannot use a value of type %r where %r is expected" % (frm, to))

    # -- names --------------------------------------------------------------------------
    def fresh(self, base):
        self.counter += 1
        return "%s_%d" % (lean_ident(base).rstrip("_") if base in LEAN_KEYWORDS else base, self.counter)

    # -- expressions ----------------------------------------------------------------------
    def expr(self, node, env):
        """-> (lean text, static type)"""
        spec = self.spec
        # free expressions abstracted as parameters
        ext = spec.get("externs", {})
        if isinstance(node, (ast.Call, ast.Attribute, ast.Name)):
            key = ast.unparse(node)
            if key in ext and not (isinstance(node, ast.Name) and node.id in env):
                return ext[key][0], ext[key][1]

        if isinstance(node, ast.Constant):
            v = node.value
            if v is None:
                return "none", NONE
            if isinstance(v, bool):
                return ("true" if v else "false"), BOOL
            if isinstance(v, int):
                if v < 0:
                    return "(%d)" % v, INT
                return str(v), LIT
            if isinstance(v, str):
                return lean_str(v), STR
            self.bad(node, "constant of type %s" % type(v).__name__)

        if isinstance(node, ast.Name):
            if node.id not in env:
                self.bad(node, "unknown name `%s`" % node.id)
            v = env[node.id]
            return v.lean, v.type

        if isinstance(node, ast.Attribute):
            val, t = self.expr(node.value, env)
            if t[0] != "rec":
                self.bad(node, "attribute access on a value of type %r" % (t,))
            r = self.record(t[1])
            for f, path, ft in r["fields"]:
                if f == node.attr:
                    return "%s.%s" % (val, path), ft
            self.bad(node, "record %s has no (modelled) field `%s`" % (t[1], node.attr))

        if isinstance(node, ast.Subscript):
            val, t = self.expr(node.value, env)
            if t[0] != "tuple" or not (isinstance(node.slice, ast.Constant) and isinstance(node.slice.value, int)):
                self.bad(node, "only constant subscripts of known tuples are supported")
            i, n = node.slice.value, len(t[1])
            if i < 0:
                i += n
            if not 0 <= i < n:
                self.bad(node, "tuple index out of range")
            path = ".2" * i + (".1" if i < n - 1 else "")
            return "%s%s" % (val, path), t[1][i]

        if isinstance(node, ast.Tuple):
            parts = [self.expr(e, env) for e in node.elts]
            if len(parts) < 2:
                self.bad(node, "tuples of fewer than two elements")
            return "(" + ", ".join(p for p, _ in parts) + ")", TUP(*[t for _, t in parts])

        if isinstance(node, ast.List):
            return self.list_literal(node, env)

        if isinstance(node, ast.Compare):
            return self.compare(node, env), BOOL

        if isinstance(node, ast.BoolOp):
            parts = [self.expr(v, env) for v in node.values]
            if any(t != BOOL for _, t in parts):
                self.bad(node, "`and`/`or` used as a VALUE needs bool operands (in a test position any type is fine)")
            op = " && " if isinstance(node.op, ast.And) else " || "
            return "(" + op.join(p for p, _ in parts) + ")", BOOL

        if isinstance(node, ast.UnaryOp):
            if isinstance(node.op, ast.Not):
                return "(!%s)" % self.truthy(node.operand, env), BOOL
            if isinstance(node.op, ast.USub):
                val, t = self.expr(node.operand, env)
                if not is_intlike(t):
                    self.bad(node, "unary minus on %r" % (t,))
                return "(-%s)" % self.coerce(val, t, INT), INT
            self.bad(node, "unary operator %s" % type(node.op).__name__)

        if isinstance(node, ast.BinOp):
            return self.binop(node, env)

        if isinstance(node, ast.IfExp):
            return self.ifexp(node, env)

        if isinstance(node, ast.Call):
            return self.call(node, env)

        self.bad(node, "expression form %s is outside the subset" % type(node).__name__)

    def list_literal(self, node, env):
        parts = [self.expr(e, env) for e in node.elts]
        if not parts:
            return "[]", LIST(None)
        t = parts[0][1]
        for _, t2 in parts[1:]:
            t = self.unify(t, t2)
            if t is None:
                self.bad(node, "list literal with elements of different types")
        if t == LIT:
            t = INT
        return "[" + ", ".join(self.coerce(p, pt, t, node) for p, pt in parts) + "]", LIST(t)

    def binop(self, node, env):
        a, ta = self.expr(node.left, env)
        b, tb = self.expr(node.right, env)
        op = node.op
        if isinstance(op, ast.Add) and ta == STR and tb == STR:
            return "(%s ++ %s)" % (a, b), STR
        if isinstance(op, ast.Add) and ta[0] == "list" and tb[0] == "list":
            u = self.unify(ta, tb)
            if u is None:
                self.bad(node, "concatenation of lists of different types")
            return "(%s ++ %s)" % (a, b), u
        if not (is_intlike(ta) and is_intlike(tb)):
            self.bad(node, "arithmetic on %r and %r" % (ta, tb))
        t = self.unify(ta, tb)
        if isinstance(op, ast.Sub):
            # Nat subtraction truncates: only Int is faithful
            t = INT
        if t == LIT and not isinstance(op, ast.Sub):
            t = LIT
        a, b = self.coerce(a, ta, t if t != LIT else LIT), self.coerce(b, tb, t if t != LIT else LIT)
        if isinstance(op, ast.Add):
            return "(%s + %s)" % (a, b), t
        if isinstance(op, ast.Sub):
            return "(%s - %s)" % (a, b), INT
        if isinstance(op, ast.Mult):
            return "(%s * %s)" % (a, b), t
        if isinstance(op, ast.FloorDiv):
            if t == INT:
                return "(Int.fdiv %s %s)" % (a, b), INT      # Python floor division
            return "(%s / %s)" % (a, b), t                    # Nat: floor = truncation
        self.bad(node, "binary operator %s" % type(op).__name__)

    def ifexp(self, node, env):
        # a call that can raise must not be hoisted out of a branch (it would be evaluated eagerly)
        saved_h, self.hoists = self.hoists, None
        try:
            return self.ifexp1(node, env)
        finally:
            self.hoists = saved_h

    def ifexp1(self, node, env):
        # probe the two branches for their types
        saved = self.counter
        types = []

        def probe(n):
            def k(e):
                _, t = self.expr(n, e)
                types.append(t)
                return "?"
            return k
        self.cond(node.test, env, probe(node.body), probe(node.orelse))
        self.counter = saved
        t = types[0]
        for t2 in types[1:]:
            t = self.unify(t, t2)
            if t is None:
                self.bad(node, "the branches of the conditional expression have different types")
        if t == LIT:
            t = INT

        def branch(n):
            def k(e):
                v, vt = self.expr(n, e)
                return self.coerce(v, vt, t, n)
            return k
        return self.cond(node.test, env, branch(node.body), branch(node.orelse)), t

    def compare(self, node, env):
        operands = [node.left] + list(node.comparators)
        parts = []
        for i, op in enumerate(node.ops):
            parts.append(self.compare1(op, operands[i], operands[i + 1], env, node))
        if len(parts) == 1:
            return parts[0]
        return "(" + " && ".join(parts) + ")"

    def compare1(self, op, ln, rn, env, node):
        if isinstance(op, (ast.Is, ast.IsNot)):
            if not (isinstance(rn, ast.Constant) and (rn.value is None or isinstance(rn.value, bool))):
                self.bad(node, "`is` is supported against None/True/False only")
            a, ta = self.expr(ln, env)
            neg = isinstance(op, ast.IsNot)
            if rn.value is None:
                if ta == NONE:
                    return "false" if neg else "true"
                if ta[0] != "opt":
                    return "true" if neg else "false"
                return "(%s %s none)" % (a, "!=" if neg else "==")
            c = "true" if rn.value else "false"
            if ta == BOOL:
                return "(%s %s %s)" % (a, "!=" if neg else "==", c)
            if ta == OPT(BOOL):
                return "(%s %s some %s)" % (a, "!=" if neg else "==", c)
            self.bad(node, "`is %s` on a value of type %r" % (rn.value, ta))

        if isinstance(op, (ast.In, ast.NotIn)):
            a, ta = self.expr(ln, env)
            b, tb = self.expr(rn, env)
            neg = "!" if isinstance(op, ast.NotIn) else ""
            if ta == STR and tb == STR:
                return "(%sisInfix %s %s)" % (neg, a, b)
            if tb[0] == "list":
                et = tb[1]
                if et is None:
                    return "true" if neg else "false"
                return "(%sList.elem %s %s)" % (neg, self.coerce(a, ta, et, node), b)
            self.bad(node, "`in` on %r and %r" % (ta, tb))

        a, ta = self.expr(ln, env)
        b, tb = self.expr(rn, env)
        if isinstance(op, (ast.Eq, ast.NotEq)):
            t = self.unify(ta, tb)
            if t is None:
                self.bad(node, "`==` on values of different types %r and %r" % (ta, tb))
            if t == LIT:
                t = INT
            if t[0] in ("opaque", "proj"):
                self.bad(node, "`==` on opaque values")
            return "(%s %s %s)" % (self.coerce(a, ta, t, node), "!=" if isinstance(op, ast.NotEq) else "==",
                                   self.coerce(b, tb, t, node))
        sym = {ast.Lt: "<", ast.LtE: "≤", ast.Gt: ">", ast.GtE: "≥"}.get(type(op))
        if sym is None:
            self.bad(node, "comparison operator %s" % type(op).__name__)
        t = self.unify(ta, tb)
        if t is not None and is_intlike(t):
            if t == LIT:
                t = INT
            return "(decide (%s %s %s))" % (self.coerce(a, ta, t, node), sym, self.coerce(b, tb, t, node))
        if t == STR:
            return {"<": "(strLt %s %s)" % (a, b), ">": "(strLt %s %s)" % (b, a),
                    "≤": "(!strLt %s %s)" % (b, a), "≥": "(!strLt %s %s)" % (a, b)}[sym]
        if t is not None and t[0] == "list" and t[1] in (NAT, None):
            # Python's lexicographic list comparison (model primitives lexLt / lexLe)
            return {"<": "(lexLt %s %s)" % (a, b), ">": "(lexLt %s %s)" % (b, a),
                    "≤": "(lexLe %s %s)" % (a, b), "≥": "(lexLe %s %s)" % (b, a)}[sym]
        self.bad(node, "ordering comparison on %r and %r" % (ta, tb))

    def call(self, node, env):
        f = node.func
        fname = ast.unparse(f)
        if node.keywords and not (isinstance(f, ast.Attribute) and f.attr == "_replace") \
                and fname not in CONSTRUCTORS:
            self.bad(node, "keyword arguments")
        # any / all over a generator
        if fname in ("any", "all") and len(node.args) == 1 and isinstance(node.args[0], (ast.GeneratorExp, ast.ListComp)):
            g = node.args[0]
            if len(g.generators) != 1 or g.generators[0].ifs or g.generators[0].is_async:
                self.bad(node, "only `any(e for x in xs)` with one plain generator")
            gen = g.generators[0]
            if not isinstance(gen.target, ast.Name):
                self.bad(node, "generator target must be a name")
            xs, txs = self.expr(gen.iter, env)
            if txs[0] != "list" or txs[1] is None:
                self.bad(node, "generator over a value of type %r" % (txs,))
            x = lean_ident(gen.target.id)
            env2 = dict(env)
            env2[gen.target.id] = Var(x, txs[1])
            saved_h, self.hoists = self.hoists, None     # nothing is hoisted out of the generator
            try:
                body = self.cond(g.elt, env2, lambda e: "true", lambda e: "false", as_bool=True)
            finally:
                self.hoists = saved_h
            return "(List.%s %s (fun %s => %s))" % (fname, xs, x, body), BOOL
        if fname == "int" and len(node.args) == 1:
            a, ta = self.expr(node.args[0], env)
            if is_intlike(ta):
                return a, ta
            if ta == STR:
                # int(s) for a string of ASCII digits (the callers' regexes guarantee that)
                return "(strToNat %s)" % a, NAT
            self.bad(node, "int() of a value of type %r (would raise TypeError for None)" % (ta,))
        if fname == "len" and len(node.args) == 1:
            a, ta = self.expr(node.args[0], env)
            if ta == STR or ta[0] == "list":
                return "%s.length" % a, NAT
            self.bad(node, "len() of %r" % (ta,))
        if fname == "getattr" and len(node.args) == 2:
            a, ta = self.expr(node.args[0], env)
            if isinstance(node.args[1], ast.Constant) and isinstance(node.args[1].value, str):
                return self.expr(ast.copy_location(ast.Attribute(value=node.args[0], attr=node.args[1].value, ctx=ast.Load()), node), env)
            fld, tf = self.expr(node.args[1], env)
            if tf[0] == "proj" and ta == REC(tf[1]):
                return "(%s %s)" % (fld, a), tf[2]
            self.bad(node, "getattr needs a constant field name or the loop variable of a loop over the record's `_fields`")
        if fname in CONSTRUCTORS:
            kind, name = CONSTRUCTORS[fname]
            if kind == "rec":
                r = self.record(name)
                fields = r["fields"]
                if len(node.args) + len(node.keywords) != len(fields):
                    self.bad(node, "constructor needs all %d fields" % len(fields))
                vals = {}
                for (f_, path, ft), a in zip(fields, node.args):
                    vals[f_] = a
                for kw in node.keywords:
                    if kw.arg is None or kw.arg in vals or kw.arg not in [x for x, _, _ in fields]:
                        self.bad(node, "bad keyword `%s`" % kw.arg)
                    vals[kw.arg] = kw.value
                items = []
                for f_, path, ft in fields:
                    v, vt = self.expr(vals[f_], env)
                    items.append("%s := %s" % (path, self.coerce(v, vt, ft, vals[f_])))
                return "({ " + ", ".join(items) + " } : %s)" % r["lean"], REC(name)
            if kind == "enum":
                self.enum(name)
                if len(node.args) != 1:
                    self.bad(node, "enum constructor takes one value")
                a, ta = self.expr(node.args[0], env)
                if ta != STR:
                    self.bad(node, "enum constructor on a value of type %r" % (ta,))
                if self.hoists is None:
                    self.bad(node, "a call that can raise is only supported inside an assignment or return")
                v = self.fresh("v")
                self.hoists.append((v, "(%s.ofValue %s)" % (name, a)))
                return v, ENUM(name)
        if isinstance(f, ast.Attribute):
            recv, tr = self.expr(f.value, env)
            m = f.attr
            if m == "lower" and tr == STR and not node.args:
                return "(lowerStr %s)" % recv, STR          # ASCII lower-casing (Model/Pep440.lowerStr)
            if m == "replace" and tr == STR and len(node.args) == 2:
                a, ta = self.expr(node.args[0], env)
                b, tb = self.expr(node.args[1], env)
                if ta != STR or tb != STR:
                    self.bad(node, "str.replace with non-str arguments")
                if not (isinstance(node.args[0], ast.Constant) and node.args[0].value != ""):
                    self.bad(node, "str.replace needs a non-empty literal pattern")
                return "(replaceAll %s %s %s)" % (a, b, recv), STR
            if m == "_replace" and tr[0] == "rec" and not node.args:
                r = self.record(tr[1])
                items = []
                for kw in node.keywords:
                    hit = [x for x in r["fields"] if x[0] == kw.arg]
                    if not hit:
                        self.bad(node, "_replace of unknown field `%s`" % kw.arg)
                    v, vt = self.expr(kw.value, env)
                    items.append("%s := %s" % (hit[0][1], self.coerce(v, vt, hit[0][2], kw.value)))
                return "{ %s with %s }" % (recv, ", ".join(items)), tr
            self.bad(node, "method `%s` on a value of type %r" % (m, tr))
        self.bad(node, "call of `%s` is not in the whitelist" % fname)

    # -- truthiness ------------------------------------------------------------------------
    def truthy_of(self, lean, t, node):
        k = t[0]
        if t == BOOL:
            return lean
        if t == NONE:
            return "false"
        if t == STR or k == "list":
            return "(!%s.isEmpty)" % lean
        if is_intlike(t):
            return "(%s != 0)" % lean
        if k == "opt":
            inner = t[1]
            if inner == BOOL:
                return "(%s == some true)" % lean
            if inner == STR or inner[0] == "list":
                return "(%s != none && %s != some [])" % (lean, lean)
            if is_intlike(inner):
                return "(%s != none && %s != some 0)" % (lean, lean)
            if inner[0] in ("rec", "tuple"):
                return "(%s != none)" % lean
        if k in ("rec", "tuple"):
            return "true"
        self.bad(node, "truthiness of a value of type %r is not defined in the subset" % (t,))

    def truthy(self, node, env):
        """a Lean Bool: the Python truth value of `node` (no narrowing)"""
        if isinstance(node, ast.BoolOp):
            op = " && " if isinstance(node.op, ast.And) else " || "
            return "(" + op.join(self.truthy(v, env) for v in node.values) + ")"
        if isinstance(node, ast.UnaryOp) and isinstance(node.op, ast.Not):
            return "(!%s)" % self.truthy(node.operand, env)
        v, t = self.expr(node, env)
        return self.truthy_of(v, t, node)

    # -- conditions with narrowing --------------------------------------------------------
    def narrowing_atom(self, node, env, top=False):
        """`x is None` / `x is not None` / bare `x` on an Optional variable (a bare Optional[bool]
        only when it is the WHOLE test: inside and/or it is rendered as `x == some true`)"""
        if isinstance(node, ast.Compare) and len(node.ops) == 1 and isinstance(node.ops[0], (ast.Is, ast.IsNot)):
            c = node.comparators[0]
            if (isinstance(c, ast.Constant) and c.value is None and isinstance(node.left, ast.Name)
                    and node.left.id in env and env[node.left.id].type[0] == "opt"):
                return "isnot" if isinstance(node.ops[0], ast.IsNot) else "is"
        if isinstance(node, ast.Name) and node.id in env:
            t = env[node.id].type
            if t[0] == "opt" and (t[1] != BOOL or top):
                return "truthy"
        return None

    def needs_split(self, node, env):
        if isinstance(node, ast.BoolOp):
            return any(self.needs_split(v, env) for v in node.values)
        if isinstance(node, ast.UnaryOp) and isinstance(node.op, ast.Not):
            return self.needs_split(node.operand, env)
        return self.narrowing_atom(node, env) is not None

    def cond(self, test, env, tk, ek, as_bool=False, top=True):
        """Lean term: `tk(env')` when `test` is truthy, else `ek(env')`; the environments carry the
        narrowing (`x is not None` => x : T) into the continuations."""
        if isinstance(test, ast.UnaryOp) and isinstance(test.op, ast.Not):
            if as_bool and not self.needs_split(test, env):
                return self.truthy(test, env)
            return self.cond(test.operand, env, ek, tk, top=top)
        if isinstance(test, ast.BoolOp) and self.needs_split(test, env):
            first, rest = test.values[0], test.values[1:]
            more = rest[0] if len(rest) == 1 else ast.copy_location(ast.BoolOp(op=test.op, values=rest), test)
            if isinstance(test.op, ast.And):
                return self.cond(first, env, lambda e: self.cond(more, e, tk, ek, top=False), ek, top=False)
            return self.cond(first, env, tk, lambda e: self.cond(more, e, tk, ek, top=False), top=False)
        atom = self.narrowing_atom(test, env, top=top and not as_bool)
        if atom is not None:
            name = test.id if atom == "truthy" else test.left.id
            var = env[name]
            nv = self.fresh(name)
            env2 = dict(env)
            env2[name] = Var(nv, var.type[1], narrowed_from=var)
            if atom == "truthy":
                inner = "(if %s then %s else %s)" % (self.truthy_of(nv, var.type[1], test), _nl(tk(env2)), _nl(ek(env)))
                return "(match %s with\n  | none => %s\n  | some %s => %s)" % (
                    var.lean, _arm(ek(env)), nv, _arm(inner))
            none_k, some_k = (tk, ek) if atom == "is" else (ek, tk)
            return "(match %s with\n  | none => %s\n  | some %s => %s)" % (
                var.lean, _arm(none_k(env)), nv, _arm(some_k(env2)))
        b = self.truthy(test, env)
        if as_bool:
            return b
        return "(if %s then %s else %s)" % (b, _nl(tk(env)), _nl(ek(env)))

    # -- statements ---------------------------------------------------------------------------
    def contains_exit(self, stmts, allow_continue=False):
        for st in stmts:
            for n in ast.walk(st):
                if isinstance(n, ast.Continue) and allow_continue:
                    continue
                if isinstance(n, (ast.Return, ast.Raise, ast.Break, ast.Continue)):
                    return True
                if isinstance(n, ast.Call) and CONSTRUCTORS.get(ast.unparse(n.func), ("", ""))[0] == "enum":
                    return True
        return False

    def with_hoists(self, compute, cont):
        saved = self.hoists
        self.hoists = []
        try:
            val = compute()
            hs = self.hoists
        finally:
            self.hoists = saved
        body = cont(val)
        for name, e in reversed(hs):
            body = "(match %s with\n  | none => none\n  | some %s => %s)" % (e, name, _arm(body))
        return body

    def ret(self, node, env, at):
        rt = self.spec["ret"]

        def compute():
            if node is None:
                return "none", NONE
            return self.expr(node, env)

        def cont(vt):
            v, t = vt
            out = self.coerce(v, t, rt, at)
            return "(some %s)" % out if self.raises else out
        return self.with_hoists(compute, cont)

    def assign(self, name, compute, env, kr, at):
        def cont(vt):
            v, t = vt
            ln = lean_ident(name)
            env2 = dict(env)
            env2[name] = Var(ln, t)
            return "let %s := %s;\n%s" % (ln, v, kr(env2))
        return self.with_hoists(compute, cont)

    def is_dropped(self, st):
        if isinstance(st, ast.Expr):
            if isinstance(st.value, ast.Constant) and isinstance(st.value.value, str):
                return True                                    # docstring
            if isinstance(st.value, ast.Call):
                f = st.value.func
                if isinstance(f, ast.Attribute) and isinstance(f.value, ast.Name) and f.value.id == "logger":
                    return True                                # logger.* has no effect on the result
        return isinstance(st, ast.Pass)

    def as_assignment(self, st, env):
        """(target name, compute thunk) for the assignment-like statements, else None"""
        if isinstance(st, ast.Assign):
            if len(st.targets) != 1 or not isinstance(st.targets[0], ast.Name):
                self.bad(st, "only `name = expr` assignments")
            return st.targets[0].id, (lambda e: self.expr(st.value, e))
        if isinstance(st, ast.AnnAssign):
            if not isinstance(st.target, ast.Name) or st.value is None:
                self.bad(st, "only `name: T = expr` assignments")
            return st.target.id, (lambda e: self.expr(st.value, e))
        if isinstance(st, ast.AugAssign):
            if not isinstance(st.target, ast.Name):
                self.bad(st, "only `name op= expr`")
            b = ast.copy_location(ast.BinOp(left=ast.Name(id=st.target.id, ctx=ast.Load()), op=st.op, right=st.value), st)
            ast.fix_missing_locations(b)
            return st.target.id, (lambda e: self.expr(b, e))
        if (isinstance(st, ast.Expr) and isinstance(st.value, ast.Call) and isinstance(st.value.func, ast.Attribute)
                and st.value.func.attr == "append" and isinstance(st.value.func.value, ast.Name)
                and len(st.value.args) == 1 and not st.value.keywords):
            name = st.value.func.value.id

            def compute(e):
                if name not in e or e[name].type[0] != "list":
                    self.bad(st, "`.append` on something that is not a list variable")
                lst = e[name]
                v, t = self.expr(st.value.args[0], e)
                et = t if lst.type[1] is None else self.unify(lst.type[1], t)
                if et is None or (lst.type[1] is not None and et != lst.type[1]):
                    self.bad(st, "append of a %r to a list of %r" % (t, lst.type[1]))
                if et == LIT:
                    et = INT
                return "(%s ++ [%s])" % (lst.lean, self.coerce(v, t, et, st)), LIST(et)
            return name, compute
        return None

    def block(self, stmts, env, k):
        if not stmts:
            return k(env)
        st, rest = stmts[0], stmts[1:]

        def kr(e):
            return self.block(rest, e, k)
        if self.is_dropped(st):
            return kr(env)
        if isinstance(st, ast.Return):
            return self.ret(st.value, env, st)
        if isinstance(st, ast.Raise):
            exc = st.exc
            name = ast.unparse(exc.func) if isinstance(exc, ast.Call) else (ast.unparse(exc) if exc is not None else "")
            if name != "ValueError":
                self.bad(st, "only `raise ValueError(...)` is supported")
            return "none"
        if isinstance(st, ast.Continue):
            if not self.loop_k:
                self.bad(st, "`continue` outside an accumulation loop")
            return self.loop_k[-1](env)       # next iteration: hand over the loop-carried state
        a = self.as_assignment(st, env)
        if a is not None:
            name, compute = a
            return self.assign(name, lambda: compute(env), env, kr, st)
        if isinstance(st, ast.If):
            return self.if_stmt(st, rest, env, k)
        if isinstance(st, ast.For):
            return self.for_stmt(st, rest, env, k)
        self.bad(st, "statement form %s is outside the subset" % type(st).__name__)

    def changed_vars(self, env, probes):
        """names assigned on some path: {name: [Var on each path]}; a mere narrowing is not a change"""
        names = []
        for pe in probes:
            for n, v in pe.items():
                if n not in env:
                    if n not in names:
                        names.append(n)
                elif v is not env[n] and v.root() is not env[n].root():
                    if n not in names:
                        names.append(n)
        return names

    def if_stmt(self, st, rest, env, k):
        def kr(e):
            return self.block(rest, e, k)
        if not self.contains_exit(st.body) and not self.contains_exit(st.orelse):
            # try the JOIN form: let (changed vars) := if .. then .. else ..; rest
            saved = self.counter
            probes = []

            def pk(e):
                probes.append(e)
                return "?"
            self.cond(st.test, env, lambda e: self.block(st.body, e, pk), lambda e: self.block(st.orelse, e, pk))
            self.counter = saved
            names = self.changed_vars(env, probes)
            # variables first defined inside a branch are only usable afterwards if every path defines them
            names = [n for n in names if all(n in pe for pe in probes)]
            jt = {}
            ok = True
            for n in names:
                t = probes[0][n].type
                for pe in probes[1:]:
                    t = self.unify(t, pe[n].type) if t is not None else None
                if t is None or t[0] == "none":
                    ok = False
                    break
                if t == LIT:
                    t = INT
                # do not silently wrap into Option at a join: Optional[T] vs T stays Optional
                jt[n] = t
            if ok and names:
                def tup(e):
                    vals = [self.coerce(e[n].lean, e[n].type, jt[n], st) for n in names]
                    return vals[0] if len(vals) == 1 else "(" + ", ".join(vals) + ")"
                body = self.cond(st.test, env, lambda e: self.block(st.body, e, tup),
                                 lambda e: self.block(st.orelse, e, tup))
                env2 = dict(env)
                for n in names:
                    env2[n] = Var(lean_ident(n), jt[n])
                if len(names) == 1:
                    return "let %s := %s;\n%s" % (lean_ident(names[0]), body, kr(env2))
                pat = "(" + ", ".join(lean_ident(n) for n in names) + ")"
                return "(match %s with\n  | %s => %s)" % (body, pat, _arm(kr(env2)))
            if ok and not names:
                return kr(env)       # no effect (e.g. only dropped statements)
        # DUPLICATION form: the rest of the block is continued inside both branches
        return self.cond(st.test, env, lambda e: self.block(st.body, e, kr), lambda e: self.block(st.orelse, e, kr))

    def iterable(self, node, env):
        """-> (lean list, element type)"""
        key = ast.unparse(node)
        if key in FIELD_TUPLES:
            fname, cls, recname = FIELD_TUPLES[key]
            r = self.record(recname)
            pyfields = [f for f, _ in self.src.class_fields(fname, cls, self.fn)]
            items = []
            ft0 = None
            for f in pyfields:
                hit = [x for x in r["fields"] if x[0] == f]
                if not hit:
                    self.bad(node, "field `%s` of %s is not modelled" % (f, cls))
                _, path, ft = hit[0]
                if ft0 is None:
                    ft0 = ft
                elif ft != ft0:
                    self.bad(node, "a loop over `_fields` needs fields of one type")
                items.append("%s.%s" % (r["lean"], path) if "." not in path and " " not in r["lean"]
                             else "(fun (r : %s) => r.%s)" % (r["lean"], path))
            return "[" + ", ".join(items) + "]", PROJ(recname, ft0)
        xs, t = self.expr(node, env)
        if t[0] != "list" or t[1] is None:
            self.bad(node, "loop over a value of type %r" % (t,))
        return xs, t[1]

    def for_stmt(self, st, rest, env, k):
        if st.orelse or not isinstance(st.target, ast.Name):
            self.bad(st, "only `for name in xs:` without else")
        xs, et = self.iterable(st.iter, env)
        x = lean_ident(st.target.id)
        env_in = dict(env)
        env_in[st.target.id] = Var(x, et)
        body = [s for s in st.body if not self.is_dropped(s)]
        # idiom 1: for x in xs: [assignments]; if c: return True/False  ...  return False/True
        last = body[-1] if body else None
        if (isinstance(last, ast.If) and not last.orelse and len(last.body) == 1
                and isinstance(last.body[0], ast.Return) and isinstance(last.body[0].value, ast.Constant)
                and isinstance(last.body[0].value.value, bool)
                and not self.contains_exit(body[:-1])):
            found = last.body[0].value.value
            rest2 = [s for s in rest if not self.is_dropped(s)]
            if not (rest2 and isinstance(rest2[0], ast.Return) and isinstance(rest2[0].value, ast.Constant)
                    and rest2[0].value.value is (not found)):
                self.bad(st, "a searching loop must be followed by `return %s`" % (not found))

            def test_k(e):
                if found:
                    return self.cond(last.test, e, lambda _: "true", lambda _: "false", as_bool=True)
                return "(!%s)" % self.cond(last.test, e, lambda _: "true", lambda _: "false", as_bool=True)
            inner = self.block(body[:-1], env_in, test_k)
            v = "(List.%s %s (fun %s =>\n%s))" % ("any" if found else "all", xs, x, indent(inner, 2))
            out = self.coerce(v, BOOL, self.spec["ret"], st)
            return "(some %s)" % out if self.raises else out
        # idiom 2: accumulation -> List.foldl over the loop-carried variables
        if self.contains_exit(body, allow_continue=True):
            self.bad(st, "a loop body with return/raise/break (other than the searching idiom)")

        def run_body(e, kk):
            self.loop_k.append(kk)
            try:
                return self.block(body, e, kk)
            finally:
                self.loop_k.pop()
        saved = self.counter
        probes = []

        def pk(e):
            probes.append(e)
            return "?"
        run_body(env_in, pk)
        self.counter = saved
        names = [n for n in self.changed_vars(env_in, probes) if n in env]
        if not names:
            return self.block(rest, env, k)
        # the state types after one iteration (refines `[]` : list of unknown)
        st_types = {}
        for n in names:
            t = env[n].type
            for pe in probes:
                t = self.unify(t, pe[n].type) if t is not None else None
            if t is None or (t[0] == "list" and t[1] is None):
                self.bad(st, "cannot type the loop-carried variable `%s`" % n)
            st_types[n] = t
        env_body = dict(env_in)
        for n in names:
            env_body[n] = Var(lean_ident(n), st_types[n])
        # second probe with the refined types must be stable
        probes2 = []
        saved = self.counter
        run_body(env_body, lambda e: (probes2.append(e), "?")[1])
        self.counter = saved
        for pe in probes2:
            for n in names:
                if self.unify(pe[n].type, st_types[n]) != st_types[n]:
                    self.bad(st, "the type of `%s` changes from iteration to iteration" % n)

        def tup(e):
            vals = [self.coerce(e[n].lean, e[n].type, st_types[n], st) for n in names]
            return vals[0] if len(vals) == 1 else "(" + ", ".join(vals) + ")"
        step = run_body(env_body, tup)
        tys = [self.lean_type(st_types[n]) for n in names]
        sty = tys[0] if len(tys) == 1 else " × ".join(tys)
        pat = lean_ident(names[0]) if len(names) == 1 else "(" + ", ".join(lean_ident(n) for n in names) + ")"
        init = tup(env)
        fold = "(List.foldl (fun (st : %s) (%s : %s) =>\n    (match st with\n      | %s =>\n%s))\n  %s\n  %s)" % (
            sty, x, self.lean_type(et), pat, indent(step, 8), init, xs)
        env2 = dict(env)
        for n in names:
            env2[n] = Var(lean_ident(n), st_types[n])
        if len(names) == 1:
            return "let %s := %s;\n%s" % (pat, fold, self.block(rest, env2, k))
        return "(match %s with\n  | %s => %s)" % (fold, pat, _arm(self.block(rest, env2, k)))

    # -- declarations generated from class definitions --------------------------------------------
    def decl(self, kind, name):
        if kind == "enum":
            members = self.enum(name)
            fname, cls = ENUMS[name]["source"]
            out = ["/-- `%s.%s` (a str-valued enum), generated from the class definition -/" % (fname[:-3], cls)]
            out.append("inductive %s\n%s\n  deriving DecidableEq, Repr" % (name, "\n".join("  | %s" % lean_ident(m) for m, _ in members)))
            out.append("")
            out.append("/-- `member.value` -/")
            out.append("def %s.value : %s → Str\n%s" % (name, name, "\n".join("  | .%s => %s" % (lean_ident(m), lean_str(v)) for m, v in members)))
            out.append("")
            out.append("/-- `%s(value)`: `none` = ValueError (no member has this value) -/" % cls)
            chain = "none"
            for m, v in reversed(members):
                chain = "if s == %s then some .%s\n  else %s" % (lean_str(v), lean_ident(m), chain)
            out.append("def %s.ofValue (s : Str) : Option %s :=\n  %s" % (name, name, chain))
            return "\n".join(out) + "\n"
        if kind == "rec":
            r = self.record(name)
            fname, cls = r["source"]
            out = ["/-- `%s.%s` (NamedTuple), generated from the class definition -/" % (fname[:-3], cls)]
            out.append("structure %s %s where" % (r["leanname"], r.get("params", "")))
            for f, path, ft in r["fields"]:
                out.append("  %s : %s" % (path, self.lean_type(ft)))
            return "\n".join(out) + "\n"
        raise AssertionError(kind)

    # -- the whole function ------------------------------------------------------------------------
    def translate(self):
        spec = self.spec
        src, node = self.src.find(spec["file"], ast.FunctionDef, spec["func"])
        if node is None:
            raise Untranslatable(self.fn, None, "function not found in %s" % spec["file"])
        self.source_text = ast.get_source_segment(src, node)
        a = node.args
        if a.vararg or a.kwarg or a.kwonlyargs or a.posonlyargs:
            self.bad(node, "only plain positional parameters")
        pynames = [x.arg for x in a.args]
        if pynames != [p for p, _ in spec["params"]]:
            self.bad(node, "parameters are %s, the signature table expects %s" % (pynames, [p for p, _ in spec["params"]]))
        for d in a.defaults:
            if not (isinstance(d, ast.Constant) and d.value is None):
                self.bad(node, "only `= None` parameter defaults")
        self.raises = any(isinstance(n, ast.Raise) for n in ast.walk(node)) or self.contains_exit_calls(node)
        decls = [self.decl(kind, name) for kind, name in spec.get("decls", [])]
        env = {}
        params = []
        for p, t in spec["params"]:
            if t[0] == "rec":
                self.record(t[1])
            env[p] = Var(lean_ident(p), t)
            params.append("(%s : %s)" % (lean_ident(p), self.lean_type(t)))
        for key, (ln, t) in spec.get("externs", {}).items():
            params.append("(%s : %s)" % (ln, self.lean_type(t)))
        rt = self.lean_type(spec["ret"])
        if self.raises:
            rt = "Option (%s)" % rt if " " in rt else "Option " + rt

        def fall_off(e):
            # falling off the end of a Python function returns None
            return self.ret(None, e, node)
        body = self.block(list(node.body), env, fall_off)
        used_externs = spec.get("externs", {})
        for key, (ln, _) in used_externs.items():
            if ln not in body:
                self.bad(node, "the expression `%s` (abstracted as parameter `%s`) does not occur" % (key, ln))
        head = "def %s %s%s : %s :=" % (spec["name"], (spec["implicit"] + " ") if spec.get("implicit") else "",
                                       " ".join(params), rt)
        return decls, head + "\n" + indent(body, 2) + "\n"

    def contains_exit_calls(self, node):
        for n in ast.walk(node):
            if isinstance(n, ast.Call) and CONSTRUCTORS.get(ast.unparse(n.func), ("", ""))[0] == "enum":
                return True
        return False


def _nl(s):
    """a branch of an if: on its own lines when it is multi-line"""
    if "\n" in s:
        return "\n" + indent(s, 2) + "\n"
    return s


def _arm(s):
    if "\n" in s:
        return "\n" + indent(s, 6)
    return s


# ----------------------------------------------------------------------------------
# file generation
# ----------------------------------------------------------------------------------
def sha256(text):
    return hashlib.sha256(text.encode("utf-8")).hexdigest()


def render(spec, sources):
    fname = "F_%s.lean" % spec["name"]
    tr = FuncTranslator(spec, sources)
    where = "src/bumpver/%s" % spec["file"]
    try:
        decls, body = tr.translate()
    except Untranslatable as ex:
        text = getattr(tr, "source_text", None)
        lines = [
            "/- GENERATED by harness/translate_funcs.py. Do not edit.",
            "   source   : %s" % where,
            "   function : %s" % spec["func"],
            "   sha256   : %s" % (sha256(text) if text else "(function not found)"),
            "",
            "   UNTRANSLATABLE: %s" % str(ex).replace("-/", "- /"),
            "   (no definition is generated; BV.tie_%s cannot compile until this is resolved) -/" % spec["name"],
            "",
        ]
        return fname, "\n".join(lines), ex
    except Exception as ex:  # unreadable / unparsable source, or an internal error: never a silent success
        lines = [
            "/- GENERATED by harness/translate_funcs.py. Do not edit.",
            "   source   : %s" % where,
            "   function : %s" % spec["func"],
            "",
            "   UNTRANSLATABLE: the source could not be read/parsed/translated: %s: %s -/"
            % (type(ex).__name__, str(ex).replace("-/", "- /")),
            "",
        ]
        return fname, "\n".join(lines), ex
    lines = [
        "/- GENERATED by harness/translate_funcs.py from the Python AST. Do not edit.",
        "   source   : %s" % where,
        "   function : %s" % spec["func"],
        "   sha256   : %s  (of the function's source text) -/" % sha256(tr.source_text),
    ]
    for imp in spec["imports"]:
        lines.append("import %s" % imp)
    lines.append("set_option linter.unusedVariables false")
    lines.append("namespace BV.GenF")
    lines.append("")
    for d in decls:
        lines.append(d)
    lines.append("/-- `%s.%s` -/" % (spec["file"][:-3], spec["func"]))
    lines.append(body)
    lines.append("end BV.GenF")
    lines.append("")
    return fname, "\n".join(lines), None


def generate(report=None):
    """{filename: content} for lean/BumpverVerif/Gen/"""
    sources = Sources()
    out = {}
    for spec in FUNCS:
        fname, content, err = render(spec, sources)
        out[fname] = content
        if report is not None:
            report.append((spec["func"], fname, err))
    return out


def main():
    rep = []
    files = generate(rep)
    gen = os.path.join(os.path.dirname(HERE), "lean", "BumpverVerif", "Gen")
    if "--write" in sys.argv:
        for name, content in files.items():
            path = os.path.join(gen, name)
            old = open(path, encoding="utf-8").read() if os.path.exists(path) else None
            if old != content:
                with open(path, "w", encoding="utf-8") as f:
                    f.write(content)
                print("wrote", name)
    for func, fname, err in rep:
        print("%-28s %-28s %s" % (func, fname, "ok" if err is None else "UNTRANSLATABLE: %s" % err))
    if "--show" in sys.argv:
        for name, content in files.items():
            print("=" * 20, name)
            print(content)
    return 0


if __name__ == "__main__":
    sys.exit(main())
