"""C14 — calendar versions never run backwards as the date advances."""
import datetime as dt, itertools
import impl_adapter as impl
import gen, refimpl
from common import load_known_findings

NOTE = ("Theorems C14_* (Props/C14.lean): calKey of every coherent shape is monotone in the date for ALL dates (no year bound beyond datetime's), "
        "rejected pairings are exactly the week/year mismatches and each is non-monotone (witness dates), the future guard is the lexicographic test. "
        "Tie: op calinfo vs v2version.cal_info (thorough: every date 1000-01-01..9999-12-31), op weekpat vs is_valid_week_pattern; "
        "oracle: consecutive-day pairs rendered by the real code and compared under PEP 440 by `packaging`, bump-level random date pairs.")

Y4, Y2 = ["YYYY"], ["YY", "0Y"]
G4, G2 = ["GGGG"], ["GG", "0G"]


def coherent_patterns():
    pats = []
    for y in Y4 + Y2:
        for m in ("MM", "0M"):
            pats.append([y, m])
            for d in ("DD", "0D"):
                pats.append([y, m, d])
                pats.append([y, "Q", m, d])
            pats.append([y, "Q", m])
        for j in ("JJJ", "00J"):
            pats.append([y, j])
        pats.append([y, "Q"])
        pats.append([y])
        for w in ("WW", "0W", "UU", "0U"):
            pats.append([y, w])
    for g in G4 + G2:
        pats.append([g])
        for v in ("VV", "0V"):
            pats.append([g, v])
    return pats


def render_real(parts, date):
    r = impl.format_version({"date": [date.year, date.month, date.day]}, ".".join(parts))
    return r.get("ok")


def pep_key(text):
    from packaging.version import Version
    return Version(text)


def impl_op(o):
    if o["op"] == "calinfo":
        try:
            d = dt.date(o["y"], o["m"], o["d"])
        except ValueError:
            return {"err": "ValueError"}
        from bumpver import v2version
        return {"ok": list(v2version.cal_info(d))}
    if o["op"] == "weekpat":
        from bumpver import v2version
        impl._quiet()
        return {"ok": bool(v2version.is_valid_week_pattern(o["p"]))}
    raise KeyError(o["op"])


def week53(parts, d):
    c = refimpl.cal_of(d)
    return (any(p in parts for p in ("WW", "0W")) and c["week_w"] == 53) or (any(p in parts for p in ("UU", "0U")) and c["week_u"] == 53)


def run(chk, driver, tier):
    rng = chk.rng
    thorough = tier == "thorough"
    chk.extra["rule"] = ("op calinfo on %s; op weekpat on all concatenations of up to three parts; oracle: for each of the %d coherent year x sub-part combinations "
                         "(padded and unpadded) consecutive day pairs %s rendered by the real format_version and ordered by packaging.Version; "
                         "rejected pairings must be rejected by incr; bump-level random (old date, new date) pairs incl. new < old; non-trivial = distinct op / (pattern, day)") % (
        "every date 1000-01-01..9999-12-31" if thorough else "every date of 40 sampled years incl. 1000, 2000, 2100, 9999 plus year boundaries 2001..2099",
        len(coherent_patterns()), "2001-01-01..2099-12-31 (all)" if thorough else "around every New Year 2001..2099 and 400 random days")
    # -- correspondence: calinfo
    years = list(range(1000, 10000)) if thorough else sorted(set([1000, 1001, 1582, 1900, 2000, 2004, 2018, 2020, 2021, 2024, 2100, 2400, 9998, 9999] + [rng.randint(1000, 9999) for _ in range(26)]))
    ops = []
    for y in years:
        d = dt.date(y, 1, 1)
        while d.year == y:
            ops.append({"op": "calinfo", "y": d.year, "m": d.month, "d": d.day})
            if d == dt.date.max:
                break
            d += dt.timedelta(days=1)
    if not thorough:
        for y in range(2001, 2100):
            for dd in (dt.date(y, 12, 28) + dt.timedelta(days=k) for k in range(0, 10)):
                ops.append({"op": "calinfo", "y": dd.year, "m": dd.month, "d": dd.day})
    for (y, m, d) in [(2021, 2, 29), (2020, 2, 30), (2021, 13, 1), (2021, 0, 1), (2021, 4, 31), (0, 1, 1), (10000, 1, 1), (2021, 1, 0)]:
        ops.append({"op": "calinfo", "y": y, "m": m, "d": d})
    names = ["YYYY", "YY", "0Y", "GGGG", "GG", "0G", "WW", "0W", "UU", "0U", "VV", "0V", "MM", "JJJ", "BUILD", "x"]
    for k in (1, 2, 3):
        for combo in itertools.product(names, repeat=k):
            if k == 3 and rng.random() > (1.0 if thorough else 0.15):
                continue
            ops.append({"op": "weekpat", "p": rng.choice(["", "v"]) + rng.choice([".", "", "-"]).join(combo)})
    chk.exhaustive = thorough
    chk.correspond(ops, impl_op, driver)
    # -- oracle: monotone rendering on the implementation
    known = {f["id"]: f for f in load_known_findings("C14") if f.get("status") == "open"}
    days = []
    if thorough:
        d = dt.date(2001, 1, 1)
        while d < dt.date(2099, 12, 31):
            days.append(d)
            d += dt.timedelta(days=1)
    else:
        for y in range(2001, 2099):
            days += [dt.date(y, 12, 27) + dt.timedelta(days=k) for k in range(0, 12)]
        days += [gen.gen_date(rng, dt.date(2001, 1, 1), dt.date(2099, 12, 30)) for _ in range(400)]
    pats = coherent_patterns()
    for parts in pats:
        for d in days:
            d2 = d + dt.timedelta(days=1)
            if d2.year > 2099:
                continue
            a, b = render_real(parts, d), render_real(parts, d2)
            verdict = None
            try:
                if not pep_key(a) <= pep_key(b):
                    verdict = "pattern %s: %s renders %r, the next day renders %r which is lower" % (".".join(parts), d, a, b)
            except Exception as ex:
                verdict = "pattern %s: %s renders %r / %r: %s" % (".".join(parts), d, a, b, ex)
            chk.oracle_case({"pattern": ".".join(parts), "date": str(d)}, verdict)
    chk.count("coherent_patterns", len(pats))
    # -- rejected pairings: rejected by incr, and really non-monotone on some day pair
    none_flags = {"major": False, "minor": False, "patch": False, "tag": None, "tag_num": False, "pin_increments": False, "pin_date": False}
    for y, w in itertools.product(Y4 + Y2, ("VV", "0V")):
        _rejected(chk, [y, w], none_flags)
    for g, w in itertools.product(G4 + G2, ("WW", "0W", "UU", "0U")):
        _rejected(chk, [g, w], none_flags)
    # -- bump level: calendar parts never move backwards
    for _ in range(20000 if thorough else 1500):
        parts = rng.choice(pats)
        pat = ".".join(parts) + ".BUILD"
        d_old = gen.gen_date(rng, dt.date(2001, 1, 1), dt.date(2098, 12, 31))
        d_new = d_old + dt.timedelta(days=rng.choice([0, 1, -1, 30, -30, 400, -400, rng.randint(-800, 800)]))
        if not (dt.date(2001, 1, 1) <= d_new <= dt.date(2098, 12, 31)):
            continue
        old = render_real(parts + ["BUILD"], d_old)
        if week53(parts, d_old) or week53(parts, d_new):
            continue
        r = impl.incr(old, pat, none_flags, [d_new.year, d_new.month, d_new.day], [2026, 9, 29])
        new = r.get("ok")
        verdict = None
        if new is None:
            verdict = "incr(%r, %r, date=%s) gave %r" % (old, pat, d_new, r)
        else:
            try:
                if not pep_key(old) < pep_key(new):
                    verdict = "incr(%r, %r, date=%s) = %r is not greater" % (old, pat, d_new, new)
                else:
                    okey = [int(x) for x in old.split(".")[:-1]]
                    nkey = [int(x) for x in new.split(".")[:-1]]
                    if nkey < okey:
                        verdict = "incr(%r, %r, date=%s) = %r moved calendar parts backwards" % (old, pat, d_new, new)
            except Exception as ex:
                verdict = "incr(%r, %r) = %r: %s" % (old, pat, new, ex)
        chk.oracle_case({"pattern": pat, "old": old, "date": str(d_new), "new": new}, verdict)
    lines = []
    if "F-C14-doy366" in known:
        r = impl.incr("2019.366", "YYYY.JJJ", none_flags, [2019, 12, 31], [2019, 12, 31])
        if r.get("ok") == "2019.365":
            lines.append("F-C14-doy366: %s (witness: incr('2019.366', 'YYYY.JJJ', date=2019-12-31) = '2019.365')" % known["F-C14-doy366"]["summary"])
    return lines


def _rejected(chk, parts, flags):
    pat = ".".join(parts)
    d = dt.date(2020, 6, 1)
    old = render_real(parts, d)
    r = impl.incr(old, pat + ".BUILD", flags, [2020, 6, 2], [2020, 6, 2])
    verdict = None
    if r.get("ok") is not None:
        verdict = "pairing %s is not rejected: incr gave %r" % (pat, r)
    else:
        # it really is non-monotone around some New Year
        found = False
        for y in range(2001, 2099):
            for k in range(-7, 8):
                d1 = dt.date(y, 1, 1) + dt.timedelta(days=k)
                a, b = render_real(parts, d1), render_real(parts, d1 + dt.timedelta(days=1))
                if pep_key(b) < pep_key(a):
                    found = True
                    break
            if found:
                break
        if not found:
            verdict = "pairing %s is rejected although it is monotone on every day pair around New Year 2001..2098" % pat
    chk.oracle_case({"rejected_pairing": pat}, verdict)


def search(chk, driver, tier):
    return


def replay(payload):
    c = payload["case"]
    if "rejected_pairing" in c:
        return None
    return "re-run ./check C14 (seed %s)" % payload.get("seed")
