"""C11 — uncommitted changes are never swept into the bump commit."""
import os, json, itertools
import impl_adapter as impl
import sandbox
from common import load_known_findings

NOTE = ("Theorems C11_* (Props/C11.lean): for EVERY porcelain status pair and every verbatim path, assert_not_dirty aborts iff the documented rule says so and never crashes. "
        "Tie: op dirty on status text produced by a real git for every file state x {pattern file, config file, unrelated} and on synthetic status text; "
        "end-to-end oracle with real git: exit code, bytes on disk, HEAD, commit contents.")

STATES = ["clean", "mod_unstaged", "mod_staged", "mod_both", "added", "added_mod", "del_unstaged", "del_staged", "untracked", "renamed_to"]
CFG = ('[bumpver]\ncurrent_version = "1.2.3"\nversion_pattern = "MAJOR.MINOR.PATCH"\ncommit = true\ntag = false\npush = false\n'
       '[bumpver.file_patterns]\n"bumpver.toml" = [\'current_version = "{version}"\']\n%s = [\'{version}\']\n')


def toml_key(name):
    return "'" + name + "'" if '"' in name else '"' + name + '"'


def make_repo(pr, target, state, pat_name="ver.txt", other="notes.txt", extra_dirty=None, key=None):
    """build a real git repo in which `target` ('pattern' | 'config' | 'unrelated') is in `state`; `key`: how the pattern file is
    written in file_patterns (a valid but non-normalised spelling such as ./ver.txt names the same file)"""
    pr.write_text("bumpver.toml", CFG % toml_key(key or pat_name))
    pr.write_text(pat_name, "version 1.2.3\n")
    pr.write_text(other, "notes\n")
    pr.write_text("spare.txt", "spare\n")
    pr.write_text("a_first.txt", "first\n")
    if isinstance(extra_dirty, str) and extra_dirty.startswith("many"):
        for i in range(int(extra_dirty[4:])):
            pr.write_text("a_many_%02d.txt" % i, "x\n")
    pr.git_init()
    fname = {"pattern": pat_name, "config": "bumpver.toml", "unrelated": other}[target]
    fresh = state in ("added", "added_mod", "untracked", "renamed_to")
    if fresh and target != "config":
        os.unlink(pr.path(fname))
    pr.git("add", "-A")
    pr.git("commit", "-q", "-m", "init")
    edit = lambda: open(pr.path(fname), "a").write("# edit\n")
    if state == "clean":
        pass
    elif state == "mod_unstaged":
        edit()
    elif state == "mod_staged":
        edit(); pr.git("add", fname)
    elif state == "mod_both":
        edit(); pr.git("add", fname); edit()
    elif state in ("added", "added_mod", "untracked") and target != "config":
        pr.write_text(fname, "version 1.2.3\n" if target == "pattern" else "notes\n")
        if state != "untracked":
            pr.git("add", fname)
        if state == "added_mod":
            edit()
    elif state == "renamed_to" and target != "config":
        pr.git("mv", "spare.txt", fname)
        if target == "pattern":
            open(pr.path(fname), "w").write("version 1.2.3\n")
            pr.git("add", fname)
    elif state == "del_unstaged":
        os.unlink(pr.path(fname))
    elif state == "del_staged":
        pr.git("rm", "-q", fname)
    else:
        return None
    if extra_dirty == "staged":
        open(pr.path("a_first.txt"), "a").write("# edit\n"); pr.git("add", "a_first.txt")
    elif extra_dirty == "unstaged":
        open(pr.path("a_first.txt"), "a").write("# edit\n")
    elif extra_dirty == "untracked":
        pr.write_text("a_aaa_untracked.txt", "x\n")
    elif isinstance(extra_dirty, str) and extra_dirty.startswith("many"):
        # MANY other dirty tracked files, all listed before the target by `git status`
        for i in range(int(extra_dirty[4:])):
            open(pr.path("a_many_%02d.txt" % i), "a").write("# edit\n")
    return fname


def expected_abort(target, state, allow):
    if state == "clean":
        return False
    if target in ("pattern", "config"):
        return True
    if allow:
        return False
    return state != "untracked"


def quoted_region(pat_name, target, state):
    """known finding F-C11-quoted: git prints the path C-quoted or as `old -> new`"""
    if target == "pattern" and state == "renamed_to":
        return "F-C11-quoted"
    if target == "pattern" and (any(ord(c) > 126 or c in ' "\\' for c in pat_name)):
        return "F-C11-quoted"
    return None


def e2e(target, state, allow, pat_name="ver.txt", extra_dirty=None, key=None):
    case = {"kind": "e2e", "target": target, "state": state, "allow_dirty": allow, "pattern_file": pat_name, "extra_dirty": extra_dirty, "key": key}
    with sandbox.Project("c11") as pr:
        fname = make_repo(pr, target, state, pat_name, extra_dirty=extra_dirty, key=key)
        if fname is None:
            return None, None, None
        status = pr.git("status", "--porcelain", "--untracked-files=all")      # what bumpver's status command prints
        case["status"] = status
        before = pr.snapshot()
        head0 = pr.git("rev-parse", "HEAD").strip()
        args = ["update", "--patch", "--no-fetch"] + (["--allow-dirty"] if allow else [])
        code, out, exc = sandbox.run_cli(args, pr.dir)
        after = pr.snapshot()
        head1 = pr.git("rev-parse", "HEAD").strip()
        committed = pr.git("show", "--name-only", "--format=", "HEAD").splitlines() if head1 != head0 else []
        status_after = pr.git("status", "--porcelain")
    case.update(exit=code, exc=exc, committed=committed)
    want_abort = expected_abort(target, state, allow)
    if (extra_dirty in ("staged", "unstaged") or str(extra_dirty).startswith("many")) and not allow:
        want_abort = True           # another tracked file is dirty
    file_missing = state in ("del_unstaged", "del_staged") and target in ("pattern", "config")
    verdict = None
    if want_abort:
        if code == 0:
            verdict = "update proceeded (exit 0) although %s file %r is %s (allow_dirty=%s); commit contains %r" % (target, fname, state, allow, committed)
        elif after != before or head1 != head0:
            verdict = "update aborted (exit %s) but files or HEAD changed although %s file is %s" % (code, target, state)
    else:
        if code != 0:
            verdict = "update aborted (exit %s %s) although only an unrelated file is %s (allow_dirty=%s)" % (code, exc, state, allow)
        elif sorted(committed) != sorted(["bumpver.toml", pat_name]) and state in ("clean", "mod_unstaged", "untracked", "del_unstaged") and extra_dirty != "staged" and not str(extra_dirty).startswith("many"):
            verdict = "bump commit contains %r, expected only the configured files" % (committed,)
    return case, verdict, status


def submodule_case(staged):
    """a SUBMODULE whose checked-out commit moved (`git status` lists ` M vendor/lib`): an uncommitted change like any other — without
    --allow-dirty the update must abort before touching a file"""
    import tempfile, shutil, subprocess
    case = {"kind": "submodule", "staged": staged}
    sub = tempfile.mkdtemp(prefix="c11sub-", dir=sandbox.scratch_root())
    try:
        with sandbox.Project("c11m") as pr:
            env = dict(os.environ, GIT_CONFIG_GLOBAL="/dev/null", GIT_CONFIG_SYSTEM="/dev/null", GIT_AUTHOR_NAME="t", GIT_AUTHOR_EMAIL="t@e",
                       GIT_COMMITTER_NAME="t", GIT_COMMITTER_EMAIL="t@e")
            def g(cwd, *a):
                return subprocess.run(["git", "-c", "protocol.file.allow=always"] + list(a), cwd=cwd, env=env, capture_output=True, text=True)
            g(sub, "init", "-q", "-b", "main")
            open(os.path.join(sub, "lib.txt"), "w").write("lib 1\n")
            g(sub, "add", "-A"); g(sub, "commit", "-q", "-m", "lib 1")
            pr.write_text("bumpver.toml", CFG % json.dumps("ver.txt"))
            pr.write_text("ver.txt", "version 1.2.3\n")
            pr.git_init(separate=False)
            r = g(pr.dir, "submodule", "add", "-q", sub, "vendor/lib")
            if r.returncode != 0:
                return None, None
            pr.git("add", "-A"); pr.git("commit", "-q", "-m", "init")
            # move the submodule's checked-out commit
            open(os.path.join(pr.dir, "vendor/lib", "lib.txt"), "w").write("lib 2\n")
            g(os.path.join(pr.dir, "vendor/lib"), "commit", "-q", "-am", "lib 2")
            if staged:
                pr.git("add", "vendor/lib")
            status = pr.git("status", "--porcelain", "--untracked-files=all")
            case["status"] = status
            if "vendor/lib" not in status:
                return None, None
            before = pr.snapshot()
            head0 = pr.git("rev-parse", "HEAD").strip()
            code, out, exc = sandbox.run_cli(["update", "--patch", "--no-fetch"], pr.dir)
            after = pr.snapshot()
            head1 = pr.git("rev-parse", "HEAD").strip()
        case.update(exit=code)
        if code == 0 or after != before or head1 != head0:
            return case, "update proceeded (exit %s) although the working tree is dirty (submodule pointer moved, %s): files changed %s, new commit %s" % (
                code, "staged" if staged else "unstaged", after != before, head1 != head0)
        return case, None
    finally:
        shutil.rmtree(sub, ignore_errors=True)


def synth_status(rng):
    codes = [" M", "M ", "MM", "A ", "AM", " D", "D ", "??", "R ", "C ", "UU", "!!", " T", "T ", "AD", "?? ", ""]
    paths = ["a.txt", "bumpver.toml", "src/x.py", "notes.txt", "ver.txt", '"a b.txt"', "old.txt -> a.txt", "Z", "é.txt", '"\\303\\251.txt"', " lead.txt"]
    lines = []
    for _ in range(rng.randint(0, 4)):
        sep = rng.choice([" ", " ", " ", "  ", "\t"])
        lines.append(rng.choice(codes) + sep + rng.choice(paths))
    text = rng.choice(["\n", "\n", "\r\n"]).join(lines)
    if lines and rng.random() < 0.8:
        text += "\n"
    if rng.random() < 0.05:
        text += "\n\n"
    files = rng.sample(["a.txt", "bumpver.toml", "ver.txt", "src/x.py", "a b.txt", "é.txt"], rng.randint(1, 3))
    return {"op": "dirty", "status": text, "files": sorted(files), "allow": rng.random() < 0.5}


def _impl(op):
    return impl.dirty_verdict(op["status"], op["files"], op["allow"])


def run(chk, driver, tier):
    rng = chk.rng
    chk.extra["rule"] = ("every file state (clean, modified unstaged/staged/both, added, added+modified, deleted unstaged/staged, untracked, renamed) "
                         "x target {pattern file, config file, unrelated file} x --allow-dirty, with real git; status text of those repos + synthetic porcelain text "
                         "through op dirty; non-trivial = distinct scenario or status text")
    ops = []
    known = {f["id"]: f for f in load_known_findings("C11") if f.get("status") == "open"}
    seen_known = {}
    for target, state, allow in itertools.product(["pattern", "config", "unrelated"], STATES, [False, True]):
        case, verdict, status = e2e(target, state, allow)
        if case is None:
            continue
        chk.count("state:" + state)
        region = quoted_region("ver.txt", target, state)
        if verdict and region in known:
            seen_known[region] = case
        chk.oracle_case(case, verdict, region if region in known else None)
        for files in (["bumpver.toml", "ver.txt"], ["bumpver.toml"], ["notes.txt"]):
            ops.append({"op": "dirty", "status": status, "files": files, "allow": allow})
    # a SECOND dirty file that sorts before the target in the porcelain listing
    for target, state, allow, extra in itertools.product(["pattern", "config", "unrelated"], ["clean", "mod_unstaged", "mod_staged", "del_unstaged", "untracked"],
                                                        [False, True], ["staged", "unstaged", "untracked"]):
        case, verdict, status = e2e(target, state, allow, extra_dirty=extra)
        if case is None:
            continue
        chk.count("extra_dirty:" + extra)
        chk.oracle_case(case, verdict)
        ops.append({"op": "dirty", "status": status, "files": ["bumpver.toml", "ver.txt"], "allow": allow})
    # MANY dirty files (9, 10, 11, 25) listed before the target: how many there are must not matter
    for target, state, allow, extra in itertools.product(["pattern", "config", "unrelated"], ["clean", "mod_unstaged", "mod_staged", "untracked"],
                                                        [False, True], ["many9", "many10", "many11", "many25"]):
        case, verdict, status = e2e(target, state, allow, extra_dirty=extra)
        if case is None:
            continue
        chk.count("extra_dirty:" + extra)
        chk.oracle_case(case, verdict)
        ops.append({"op": "dirty", "status": status, "files": ["bumpver.toml", "ver.txt"], "allow": allow})
    # the pattern file written in file_patterns as a valid but non-normalised path: it is still the file that carries the pattern
    for (pat_name, key), state, allow in itertools.product([("ver.txt", "./ver.txt"), ("src/ver.txt", "src//ver.txt"), ("src/ver.txt", "./src/ver.txt"), ("src/ver.txt", "src/./ver.txt"),
                                                            # pattern files whose names START with a dot or a slash-like character set (`.version`, `.github/…`)
                                                            (".version", ".version"), (".github/release.yml", ".github/release.yml"), ("..data/v.txt", "..data/v.txt"),
                                                            (".version", "./.version")],
                                                           ["clean", "mod_unstaged", "mod_staged", "untracked", "added"], [False, True]):
        case, verdict, status = e2e("pattern", state, allow, pat_name, key=key)
        if case is None:
            continue
        chk.count("key_spelling:" + key)
        chk.oracle_case(case, verdict)
    for staged in (False, True):
        case, verdict = submodule_case(staged)
        if case is not None:
            chk.count("submodule:%s" % ("staged" if staged else "unstaged"))
            chk.oracle_case(case, verdict)
    chk.exhaustive = True
    # pattern files whose names git C-quotes: known finding F-C11-quoted
    for pat_name in ["a b.txt", "é.txt"]:
        for allow in (True,):
            case, verdict, status = e2e("pattern", "mod_unstaged", allow, pat_name)
            region = quoted_region(pat_name, "pattern", "mod_unstaged")
            if verdict and region in known:
                seen_known[region] = case
            chk.oracle_case(case, verdict, region if region in known else None)
    for _ in range(20000 if tier == "thorough" else 2000):
        ops.append(synth_status(rng))
    chk.correspond(ops, _impl, driver)
    lines = []
    for fid, case in seen_known.items():
        lines.append("%s: %s (witness: pattern file %r %s, --allow-dirty, exit %s)" % (
            fid, known[fid]["summary"], case["pattern_file"], case["state"], case["exit"]))
    return lines


def search(chk, driver, tier):
    return


def replay(payload):
    c = payload["case"]
    case, verdict, _ = e2e(c["target"], c["state"], c["allow_dirty"], c.get("pattern_file", "ver.txt"), c.get("extra_dirty"), c.get("key"))
    return verdict
