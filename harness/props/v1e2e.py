"""End-to-end runs of the LEGACY `{…}` engine (v1rewrite.py, v1version.py, the v1 branch of the config loader) on generated projects:
real `bumpver update` (dry, then real) on real files, compared with an expectation that is computed INDEPENDENTLY of bumpver (the files are
built from a layout of lines; an occurrence line is `prefix + rendered version + suffix`, the expectation is the same layout with the new
version). Used by C04 (bytes outside the spans), C06 (a pattern without a match fails the whole update), C13 (dry = real) and C20.

What a case varies: the pattern family ({semver} with bump flags, {pycalver} with --set-version), versions whose rendering gets SHORTER or
longer (1.2.10 -> 1.3.0, a tag that disappears, build 9 -> 10 in the pep440 form), several patterns per file and two on one line, the four
line-ending regimes, final newline or not, a UTF-8 BOM, non-ASCII text, bumpver.toml or setup.cfg, patterns with significant leading blanks
(toml only: configparser strips values), an unconfigured file that mentions the version."""
import json
import rwcommon, sandbox

PEP_TAG = {"": "", "-alpha": "a0", "-beta": "b0", "-rc": "rc0"}


def _semver(rng):
    nums = [rng.choice([0, 1, 2, 9, 10, 12, 99, 100]) for _ in range(3)]
    flag = rng.choice(["--major", "--minor", "--patch"])
    new = list(nums)
    if flag == "--major":
        new = [nums[0] + 1, 0, 0]
    elif flag == "--minor":
        new = [nums[0], nums[1] + 1, 0]
    else:
        new = [nums[0], nums[1], nums[2] + 1]
    old_s, new_s = ".".join(map(str, nums)), ".".join(map(str, new))
    return {"vp": "{semver}", "old": old_s, "new": new_s, "old_pep": old_s, "new_pep": new_s, "args": ["update", "--no-fetch", flag]}


def _pycalver(rng):
    y, m = rng.randint(2017, 2021), rng.randint(1, 12)
    n = rng.choice([1, 9, 10, 99, 100, 999, 1234])
    t_old, t_new = rng.choice(sorted(PEP_TAG)), rng.choice(sorted(PEP_TAG))
    y2, m2 = y + rng.randint(1, 4), rng.randint(1, 12)
    n2 = n + rng.choice([1, 1, 2, 11])
    old = "v%04d%02d.%04d%s" % (y, m, n, t_old)
    new = "v%04d%02d.%04d%s" % (y2, m2, n2, t_new)
    return {"vp": "{pycalver}", "old": old, "new": new,
            "old_pep": "%04d%02d.%d%s" % (y, m, n, PEP_TAG[t_old]), "new_pep": "%04d%02d.%d%s" % (y2, m2, n2, PEP_TAG[t_new]),
            "args": ["update", "--no-fetch", "--set-version", new]}


# (pattern text, kind): the occurrence line is the pattern with the placeholder replaced by the rendered version
TEMPLATES = [
    ('__version__ = "{version}"', "v"), ("release: {version} /", "v"), ("pip install pkg=={pep440_version}", "p"),
    ("    version: {version}", "v"), ("Version {version} (tag)", "v"), ("badge/v-{pep440_version}-blue", "p"),
    ("ünï {version} ✓", "v"),
]
FILLER = ["", "plain text", "# comment with . and * and (parens)", "tab\there", "über — ✓ 漢字", "  indented", "1.2.3.4 is no version here", "trailing blanks   "]
NAMES = ["README.md", "src/pkg/__init__.py", "docs/conf.py", "VERSION.txt"]


def _render(tmpl, kind, v, pep):
    return tmpl.replace("{version}", v).replace("{pep440_version}", pep)


def gen_case(rng, want_fault=False):
    fam = _semver(rng) if rng.random() < 0.55 else _pycalver(rng)
    fmt = "toml" if (want_fault or rng.random() < 0.7) else "cfg"
    nfiles = rng.randint(1, 3)
    fault = rng.choice(["indent", "indent", "missing"]) if want_fault else None
    files = []
    for name in rng.sample(NAMES, nfiles):
        pats = rng.sample(TEMPLATES, rng.randint(1, 3))
        if fmt == "cfg":
            pats = [p for p in pats if not p[0].startswith(" ")] or [TEMPLATES[0]]
        lines = []          # (text_old, text_new)
        for _ in range(rng.randint(0, 3)):
            f = rng.choice(FILLER)
            lines.append((f, f))
        for tmpl, kind in pats:
            for _ in range(rng.choice([1, 1, 2])):
                pre, suf = rng.choice(["", "", "x ", "-- "]), rng.choice(["", "", " # tail", "  "])
                lines.append((pre + _render(tmpl, kind, fam["old"], fam["old_pep"]) + suf, pre + _render(tmpl, kind, fam["new"], fam["new_pep"]) + suf))
            f = rng.choice(FILLER)
            lines.append((f, f))
        if len(pats) >= 2 and rng.random() < 0.4:
            # two patterns on ONE line, in either order
            a, b = rng.sample(pats, 2)
            lines.append((_render(a[0], a[1], fam["old"], fam["old_pep"]) + " | " + _render(b[0], b[1], fam["old"], fam["old_pep"]),
                          _render(a[0], a[1], fam["new"], fam["new_pep"]) + " | " + _render(b[0], b[1], fam["new"], fam["new_pep"])))
        patterns = [p[0] for p in pats]
        broken = False
        if fault and not files:
            broken = True
            if fault == "indent":
                # a pattern with significant leading blanks whose stripped form WOULD match: as written it has no match
                patterns.append("  build-id: {version}")
                lines.append(("build-id: %s" % fam["old"], None))
            else:
                patterns.append("nowhere {version} to be found")
        rng.shuffle(lines)
        sep = rng.choice(["\n", "\n", "\r\n", "\r"])
        final_nl = rng.random() < 0.7
        bom = rng.random() < 0.25

        def mat(i):
            out = "\ufeff" if bom else ""
            for k, ln in enumerate(lines):
                out += ln[i] if ln[i] is not None else ln[0]
                if k < len(lines) - 1 or final_nl:
                    out += sep
            return out
        files.append({"name": name, "patterns": patterns, "old": mat(0), "new": None if broken else mat(1), "sep": sep, "bom": bom, "final_newline": final_nl})
    return dict(fam, fmt=fmt, files=files, fault=fault)


def config_text(case):
    cfgname = "bumpver.toml" if case["fmt"] == "toml" else "setup.cfg"
    if case["fmt"] == "toml":
        s = '[bumpver]\ncurrent_version = "%s"\nversion_pattern = "%s"\ncommit = false\ntag = false\npush = false\n\n[bumpver.file_patterns]\n' % (case["old"], case["vp"])
        s += '"bumpver.toml" = [\'current_version = "{version}"\']\n'
        for f in case["files"]:
            s += "%s = %s\n" % (json.dumps(f["name"]), json.dumps(f["patterns"], ensure_ascii=False))
        return cfgname, s, 'current_version = "%s"'
    s = "[metadata]\nname = pkg\n\n[bumpver]\ncurrent_version = %s\nversion_pattern = %s\ncommit = False\ntag = False\npush = False\n\n[bumpver:file_patterns]\n" % (case["old"], case["vp"])
    s += "setup.cfg =\n    current_version = {version}\n"
    for f in case["files"]:
        s += "%s =\n%s" % (f["name"], "".join("    %s\n" % p for p in f["patterns"]))
    return cfgname, s, "current_version = %s"


def run_case(case, driver=None):
    """returns (public case description, verdict or None)"""
    cfgname, cfgtext, cur_fmt = config_text(case)
    pub = {"kind": "legacy-e2e", "vp": case["vp"], "old": case["old"], "new": case["new"], "args": case["args"], "config": cfgname,
           "fault": case["fault"], "files": {f["name"]: {"patterns": f["patterns"], "content": f["old"]} for f in case["files"]}}
    with sandbox.Project("v1e") as p:
        p.write_bytes(cfgname, cfgtext.encode("utf-8"))
        for f in case["files"]:
            p.write_bytes(f["name"], f["old"].encode("utf-8"))
        p.write_bytes("unrelated.bin", b"\x00\xff binary \r\n not utf8 \xfe")
        p.write_text("notes/other.txt", "mentions %s but is not configured\n" % case["old"])
        before = p.snapshot()
        code_d, out_d, exc_d = sandbox.run_cli(case["args"] + ["--dry"], p.dir, p.env())
        mid = p.snapshot()
        code_r, out_r, exc_r = sandbox.run_cli(case["args"], p.dir, p.env())
        after = p.snapshot()
    pub.update(dry_exit=code_d, real_exit=code_r)
    if mid != before:
        return pub, "--dry changed files %r (legacy patterns)" % rwcommon.diff_files(before, mid)
    if case["fault"]:
        if after != before:
            return pub, "a configured pattern has no match (%s) but the update changed %r (exit %s)" % (case["fault"], rwcommon.diff_files(before, after), code_r)
        if code_r == 0:
            return pub, "a configured pattern has no match (%s) but the update exited 0" % case["fault"]
        if code_d == 0:
            return pub, "--dry exited 0 although the real run fails (a configured pattern has no match: %s)" % case["fault"]
        return pub, None
    if code_d != 0:
        return pub, "--dry failed (exit %s) on a consistent legacy project" % code_d
    if code_r != 0:
        return pub, "--dry exited 0 but the real run exited %s (legacy patterns)" % code_r
    exp = dict(before)
    for f in case["files"]:
        exp[f["name"]] = f["new"].encode("utf-8")
    exp[cfgname] = before[cfgname].replace((cur_fmt % case["old"]).encode(), (cur_fmt % case["new"]).encode(), 1)
    bad = rwcommon.diff_files(exp, after)
    if bad:
        k = bad[0]
        pub["file"] = k
        return pub, "legacy update: file %r holds %r, expected %r" % (k, after.get(k, b"")[:300], exp.get(k, b"")[:300])
    if driver is not None:
        texts = {k: v.decode("utf-8") for k, v in before.items() if k == cfgname or any(k == f["name"] for f in case["files"])}
        seps = {}
        for k, t in texts.items():
            seps[k] = "\r\n" if "\r\n" in t else ("\r" if "\r" in t else "\n")
        res = driver.run([{"op": "apply_diff", "diff": out_d.rstrip("\n"), "files": texts, "seps": seps}])[0]
        if "files" not in res:
            return pub, "the diff printed by --dry (legacy patterns) does not apply to the current files: %r" % (res,)
        for k, t in res["files"].items():
            if after[k].decode("utf-8") != t:
                pub["file"] = k
                return pub, "applying the printed diff to %r gives %r, the real run produced %r (legacy patterns)" % (k, t[:300], after[k].decode("utf-8")[:300])
    return pub, None


def run(chk, n, driver=None, faults=0.25):
    rng = chk.rng
    for _ in range(n):
        case = gen_case(rng, want_fault=rng.random() < faults)
        pub, verdict = run_case(case, driver)
        chk.count("legacy-e2e:" + ("fault:" + case["fault"] if case["fault"] else case["vp"]))
        chk.oracle_case(pub, verdict)
