"""C03 — after an update no configured occurrence is left stale."""
import impl_adapter as impl
import projgen, rwcommon, sandbox

NOTE = ("Theorems C03_* (Props/C03.lean) about BV.iterMatches/rewriteLines: every surviving match is spliced, also several on one line. "
        "Tie: op rewrite_content vs v2rewrite.rfd_from_content; oracle: real `bumpver update` on generated projects, every file compared byte for byte with the "
        "layout re-materialised for the new version by an independent renderer (refimpl + packaging for the PEP 440 form).")


def e2e(rng, set_version):
    pr = rwcommon.gen_ok_project(rng)
    pr["variants"] = True          # implicit self pattern, non-normalised file keys (see projgen.gen_project)
    case = {"vp": pr["vp"], "old": pr["old"], "new": pr["new"], "files": pr["files"], "file_patterns": pr["file_patterns"],
            "implicit_self": pr["implicit_self"], "key_alias": pr["key_alias"], "glob_self": pr["glob_self"],
            "set_version": set_version, "date": pr["date"], "flags": pr["flags"]}
    respelled = None
    if set_version == "respelled":
        # --set-version with a spelling the pattern accepts but would not render itself (a leading zero on a numeric part)
        import refimpl, random
        respelled = refimpl.render_respelled(refimpl.tokenize(pr["vp"]), pr["new_state"], random.Random(rng.random()))
        set_version = True
    with rwcommon.setup(pr) as p:
        before = p.snapshot()
        args = rwcommon.update_args(pr, set_version=set_version)
        if respelled:
            args = args[:-1] + [respelled]
        code, out, exc = sandbox.run_cli(args, p.dir)
        announced = sandbox.announced_version()
        after = p.snapshot()
    case["args"] = args
    case["exit"] = code
    case["announced"] = announced
    if respelled:
        # the gate may refuse the spelling (then nothing may change); if it accepts, everything must show what was ANNOUNCED
        if code != 0:
            return pr, case, None if after == before else "update --set-version %r failed (exit %s) but changed %r" % (respelled, code, rwcommon.diff_files(before, after))
        import re, json
        m = re.search(r'current_version = "((?:[^"\\\\]|\\\\.)*)"', after["bumpver.toml"].decode("utf-8"))
        cfg_ver = json.loads('"' + m.group(1) + '"') if m else None
        if announced is not None and cfg_ver != announced:
            return pr, case, ("`bumpver update --set-version %s` announced New Version: %r but the config file's current_version (and every {version} occurrence) now shows %r"
                              % (respelled, announced, cfg_ver))
        return pr, case, None
    if code != 0:
        return pr, case, "update failed (exit %s %s) on a consistent project" % (code, exc)
    exp = rwcommon.expected_snapshot(pr, before)
    bad = rwcommon.diff_files(exp, after)
    if bad:
        f = bad[0]
        case["file"] = f
        case["got"] = after.get(f, b"").decode("utf-8", "replace")
        case["want"] = exp.get(f, b"").decode("utf-8", "replace")
        return pr, case, "after update to %r file %r is %r, expected %r" % (pr["new"], f, case["got"][:300], case["want"][:300])
    return pr, case, None


def run(chk, driver, tier):
    rng = chk.rng
    n = 1500 if tier == "thorough" else 80
    chk.extra["rule"] = ("generated projects: 1..5 files x 1..4 patterns ({version}, {pep440_version}, partial calendar patterns, with literal context), occurrences on distinct or shared "
                         "lines, four line-ending regimes, noise lines; real `bumpver update` (flags or --set-version); non-trivial = distinct project")
    ops = []
    for i in range(n):
        pr, case, verdict = e2e(rng, set_version=("respelled" if i % 5 == 4 else (i % 2 == 1)))
        if i % 5 == 4:
            chk.count("set_version_respelled:%s" % ("none" if case["args"][-1] == pr["new"] else "exit%s" % case["exit"]))
        chk.count("files:%d" % len(pr["files"]))
        chk.count("shared_lines:%s" % any(len(ln[1]) > 1 for f in pr["layout"] for ln in f["lines"] if ln[0] == "occ"))
        chk.oracle_case(case, verdict)
        ops += rwcommon.corr_ops(pr)
    chk.correspond(ops, rwcommon.impl_rewrite_content, driver)
    return []


def search(chk, driver, tier):
    rng = chk.rng
    for i in range(600):
        pr, case, verdict = e2e(rng, set_version=(i % 2 == 1))
        chk.oracle_case(case, verdict)
        if chk.violations:
            return


def replay(payload):
    return "re-run ./check C03 with VERIF_SEED=%s (projects are generated from the seed)" % payload.get("seed")
