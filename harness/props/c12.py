"""C12 — messages, tag names and paths reach the VCS verbatim."""
import os, json
import impl_adapter as impl
import sandbox
from common import load_known_findings

NOTE = ("Theorems C12_* (Props/C12.lean): for every value-carrying git/hg command of the GENERATED template table and ALL strings, "
        "argv is the documented token list with each value as exactly one element; general C12_single_argument over the table shape; "
        "C12_message_render for str.format. Tie: ops shlex/fmt/argv/submsg against shlex.split, str.format, VCSAPI.__call__, "
        "_sub_msg_template; end-to-end `bumpver update` with a fake git/hg logging NUL-separated argv, and real git objects read back.")

NASTY = ["'", '"', "\\", " ", "  ", "-", "--amend", "$HOME", "`id`", "\n", "\t", "{", "}", "{{", "}}", "{x}", "é", "日本", "\U0001f600",
         ";", "|", "&", "#", "*", "?", "~", "!", "%s", "a' --amend --author='x", "it's", "'; rm -rf /; '", "\\'", '\\"', "''", '""']
ALPHA = "abc xyz012-_.:/"


def rand_value(rng, maxlen=24):
    n = rng.randint(0, 6)
    parts = []
    for _ in range(n):
        if rng.random() < 0.55:
            parts.append(rng.choice(NASTY))
        else:
            parts.append("".join(rng.choice(ALPHA) for _ in range(rng.randint(1, 5))))
    return "".join(parts)[:maxlen * 3]


CMDS = {
    ("git", "commit"): (["message"], lambda k: ["git", "commit", "--message", k["message"]]),
    ("git", "tag"): (["tag", "message"], lambda k: ["git", "tag", "--annotate", k["tag"], "--message", k["message"]]),
    ("git", "tag_light"): (["tag"], lambda k: ["git", "tag", k["tag"]]),
    ("git", "add_path"): (["path"], lambda k: ["git", "add", "--update", k["path"]]),
    ("git", "push_tag"): (["tag", "remote"], lambda k: ["git", "push", k["remote"], "--follow-tags", k["tag"], "HEAD"]),
    ("git", "push"): (["remote"], lambda k: ["git", "push", k["remote"], "HEAD"]),
    ("hg", "commit"): (["path"], lambda k: ["hg", "commit", "--logfile", k["path"]]),
    ("hg", "tag"): (["tag", "message"], lambda k: ["hg", "tag", k["tag"], "--message", k["message"]]),
    ("hg", "tag_light"): (["tag"], lambda k: ["hg", "tag", k["tag"]]),
    ("hg", "add_path"): (["path"], lambda k: ["hg", "add", k["path"]]),
    ("hg", "push_tag"): (["tag", "remote"], lambda k: ["hg", "push", k["tag"]]),
}
STATIC = [("git", c) for c in ("is_usable", "fetch", "ls_tags", "ls_tags_branch", "status", "show_remotes", "ls_branches")] + \
         [("hg", c) for c in ("is_usable", "fetch", "ls_tags", "ls_tags_branch", "status", "push", "show_remotes")]

KEYS = ["new_version", "old_version", "NEW_VERSION", "OLD_VERSION", "new_version_pep440", "old_version_pep440"]


def _impl(op):
    o = op["op"]
    if o == "argv":
        return impl.vcs_argv(op["vcs"], op["cmd"], op["kw"])
    if o == "fmt":
        return impl.py_format(op["tmpl"], op["kw"])
    if o == "shlex":
        return impl.shlex_split(op["s"])
    if o == "submsg":
        return impl.sub_msg(op["m"])
    raise KeyError(o)


def gen_ops(rng, n):
    ops = []
    for vc in list(CMDS) + STATIC:
        ops.append({"op": "argv", "vcs": vc[0], "cmd": vc[1], "kw": {k: "v" for k in ("message", "tag", "path", "remote")}})
    for _ in range(n):
        (v, c), (keys, _f) = rng.choice(list(CMDS.items()))
        ops.append({"op": "argv", "vcs": v, "cmd": c, "kw": {k: rand_value(rng) for k in keys}})
    for _ in range(n):
        ops.append({"op": "shlex", "s": rand_value(rng)})
    shlex_alpha = ["'", '"', "\\", " ", "a", "b", "\n", "\t", "-", "{", "}"]
    for _ in range(n):
        ops.append({"op": "shlex", "s": "".join(rng.choice(shlex_alpha) for _ in range(rng.randint(0, 10)))})
    for _ in range(n):
        pieces = []
        for _ in range(rng.randint(0, 5)):
            r = rng.random()
            if r < 0.4:
                pieces.append("{" + rng.choice(KEYS + ["missing", "x", ""]) + "}")
            elif r < 0.6:
                pieces.append(rng.choice(["{{", "}}", "{", "}", "{0}", "{a.b}", "{a!r}", "{a:>3}"]))
            else:
                pieces.append(rand_value(rng, 6).replace("{", "").replace("}", ""))
        kw = {k: rand_value(rng, 6) for k in KEYS}
        ops.append({"op": "fmt", "tmpl": "".join(pieces), "kw": kw})
    words = ["OLD", "NEW", "OLDER", "NEWS", "_OLD", "OLD_", " ", "-", ">", "x", "old", "1", ".", "(", ")", "\n", "{", "}"]
    for _ in range(n // 2):
        ops.append({"op": "submsg", "m": "".join(rng.choice(words) for _ in range(rng.randint(0, 7)))})
    return ops


def oracle_argv(vcs_name, cmd, kw):
    """the property, on the implementation: values arrive verbatim, one argument each"""
    r = impl.vcs_argv(vcs_name, cmd, kw)
    want = CMDS[(vcs_name, cmd)][1](kw)
    if r.get("ok") != want:
        return "VCSAPI(%r)(%r, **%r) ran %r, expected %r" % (vcs_name, cmd, kw, r, want)
    return None


def expected_message(tmpl, kw):
    out = tmpl
    for k in sorted(KEYS, key=len, reverse=True):
        out = out.replace("{" + k + "}", "\0" + k + "\0")
    for k in KEYS:
        out = out.replace("\0" + k + "\0", kw[k])
    return out


def e2e_case(rng):
    """one end-to-end update with a fake git: returns (case, verdict)"""
    vcs_kind = rng.choice(["git", "git", "hg"])
    fname = rng.choice(["a.txt", "sub dir/b.txt", "it's.txt", 'q"uote.txt', "-dash.txt", "$x.txt", "é.txt", "semi;colon.txt", "a b  c.txt",
                        "back\\slash.txt", "two\\\\bs.txt", "per%cent.txt", "brace{x}.txt", "{0}.txt", "hash#.txt", "amp&pipe|.txt", "`tick`.txt", "(paren).txt",
                        "tilde~.txt", "sub\\dir/c.txt", "trailing .txt", "=eq.txt", "@at.txt", "comma,.txt"])
    body_msg = rand_value(rng, 10).replace("{", "").replace("}", "").replace("\x00", "")
    if rng.random() < 0.5:
        # the OLD/NEW shorthand is documented for the command line only: a configured message keeps these words
        body_msg = rng.choice(["NEW release, drop OLD one: ", "OLD->NEW ", "NEWS for OLDER ", "(NEW) "]) + body_msg
    use_cli_msg = rng.random() < 0.5
    tmpl = body_msg + rng.choice(["{new_version}", " {old_version} -> {new_version}", "", "{new_version_pep440}"])
    tag_tmpl = rng.choice(["", "{new_version}", "rel " + rand_value(rng, 5).replace("{", "").replace("}", "") + " {new_version}"])
    # config values are read through the third-party `toml` 0.10 reader, which mis-parses escaped double quotes inside
    # basic strings (a parser matter, not bumpver's): keep double quotes out of CONFIGURED messages (CLI messages keep them)
    tag_tmpl = tag_tmpl.replace('"', "")
    if not use_cli_msg:
        tmpl = tmpl.replace('"', "")
    # the configuration is written either as bumpver.toml or as setup.cfg: a configured message has to reach the VCS verbatim
    # whichever reader it went through
    ini = rng.random() < 0.35
    cfg_name = "setup.cfg" if ini else "bumpver.toml"
    if ini:
        # INI: one logical line per value, no leading/trailing blanks (the parser strips them), file keys without '=' ':' and blanks at the ends
        one_line = lambda t: " ".join(t.replace("\r", " ").replace("\n", " ").split()) if t.strip() else ""
        tmpl, tag_tmpl = one_line(tmpl), one_line(tag_tmpl)
        if rng.random() < 0.5:
            tmpl = rng.choice(["100% done: ", "%(x)s ", "50%% ", "% "]) + tmpl
        if any(ch in fname for ch in "=:#;[]") or fname != fname.strip():
            fname = "a.txt"
        cfg = "[bumpver]\ncurrent_version = 1.2.3\nversion_pattern = MAJOR.MINOR.PATCH\ncommit = True\ntag = True\npush = False\n"
        if not use_cli_msg:
            cfg += "commit_message = %s\n" % tmpl
        cfg += "tag_message = %s\n" % tag_tmpl
        cfg += "[bumpver:file_patterns]\nsetup.cfg =\n    current_version = {version}\n%s =\n    {version}\n" % fname
    else:
        # config values are read through toml: write them as TOML basic strings
        cfg = "[bumpver]\ncurrent_version = \"1.2.3\"\nversion_pattern = \"MAJOR.MINOR.PATCH\"\ncommit = true\ntag = true\npush = false\n"
        if not use_cli_msg:
            cfg += "commit_message = %s\n" % json.dumps(tmpl, ensure_ascii=False)
        cfg += "tag_message = %s\n" % json.dumps(tag_tmpl, ensure_ascii=False)
        cfg += "[bumpver.file_patterns]\n\"bumpver.toml\" = ['current_version = \"{version}\"']\n%s = ['{version}']\n" % (("'" + fname + "'") if ('"' in fname or "\\" in fname) else json.dumps(fname, ensure_ascii=False))
    case = {"kind": "e2e", "vcs": vcs_kind, "file": fname, "commit_tmpl": tmpl, "tag_tmpl": tag_tmpl, "cli_msg": use_cli_msg, "config": cfg_name}
    with sandbox.Project("c12") as pr:
        pr.write_text(cfg_name, cfg)
        pr.write_text(fname, "version 1.2.3\n")
        pr.add_fake_vcs(vcs_kind)
        args = ["update", "--patch", "--no-fetch"]
        if use_cli_msg:
            args += ["--commit-message", tmpl]
        code, out, exc = sandbox.run_cli(args, pr.dir, pr.env())
        log = pr.fake_log()
    kw = {"new_version": "1.2.4", "old_version": "1.2.3", "NEW_VERSION": "1.2.4", "OLD_VERSION": "1.2.3",
          "new_version_pep440": "1.2.4", "old_version_pep440": "1.2.3"}
    # the config reader strips quotes/blanks from messages: expected template after that documented step
    eff = tmpl if use_cli_msg else tmpl.strip("'\" ")
    efft = tag_tmpl.strip("'\" ")
    if use_cli_msg:
        import re as _re
        eff = _re.sub(r"\b(OLD|NEW)\b", lambda m: "{%s_VERSION}" % m.group(1), eff)
    want_msg = expected_message(eff, kw)
    want_tag = expected_message(efft, kw)
    case["exit"] = code
    case["log"] = log
    if code != 0:
        return case, "update failed (exit %s, %s) for commit template %r file %r" % (code, exc, tmpl, fname)
    log = [c for c in log if c[:3] != ["git", "tag", "--list"]]
    muts = [c for c in log if c[:2] in (["git", "add"], ["git", "commit"], ["git", "tag"], ["hg", "add"], ["hg", "commit"], ["hg", "tag"])]
    if vcs_kind == "git":
        want = sorted([["git", "add", "--update", cfg_name], ["git", "add", "--update", fname]]) + \
               [["git", "commit", "--message", want_msg]] + \
               [["git", "tag", "--annotate", "1.2.4", "--message", want_tag] if want_tag else ["git", "tag", "1.2.4"]]
        got = sorted(muts[:2]) + muts[2:]
    else:
        want = sorted([["hg", "add", cfg_name], ["hg", "add", fname]]) + \
               [["hg", "tag", "1.2.4", "--message", want_tag] if want_tag else ["hg", "tag", "1.2.4"]]
        got = sorted([m for m in muts if m[1] == "add"]) + [m for m in muts if m[1] == "tag"]
        commits = [m for m in muts if m[1] == "commit"]
        if len(commits) != 1 or commits[0][:3] != ["hg", "commit", "--logfile"] or len(commits[0]) != 4:
            return case, "hg commit argv %r is not ['hg','commit','--logfile',<one path>]" % (commits,)
    if got != want:
        return case, "VCS received %r, expected %r" % (got, want)
    return case, None


def realgit_case(rng):
    """read the commit/tag message back from real git objects"""
    msg = rand_value(rng, 10).replace("{", "").replace("}", "").replace("\x00", "").replace("\r", "")
    tmpl = msg + " {new_version}"
    case = {"kind": "realgit", "commit_tmpl": tmpl}
    with sandbox.Project("c12g") as pr:
        pr.write_text("bumpver.toml", "[bumpver]\ncurrent_version = \"1.2.3\"\nversion_pattern = \"MAJOR.MINOR.PATCH\"\ncommit = true\ntag = true\npush = false\n"
                      "[bumpver.file_patterns]\n\"bumpver.toml\" = ['current_version = \"{version}\"']\n")
        pr.git_init()
        pr.git("add", "-A")
        pr.git("commit", "-q", "-m", "init")
        n0 = pr.git("rev-list", "--count", "HEAD").strip()
        code, out, exc = sandbox.run_cli(["update", "--patch", "--no-fetch", "--commit-message", tmpl, "--tag-message", tmpl], pr.dir)
        if code != 0:
            return case, "update with real git failed (exit %s %s) for message template %r" % (code, exc, tmpl)
        n1 = pr.git("rev-list", "--count", "HEAD").strip()
        got = pr.git("log", "-1", "--format=%B")
        tagmsg = pr.git("tag", "-l", "--format=%(contents)", "1.2.4")
        files = pr.git("show", "--name-only", "--format=", "HEAD").split()
    want = impl.sub_msg(tmpl)["ok"].replace("{new_version}", "1.2.4").replace("{NEW_VERSION}", "1.2.4").replace("{OLD_VERSION}", "1.2.3")
    # git normalises trailing whitespace/blank lines of messages (cleanup mode): compare modulo that
    def norm(s):
        return "\n".join(l.rstrip() for l in s.strip().splitlines())
    case.update(commits_before=n0, commits_after=n1, got=got)
    if int(n1) != int(n0) + 1:
        return case, "message %r changed the number of commits made: %s -> %s" % (tmpl, n0, n1)
    if norm(got) != norm(want) and not any(l.startswith("#") for l in want.splitlines()):
        return case, "commit message in git is %r, expected %r" % (got, want)
    if files != ["bumpver.toml"]:
        return case, "commit contains %r" % files
    return case, None


def run(chk, driver, tier):
    rng = chk.rng
    n = 20000 if tier == "thorough" else 1500
    chk.extra["rule"] = ("ops argv/shlex/fmt/submsg on values built from a nasty-fragment alphabet (quotes, backslashes, blanks, dashes, $, backticks, "
                         "newlines, braces, non-ASCII); oracle: per-command expected argv, end-to-end update with fake git/hg, real git read-back; "
                         "non-trivial = distinct op line")
    chk.correspond(gen_ops(rng, n), _impl, driver)
    for _ in range(n):
        (v, c), (keys, _f) = rng.choice(list(CMDS.items()))
        kw = {k: rand_value(rng) for k in keys}
        chk.oracle_case({"kind": "argv", "vcs": v, "cmd": c, "kw": kw}, oracle_argv(v, c, kw))
    for _ in range(400 if tier == "thorough" else 40):
        case, verdict = e2e_case(rng)
        chk.count("e2e:" + case["vcs"])
        chk.oracle_case(case, verdict)
    for _ in range(100 if tier == "thorough" else 10):
        case, verdict = realgit_case(rng)
        chk.count("realgit")
        chk.oracle_case(case, verdict)
    return []


def search(chk, driver, tier):
    rng = chk.rng
    for _ in range(30000):
        (v, c), (keys, _f) = rng.choice(list(CMDS.items()))
        kw = {k: rand_value(rng) for k in keys}
        chk.oracle_case({"kind": "argv", "vcs": v, "cmd": c, "kw": kw}, oracle_argv(v, c, kw))
        if chk.violations:
            return


def replay(payload):
    c = payload["case"]
    if c.get("kind") == "argv":
        return oracle_argv(c["vcs"], c["cmd"], c["kw"])
    return "replay of kind %r: re-run ./check C12 (seed %s)" % (c.get("kind"), payload.get("seed"))
