"""C04 — rewriting touches nothing but the matched spans."""
import os
import impl_adapter as impl
import projgen, rwcommon, sandbox

NOTE = ("Theorems C04_* (Props/C04.lean): join∘split = id for every content and separator, line count and unmatched lines preserved, text before/after a span preserved, "
        "content identity, unconfigured files never written — structural inductions over ALL contents. Runtime part (partial): bytes on disk depend on open(newline='', "
        "encoding='utf-8'); exercised by real `bumpver update` runs in-process and as subprocesses under LC_ALL=C with UTF-8 mode and locale coercion off, "
        "bytes compared with the independently re-materialised layout.")

C_LOCALE = {"LC_ALL": "C", "LANG": "C", "PYTHONUTF8": "0", "PYTHONCOERCECLOCALE": "0", "PYTHONIOENCODING": ""}


def e2e(rng, subprocess_c_locale):
    pr = rwcommon.gen_ok_project(rng, ascii_names=subprocess_c_locale)
    pr["variants"] = True          # implicit self pattern, non-normalised file keys (see projgen.gen_project)
    case = {"vp": pr["vp"], "old": pr["old"], "new": pr["new"], "files": pr["files"], "file_patterns": pr["file_patterns"],
            "implicit_self": pr["implicit_self"], "key_alias": pr["key_alias"], "glob_self": pr["glob_self"],
            "c_locale_subprocess": subprocess_c_locale, "date": pr["date"], "flags": pr["flags"]}
    with rwcommon.setup(pr) as p:
        before = p.snapshot()
        args = rwcommon.update_args(pr, set_version=True)
        if subprocess_c_locale:
            env = dict(C_LOCALE)
            code, out, err = sandbox.run_cli_subprocess(args, p.dir, env)
        else:
            code, out, exc = sandbox.run_cli(args, p.dir)
        after = p.snapshot()
    case["exit"] = code
    if code != 0:
        case["stderr"] = err.decode("utf-8", "replace")[-600:] if subprocess_c_locale else None
        return pr, case, "update failed (exit %s) on a consistent project%s" % (code, " under LC_ALL=C" if subprocess_c_locale else "")
    exp = rwcommon.expected_snapshot(pr, before)
    bad = rwcommon.diff_files(exp, after)
    if bad:
        f = bad[0]
        case["file"] = f
        return pr, case, "file %r: bytes %r, expected %r%s" % (f, after.get(f, b"")[:200], exp.get(f, b"")[:200], " (LC_ALL=C subprocess)" if subprocess_c_locale else "")
    return pr, case, None


def run(chk, driver, tier):
    rng = chk.rng
    # the LEGACY engine end to end (real files, all line-ending regimes, BOM, renderings that get shorter): props/v1e2e.py
    import props.v1e2e as v1e2e
    v1e2e.run(chk, 400 if tier == "thorough" else 40, driver, faults=0.1)
    n_in, n_sub = (1500, 300) if tier == "thorough" else (60, 24)
    chk.extra["rule"] = ("generated projects with all four line-ending regimes (LF, CRLF, CR, mixed), with/without final newline, BOM, control and non-ASCII characters, regex "
                         "metacharacters in surrounding text, unrelated and binary files beside the configured ones; update in-process and as a subprocess under an ASCII locale; "
                         "non-trivial = distinct project")
    ops = []
    for i in range(n_in + n_sub):
        pr, case, verdict = e2e(rng, subprocess_c_locale=(i >= n_in))
        seps = set(f["sep"] if not f["mixed"] else "mixed" for f in pr["layout"])
        for s in seps:
            chk.count("sep:" + repr(s))
        chk.count("final_newline:%s" % any(f["final_newline"] for f in pr["layout"]))
        chk.count("locale:" + ("C-subprocess" if i >= n_in else "in-process"))
        chk.oracle_case(case, verdict)
        ops += rwcommon.corr_ops(pr)
        for f in pr["files"].values():
            ops.append({"op": "detect_sep", "content": f})
    for content in ["", "a", "a\n", "a\r", "a\r\n", "\r\n\r", "\n\r", "a\rb\nc", "﻿\r\n", "x\n\ny\n\n"]:
        ops.append({"op": "detect_sep", "content": content})

    def f(o):
        if o["op"] == "detect_sep":
            from bumpver import rewrite
            return {"ok": rewrite.detect_line_sep(o["content"])}
        return rwcommon.impl_rewrite_content(o)
    chk.correspond(ops, f, driver)
    chk.disagreements = [b for b in chk.disagreements if "unsupported" not in b["impl"]]
    return []


def search(chk, driver, tier):
    rng = chk.rng
    for i in range(400):
        pr, case, verdict = e2e(rng, subprocess_c_locale=(i % 8 == 0))
        chk.oracle_case(case, verdict)
        if chk.violations:
            return


def replay(payload):
    return "re-run ./check C04 with VERIF_SEED=%s" % payload.get("seed")
