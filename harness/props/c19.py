"""C19 — `init` always produces a configuration that bumpver itself can use."""
import itertools, os
import impl_adapter as impl
import sandbox
from common import load_known_findings, log

NOTE = ("Theorems C19_* (Props/C19.lean) about pickConfigFile/defaultConfigText/writeContent/cliInit (Model/Config.lean) for ALL worlds (functions file name -> state): "
        "a file holding a section is preferred, otherwise the first existing candidate of the GENERATED order, else bumpver.toml; init leaves the old content as a prefix and "
        "touches no other file; --dry is pure; a second init refuses; the default text has exactly one section header of the right dialect, the initial version and an entry "
        "for the config file itself. Tie: ops init_pick/init_text/init vs _pick_config_filepath/default_config/`bumpver init`; oracle: real `bumpver init --dry`, `init`, "
        "`show`, second `init` in temp directories, judged against the property directly.")

PLAIN = ["README.md", "README.rst", "setup.py"]
CONFIGS = ["setup.cfg", "pyproject.toml", "bumpver.toml", ".bumpver.toml", "pycalver.toml"]
ALL = PLAIN + CONFIGS

# prior content of the file `init` appends to: LF, no final newline, CRLF (with and without a final one), lone CR, mixed endings,
# non-ASCII text, trailing blanks — "leaving prior content of that file intact as a prefix" is about BYTES
UNRELATED = {
    "setup.cfg": ["[metadata]\nname = demo\n", "[metadata]\nname = demo", "[metadata]\nname: demo\nversion : 0.1\n", "[options]\ninstall_requires:\n    click\n    toml\n", "[bumpversion]\ncurrent_version = 0.1.0\ncommit = True\n", "[flake8]\nmax-line-length = 100\n\n\n",
                  "[metadata]\r\nname = demo\r\n", "[metadata]\r\nname = d\u00e9mo \u2713\r\ndescription = x", "[metadata]\nname = demo\r\n\n[flake8]\rmax-line-length = 100\r", "[metadata]\nname = demo \t\n \n",
                  # mentions of bumpver that are NOT a bumpver section with a current_version
                  "[options.extras_require]\ndev =\n    bumpver\n# configured in [bumpver] of bumpver.toml\n", "[tox:tox]\nenvlist = bumpver\n\n[testenv:bumpver]\ndeps = bumpver\n"],
    "pyproject.toml": ['[build-system]\nrequires = ["setuptools>=40"]\n', '[tool.black]\nline-length = 100', '[project]\nname = "demo"\nversion = "0.1.0"\n\n',
                       '[build-system]\r\nrequires = ["setuptools>=40"]\r\n', '[tool.black]\r\nline-length = 100', '[project]\nname = "d\u00e9mo"\r\nversion = "0.1.0"\n',
                       '[tool.hatch.envs.bumpver]\ndependencies = ["bumpver"]\n', '[tool.poetry]\nversion = "0.1.0"\n# current_version lives in setup.cfg\n'],
    "bumpver.toml": ['[other]\nkey = 1\n', '# nothing here yet', 'title = "current_version of nothing"\n', '[other]\r\nkey = 1\r\n', '# nothing here yet\r',
                     '# the configuration is the [tool.bumpver] table of pyproject.toml\n'],
    ".bumpver.toml": ['[other]\nkey = 1\n', '# nothing here yet\n', '[other]\r\nkey = 1\r\n', '# see [tool.bumpver] in pyproject.toml\n'],
    "pycalver.toml": ['[other]\nkey = 1\n', 'x = "pycalver"', '[other]\r\nkey = 1\r\n', '# [pycalver] is deprecated, see setup.cfg\n'],
}
OLD_VERSION = "2020.1001-alpha"
SECTION = {
    "setup.cfg": ["[bumpver]\ncurrent_version = 2020.1001-alpha\nversion_pattern = YYYY.BUILD[-TAG]\n",
                  "[metadata]\nname = demo\n\n[pycalver]\ncurrent_version = \"2020.1001-alpha\"\nversion_pattern = \"YYYY.BUILD[-TAG]\"\ncommit = True\n\n[pycalver:file_patterns]\nsetup.cfg =\n    current_version = \"{version}\"\n"],
    "pyproject.toml": ['[build-system]\nrequires = ["setuptools"]\n\n[tool.bumpver]\ncurrent_version = "2020.1001-alpha"\nversion_pattern = "YYYY.BUILD[-TAG]"\n'],
    "bumpver.toml": ['[bumpver]\ncurrent_version = "2020.1001-alpha"\nversion_pattern = "YYYY.BUILD[-TAG]"\ncommit = true\n'],
    ".bumpver.toml": ['[bumpver]\ncurrent_version = "2020.1001-alpha"\nversion_pattern = "YYYY.BUILD[-TAG]"\n\n[bumpver.file_patterns]\n".bumpver.toml" = [\'current_version = "{version}"\']\n'],
    "pycalver.toml": ['[pycalver]\ncurrent_version = "2020.1001-alpha"\nversion_pattern = "YYYY.BUILD[-TAG]"\n'],
}
PLAIN_CONTENT = {"README.md": "# demo\n\nversion 2020.1001-alpha\n", "README.rst": "demo\n====\n", "setup.py": "import setuptools\nsetuptools.setup(name='demo', version='2020.1001a0')\n"}


def all_worlds():
    """every subset of the 8 recognised files x {empty, unrelated, section} per config-capable file"""
    for plain in itertools.product(["absent", "present"], repeat=len(PLAIN)):
        for conf in itertools.product(["absent", "empty", "unrelated", "section"], repeat=len(CONFIGS)):
            yield dict(zip(ALL, plain + conf))


def contents(world, variant):
    """file name -> text for a world; `variant` picks among the content alternatives"""
    fs = {}
    for name, st in world.items():
        if st == "absent":
            continue
        if st == "present":
            fs[name] = PLAIN_CONTENT[name]
        elif st == "empty":
            fs[name] = ""
        elif st == "unrelated":
            alts = UNRELATED[name]
            fs[name] = alts[variant % len(alts)]
        else:
            alts = SECTION[name]
            fs[name] = alts[variant % len(alts)]
    return fs


def snapshot_text(p):
    return {k: v.decode("utf-8") for k, v in p.snapshot().items()}


def fs_op(fs):
    return [[k, fs[k]] for k in sorted(fs)]


def real_init(p, dry):
    """`bumpver init [--dry]` observed: the answer in the shape of the model's `init` op"""
    before = snapshot_text(p)
    expected_text = impl.init_text(p.dir)
    pick = impl.init_pick(p.dir)["ok"]
    code, out, exc = sandbox.run_cli(["init", "--dry"] if dry else ["init"], p.dir)
    after = snapshot_text(p)
    ans = {"exit": code, "fs": after}
    if exc:
        ans["outcome"] = "crashed"
        ans["exc"] = exc
    elif code != 0:
        ans["outcome"] = "refused"
    elif dry:
        ans["outcome"] = "dry"
        text = expected_text.get("ok")
        echo = "Exiting because of '-d/--dry'. Would have written to %s:\n" % pick + "\n    " + "\n    ".join((text or "").splitlines()) + "\n"
        ans["text"] = text if out == echo else {"stdout": out}
    else:
        ans["outcome"] = "written"
        ans["file"] = out[len("Updated "):].rstrip("\n") if out.startswith("Updated ") else {"stdout": out}
    return ans, before, after, out


def world_case(chk, batch, world, variant, year):
    """one world: correspondence answers and the property judged on the real CLI.  Returns (case, verdict)."""
    fs0 = contents(world, variant)
    case = {"world": world, "variant": variant}
    with_section = [f for f in CONFIGS if world[f] == "section"]
    version = "%d.1001-alpha" % year
    with sandbox.Project("c19") as p:
        for k, v in fs0.items():
            p.write_text(k, v)
        # correspondence: pick, text
        batch.add({"op": "init_pick", "fs": fs_op(fs0)}, impl.init_pick(p.dir))
        batch.add({"op": "init_text", "fs": fs_op(fs0), "year": year}, impl.init_text(p.dir))
        parses0 = impl.init_parses(p.dir)
        picked = impl.init_pick(p.dir)["ok"]
        case["picked"] = picked
        if picked is None or parses0 is None or "err" in impl.init_text(p.dir):
            return case, "bumpver cannot even determine / read its configuration file in this directory (pick %r, text %r, parses %r)" % (
                impl.init_pick(p.dir), impl.init_text(p.dir), parses0)
        # 1. --dry
        ans, before, after, out = real_init(p, dry=True)
        batch.add({"op": "init", "fs": fs_op(fs0), "dry": True, "parses": parses0, "year": year}, ans)
        if after != before:
            return case, "`init --dry` changed %r" % sorted(k for k in set(before) | set(after) if before.get(k) != after.get(k))
        # preference
        if with_section and picked not in with_section:
            return case, "%r holds a bumpver section with a current_version but %r is used" % (with_section, picked)
        # 2. init
        ans, before, after, out = real_init(p, dry=False)
        batch.add({"op": "init", "fs": fs_op(fs0), "dry": False, "parses": parses0, "year": year}, ans)
        if with_section:
            # already configured: init has to refuse and change nothing; show reads the preferred file
            if ans["exit"] == 0 or after != before:
                return case, "the project is configured in %r but `init` exits %s and changed %r" % (with_section, ans["exit"], sorted(k for k in after if before.get(k) != after[k]))
            r = impl.cfg_init_in(p.dir)
            code, sout, exc = sandbox.run_cli(["show", "--no-fetch"], p.dir)
            if r.get("file") not in with_section or code != 0 or ("Current Version: " + OLD_VERSION) not in sout:
                return case, "`show` on the configured project: reads %r, exit %s, output %r" % (r.get("file"), code, sout)
            return case, None
        if ans["exit"] != 0:
            return case, "`init` fails (exit %s %s) in a project without configuration" % (ans["exit"], ans.get("exc"))
        changed = sorted(k for k in set(before) | set(after) if before.get(k) != after.get(k))
        if changed != [picked]:
            return case, "`init` changed %r, the config file is %r" % (changed, picked)
        old = before.get(picked, "")
        if not after[picked].startswith(old):
            return case, "`init` did not keep the prior content of %r as a prefix" % picked
        if out != "Updated %s\n" % picked:
            return case, "`init` reports %r, wrote %r" % (out, picked)
        case["appended"] = after[picked][len(old):]
        # 3. show reads it back from the same file
        r = impl.cfg_init_in(p.dir)
        code, sout, exc = sandbox.run_cli(["show", "--no-fetch"], p.dir)
        if r.get("file") != picked or r.get("cfg") is None:
            return case, "after `init` wrote %r, bumpver reads %r and gets %s" % (picked, r.get("file"), "no configuration" if r.get("cfg") is None else "one")
        if code != 0 or ("Current Version: " + version + "\n") not in sout:
            return case, "`show` after `init`: exit %s %s, output %r (expected version %s)" % (code, exc, sout, version)
        if picked not in [f for f, ps in r["cfg"]["file_patterns"]]:
            return case, "the written configuration has no entry for %r itself" % picked
        # 4. second init refuses, --dry too
        fs1 = dict(after)
        parses1 = impl.init_parses(p.dir)
        for dry in (False, True):
            ans2, before2, after2, out2 = real_init(p, dry=dry)
            batch.add({"op": "init", "fs": fs_op(fs1), "dry": dry, "parses": parses1, "year": year}, ans2)
            if ans2["exit"] == 0 or after2 != before2:
                return case, "a second `init%s` exits %s and changed %r" % (" --dry" if dry else "", ans2["exit"], sorted(k for k in after2 if before2.get(k) != after2[k]))
    return case, None


class Batch:
    def __init__(self):
        self.ops, self.answers = [], []

    def add(self, op, answer):
        self.ops.append(dict(op, i=len(self.ops)))
        self.answers.append(answer)

    def flush(self, chk, driver):
        if self.ops:
            chk.correspond(self.ops, lambda o: self.answers[o["i"]], driver)
        self.ops, self.answers = [], []


def run_worlds(chk, driver, worlds, variants):
    year = impl.this_year()
    batch = Batch()
    for i, w in enumerate(worlds):
        for v in variants(i):
            case, verdict = world_case(chk, batch, w, v, year)
            chk.count("picked:" + case.get("picked", "?"))
            chk.count("sections:%d" % sum(1 for f in CONFIGS if w[f] == "section"))
            chk.count("existing_configs:%d" % sum(1 for f in CONFIGS if w[f] != "absent"))
            chk.oracle_case(case, verdict)
        if len(batch.ops) > 4000:
            batch.flush(chk, driver)
    batch.flush(chk, driver)


def run(chk, driver, tier):
    rng = chk.rng
    worlds = list(all_worlds())
    chk.extra["rule"] = ("worlds: every subset of README.md, README.rst, setup.py, setup.cfg, pyproject.toml, bumpver.toml, .bumpver.toml, pycalver.toml with "
                         "{empty, unrelated content, existing bumpver section} per config-capable file (2^3 * 4^5 = 8192 worlds; unrelated/section contents in 2-8 "
                         "variants incl. no trailing newline, CRLF / lone CR / mixed line endings, non-ASCII text, a bump2version section, legacy [pycalver]); per world: init --dry, init, show, second init (+ --dry); "
                         "ops init_pick/init_text/init on the same contents; quick tier: the 256 existence patterns once each + 100 sampled worlds")
    if tier == "thorough":
        chk.exhaustive = True
        run_worlds(chk, driver, worlds, lambda i: [i % 10, (i // 10 + 1) % 10] if i % 7 == 0 else [i % 8])
    else:
        # every subset of files at least once (content kinds sampled), plus a random sample of full worlds
        by_subset = {}
        for w in worlds:
            by_subset.setdefault(tuple(st != "absent" for st in w.values()), []).append(w)
        sample = [rng.choice(ws) for ws in by_subset.values()] + rng.sample(worlds, 100)
        run_worlds(chk, driver, sample, lambda i: [i % 10])
    return []


def search(chk, driver, tier):
    worlds = list(all_worlds())
    run_worlds(chk, driver, worlds, lambda i: [i % 10])


def replay(payload):
    from common import Check
    c = payload["case"]
    chk = Check("C19", "quick")
    case, verdict = world_case(chk, Batch(), c["world"], c.get("variant", 0), impl.this_year())
    return verdict
