"""C17 — BUILD numbers grow numerically and lexically forever."""
import itertools
import impl_adapter as impl
from common import load_known_findings

NOTE = ("Theorems C17_* (Props/C17.lean) about BV.bumpBid/bumpN for ALL digit strings and chain lengths; "
        "the model is tied to lexid.next_id + _incr_numeric by the ops nextid/bumpbid "
        "(exhaustive over all ids up to 4 digits in quick, 6 digits in thorough, plus random longer ids and chains).")


def _ids(rng, tier):
    maxlen = 6 if tier == "thorough" else 4
    for n in range(1, maxlen + 1):
        for t in itertools.product("0123456789", repeat=n):
            yield "".join(t)
    for _ in range(20000 if tier == "thorough" else 2000):
        n = rng.randint(5, 12)
        kind = rng.random()
        if kind < 0.3:
            s = rng.choice("0123456789") + "9" * (n - 1)
        elif kind < 0.5:
            s = "0" * rng.randint(1, n - 1)
            s = s + "".join(rng.choice("0123456789") for _ in range(n - len(s)))
        else:
            s = "".join(rng.choice("0123456789") for _ in range(n))
        yield s


def _impl(op):
    if op["op"] == "nextid":
        return impl.next_id(op["s"])
    return impl.bump_bid(op["s"])


NOFLAGS = {"major": False, "minor": False, "patch": False, "tag": None, "tag_num": False, "pin_increments": False, "pin_date": True}


def bump_rendered(b):
    """one bump of the BUILD value as the user sees it: through parse -> incr -> render of the pattern vYYYY.BUILD"""
    r = impl.incr("v2020." + b, "vYYYY.BUILD", NOFLAGS, [2020, 1, 1], [2020, 1, 1])
    if r.get("err") == "OverflowError":
        return None
    v = r.get("ok")
    return v[len("v2020."):] if v else "?" + repr(r)


def _region(b):
    """known-finding region F-C17-pad: five or more digits, value below 1000"""
    return "F-C17-pad" if (len(b) >= 5 and int(b) < 1000) else None


def _oracle(b, b2, generated):
    """the property on the implementation, for one step b -> b2"""
    if b2 is None:
        pad = b if int(b) >= 1000 else str(int(b) + 1000)
        return None if set(pad) == {"9"} else "bump of %r failed below the documented maximum" % b
    if not (b2.isdigit() and int(b) < int(b2)):
        return "BUILD %r -> %r is not greater as an integer" % (b, b2)
    if (len(b) >= 4 or generated) and not b < b2:
        return "BUILD %r -> %r is not greater as a string" % (b, b2)
    if len(b2) < len(b):
        return "BUILD %r -> %r lost leading zeros (width shrank)" % (b, b2)
    return None


PATTERN_CHAINS = ["vYYYY.BUILD[-TAG]", "vMAJOR.MINOR.PATCH[-TAG.BUILD]", "vMAJOR.MINOR[.PATCH.BUILD]", "MAJOR.MINOR.PATCH+BUILD", "YYYY.MM[.BUILD[-TAG]]",
                  "BUILD", "vBUILD.TAG", "MAJOR[.MINOR[.BUILD]]", "vYYYY0M.BUILD[-TAGNUM]", "MAJOR.BUILD[.INC0]"]


def pattern_chain(rng, pat, steps):
    """BUILD as the user sees it inside WHOLE versions: successive `incr` calls under a pattern in which BUILD shares optional groups with
    parts that can become zero, with random flags and dates; after every accepted bump the rendered version must show a BUILD that is
    greater than the previous one (a BUILD that is not rendered is lost: the next run starts from the default again)"""
    import re, datetime as dt
    import refimpl
    tree = refimpl.tokenize(pat)
    rx = re.compile(refimpl.ref_regex_named(tree)) if hasattr(refimpl, "ref_regex_named") else None
    d = dt.date(2020 + rng.randint(0, 5), rng.randint(1, 12), rng.randint(1, 28))
    st = refimpl.gen_state(rng, tree, d, __import__("gen"))
    st["bid"] = rng.choice(["1000", "0998", "1998", "0001", "8998", str(rng.randint(1000, 9000))])
    cur = refimpl.render(tree, st)
    prev_bid = None
    for i in range(steps):
        flags = dict(NOFLAGS, pin_date=False)
        for k in ("major", "minor", "patch"):
            if k.upper() in pat and rng.random() < 0.3:
                flags[k] = True
        if "TAG" in pat and rng.random() < 0.4:
            flags["tag"] = rng.choice(["final", "final", "alpha", "beta", "rc"])
        if rng.random() < 0.2:
            flags["pin_increments"] = True
        if rng.random() < 0.3:
            d = d + dt.timedelta(days=rng.choice([1, 31, 366]))
        p0 = impl.parse_version(cur, pat, [d.year, d.month, d.day])
        if "ok" not in p0:
            return {"pattern": pat, "version": cur}, "the version %r announced by a bump is not readable under %r" % (cur, pat)
        bid0 = p0["ok"]["bid"]
        if prev_bid is not None and bid0 != prev_bid:
            return {"pattern": pat, "version": cur, "bumped_to": prev_bid}, "BUILD was bumped to %r but the rendered version %r reads back as BUILD %r" % (prev_bid, cur, bid0)
        r = impl.incr(cur, pat, flags, [d.year, d.month, d.day], [d.year, d.month, d.day])
        new = r.get("ok")
        if not new:
            if r.get("err") == "OverflowError" and set(bid0) <= set("9"):
                return {"pattern": pat, "end": cur}, None
            continue
        p1 = impl.parse_version(new, pat, [d.year, d.month, d.day])
        if "ok" not in p1:
            return {"pattern": pat, "from": cur, "to": new}, "the bumped version %r is not readable under %r" % (new, pat)
        # what BUILD did the bump compute?  (the model-independent expectation: the lexid successor of the padded previous id)
        want = impl.bump_bid(bid0).get("ok")
        bid1 = p1["ok"]["bid"]
        v = _oracle(bid0, bid1, i > 0)
        if v is None and want is not None and bid1 != want:
            v = "BUILD %r was bumped to %r but the rendered version %r shows %r" % (bid0, want, new, bid1)
        if v:
            return {"pattern": pat, "from": cur, "to": new, "flags": {k: x for k, x in flags.items() if x}}, v
        prev_bid, cur = bid1, new
    return {"pattern": pat, "end": cur}, None


def run(chk, driver, tier):
    rng = chk.rng
    ids = list(_ids(rng, tier))
    chk.exhaustive = True
    chk.extra["rule"] = ("all digit strings up to %d digits (exhaustive) + random 5..12 digit ids biased to d99..9 and zero-padded; "
                         "non-trivial = distinct id; ops nextid and bumpbid on each; chains via the oracle") % (6 if tier == "thorough" else 4)
    ops = [{"op": "nextid", "s": s} for s in ids] + [{"op": "bumpbid", "s": s} for s in ids]
    chk.correspond(ops, _impl, driver)
    # property oracle on the implementation: single steps + chains
    for s in ids:
        r = impl.bump_bid(s)
        b2 = r.get("ok")
        chk.oracle_case({"start": s, "next": b2}, _oracle(s, b2, False), _region(s))
    # single steps through the rendered version string (BUILD must be carried verbatim through parse and render)
    for s in rng.sample(ids, min(len(ids), 4000)) + ["01234", "09990", "001000", "0099999", "00012"]:
        b2 = bump_rendered(s)
        chk.oracle_case({"start": s, "next": b2, "via": "rendered"}, _oracle(s, b2, False), _region(s))
    nchains, chainlen = (40, 10000) if tier == "thorough" else (8, 1500)
    for ci in range(nchains):
        b = rng.choice(["1", "0001", "0998", "1001", "09", "8999", "99998", "0000001", "09990", "01234"]) if rng.random() < 0.6 else str(rng.randint(0, 99999))
        start, gen = b, False
        for i in range(chainlen):
            if ci % 2 == 0:
                b2 = bump_rendered(b)
            else:
                b2 = impl.bump_bid(b).get("ok")
            v = _oracle(b, b2, gen)
            if v or b2 is None:
                chk.oracle_case({"chain_start": start, "step": i, "from": b, "to": b2}, v, _region(b))
                break
            b, gen = b2, True
        else:
            chk.oracle_case({"chain_start": start, "steps": chainlen, "end": b}, None)
    chk.count("chains", nchains)
    for ci in range(60 if tier == "thorough" else 12):
        pat = PATTERN_CHAINS[ci % len(PATTERN_CHAINS)]
        case, v = pattern_chain(rng, pat, 400 if tier == "thorough" else 60)
        chk.count("pattern_chain:" + pat)
        chk.oracle_case(case, v)
    # known findings: replay the recorded witnesses
    lines = []
    for f in load_known_findings("C17"):
        if f.get("status") != "open":
            continue
        w = f["witness"]
        r = impl.bump_bid(w["start"]).get("ok")
        if _oracle(w["start"], r, False):
            lines.append("%s: %s (witness BUILD %s -> %s)" % (f["id"], f["summary"], w["start"], r))
    return lines


def search(chk, driver, tier):
    rng = chk.rng
    for _ in range(200000):
        n = rng.randint(1, 14)
        s = "".join(rng.choice("0123456789") for _ in range(n))
        r = impl.bump_bid(s).get("ok")
        chk.oracle_case({"start": s, "next": r}, _oracle(s, r, False), _region(s))
        if chk.violations:
            return


def replay(payload):
    c = payload["case"]
    s = c.get("start") or c.get("from")
    r = impl.bump_bid(s).get("ok")
    return _oracle(s, r, "from" in c)
